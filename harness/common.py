"""
Shared machinery of the pyoda-time verification harness.

Every property check is `python harness/check.py Cxx --tier quick|thorough` and consists of
  (P) proof:   `lake build PyodaProofs.Cxx` + axiom audit + forbidden-token grep,
  (K) correspondence: op lines evaluated by the compiled Lean model driver and by the real
      code in-process; canonical replies are diffed,
  (S) search / direct oracle: property predicates evaluated on the real code alone.
Verdict table: DESIGN.md section 2.
"""
from __future__ import annotations

import json
import os
import random
import re
import subprocess
import sys
import time
import traceback
from collections import Counter
from pathlib import Path

VERIF = Path(__file__).resolve().parent.parent
REPO = Path(os.environ.get("PYODA_REPO", "/repo"))
LEAN = VERIF / "lean"
BIN = LEAN / ".lake" / "build" / "bin"
EVIDENCE = VERIF / "evidence"
REPLAYS = VERIF / "replays"
FINDINGS = VERIF / "known_findings.json"
GUARD = "PYODA_TIME_VERIF"

ALLOWED_AXIOMS = {"propext", "Classical.choice", "Quot.sound"}
FORBIDDEN = re.compile(r"\bsorry\b|\badmit\b|^\s*axiom\s|native_decide|bv_decide|implemented_by|\bunsafe\s|maxHeartbeats\s+0")


class InfraError(Exception):
    """Failure of the checking machinery itself (exit 2, never a violation)."""


# --------------------------------------------------------------------------------------
# environment bootstrap: ICU on the loader path, /repo first on sys.path
# --------------------------------------------------------------------------------------

ICU_DIRS = ["/root/miniconda/lib", "/usr/lib/x86_64-linux-gnu", "/usr/local/lib", "/venv/lib", "/opt/conda/lib"]


def find_icu_dir() -> str | None:
    if os.environ.get("PYODA_VERIF_NO_ICU") == "1":  # test hook: exercise the stub fallback
        return None
    for d in ICU_DIRS:
        try:
            if any(n.startswith("libicui18n.so.73") for n in os.listdir(d)):
                return d
        except OSError:
            continue
    return None


def bootstrap() -> dict:
    """Make `import pyoda_time` work against REPO's working tree. Re-executes the interpreter once
    with LD_LIBRARY_PATH set if ICU libraries are found; otherwise falls back to the icu stub."""
    info = {}
    os.environ[GUARD] = "1"
    if os.environ.get("_PYODA_VERIF_BOOT") != "1":
        d = find_icu_dir()
        env = dict(os.environ)
        env["_PYODA_VERIF_BOOT"] = "1"
        env["PYTHONPATH"] = str(REPO) + (":" + env["PYTHONPATH"] if env.get("PYTHONPATH") else "")
        env["PYTHONHASHSEED"] = "0"
        env["PYTHONDONTWRITEBYTECODE"] = "1"
        if d:
            env["LD_LIBRARY_PATH"] = d + (":" + env["LD_LIBRARY_PATH"] if env.get("LD_LIBRARY_PATH") else "")
            env["_PYODA_VERIF_ICU"] = d
        os.execve(sys.executable, [sys.executable] + sys.argv, env)
    sys.path.insert(0, str(REPO))
    sys.dont_write_bytecode = True
    try:
        import icu  # noqa: F401
        info["icu"] = "real (" + os.environ.get("_PYODA_VERIF_ICU", "default path") + ")"
    except Exception:
        sys.path.insert(0, str(VERIF / "harness" / "icu_stub"))
        for m in [m for m in sys.modules if m == "icu" or m.startswith("icu.")]:
            del sys.modules[m]
        info["icu"] = "stub (invariant culture only)"
    import pyoda_time  # noqa: F401

    p = Path(pyoda_time.__file__).resolve()
    if REPO.resolve() not in p.parents:
        raise InfraError(f"pyoda_time imported from {p}, not from {REPO}")
    return info


# --------------------------------------------------------------------------------------
# canonical replies
# --------------------------------------------------------------------------------------

def exc_name(e: BaseException) -> str:
    """Map a Python exception to the model's small error enum."""
    import decimal
    import struct

    try:
        from pyoda_time.utility import InvalidPyodaDataError
    except Exception:  # pragma: no cover
        InvalidPyodaDataError = ()
    try:
        from pyoda_time.text import InvalidPatternError
    except Exception:  # pragma: no cover
        InvalidPatternError = ()
    try:
        from pyoda_time import AmbiguousTimeError, SkippedTimeError
    except Exception:  # pragma: no cover
        AmbiguousTimeError = SkippedTimeError = ()
    if InvalidPyodaDataError and isinstance(e, InvalidPyodaDataError):
        return "!invalidData"
    if InvalidPatternError and isinstance(e, InvalidPatternError):
        return "!invalidPattern"
    if SkippedTimeError and isinstance(e, SkippedTimeError):
        return "!skippedTime"
    if AmbiguousTimeError and isinstance(e, AmbiguousTimeError):
        return "!ambiguousTime"
    if isinstance(e, ZeroDivisionError):
        return "!zeroDivision"
    if isinstance(e, decimal.DecimalException):
        return "!dom"
    if isinstance(e, UnicodeError):
        return "!unicodeError"
    if isinstance(e, struct.error):
        return "!structError"
    if isinstance(e, OverflowError):
        return "!overflowError"
    if isinstance(e, ZeroDivisionError):
        return "!zeroDivision"
    if isinstance(e, ValueError):
        return "!valueError"
    if isinstance(e, IndexError):
        return "!indexError"
    if isinstance(e, KeyError):
        return "!keyError"
    if isinstance(e, NotImplementedError):
        return "!notImplemented"
    if isinstance(e, RuntimeError):
        return "!runtimeError"
    if isinstance(e, TypeError):
        return "!typeError"
    return "!other:" + type(e).__name__


class _OpHang(BaseException):
    """raised by the operation watchdog inside the call under test"""


OP_WATCHDOG_S = float(os.environ.get("PYODA_OP_WATCHDOG_S", "300"))
_wd = {"in": False, "n": 0, "ok": None}


def _alarm(_sig, _frm):
    if _wd["in"]:
        raise _OpHang()


def _watchdog_usable() -> bool:
    import signal
    import threading
    if _wd["ok"] is None:
        ok = threading.current_thread() is threading.main_thread()
        if ok:
            try:
                ok = signal.getsignal(signal.SIGALRM) in (signal.SIG_DFL, signal.SIG_IGN, None, _alarm)
                if ok:
                    signal.signal(signal.SIGALRM, _alarm)
            except (ValueError, OSError):
                ok = False
        _wd["ok"] = ok
    return _wd["ok"]


def guard(fn, *a, **k) -> str:
    """Run fn; its return value must already be a canonical string; exceptions are mapped. The interval timer is
    re-armed every 16 operations: real code that stops returning (16 operations not finished within OP_WATCHDOG_S
    seconds) is reported as `!hang` - a disagreement with any model reply - instead of hanging the whole check. Only in
    the main thread of a process and only when nobody else owns SIGALRM (C20 runs its own promptness timer)."""
    import signal
    if _watchdog_usable() and signal.getsignal(signal.SIGALRM) is _alarm:
        _wd["n"] += 1
        if _wd["n"] % 16 == 1:
            signal.setitimer(signal.ITIMER_REAL, OP_WATCHDOG_S)
        _wd["in"] = True
    try:
        return fn(*a, **k)
    except RecursionError:
        raise
    except _OpHang:
        _wd["hangs"] = _wd.get("hangs", 0) + 1
        return "!hang"
    except Exception as e:  # noqa: BLE001
        return exc_name(e)
    finally:
        _wd["in"] = False


def ints(*xs) -> str:
    return " ".join(str(int(x)) for x in xs)


def hexs(b: bytes | str) -> str:
    if isinstance(b, str):
        b = b.encode("utf-8")
    return b.hex() if b else "-"


# --------------------------------------------------------------------------------------
# the Lean model driver
# --------------------------------------------------------------------------------------

_cpu_counter = [0]


def _pin_prefix() -> list[str]:
    n = os.cpu_count() or 1
    k = (os.getpid() + _cpu_counter[0]) % n
    _cpu_counter[0] += 1
    return ["taskset", "-c", str(k)] if Path("/usr/bin/taskset").exists() else []


def model_eval(lines: list[str], driver: str = "drv_elapsed", timeout: float = 1800) -> list[str]:
    """Evaluate op lines on the compiled Lean model driver `driver`; one reply per line."""
    if not lines:
        return []
    DRIVER = Path(os.environ.get("PYODA_DRIVER_" + driver.upper(), BIN / driver))
    if not DRIVER.exists():
        raise InfraError(f"model driver not built: {DRIVER}")
    for ln in lines:
        if "\n" in ln:
            raise InfraError("newline inside an op line")
    p = subprocess.run(_pin_prefix() + [str(DRIVER)], input=("\n".join(lines) + "\n").encode(),
                       capture_output=True, timeout=timeout)
    if p.returncode != 0:
        raise InfraError(f"driver exited {p.returncode}: {p.stderr[-400:]!r}")
    out = p.stdout.decode().split("\n")
    if out and out[-1] == "":
        out.pop()
    if len(out) != len(lines):
        raise InfraError(f"driver returned {len(out)} replies for {len(lines)} ops")
    return out


# --------------------------------------------------------------------------------------
# proof obligations
# --------------------------------------------------------------------------------------

def strip_lean_comments(src: str) -> str:
    src = re.sub(r"/-.*?-/", "", src, flags=re.S)
    return re.sub(r"--.*", "", src)


def lean_sources_for(modules: list[str]) -> list[Path]:
    """Transitive closure of project-local imports."""
    seen, todo = {}, list(modules)
    while todo:
        m = todo.pop()
        if m in seen:
            continue
        p = LEAN / (m.replace(".", "/") + ".lean")
        if not p.exists():
            continue
        seen[m] = p
        for imp in re.findall(r"^import\s+(\S+)", p.read_text(), flags=re.M):
            if imp.startswith("Pyoda"):
                todo.append(imp)
    return list(seen.values())


def run_proof(prop: str, proof_modules: list[str], theorems: list[str], thorough: bool, drivers=("drv_elapsed",)) -> dict:
    """Build the proof modules, audit axioms of the named theorems, grep forbidden tokens."""
    res = {"modules": proof_modules, "theorems": {}, "ok": True, "problems": [], "checker_cmd": ""}
    t0 = time.time()
    if prop in gen_props():
        # regenerate lean/PyodaGen/<prop>.lean from the current source and check the agreement theorems first
        apply_gen_tie(prop, res)
    targets = proof_modules + list(drivers)
    cmd = ["lake", "build"] + targets
    res["checker_cmd"] = "cd lean && " + " ".join(cmd) + f" && lake env lean PyodaProofs/Audit/{prop}.lean"
    p = subprocess.run(cmd, cwd=LEAN, capture_output=True, text=True, timeout=3600)
    if p.returncode != 0:
        res["ok"] = False
        res["problems"].append({"kind": "build", "detail": (p.stdout + p.stderr)[-3000:]})
        return res
    # forbidden tokens
    for f in lean_sources_for(proof_modules + [f"PyodaProofs.Audit.{prop}"]):
        txt = strip_lean_comments(f.read_text())
        for i, line in enumerate(txt.split("\n"), 1):
            if FORBIDDEN.search(line):
                res["ok"] = False
                res["problems"].append({"kind": "forbidden-token", "file": str(f.relative_to(VERIF)), "line": i, "text": line.strip()[:120]})
    # axiom audit
    audit = LEAN / "PyodaProofs" / "Audit" / f"{prop}.lean"
    want = set(theorems)
    if audit.exists():
        p = subprocess.run(_pin_prefix() + ["lake", "env", "lean", str(audit.relative_to(LEAN))], cwd=LEAN,
                           capture_output=True, text=True, timeout=1800)
        if p.returncode != 0:
            res["ok"] = False
            res["problems"].append({"kind": "audit", "detail": (p.stdout + p.stderr)[-2000:]})
        txt = p.stdout.replace("\n ", " ")
        for m in re.finditer(r"'([^']+)' (depends on axioms: \[([^\]]*)\]|does not depend on any axioms)", txt):
            name = m.group(1)
            axs = [a.strip() for a in (m.group(3) or "").replace("\n", " ").split(",") if a.strip()]
            res["theorems"][name] = axs
            bad = [a for a in axs if a not in ALLOWED_AXIOMS]
            if bad:
                res["ok"] = False
                res["problems"].append({"kind": "axiom", "theorem": name, "axioms": bad})
    missing = sorted(want - set(res["theorems"]))
    if missing:
        res["ok"] = False
        res["problems"].append({"kind": "missing-theorem", "theorems": missing})
    if thorough and res["ok"]:
        p = subprocess.run(_pin_prefix() + ["lake", "env", "leanchecker"] + proof_modules, cwd=LEAN,
                           capture_output=True, text=True, timeout=3600)
        res["leanchecker"] = "ok" if p.returncode == 0 else (p.stdout + p.stderr)[-1500:]
        if p.returncode != 0:
            res["ok"] = False
            res["problems"].append({"kind": "leanchecker", "detail": res["leanchecker"]})
    res["wall_s"] = round(time.time() - t0, 2)
    return res


# --------------------------------------------------------------------------------------
# generated-definition tie (tools/py2lean.py): Lean definitions regenerated from the Python source of
# REPO on every run + kernel-checked agreement theorems with the hand-written model
# --------------------------------------------------------------------------------------

GEN_TARGETS = VERIF / "tools" / "py2lean_targets.py"


def gen_targets() -> dict:
    """The literal TARGETS dictionary of tools/py2lean_targets.py (read with ast.literal_eval, not imported)."""
    import ast as _ast
    try:
        for st in _ast.parse(GEN_TARGETS.read_text()).body:
            if isinstance(st, _ast.Assign) and getattr(st.targets[0], "id", "") == "TARGETS":
                return _ast.literal_eval(st.value)
    except OSError:
        pass
    return {}


def gen_props() -> set:
    """Properties that have a translator target list (their own or, via "same_as", another property's)."""
    return {k for k, v in gen_targets().items() if "of" not in v}


def gen_groups(prop: str) -> list:
    """The target groups tied for a property: its own list (or the one it shares via "same_as") and every further
    group that names it with "of" (each group has its own generated file PyodaGen/<group>.lean and its own agreement
    module PyodaProofs/GenAgree<group>.lean, so that every file stays small)."""
    tg = gen_targets()
    base = tg.get(prop, {}).get("same_as", prop)
    return [prop] + sorted(k for k, v in tg.items() if v.get("of") == base)


def _enclosing_decl(path: Path, line: int) -> str:
    """Name of the theorem/def that contains `line` of a Lean file."""
    try:
        lines = path.read_text().split("\n")
    except OSError:
        return "?"
    ns = ""
    for ln in lines:
        m = re.match(r"namespace\s+(\S+)", ln)
        if m:
            ns = m.group(1)
            break
    for i in range(min(line, len(lines)) - 1, -1, -1):
        m = re.match(r"\s*(?:private\s+)?(?:theorem|def|lemma|example)\s+(\S+)", lines[i])
        if m:
            if re.match(r"\s*example\b", lines[i]):  # an evaluated example (it has no name): name it by its line
                return (ns + "." if ns else "") + f"example@line{i + 1}"
            return (ns + "." if ns else "") + m.group(1)
    return "?"


def _lean_errors(output: str, files: dict) -> list:
    """[(declaration, first line of the message)] for every `file:line:col: error` of a Lean/lake output.
    files: path suffix as printed by Lean -> Path on disk."""
    out, seen = [], set()
    # lean prints `file:line:col: error: msg` (or `error(kind): msg`), lake relays it as `error: file:line:col: msg`
    pat = r"^(?:(?P<lake>error: )(?P<f1>\S+?\.lean):(?P<l1>\d+):\d+: (?P<m1>.*)|(?P<f2>\S+?\.lean):(?P<l2>\d+):\d+: error[^:]*: (?P<m2>.*))$"
    for m in re.finditer(pat, output, flags=re.M):
        f, line, msg = (m.group("f1") or m.group("f2")), int(m.group("l1") or m.group("l2")), (m.group("m1") or m.group("m2") or "")
        path = next((p for suffix, p in files.items() if f.endswith(suffix)), None)
        decl = _enclosing_decl(path, line) if path else f"{f}:{line}"
        if decl not in seen:
            seen.add(decl)
            out.append((decl, f"{f}:{line}: {msg[:200]}"))
    return out


def gen_tie(prop: str) -> dict:
    """Regenerate lean/PyodaGen/<prop>.lean from REPO's current source with tools/py2lean.py and check the
    agreement theorems PyodaProofs.GenAgree<prop> against it.
    REPO = /repo (the default): the generated file in the tree is rewritten when its content changed and
    `lake build PyodaProofs.GenAgree<prop>` runs.  REPO = a scratch worktree (PYODA_REPO): the generated file
    goes to a temporary directory that is put in front of LEAN_PATH, so the committed snapshot, the lake build
    directory and concurrent checks of the clean tree are not disturbed."""
    import fcntl
    import shutil
    import tempfile
    t0 = time.time()
    in_tree = REPO.resolve() == Path("/repo").resolve()
    tg = gen_targets()
    asked = prop
    prop = tg.get(prop, {}).get("same_as", prop)  # a property may share another property's generated file
    agree_mod = f"PyodaProofs.GenAgree{prop}"
    agree_file = LEAN / "PyodaProofs" / f"GenAgree{prop}.lean"
    res = {"ok": True, "functions": [], "problems": [], "generator_cmd": "", "source_files": {}, "repo": str(REPO),
           "mode": "in-tree" if in_tree else "scratch", "agreement_module": agree_mod, "broken_theorems": []}
    if asked != prop:
        res["shared_with"] = prop
    if prop not in tg:
        res["skipped"] = "no translator targets for this property"
        return res
    tmp = None
    (LEAN / ".lake").mkdir(exist_ok=True)
    lock = open(LEAN / ".lake" / "gen_tie.lock", "w")
    try:
        if in_tree:
            fcntl.flock(lock, fcntl.LOCK_EX)
            out_dir = LEAN / "PyodaGen"
        else:
            tmp = Path(tempfile.mkdtemp(prefix=f"gentie_{prop}_"))
            out_dir = tmp / "PyodaGen"
        cmd = [sys.executable, str(VERIF / "tools" / "py2lean.py"), "--repo", str(REPO), "--prop", prop, "--out", str(out_dir), "--json"]
        res["generator_cmd"] = " ".join(cmd)
        p = subprocess.run(cmd, capture_output=True, text=True, timeout=600)
        try:
            info = json.loads(p.stdout)[0]
        except Exception:  # noqa: BLE001
            raise InfraError(f"py2lean produced no summary (exit {p.returncode}): {(p.stdout + p.stderr)[-600:]}")
        res["functions"] = [f["lean"] for f in info.get("functions", [])]
        res["source_files"] = info.get("source_files", {})
        res["generated_sha256"] = info.get("sha256")
        res["rewritten"] = bool(info.get("written"))
        gen_file = out_dir / f"{prop}.lean"
        if info.get("errors"):
            res["ok"] = False
            for e in info["errors"]:
                thm = f"Pyoda.GenAgree.{prop}.gen_{str(e.get('function')).replace('.', '_')}_eq"
                res["broken_theorems"].append(thm)
                res["problems"].append({"kind": "gen-tie", "stage": "translate", "theorem": thm,
                                        "detail": e.get("error", "")[:400],
                                        "note": "the source no longer fits the translated subset: the generated definition cannot be rebuilt, so its agreement theorem has nothing to check"})
            return res
        files = {f"PyodaProofs/GenAgree{prop}.lean": agree_file, f"PyodaGen/{prop}.lean": gen_file}
        if in_tree:
            bcmd = ["lake", "build", agree_mod]
            res["build_cmd"] = "cd lean && " + " ".join(bcmd)
            b = subprocess.run(bcmd, cwd=LEAN, capture_output=True, text=True, timeout=3600)
            output, failed = b.stdout + b.stderr, b.returncode != 0
        else:
            env = dict(os.environ)
            lp = subprocess.run(["lake", "env", "printenv", "LEAN_PATH"], cwd=LEAN, capture_output=True, text=True, timeout=600)
            if lp.returncode != 0:
                raise InfraError("lake env printenv LEAN_PATH failed: " + lp.stderr[-300:])
            base_path = lp.stdout.strip()
            pin = _pin_prefix()
            # 1. compile the regenerated definitions in the scratch root; 2. check the agreement file with the scratch
            #    root in front of the search path (PyodaGen.<prop> resolves to the scratch .olean, everything else to lake's)
            env["LEAN_PATH"] = base_path
            built = LEAN / ".lake" / "build" / "lib" / "lean" / "PyodaGen"
            if built.is_dir():  # the scratch root shadows the whole PyodaGen library: link its other modules in
                for f in built.iterdir():
                    if f.stem.split(".")[0] != prop and f.suffix in (".olean", ".ilean"):
                        os.symlink(f, out_dir / f.name)
            c1 = pin + ["lean", "--root=" + str(tmp), "-o", str(out_dir / f"{prop}.olean"), "-i", str(out_dir / f"{prop}.ilean"), str(gen_file)]
            res["build_cmd"] = f"(scratch root {tmp}) lean -o PyodaGen/{prop}.olean PyodaGen/{prop}.lean ; LEAN_PATH=<scratch>:<lake> lean PyodaProofs/GenAgree{prop}.lean"
            b = subprocess.run(c1, cwd=tmp, env=env, capture_output=True, text=True, timeout=3600)
            output, failed = b.stdout + b.stderr, b.returncode != 0
            if not failed:
                env["LEAN_PATH"] = str(tmp) + ":" + base_path
                b = subprocess.run(pin + ["lean", str(agree_file.relative_to(LEAN))], cwd=LEAN, env=env, capture_output=True, text=True, timeout=3600)
                output, failed = b.stdout + b.stderr, b.returncode != 0
        if failed:
            res["ok"] = False
            errs = _lean_errors(output, files)
            if not errs:
                raise InfraError(f"gen_tie({prop}): Lean failed without a located error: {output[-600:]}")
            for decl, msg in errs[:40]:
                res["broken_theorems"].append(decl)
                res["problems"].append({"kind": "gen-tie", "stage": "agreement", "theorem": decl, "detail": msg,
                                        "note": "the definition regenerated from the current Python source no longer agrees with the hand-written model (kernel check of the agreement theorem fails)"})
        return res
    finally:
        res["wall_s"] = round(time.time() - t0, 2)
        try:
            fcntl.flock(lock, fcntl.LOCK_UN)
        except OSError:
            pass
        lock.close()
        if tmp is not None:
            shutil.rmtree(tmp, ignore_errors=True)


def apply_gen_tie(prop: str, proof: dict) -> None:
    """Run the tie and fold its result into a proof-result dictionary (a failed tie is a failed proof obligation)."""
    for k, group in enumerate(gen_groups(prop)):
        tie = gen_tie(group)
        if k == 0:
            proof["gen_tie"] = tie
        else:
            proof["gen_tie"].setdefault("groups", {})[group] = tie
            proof["gen_tie"]["wall_s"] = round(proof["gen_tie"].get("wall_s", 0) + tie.get("wall_s", 0), 2)
        if not tie["ok"]:
            proof["ok"] = False
            proof["gen_tie"]["ok"] = False
            proof.setdefault("problems", []).extend(tie["problems"])
            if isinstance(proof.get("theorems"), dict):
                for t in tie["broken_theorems"]:
                    proof["theorems"].pop(t, None)  # no longer counted as checked (matters under --no-proof)
            print(f"gen-tie [{group}] BROKEN ({tie['mode']}, source {tie['repo']}): " + ", ".join(sorted({p['theorem'] for p in tie['problems']})[:12]))


# --------------------------------------------------------------------------------------
# check context
# --------------------------------------------------------------------------------------

class Ctx:
    def __init__(self, prop: str, tier: str, seed: int, driver: str = "drv_elapsed"):
        self.driver = driver
        self.prop = prop
        self.tier = tier
        self.seed = seed
        self.rng = random.Random(seed * 1000003 + sum(map(ord, prop)))
        self.suites: dict[str, dict] = {}
        self.oracles: dict[str, dict] = {}
        self.failures: list[dict] = []        # property failures on the real code (with input)
        self.unexplained: list[dict] = []     # broken correspondence / proof with no failing input
        self.samples: list = []
        self.distribution: Counter = Counter()
        self.distinct: set = set()
        self.evaluations = 0
        self.assumptions: list[str] = []
        self.notes: dict = {}
        self.t0 = time.time()

    @property
    def thorough(self) -> bool:
        return self.tier == "thorough"

    def scale(self, quick: int, thorough: int) -> int:
        return thorough if self.thorough else quick

    # ---- (K) -------------------------------------------------------------------------
    def correspond(self, suite: str, ops: list[str], impl, oracle=None, neighbours=None,
                   nontrivial=None, exhaustive: bool = False, skip_model_prefixes=("!dom",), driver: str | None = None) -> list[dict]:
        """Diff model and implementation on `ops`.
        impl(tokens) -> canonical reply (exceptions are mapped by `guard`).
        oracle(tokens) -> None | failure dict: the property evaluated on the real code at that input.
        neighbours(tokens) -> iterable of op strings to probe around a disagreement."""
        st = self.suites.setdefault(suite, {"ops": 0, "agree": 0, "skipped_dom": 0, "disagree": 0,
                                            "exhaustive": exhaustive, "first_disagreements": []})
        seen_local = set()
        uniq = []
        for o in ops:
            if o not in seen_local:
                seen_local.add(o)
                uniq.append(o)
        ops = uniq
        model = model_eval(ops, driver or self.driver)
        dis = []
        t_suite = time.time()
        budget = float(os.environ.get("PYODA_SUITE_BUDGET_S", "21600" if self.thorough else "1500"))
        for n_done, (op, m) in enumerate(zip(ops, model)):
            if getattr(self, "hangs", 0) >= 3:
                self.add_failure({"key": "suite-stopped-after-hangs", "what": f"suite {suite}: stopped after {self.hangs} operations that did not return"},
                                 op=op, source=f"budget@{suite}")
                break
            if n_done % 64 == 0 and time.time() - t_suite > budget:
                # on the unchanged tree every suite finishes in a small fraction of this; a suite that does not is real
                # code that has stopped making progress in bounded time (walks that never reach their end, ...)
                self.add_failure({"key": "suite-exceeds-time-budget",
                                  "what": f"suite {suite}: {n_done} of {len(ops)} operations took more than {budget:.0f} s; stopped at {op[:160]}"},
                                 op=op, source=f"budget@{suite}")
                break
            toks = op.split(" ")
            r = guard(impl, toks)
            st["ops"] += 1
            self.evaluations += 1
            self.distribution[toks[0] + (":err" if r.startswith("!") else "")] += 1
            if nontrivial is None or nontrivial(toks, r):
                self.distinct.add(op)
            if len(self.samples) < 6 and self.rng.random() < 0.02:
                self.samples.append(f"{op} -> {r}")
            if m.startswith("?"):
                raise InfraError(f"model rejected op {op!r}: {m}")
            if any(m.startswith(pfx) or (" " + pfx) in m for pfx in skip_model_prefixes):
                # outside the modelled domain: no comparison, but the oracle still runs
                st["skipped_dom"] += 1
            elif m == r:
                st["agree"] += 1
            else:
                st["disagree"] += 1
                st.setdefault("disagree_by_op", {})
                st["disagree_by_op"][toks[0]] = st["disagree_by_op"].get(toks[0], 0) + 1
                d = {"suite": suite, "op": op, "model": m, "impl": r}
                dis.append(d)
                if len(st["first_disagreements"]) < 5:
                    st["first_disagreements"].append(d)
            if oracle is not None:
                f = self._run_oracle(oracle, toks)
                if f:
                    self.add_failure(f, op=op, source=f"oracle@{suite}")
        if not self.samples and ops:
            self.samples.append(f"{ops[0]} -> {guard(impl, ops[0].split(' '))}")
        # search around each disagreement for a concrete property failure
        picked, kinds = [], set()
        for d in dis:
            k = d["op"].split(" ")[0]
            if k not in kinds or len(picked) < 25:
                kinds.add(k)
                picked.append(d)
            if len(picked) >= 60:
                break
        for d in picked:
            found = False
            probes = [d["op"]] + (list(neighbours(d["op"].split(" "))) if neighbours else [])
            if oracle is not None:
                for pr in probes[:200]:
                    f = self._run_oracle(oracle, pr.split(" "))
                    if f:
                        self.add_failure(f, op=pr, source=f"search@{suite}")
                        found = True
                        break
            if not found:
                self.unexplained.append({"kind": "correspondence", **d})
        return dis

    def _run_oracle(self, oracle, toks):
        import signal
        armed = _watchdog_usable() and signal.getsignal(signal.SIGALRM) is _alarm
        if armed:
            signal.setitimer(signal.ITIMER_REAL, OP_WATCHDOG_S)
            _wd["in"] = True
        try:
            return oracle(toks)
        except RecursionError:
            raise
        except _OpHang:
            self.hangs = getattr(self, "hangs", 0) + 1
            return {"key": "operation-does-not-return", "what": f"the property oracle for {' '.join(toks)[:200]} did not finish within "
                    f"{OP_WATCHDOG_S:.0f} s: a call into the code under test does not return"}
        except Exception as e:  # noqa: BLE001
            return {"key": "oracle-exception", "what": f"oracle raised {type(e).__name__}: {e}",
                    "trace": traceback.format_exc()[-800:]}
        finally:
            _wd["in"] = False

    # ---- (S) -------------------------------------------------------------------------
    def check_cases(self, name: str, cases, fn, exhaustive: bool = False) -> None:
        """Direct oracle: fn(case) -> None | failure dict (must include 'key' and 'what')."""
        st = self.oracles.setdefault(name, {"cases": 0, "failures": 0, "exhaustive": exhaustive})
        for c in cases:
            if getattr(self, "hangs", 0) >= 3:
                break
            st["cases"] += 1
            self.evaluations += 1
            import signal
            armed = _watchdog_usable() and signal.getsignal(signal.SIGALRM) is _alarm
            if armed:
                signal.setitimer(signal.ITIMER_REAL, OP_WATCHDOG_S * 2)
                _wd["in"] = True
            try:
                f = fn(c)
            except RecursionError:
                raise
            except _OpHang:
                self.hangs = getattr(self, "hangs", 0) + 1
                f = {"key": "operation-does-not-return", "what": f"oracle {name}: case {str(c)[:200]} did not finish within {OP_WATCHDOG_S * 2:.0f} s"}
            except Exception as e:  # noqa: BLE001
                f = {"key": "oracle-exception", "what": f"{type(e).__name__}: {e}", "trace": traceback.format_exc()[-800:]}
            finally:
                _wd["in"] = False
            if f:
                st["failures"] += 1
                self.add_failure(f, op=repr(c) if not isinstance(c, str) else c, source=f"oracle:{name}")
            else:
                try:
                    self.distinct.add((name, c if isinstance(c, (str, int, tuple)) else repr(c)))
                except TypeError:
                    self.distinct.add((name, repr(c)))
            if len(self.samples) < 10 and st["cases"] in (1, 7):
                self.samples.append(f"{name}: {c!r}"[:300])

    def add_failure(self, f: dict, op: str = "", source: str = "") -> None:
        g = dict(f)
        g.setdefault("key", "unclassified")
        g["op"] = op
        g["source"] = source
        if len(self.failures) < 2000:
            self.failures.append(g)

    def note(self, k, v):
        self.notes[k] = v

    # ---- parallel exploration (thorough tiers) ------------------------------------------
    def export(self) -> dict:
        return {"suites": self.suites, "oracles": self.oracles, "failures": self.failures[:300], "unexplained": self.unexplained[:50],
                "samples": self.samples[:4], "distribution": dict(self.distribution), "n_distinct": len(self.distinct),
                "evaluations": self.evaluations, "notes": self.notes}

    def merge(self, d: dict) -> None:
        for name, st in d["suites"].items():
            t = self.suites.setdefault(name, {"ops": 0, "agree": 0, "skipped_dom": 0, "disagree": 0, "exhaustive": st.get("exhaustive", False), "first_disagreements": []})
            for k in ("ops", "agree", "skipped_dom", "disagree"):
                t[k] += st.get(k, 0)
            t["first_disagreements"] = (t["first_disagreements"] + st.get("first_disagreements", []))[:5]
        for name, st in d["oracles"].items():
            t = self.oracles.setdefault(name, {"cases": 0, "failures": 0, "exhaustive": st.get("exhaustive", False)})
            t["cases"] += st["cases"]
            t["failures"] += st["failures"]
        self.failures.extend(d["failures"])
        self.unexplained.extend(d["unexplained"])
        self.samples.extend(d["samples"])
        self.distribution.update(d["distribution"])
        self.evaluations += d["evaluations"]
        self._extra_distinct = getattr(self, "_extra_distinct", 0) + d["n_distinct"]

    def parallel(self, worker, chunks, nproc: int | None = None) -> None:
        """Run worker(sub_ctx, chunk) for every chunk in forked processes and merge the results.
        worker must only use its sub-context (seeded from this one and the chunk index)."""
        import multiprocessing as mp
        nproc = nproc or min(len(chunks), max(1, (os.cpu_count() or 2) - 1))
        jobs = [(self.prop, self.tier, self.seed * 7919 + i, self.driver, worker, ch) for i, ch in enumerate(chunks)]
        with mp.get_context("fork").Pool(nproc) as pool:
            for res in pool.imap_unordered(_par_entry, jobs):
                if "infra" in res:
                    raise InfraError(res["infra"])
                self.merge(res)


def _par_entry(job):
    prop, tier, seed, driver, worker, chunk = job
    try:
        sub = Ctx(prop, tier, seed, driver)
        worker(sub, chunk)
        return sub.export()
    except InfraError as e:
        return {"infra": str(e)}
    except Exception:  # noqa: BLE001
        return {"infra": traceback.format_exc()[-1500:]}


# --------------------------------------------------------------------------------------
# known findings, replays, evidence, verdict
# --------------------------------------------------------------------------------------

def load_findings(prop: str) -> list[dict]:
    if not FINDINGS.exists():
        return []
    data = json.loads(FINDINGS.read_text())
    return [f for f in data.get("findings", []) if f.get("property") == prop and f.get("status") == "known"]


def finding_matches(finding: dict, failure: dict) -> bool:
    return finding.get("key") == failure.get("key")


def write_replay(prop: str, seed: int, n: int, payload: dict) -> Path:
    REPLAYS.mkdir(exist_ok=True)
    p = REPLAYS / f"{prop}-{seed}-{n}.json"
    payload = dict(payload)
    payload["property"] = prop
    payload["replay_cmd"] = f"./check {prop} --replay {p.relative_to(VERIF)}"
    p.write_text(json.dumps(payload, indent=1, default=str))
    return p


def finish(ctx: Ctx, proof: dict, meta: dict, boot: dict) -> int:
    """Compute the verdict, write evidence, print VIOLATION / KNOWN-FINDING lines; returns exit code."""
    if os.environ.get("PYODA_GEN_TIE") == "1" and "gen_tie" not in proof and ctx.prop in gen_props():
        # seeded-change runs use --no-proof against a patched worktree and must still exercise the tie
        apply_gen_tie(ctx.prop, proof)
    known = load_findings(ctx.prop)
    new_failures, known_hits = [], {}
    for f in ctx.failures:
        hit = next((k for k in known if finding_matches(k, f)), None)
        if hit:
            known_hits.setdefault(hit["key"], [hit, 0, f])
            known_hits[hit["key"]][1] += 1
        else:
            new_failures.append(f)
    lines = []
    rc = 0
    n = 0
    for key, (k, cnt, ex) in known_hits.items():
        lines.append(f"KNOWN-FINDING: property={ctx.prop} {k.get('what', key)} [{cnt} hit(s), e.g. {ex.get('op', '')[:100]}]")
    # group new failures by key, one replay per key (first = usually smallest)
    by_key: dict[str, list] = {}
    for f in new_failures:
        by_key.setdefault(f["key"], []).append(f)
    for key, fs in by_key.items():
        p = write_replay(ctx.prop, ctx.seed, n, {"kind": "input", "key": key, "failure": fs[0], "count": len(fs),
                                                  "more": fs[1:4]})
        n += 1
        lines.append(f"VIOLATION property={ctx.prop} replay={p}")
        rc = 1
    if not new_failures:
        # broken proof / correspondence without a failing input
        if not proof["ok"]:
            p = write_replay(ctx.prop, ctx.seed, n, {"kind": "theorem", "problems": proof["problems"],
                                                      "note": "proof obligations no longer check; no failing input found on the implementation"})
            n += 1
            lines.append(f"VIOLATION property={ctx.prop} replay={p} no-failing-input-found")
            rc = 1
        if ctx.unexplained:
            p = write_replay(ctx.prop, ctx.seed, n, {"kind": "correspondence", "disagreements": ctx.unexplained[:20],
                                                      "note": "model and implementation differ; the direct oracle found no property failure at or around these inputs"})
            n += 1
            lines.append(f"VIOLATION property={ctx.prop} replay={p} no-failing-input-found")
            rc = 1
    n_theorems = len(meta.get("theorems", []))
    suites_ok = sum(1 for s in ctx.suites.values() if s["disagree"] == 0)
    oracles_ok = sum(1 for s in ctx.oracles.values() if s["failures"] == 0)
    th_ok = sum(1 for t in meta.get("theorems", []) if t in proof["theorems"]
                and all(a in ALLOWED_AXIOMS for a in proof["theorems"][t])) if proof.get("theorems") is not None else 0
    if not proof["ok"] and any(pr["kind"] in ("build", "audit") for pr in proof["problems"]):
        th_ok = 0
    obligations = max(n_theorems + len(ctx.suites) + len(ctx.oracles), 1)
    discharged = th_ok + suites_ok + oracles_ok
    if rc == 0:
        # nothing new failed: suites/oracles whose only failures are listed known findings count as discharged
        discharged = obligations
    else:
        discharged = min(discharged, obligations - 1)
    ev = {
        "property_id": ctx.prop,
        "tier": ctx.tier,
        "seed": ctx.seed,
        "level": "proof",
        "coverage": {
            "obligations": obligations,
            "discharged": max(discharged, 0),
            "checker_cmd": proof.get("checker_cmd", ""),
            "trusted_base": meta.get("trusted_base", []) + [
                "Lean 4 kernel; axioms per theorem listed under 'axioms' (allowed: propext, Classical.choice, Quot.sound)",
                "hand-written model PyodaModel/* tied to /repo by the correspondence suites listed under 'suites'",
                "harness (Python), line protocol and canonicalisation",
            ],
            "theorems": meta.get("theorems", []),
            "axioms": proof.get("theorems", {}),
            "proof_problems": proof.get("problems", []),
            "suites": ctx.suites,
            "oracles": ctx.oracles,
            "evaluations": ctx.evaluations,
            "distinct_nontrivial": len(ctx.distinct) + getattr(ctx, "_extra_distinct", 0),
            "rule": meta.get("rule", "distinct = distinct op line / oracle case; non-trivial = the reply is not an argument error for a malformed op"),
            "distribution": dict(ctx.distribution.most_common(60)),
            "samples": ctx.samples[:12] or ["(none)"],
            "exhaustive": bool(ctx.suites or ctx.oracles) and all(s.get("exhaustive") for s in list(ctx.suites.values()) + list(ctx.oracles.values())),
            "known_finding_hits": {k: v[1] for k, v in known_hits.items()},
            "partial": meta.get("partial", []),
            "notes": ctx.notes,
        },
        "assumptions": ctx.assumptions + [f"ICU: {boot.get('icu')}"] + meta.get("assumptions", []),
        "wall_s": round(time.time() - ctx.t0, 2),
        "violations": sum(1 for ln in lines if ln.startswith("VIOLATION")),
    }
    if proof.get("gen_tie") is not None:
        ev["coverage"]["gen_tie"] = proof["gen_tie"]
    EVIDENCE.mkdir(exist_ok=True)
    (EVIDENCE / f"{ctx.prop}.json").write_text(json.dumps(ev, indent=1, default=str))
    for ln in lines:
        print(ln)
    s = f"[{ctx.prop}] tier={ctx.tier} seed={ctx.seed} theorems={th_ok}/{n_theorems} suites={suites_ok}/{len(ctx.suites)} oracles={oracles_ok}/{len(ctx.oracles)} evaluations={ctx.evaluations} wall={ev['wall_s']}s -> {'OK' if rc == 0 else 'VIOLATION'}"
    print(s)
    return rc


def lines_have_violation(lines):
    return any(ln.startswith("VIOLATION") for ln in lines)
