"""C09 — date arithmetic and Period.between obey their stated laws in every calendar."""
from __future__ import annotations

import bisect
import decimal

from common import ints

META = {
    "property": "C09",
    "proof_modules": ["PyodaProofs.C09", "PyodaProofs.C09Instances", "PyodaProofs.C09Generic", "PyodaProofs.C09Between",
                      "PyodaProofs.C09DateTime", "PyodaProofs.C09Badi", "PyodaProofs.C09Hebrew", "PyodaProofs.C09HebrewMonths",
                      "PyodaProofs.C09All", "PyodaProofs.C09MonthStart", "PyodaProofs.C09Maximal", "PyodaProofs.GenAgreeC09"],
    "drivers": ["drv_datearith"],
    "theorems": [
        "Pyoda.C09.plusDays_exact", "Pyoda.C09.plusWeeks_exact", "Pyoda.C09.fastPath_eq_slowPath",
        "Pyoda.C09.addMonths_regular_spec", "Pyoda.C09.addMonths_regular_zero", "Pyoda.C09.addMonths_hebrew_spec",
        "Pyoda.C09.hebrew_month_count", "Pyoda.C09.addMonths_badi_spec", "Pyoda.C09.setYear_spec", "Pyoda.C09.addYears_spec",
        "Pyoda.C09.unitsBetween_maximal", "Pyoda.C09.unitsBetween_maximal_coarse", "Pyoda.C09.yearsBetween_maximal",
        "Pyoda.C09.monthsBetween_maximal", "Pyoda.C09.betweenDates_spec", "Pyoda.C09.between_bounded",
        "Pyoda.C09.between_hits_end", "Pyoda.C09.between_one_sign", "Pyoda.C09.between_units_subset",
        "Pyoda.C09.timeComponents_exact", "Pyoda.C09.betweenTimes_spec", "Pyoda.C09.normalize_preserves_total",
        "Pyoda.C09.toDuration_total", "Pyoda.C09.yearLen_gregorian", "Pyoda.C09.yearLen_julian", "Pyoda.C09.yearLen_coptic",
        "Pyoda.C09.regular_gregorian", "Pyoda.C09.regular_julian", "Pyoda.C09.regular_coptic",
        "Pyoda.C09.yearLen_islamic", "Pyoda.C09.yearLen_persian", "Pyoda.C09.yearLen_umAlQura", "Pyoda.C09.yearLen_badi",
        "Pyoda.C09.yearLenCheck_sound", "Pyoda.C09.regular_islamic_all", "Pyoda.C09.regular_persianSimple",
        "Pyoda.C09.regular_persianArithmetic", "Pyoda.C09.regular_persianAstronomical", "Pyoda.C09.regular_umAlQura",
        "Pyoda.C09.coarse_law_at", "Pyoda.C09.yearsField_unit_of_setYear",
        "Pyoda.C09.badi_monthsField_law", "Pyoda.C09.badi_yearsField_law", "Pyoda.C09.badi_addMonths_valid", "Pyoda.C09.badi_setYear_valid",
        "Pyoda.C09.dateLaws_regular", "Pyoda.C09.betweenDates_laws", "Pyoda.C09.betweenYearMonths_laws", "Pyoda.C09.monthStart_regular",
        "Pyoda.C09.adjustedEnd_spec", "Pyoda.C09.betweenDateTimes_core", "Pyoda.C09.betweenDateTimes_laws",
        "Pyoda.C09.hebSetYear_scr", "Pyoda.C09.heb_setYear_valid", "Pyoda.C09.heb_yearsField_law", "Pyoda.C09.heb_addMonths_spec",
        "Pyoda.C09.heb_addMonths_valid", "Pyoda.C09.heb_probe_spec", "Pyoda.C09.heb_estimate_close", "Pyoda.C09.heb_monthsBetween_value",
        "Pyoda.C09.heb_months_law_max", "Pyoda.C09.heb_monthsField_law", "Pyoda.C09.dateLaws_hebrew",
        "Pyoda.C09.dateLaws_badi", "Pyoda.C09.dateLaws_all", "Pyoda.C09.between_dates_all", "Pyoda.C09.plusDays_exact_all",
        "Pyoda.C09.plusMonths_valid_all", "Pyoda.C09.plusYears_valid_all",
        "Pyoda.C09.monthStart_badi", "Pyoda.C09.monthStart_hebrew", "Pyoda.C09.monthStart_all",
        "Pyoda.C09.coarse_max_at", "Pyoda.C09.yearsBetween_maximal_hebrew", "Pyoda.C09.yearsBetween_maximal_badi",
        "Pyoda.C09.badi_addMonths_key", "Pyoda.C09.monthsBetween_maximal_badi",
        # agreement of the definitions generated from the Python source (tools/py2lean.py) with the model
        "Pyoda.GenAgree.C09.gen_Calc_minYear_eq", "Pyoda.GenAgree.C09.gen_Calc_maxYear_eq",
        "Pyoda.GenAgree.C09.gen_Calc_minYearOf_eq", "Pyoda.GenAgree.C09.gen_Calc_maxYearOf_eq",
        "Pyoda.GenAgree.C09.gen_Regular_monthsInYear_eq", "Pyoda.GenAgree.C09.gen_Regular_setYear_eq",
        "Pyoda.GenAgree.C09.gen_Regular_addMonths_eq", "Pyoda.GenAgree.C09.gen_Regular_monthsBetween_eq",
        "Pyoda.GenAgree.C09.gen_Heb_isLeap_eq", "Pyoda.GenAgree.C09.gen_Heb_civilToScriptural_eq",
        "Pyoda.GenAgree.C09.gen_Heb_scripturalToCivil_eq", "Pyoda.GenAgree.C09.gen_HebCalc_calendarToCivilMonth_eq",
        "Pyoda.GenAgree.C09.gen_HebCalc_calendarToScripturalMonth_eq",
        "Pyoda.GenAgree.C09.gen_HebCalc_civilToCalendarMonth_eq",
        "Pyoda.GenAgree.C09.gen_HebCalc_scripturalToCalendarMonth_eq", "Pyoda.GenAgree.C09.gen_HebCalc_isLeap_eq",
        "Pyoda.GenAgree.C09.gen_HebCalc_monthsInYear_eq", "Pyoda.GenAgree.C09.gen_HebCalc_compare_eq",
        "Pyoda.GenAgree.C09.gen_HebCalc_addMonths_loop1_eq", "Pyoda.GenAgree.C09.gen_HebCalc_addMonths_loop2_eq",
        "Pyoda.GenAgree.C09.gen_HebCalc_addMonths_eq", "Pyoda.GenAgree.C09.gen_HebCalc_setYear_eq",
        "Pyoda.GenAgree.C09.gen_Badi_isInAyyamiHa_eq", "Pyoda.GenAgree.C09.gen_Badi_addMonths_eq",
        "Pyoda.GenAgree.C09.gen_Badi_monthsBetween_eq", "Pyoda.GenAgree.C09.gen_Badi_setYear_eq",
        "Pyoda.GenAgree.C09.gen_CalendarSystem_minDays_eq", "Pyoda.GenAgree.C09.gen_CalendarSystem_maxDays_eq",
        "Pyoda.GenAgree.C09.gen_CalendarSystem_calculator_eq",
        "Pyoda.GenAgree.C09.gen_CalendarSystem_getDaysSinceEpoch_eq", "Pyoda.GenAgree.C09.gen_LocalDate_ofYmdc_eq",
        "Pyoda.GenAgree.C09.gen_LocalDate_calendarOrdinal_eq", "Pyoda.GenAgree.C09.gen_LocalDate_calendar_eq",
        "Pyoda.GenAgree.C09.gen_LocalDate_year_eq", "Pyoda.GenAgree.C09.gen_LocalDate_month_eq",
        "Pyoda.GenAgree.C09.gen_LocalDate_day_eq", "Pyoda.GenAgree.C09.gen_LocalDate_yearMonthDay_eq",
        "Pyoda.GenAgree.C09.gen_LocalDate_daysSinceEpoch_eq",
        "Pyoda.GenAgree.C09.gen_CalendarSystem_ymdcFromDays_eq", "Pyoda.GenAgree.C09.gen_LocalDate_ofDays_eq",
        "Pyoda.GenAgree.C09.gen_FixedField_add_eq", "Pyoda.GenAgree.C09.gen_FixedField_unitsBetween_eq",
        "Pyoda.GenAgree.C09.gen_FixedField_unitsBetween_error", "Pyoda.GenAgree.C09.gen_YearsField_add_eq",
        "Pyoda.GenAgree.C09.gen_MonthsField_add_eq", "Pyoda.GenAgree.C09.gen_MonthsField_unitsBetween_eq",
        "Pyoda.GenAgree.C09.gen_addMonths_regular", "Pyoda.GenAgree.C09.gen_addMonths_hebrew",
        "Pyoda.GenAgree.C09.gen_addMonths_badi",
    ],
    "trusted_base": [
        "translator tie (tools/py2lean.py): _RegularYearMonthDayCalculator (_set_year, _add_months, _months_between), the Hebrew overrides (_add_months with its two while loops, _set_year, compare, the four month-numbering converters) "
        "and the Badi overrides (_add_months, _months_between, _set_year), and the date period fields _FixedLengthDatePeriodField.add/units_between (both fast paths and the general path), _YearsPeriodField.add, "
        "_MonthsPeriodField.add/units_between with the LocalDate/CalendarSystem accessors they use are re-translated from the current source into lean/PyodaGen/C09.lean on every run and proved equal to "
        "PyodaModel/DateArith.lean (PyodaProofs/GenAgreeC09.lean). Trusted there: the translator's semantics (self-test of C03); objects as records (lean/PyodaGen/Objects.lean; the calculator's virtual members as "
        "function-valued fields, instantiated with the model's range-checked functions); _YearMonthDay as a plain triple whose comparison operators compare (y-1)*2048+(m-1)*64+(d-1) (disjoint bit fields: C12 unpack_pack); "
        "the packing helpers (_with_calendar(_ordinal), _YearMonthDayCalendar._ctor, CalendarSystem._ordinal/_for_ordinal: an ordinal is represented by its calendar); _get_days_in_month / _HebrewScripturalCalculator._days_in_month / "
        "_get_days_in_ayyami_ha / Period._internal_days_between as abstract callees instantiated with the model's functions (tied by the C01 groups); M != 0 months per year; Decimal-domain bounds for units_between. "
        "Outside the tie: Hebrew _months_between (float estimate, try/except), _YearsPeriodField.units_between (LocalDate comparison), Period.between itself",
        "calendar tables enter the theorems through C01's well-formedness predicate WF: symbolic C01 instances for ISO/Gregorian, Julian, Coptic, the 8 Islamic calendars, Persian simple and arithmetic; for Hebrew civil/scriptural, Persian astronomical, Um Al Qura and Badi the hypothesis structure Pyoda.C09.Evaluated (wfCheck = true via C01's wfCheck_sound, plus yearLenCheck = true for the two Hebrew calendars) is discharged by EVALUATION on the compiled driver on every run (ops cal.wf 4|5|8|17|18, date.wf 4|5; oracle 'evaluated-hypotheses') - the Lean compiler is trusted for that step",
        "Decimal-based truncating division is exact below 10^27 (sampled by C03's prelude suite); amounts beyond are outside the model (!dom)",
        "LocalDateTime + Period reaches position posDT(start date + date part, start time) + time total: the carry arithmetic of LocalDateTime.plus is C10's subject; C09 states the between laws on positions of the local time line",
    ],
    "partial": [
        "all Period.between laws (units asked for, one sign, bounded, hits end) are theorems for LocalDate, YearMonth and LocalDateTime operands in all 19 calendars (dateLaws_all, monthStart_all + betweenDates_laws, betweenYearMonths_laws, betweenDateTimes_laws) and for LocalTime (betweenTimes_spec); single-unit maximality is proved for days/weeks (every calendar), years and months of the regular family (yearsBetween_maximal, monthsBetween_maximal with the RegularCal instances of all 15 regular calendars), Hebrew (heb_months_law_max, yearsBetween_maximal_hebrew) and Badi (monthsBetween_maximal_badi, yearsBetween_maximal_badi); time-unit maximality for LocalDateTime/LocalTime is the remainder bound of timeComponents_exact/stepTime_spec",
        "plus_months / plus_years never return an invalid date in any calendar: plusMonths_valid_all, plusYears_valid_all; plus_days / plus_weeks exact in every calendar: plusDays_exact_all",
        "the theorems cover the model with the intended (repaired) behaviour of the five defects found; the repairs are committed to /repo and tied to the model by correspondence",
        "periods whose total reaches 10^27 ns and amounts of 10^27 months or more are outside the model (Decimal-based division no longer exact there)",
    ],
    "rule": "start/end pairs biased to month ends, leap days, Adar/Adar II, Ayyam-i-Ha, year and range edges; amounts at +-299/300/301 days and across the 19/30/33/400-year cycles; all valid unit subsets per operand type; distinct = distinct op line; non-trivial = every op",
}

NPD = 86_400_000_000_000
UNIT_NS = {4: 3_600_000_000_000, 5: 60_000_000_000, 6: 1_000_000_000, 7: 1_000_000, 8: 100, 9: 1}
NAMES = ["years", "months", "weeks", "days", "hours", "minutes", "seconds", "milliseconds", "ticks", "nanoseconds"]
Y, M, W, D, H, MI, S, MS, T, N = (1 << i for i in range(10))
DATE_MASK, TIME_MASK = 15, 1008
DEC = 10 ** 27
DUR_MIN_NS = -(1 << 30) * NPD
DUR_MAX_NS = (1 << 30) * NPD - 1

_P = None


def P():
    global _P
    if _P is None:
        import pyoda_time
        _P = pyoda_time
    return _P


_info = {}


def info(o):
    """ordinal -> (calendar, min_year, max_year, min_days, max_days)"""
    if not _info:
        for cid in P().CalendarSystem.ids:
            c = P().CalendarSystem.for_id(cid)
            _info[int(c._ordinal)] = (c, c.min_year, c.max_year, c._min_days, c._max_days)
    return _info[o]


def ordinals():
    info(0)
    return sorted(_info)


def mkdate(o, y, m, d):
    import routes
    b = P().LocalDate(y, m, d, info(o)[0])
    return routes.routed_date(info(o)[0], b._days_since_epoch, salt=y + m)


def mktime(ns):
    return P().LocalTime.from_nanoseconds_since_midnight(ns)


def _period_plain(c):
    return P().Period._ctor(years=c[0], months=c[1], weeks=c[2], days=c[3], hours=c[4], minutes=c[5], seconds=c[6],
                            milliseconds=c[7], ticks=c[8], nanoseconds=c[9])


def mkperiod(c):
    """the Period with components c: by the constructor, or as the RESULT of + / - on periods that have already been
    USED (to_duration / normalize / has_*_component asked), or an already-used object - chosen from the components.
    Equal periods must behave equally however they were made."""
    c = list(c)
    k = (sum(abs(v) for v in c) + c[5] * 3 + c[8]) % 5
    r = None
    try:
        if k in (1, 2):
            a = [v // 2 for v in c]
            b = [v - w for v, w in zip(c, a)]
            if k == 2:
                a, b = [v + 2 for v in c], [2] * 10            # c = a - b
            pa, pb = _period_plain(a), _period_plain(b)
            for q in (pa, pb):
                for use in (lambda: q.to_duration(), lambda: q.normalize(), lambda: (q.has_time_component, q.has_date_component)):
                    try:
                        use()
                    except Exception:  # noqa: BLE001
                        pass
            r = pa + pb if k == 1 else pa - pb
        elif k == 3:
            r = _period_plain(c)
            for use in (lambda: r.normalize(), lambda: r.to_duration()):
                try:
                    use()
                except Exception:  # noqa: BLE001
                    pass
        if r is not None and comps(r) != tuple(c):
            r = None
    except Exception:  # noqa: BLE001
        r = None
    return r if r is not None else _period_plain(c)


def comps(p):
    return (p.years, p.months, p.weeks, p.days, p.hours, p.minutes, p.seconds, p.milliseconds, p.ticks, p.nanoseconds)


def total_ns(c):
    return (c[9] + c[8] * 100 + c[7] * 1_000_000 + c[6] * 1_000_000_000 + c[5] * 60_000_000_000 + c[4] * 3_600_000_000_000
            + c[3] * NPD + c[2] * 7 * NPD)


def ymd(x):
    return ints(x.year, x.month, x.day)


def from_days(o, days):
    x = P().LocalDate._ctor(days_since_epoch=days, calendar=info(o)[0])
    return (x.year, x.month, x.day)


def operands(kind, a):
    if kind == "d":
        return mkdate(a[0], a[1], a[2], a[3]), mkdate(a[0], a[4], a[5], a[6])
    if kind == "dt":
        return mkdate(a[0], a[1], a[2], a[3]) + mktime(a[4]), mkdate(a[0], a[5], a[6], a[7]) + mktime(a[8])
    if kind == "t":
        return mktime(a[0]), mktime(a[1])
    if kind == "ym":
        c = info(a[0])[0]
        return P().YearMonth(year=a[1], month=a[2], calendar=c), P().YearMonth(year=a[3], month=a[4], calendar=c)
    raise ValueError(kind)


def valid_mask(kind, mask):
    if mask == 0 or mask >= 1024:
        return False
    if kind == "d":
        return mask & TIME_MASK == 0
    if kind == "t":
        return mask & DATE_MASK == 0
    if kind == "ym":
        return mask & ~3 == 0
    return True


# --------------------------------------------------------------------------------------
# implementation side of the correspondence
# --------------------------------------------------------------------------------------

def impl(t):
    Pm = P()
    op = t[0]
    if op == "date.plus":
        unit = t[1]
        o, y, m, d, n = (int(x) for x in t[2:])
        date = mkdate(o, y, m, d)
        r = {"days": date.plus_days, "weeks": date.plus_weeks, "months": date.plus_months, "years": date.plus_years}[unit](n)
        return ymd(r)
    if op == "ym.plusmonths":
        o, y, m, n = (int(x) for x in t[1:])
        r = Pm.YearMonth(year=y, month=m, calendar=info(o)[0]).plus_months(n)
        return ints(r.year, r.month)
    if op == "date.daysbetween":
        a = [int(x) for x in t[1:]]
        s, e = operands("d", a)
        return str(Pm.Period.days_between(s, e))
    if op == "date.plusperiod":
        a = [int(x) for x in t[1:]]
        r = mkdate(*a[:4]) + mkperiod(a[4:8] + [0] * 6)
        return ymd(r)
    if op == "period.between":
        kind, mask = t[1], int(t[2])
        a = [int(x) for x in t[3:]]
        s, e = operands(kind, a)
        return ints(*comps(Pm.Period.between(s, e, Pm.PeriodUnits(mask))))
    if op == "period.normalize":
        return ints(*comps(mkperiod([int(x) for x in t[1:]]).normalize()))
    if op == "period.toduration":
        d = mkperiod([int(x) for x in t[1:]]).to_duration()
        return ints(d._floor_days, d._nanosecond_of_floor_day)
    raise ValueError(op)


# --------------------------------------------------------------------------------------
# reference data read through the public calendar API (independent of the arithmetic under test)
# --------------------------------------------------------------------------------------

_cum = {}


def cum_months(o):
    """cumulative number of months before year y, for y = min_year .. max_year + 1 (variable-length years only)"""
    if o not in _cum:
        c, mny, mxy, _, _ = info(o)
        acc, out = 0, []
        for y in range(mny, mxy + 1):
            out.append(acc)
            acc += c.get_months_in_year(y)
        out.append(acc)
        _cum[o] = out
    return _cum[o]


_order = {}


def month_order(o, y):
    """month numbers of year y in chronological order (by day number of the first of the month)"""
    k = (o, y)
    if k not in _order:
        c = info(o)[0]
        n = c.get_months_in_year(y)
        if o != 5:
            _order[k] = list(range(1, n + 1))
        else:
            _order[k] = sorted(range(1, n + 1), key=lambda mm: P().LocalDate(y, mm, 1, c)._days_since_epoch)
    return _order[k]


def expected_plus_months(o, y, m, d, n):
    """-> (Y, M, D) or None when the target month lies outside the calendar"""
    c, mny, mxy, _, _ = info(o)
    if n == 0:
        return (y, m, d)
    pos = month_order(o, y).index(m)
    dd = d
    if o == 18 and m == 18 and d > 19:
        # Ayyam-i-Ha: the day keeps its number within the intercalary days; going forward the count starts from
        # month 18, going backward from month 19 (rule stated in _BadiYearMonthDayCalculator._add_months)
        dd = d - 19
        if n < 0:
            pos = 18
    if o in (4, 5):
        cm = cum_months(o)
        tgt = cm[y - mny] + pos + n
        if tgt < 0 or tgt >= cm[-1]:
            return None
        i = bisect.bisect_right(cm, tgt) - 1
        yy, pp = mny + i, tgt - cm[i]
    else:
        nm = c.get_months_in_year(y)
        yy, pp = divmod(y * nm + pos + n, nm)
        if yy < mny or yy > mxy:
            return None
    mm = month_order(o, yy)[pp]
    return (yy, mm, min(dd, c.get_days_in_month(yy, mm)))


def expected_plus_years(o, y, m, d, n):
    c, mny, mxy, _, _ = info(o)
    yy = y + n
    if yy < mny or yy > mxy:
        return None
    if o not in (4, 5):
        return (yy, m, min(d, c.get_days_in_month(yy, m)))
    # Hebrew: rules of https://judaism.stackexchange.com/questions/39053 as documented in _set_year, evaluated in the
    # scriptural numbering through calendar conversion
    hs = info(5)[0]
    s = mkdate(o, y, m, d).with_calendar(hs)
    sm, sd = s.month, s.day
    if sm == 13 and not hs.is_leap_year(yy):
        sm = 12
    elif sm == 12 and hs.is_leap_year(yy) and not hs.is_leap_year(y):
        sm = 13
    if sd > hs.get_days_in_month(yy, sm):
        sd = 1
        sm = 1 if sm == 12 else sm + 1
    r = P().LocalDate(yy, sm, sd, hs).with_calendar(c)
    return (r.year, r.month, r.day)


# --------------------------------------------------------------------------------------
# direct oracle
# --------------------------------------------------------------------------------------

def fail(key, what):
    return {"key": key, "what": what}


def badi_defect_near(date, ks):
    """does the code's own month addition go wrong on a Badi target month 19 (index a multiple of 19) around these amounts?"""
    for k in ks:
        if k <= 0:
            continue
        exp = expected_plus_months(18, date.year, date.month, date.day, k)
        if exp is None or exp[1] != 19:
            continue
        try:
            r = date.plus_months(k)
            raw = r._year_month_day
            if (raw._year, raw._month, raw._day) != exp:
                return k
        except Exception:  # noqa: BLE001
            return k
    return None


def o_plus(unit, o, y, m, d, n):
    c, mny, mxy, mnd, mxd = info(o)
    date = mkdate(o, y, m, d)
    d0 = date._days_since_epoch
    what = f"{c.id} {y}-{m}-{d} (day {d0}) plus_{unit}({n})"
    fn = {"days": date.plus_days, "weeks": date.plus_weeks, "months": date.plus_months, "years": date.plus_years}[unit]
    r = None
    try:
        r = fn(n)
    except (OverflowError, ValueError):
        pass
    except decimal.DecimalException as e:
        if abs(n) >= DEC:
            return None       # amount beyond the exact range of the Decimal-based division: any exception is accepted
        return fail(f"plus-{unit}-raises-{type(e).__name__}", f"{what} raised {type(e).__name__}")
    except LookupError as e:
        return fail("plus-months-table-lookup-error" if unit == "months" else f"plus-{unit}-raises-{type(e).__name__}",
                    f"{what} raised {type(e).__name__}: {e} instead of OverflowError (month length looked up outside the year table)")
    except Exception as e:  # noqa: BLE001
        return fail(f"plus-{unit}-raises-{type(e).__name__}", f"{what} raised {type(e).__name__}: {e} instead of OverflowError/ValueError")
    if unit in ("days", "weeks"):
        tgt = d0 + n * (7 if unit == "weeks" else 1)
        if not mnd <= tgt <= mxd:
            if r is not None:
                return fail(f"plus-{unit}-leaves-range", f"{what} returned day {r._days_since_epoch}; day {tgt} is outside [{mnd}, {mxd}]")
            return None
        if r is None:
            return fail(f"plus-{unit}-raises-in-range", f"{what} raised although day {tgt} is inside the calendar")
        exp = from_days(o, tgt)
        got = (r.year, r.month, r.day)
        if r._days_since_epoch != tgt or got != exp or r.calendar != c:
            return fail(f"plus-{unit}-not-exact", f"{what} = {got} (day {r._days_since_epoch}); expected day {tgt} = {exp}")
        return None
    exp = (expected_plus_months if unit == "months" else expected_plus_years)(o, y, m, d, n)
    if exp is None:
        if r is not None:
            return fail(f"plus-{unit}-leaves-range", f"{what} returned {r.year}-{r.month}-{r.day} although the target lies outside years [{mny}, {mxy}]")
        return None
    if r is None:
        if o == 18 and unit == "months" and exp[1] == 19 and n > 0:
            return fail("badi-plus-months-month-0", f"{what} raised; expected {exp} (target month index is a multiple of 19)")
        return fail(f"plus-{unit}-raises-in-range", f"{what} raised although the target {exp} is inside the calendar")
    try:
        got = (r.year, r.month, r.day)
        valid = mkdate(o, *got)._days_since_epoch == r._days_since_epoch and r.calendar == c
    except Exception:  # noqa: BLE001
        raw = r._year_month_day
        got, valid = (raw._year, raw._month, raw._day), False
    if got != exp or not valid:
        if o == 18 and unit == "months" and exp[1] == 19 and n > 0:
            return fail("badi-plus-months-month-0", f"{what} = {got}; expected {exp} (target month index is a multiple of 19)")
        return fail(f"plus-{unit}-wrong-result", f"{what} = {got}{'' if valid else ' (not a valid date)'}; expected {exp}")
    return None


def position(kind, x):
    if kind == "d":
        return x._days_since_epoch
    if kind == "dt":
        return x.date._days_since_epoch * NPD + x.time_of_day.nanosecond_of_day
    if kind == "t":
        return x.nanosecond_of_day
    return x.on_day_of_month(1)._days_since_epoch


def apply_period(kind, start, p):
    if kind in ("d", "dt"):
        return start + p
    if kind == "t":
        return start + p
    return start.on_day_of_month(1).plus_years(p.years).plus_months(p.months).to_year_month()


def step(kind, start, bit, n):
    """position of start + n units (None when the calendar range is left)"""
    try:
        if kind == "t":
            return start.nanosecond_of_day + n * UNIT_NS[bit]
        if kind == "ym":
            d = start.on_day_of_month(1)
            return (d.plus_years(n) if bit == 0 else d.plus_months(n)).to_year_month().on_day_of_month(1)._days_since_epoch
        fn = [start.plus_years, start.plus_months, start.plus_weeks, start.plus_days] + (
            [start.plus_hours, start.plus_minutes, start.plus_seconds, start.plus_milliseconds, start.plus_ticks,
             start.plus_nanoseconds] if kind == "dt" else [])
        return position(kind, fn[bit](n))
    except (OverflowError, ValueError):
        return None


def o_between(kind, mask, a):
    Pm = P()
    s, e = operands(kind, a)
    what = f"Period.between[{kind}]({' '.join(map(str, a))}; units {mask})"
    try:
        p = Pm.Period.between(s, e, Pm.PeriodUnits(mask))
    except ValueError as ex:
        if valid_mask(kind, mask):
            return attribute(fail("between-raises", f"{what} raised ValueError: {ex}"), kind, mask, a, s, None)
        return None
    except OverflowError as ex:
        if kind != "t" and a[0] in (4, 5) and mask & M:
            return fail("hebrew-months-between-overflows-at-range-edge", f"{what} raised OverflowError: {ex}")
        return attribute(fail("between-raises-OverflowError", f"{what} raised OverflowError: {ex}"), kind, mask, a, s, None)
    except Exception as ex:  # noqa: BLE001
        return attribute(fail(f"between-raises-{type(ex).__name__}", f"{what} raised {type(ex).__name__}: {ex}"), kind, mask, a, s, None)
    if not valid_mask(kind, mask):
        return fail("between-accepts-invalid-units", f"{what} returned {p!r}")
    return attribute(between_laws(kind, mask, s, e, p, what), kind, mask, a, s, p)


def attribute(f, kind, mask, a, s, p):
    """failures of Badi month arithmetic that are consequences of the month-0 defect get that defect's key"""
    if f and f["key"] != "between-yearmonth-months-reported-as-years" and kind in ("d", "dt", "ym") and a[0] == 18 and mask & M:
        d0 = s if kind == "d" else (s.date if kind == "dt" else s.on_day_of_month(1))
        c = comps(p) if p is not None else (0,) * 10
        if kind == "d":
            ey, em = a[4], a[5]
        elif kind == "dt":
            ey, em = a[5], a[6]
        else:
            ey, em = a[3], a[4]
        try:
            d1 = d0.plus_years(c[0])
        except Exception:  # noqa: BLE001
            d1 = d0
        diff = (ey - d1.year) * 19 + em - d1.month
        k = badi_defect_near(d1, sorted({c[1], c[1] + 1, c[1] - 1, diff, diff - 1, diff + 1, c[0] + c[1], c[0] + c[1] + 1}))
        if k is not None:
            return fail("badi-plus-months-month-0", f"{f['what']} [{f['key']}; consequence of plus_months({k}) from {d1.year}-{d1.month}-{d1.day} producing month 0]")
    return f


def between_laws(kind, mask, s, e, p, what):
    c = comps(p)
    what = f"{what} = {c}"
    ps, pe = position(kind, s), position(kind, e)
    sign = (pe > ps) - (pe < ps)
    extra = [NAMES[i] for i in range(10) if c[i] != 0 and not (mask >> i) & 1]
    if extra:
        if kind == "ym" and mask == M and c[0] != 0 and c[1] == 0:
            return fail("between-yearmonth-months-reported-as-years", f"{what}: the month count is in 'years'")
        return fail("between-units-not-asked", f"{what}: non-zero {extra} not among the requested units")
    if any(x * sign < 0 for x in c) or (sign == 0 and any(c)):
        return fail("between-mixed-signs", f"{what}: components not all of the sign of end - start ({sign})")
    try:
        r = apply_period(kind, s, p)
        pr = position(kind, r)
    except Exception as ex:  # noqa: BLE001
        return fail("between-result-not-addable", f"{what}: start + period raised {type(ex).__name__}: {ex}")
    if kind == "t" and pr != ps + total_ns(c):
        return fail("between-time-wraps", f"{what}: start + period = {pr}, start + total = {ps + total_ns(c)}")
    if not min(ps, pe) <= pr <= max(ps, pe):
        return fail("between-out-of-bounds", f"{what}: start + period at {pr} is not between start {ps} and end {pe}")
    if kind == "d":
        finest = bool(mask & D)
    elif kind == "ym":
        finest = bool(mask & M)
    else:
        finest = bool(mask & N) or (bool(mask & T) and (pe - ps) % 100 == 0)
    if finest and pr != pe:
        return fail("between-misses-end", f"{what}: start + period at {pr}, end at {pe}, finest unit requested")
    if mask & (mask - 1) == 0:
        bit = mask.bit_length() - 1
        if sign == 0:
            if c[bit] != 0:
                return fail("between-not-maximal", f"{what}: equal operands")
        else:
            nxt = step(kind, s, bit, c[bit] + sign)
            if kind == "t" and nxt is not None and not 0 <= nxt < NPD:
                nxt = None
            if nxt is not None and (nxt - pe) * sign <= 0:
                if kind in ("d", "dt") and mask == M and sign < 0:
                    sd = s if kind == "d" else s.date
                    if sd.calendar.id == "Badi" and sd.month == 18 and sd.day > 19:
                        return fail("badi-months-between-ayyamiha-not-maximal", f"{what}: start + {c[bit] + sign} months at {nxt} does not pass end {pe}")
                return fail("between-not-maximal", f"{what}: start + {c[bit] + sign} {NAMES[bit]} at {nxt} does not pass end {pe}")
    return None


def o_normalize(c):
    p = mkperiod(c)
    tot = total_ns(c)
    what = f"Period{tuple(c)}.normalize()"
    if abs(tot) >= DEC:
        return None     # beyond the range in which the Decimal-based truncating division is exact (DESIGN section 3)
    q = comps(p.normalize())
    what += f" = {q}"
    if q[0] != c[0] or q[1] != c[1] or q[2] != 0 or q[8] != 0:
        return fail("normalize-fields", f"{what}: years/months changed or weeks/ticks left")
    if total_ns(q) != tot:
        return fail("normalize-total", f"{what}: total {total_ns(q)} ns, was {tot} ns")
    sg = (tot > 0) - (tot < 0)
    lim = [None, None, None, None, 24, 60, 60, 1000, None, 1_000_000]
    for i in (3, 4, 5, 6, 7, 9):
        if q[i] * sg < 0 or (lim[i] and abs(q[i]) >= lim[i]):
            return fail("normalize-not-normal", f"{what}: {NAMES[i]} = {q[i]}")
    return None


def o_toduration(c):
    p = mkperiod(c)
    tot = total_ns(c)
    what = f"Period{tuple(c)}.to_duration()"
    try:
        d = p.to_duration()
    except RuntimeError:
        return None if (c[0] or c[1]) else fail("toduration-raises", f"{what} raised RuntimeError without months/years")
    except (OverflowError, ValueError):
        return None if not DUR_MIN_NS <= tot <= DUR_MAX_NS else fail("toduration-raises", f"{what} raised OverflowError for {tot} ns")
    if c[0] or c[1]:
        return fail("toduration-accepts-months", f"{what} returned a duration")
    got = d._floor_days * NPD + d._nanosecond_of_floor_day
    if got != tot or not 0 <= d._nanosecond_of_floor_day < NPD:
        return fail("toduration-total", f"{what} = {got} ns, total is {tot} ns")
    b = p.to_builder()
    if comps(b.build()) != tuple(c) or b.build() != p:
        return fail("builder-roundtrip", f"Period{tuple(c)}.to_builder().build() = {comps(b.build())}")
    b2 = P().PeriodBuilder(*c)
    if comps(b2.build()) != tuple(c) or any(b2[P().PeriodUnits(1 << i)] != c[i] for i in range(10)):
        return fail("builder-roundtrip", f"PeriodBuilder{tuple(c)} reads back {comps(b2.build())}")
    return None


_key_count = {}
_held_back = {}
KEY_LIMIT = 60


def oracle(t):
    """the framework keeps at most 2000 failures per run; one defect hit by thousands of ops must not crowd out the
    others, so beyond KEY_LIMIT hits of one key the failure is held back on the first evaluation of an op and
    returned when the same op is evaluated again (the search around a model/implementation disagreement)"""
    line = " ".join(t)
    if line in _held_back:
        return _held_back[line]
    f = oracle1(t)
    if f:
        _key_count[f["key"]] = _key_count.get(f["key"], 0) + 1
        if _key_count[f["key"]] > KEY_LIMIT:
            _held_back[line] = f
            return None
    return f


def oracle1(t):
    op = t[0]
    if op == "date.plus":
        return o_plus(t[1], *(int(x) for x in t[2:]))
    if op == "ym.plusmonths":
        o, y, m, n = (int(x) for x in t[1:])
        c = info(o)[0]
        exp = expected_plus_months(o, y, m, 1, n)
        what = f"YearMonth({y}-{m}, {c.id}).plus_months({n})"
        try:
            r = P().YearMonth(year=y, month=m, calendar=c).plus_months(n)
            got = (r.year, r.month)
        except (OverflowError, ValueError):
            if exp and o == 18 and exp[1] == 19 and n > 0:
                return fail("badi-plus-months-month-0", f"{what} raised; expected {exp[:2]} (target month index is a multiple of 19)")
            return fail("plus-months-raises-in-range", f"{what} raised although {exp} is in range") if exp else None
        except decimal.DecimalException:
            if abs(n) >= DEC:
                return None
            raise
        except LookupError as e:
            return fail("plus-months-table-lookup-error", f"{what} raised {type(e).__name__}: {e} instead of OverflowError (month length looked up outside the year table)")
        except Exception as e:  # noqa: BLE001
            return fail(f"plus-months-raises-{type(e).__name__}", f"{what} raised {type(e).__name__}: {e} instead of OverflowError/ValueError")
        if exp is None:
            return fail("plus-months-leaves-range", f"{what} = {got}")
        if got != exp[:2]:
            if o == 18 and exp[1] == 19 and n > 0:
                return fail("badi-plus-months-month-0", f"{what} = {got}; expected {exp[:2]}")
            return fail("plus-months-wrong-result", f"{what} = {got}; expected {exp[:2]}")
        return None
    if op == "date.daysbetween":
        a = [int(x) for x in t[1:]]
        s, e = operands("d", a)
        got = P().Period.days_between(s, e)
        if got != e._days_since_epoch - s._days_since_epoch:
            return fail("days-between", f"days_between({a}) = {got}, day numbers differ by {e._days_since_epoch - s._days_since_epoch}")
        return None
    if op == "date.plusperiod":
        a = [int(x) for x in t[1:]]
        d = mkdate(*a[:4])
        try:
            r1 = d + mkperiod(a[4:8] + [0] * 6)
        except (OverflowError, ValueError):
            r1 = None
        except LookupError as e:
            return fail("plus-months-table-lookup-error", f"{a}: date + period raised {type(e).__name__}: {e}")
        try:
            r2 = d.plus_years(a[4]).plus_months(a[5]).plus_weeks(a[6]).plus_days(a[7])
        except (OverflowError, ValueError):
            r2 = None
        if (r1 is None) != (r2 is None) or (r1 is not None and r1 != r2):
            return fail("plus-period-order", f"{a}: date + period differs from years, months, weeks, days applied in turn")
        return None
    if op == "period.between":
        return o_between(t[1], int(t[2]), [int(x) for x in t[3:]])
    if op == "period.normalize":
        return o_normalize([int(x) for x in t[1:]])
    if op == "period.toduration":
        return o_toduration([int(x) for x in t[1:]])
    return None


# --------------------------------------------------------------------------------------
# generators
# --------------------------------------------------------------------------------------

SPECIAL_MONTHS = {0: [1, 2, 3, 12], 1: [1, 2, 3, 12], 2: [1, 2, 3, 12], 3: [1, 12, 13], 4: [1, 2, 3, 5, 6, 7, 8, 12, 13],
                  5: [1, 6, 7, 8, 9, 11, 12, 13], 6: [1, 6, 7, 11, 12], 7: [1, 6, 7, 11, 12], 8: [1, 6, 7, 11, 12], 17: list(range(1, 13)),
                  18: [1, 17, 18, 18, 18, 19]}
CYCLE = {0: 400, 1: 400, 2: 4, 3: 4, 4: 19, 5: 19, 6: 33, 7: 33, 8: 33, 17: 1, 18: 4}


def gen_year(rng, o):
    c, mny, mxy, _, _ = info(o)
    r = rng.random()
    if r < 0.10:
        return mny + rng.randint(0, 2)
    if r < 0.20:
        return mxy - rng.randint(0, 2)
    if r < 0.45:
        cyc = CYCLE.get(o, 30)
        y = rng.randint(mny // cyc, mxy // cyc) * cyc + rng.choice([-1, 0, 1, 2])
        return min(max(y, mny), mxy)
    if r < 0.55 and o <= 1:
        return rng.choice([1899, 1900, 1901, 2000, 2024, 2099, 2100, 2101, -1, 0, 1, 4])
    if r < 0.55 and o == 18:
        return rng.choice([171, 172, 173, 249, 250, 253, 645, 649, 653, 998, 999, 1, 2])
    if r < 0.55 and o in (4, 5):
        return rng.choice([5784, 5785, 5783, 5782, 5790, 5776])
    return rng.randint(mny, mxy)


def gen_date(rng, o, y=None):
    c = info(o)[0]
    if y is None:
        y = gen_year(rng, o)
    nm = c.get_months_in_year(y)
    sp = [m for m in SPECIAL_MONTHS.get(o, [1, 11, 12]) if m <= nm]
    m = rng.choice(sp) if rng.random() < 0.6 else rng.randint(1, nm)
    dim = c.get_days_in_month(y, m)
    d = rng.choice([1, dim, dim, dim - 1, min(29, dim), min(30, dim), min(19, dim), min(20, dim), rng.randint(1, dim)])
    return (y, m, max(d, 1))


def clamp_date(o, y, m, d):
    c, mny, mxy, _, _ = info(o)
    y = min(max(y, mny), mxy)
    m = min(max(m, 1), c.get_months_in_year(y))
    return (y, m, min(d, c.get_days_in_month(y, m)))


def gen_end(rng, o, a):
    c, mny, mxy, mnd, mxd = info(o)
    r = rng.random()
    d0 = mkdate(o, *a)._days_since_epoch
    if r < 0.05:
        return a
    if r < 0.30:
        k = rng.choice([1, -1, 2, -2, 7, -7, 28, 29, 30, 31, -28, -29, -30, -31, 299, 300, 301, -299, -300, -301, 365, 366,
                        -365, -366, 354, 355, 383, 384, 385, -354, -355, rng.randint(-800, 800)])
        return from_days(o, min(max(d0 + k, mnd), mxd))
    if r < 0.50:
        dy = rng.choice([0, 0, 1, -1, 1, -1, 2, -2, 4, -4, 19, -19, 30, -33, 100, -400, rng.randint(-50, 50)])
        dm = rng.choice([0, 0, 1, -1, 1, -1, 2, -2, 6, -6, 7, rng.randint(-13, 13)])
        dd = rng.choice([0, 0, 1, -1, 2, -2, 30, -30])
        y, m, d = clamp_date(o, a[0] + dy, a[1] + dm, 40)
        dim = c.get_days_in_month(y, m)
        d = min(max(a[2] + dd, 1), dim) if dd not in (30, -30) else (dim if dd > 0 else 1)
        return (y, m, d)
    if r < 0.60:
        return from_days(o, rng.choice([mnd, mnd + 1, mxd, mxd - 1, mnd + rng.randint(0, 400), mxd - rng.randint(0, 400)]))
    if r < 0.80:
        return gen_date(rng, o, min(max(a[0] + rng.randint(-3, 3), mny), mxy))
    return gen_date(rng, o)


def gen_time(rng, other=None):
    r = rng.random()
    if other is not None and r < 0.15:
        return other
    if other is not None and r < 0.30:
        return min(max(other + rng.choice([1, -1, 100, -100, 99, -99, 10 ** 6, -10 ** 6, 10 ** 9, -10 ** 9, 3_600_000_000_000, -3_600_000_000_000]), 0), NPD - 1)
    if r < 0.40:
        return rng.choice([0, NPD - 1, NPD - 100, 1, 100, NPD // 2, 43_200_000_000_000 - 1])
    if r < 0.70:
        return rng.randrange(0, NPD // 100) * 100
    if r < 0.85:
        return rng.randrange(0, 86400) * 1_000_000_000
    return rng.randrange(0, NPD)


def day_amounts(rng, o, a):
    c, mny, mxy, mnd, mxd = info(o)
    d0 = mkdate(o, *a)._days_since_epoch
    dim = c.get_days_in_month(a[0], a[1])
    return [0, 1, -1, dim - a[2], dim - a[2] + 1, -a[2], -a[2] + 1, 299, 300, 301, -299, -300, -301, 298, -298, 365, -365, 366, -366,
            rng.randint(-299, 299), rng.randint(-299, 299), rng.randint(-1000, 1000), rng.randint(-10 ** 6, 10 ** 6),
            mxd - d0, mxd - d0 + 1, mnd - d0, mnd - d0 - 1, rng.choice([10 ** 9, -10 ** 9, 10 ** 30, -10 ** 30])]


def week_amounts(rng, o, a):
    c, mny, mxy, mnd, mxd = info(o)
    d0 = mkdate(o, *a)._days_since_epoch
    return [0, 1, -1, 4, -4, 5, -5, 42, 43, -42, -43, 52, 53, -52, -53, rng.randint(-42, 42), rng.randint(-5000, 5000),
            (mxd - d0) // 7, (mxd - d0) // 7 + 1, -((d0 - mnd) // 7), -((d0 - mnd) // 7) - 1]


def month_amounts(rng, o, a):
    c, mny, mxy, _, _ = info(o)
    nm = c.get_months_in_year(a[0])
    out = [0, 1, -1, 2, -2, nm, -nm, nm - a[1], nm - a[1] + 1, -a[1], -a[1] + 1, 12, 13, -12, -13, 19, -19, 38, 33,
           234, 235, 236, -234, -235, -236, 470, -470, 360, -360, 396, -396, 4800, -4800, 2 * nm - a[1], 3 * nm - a[1],
           rng.randint(-40, 40), rng.randint(-40, 40), rng.randint(-3000, 3000), rng.randint(-200000, 200000),
           (mxy - a[0]) * nm, (mxy - a[0] + 1) * nm, (mxy - a[0] + 2) * nm, (mny - a[0]) * nm, (mny - a[0] - 1) * nm, (mny - a[0] - 2) * nm,
           rng.choice([10 ** 7, -10 ** 7, 10 ** 12, -10 ** 12])]
    if rng.random() < 0.1:
        out.append(rng.choice([10 ** 30, -10 ** 30, 10 ** 27, -10 ** 27 + 1]))
    return out


def year_amounts(rng, o, a):
    c, mny, mxy, _, _ = info(o)
    return [0, 1, -1, 2, -2, 3, 4, -4, 19, -19, 30, -30, 33, -33, 100, -100, 400, -400, rng.randint(-30, 30), rng.randint(-3000, 3000),
            mxy - a[0], mxy - a[0] + 1, mny - a[0], mny - a[0] - 1, rng.choice([10 ** 6, -10 ** 6, 10 ** 30])]


def gen_plus_ops(ctx):
    rng = ctx.rng
    ops = []
    n_dates = ctx.scale(100, 2500)
    for o in ordinals():
        for i in range(n_dates):
            a = gen_date(rng, o)
            pre = f"{o} {a[0]} {a[1]} {a[2]}"
            pick = (lambda l: l) if ctx.thorough or i < 6 else (lambda l: rng.sample(l, max(6, len(l) // 3)))
            ops += [f"date.plus days {pre} {n}" for n in pick(day_amounts(rng, o, a))]
            ops += [f"date.plus weeks {pre} {n}" for n in pick(week_amounts(rng, o, a))]
            ops += [f"date.plus months {pre} {n}" for n in pick(month_amounts(rng, o, a))]
            ops += [f"date.plus years {pre} {n}" for n in pick(year_amounts(rng, o, a))]
            ops += [f"ym.plusmonths {o} {a[0]} {a[1]} {n}" for n in rng.sample(month_amounts(rng, o, a), 4)]
            ops.append(f"date.plusperiod {pre} {rng.randint(-3, 3)} {rng.randint(-30, 30)} {rng.randint(-60, 60)} {rng.randint(-400, 400)}")
    # the documented example of the Badi defect and its neighbours
    ops += [f"date.plus months 18 10 5 1 {n}" for n in (32, 33, 34, 14, 15, 52, -5, -24)]
    ops += ["date.plus months 17 1500 2 1 38", "date.plus months 8 9375 12 19 360"]
    return ops


def gen_between_ops(ctx):
    rng = ctx.rng
    ops = []
    date_masks = list(range(1, 16))
    time_masks = [m << 4 for m in range(1, 64)]
    all_masks = list(range(1, 1024))
    for o in ordinals():
        for _ in range(ctx.scale(170, 3000)):
            a = gen_date(rng, o)
            b = gen_end(rng, o, a)
            pre = f"{o} {a[0]} {a[1]} {a[2]} {b[0]} {b[1]} {b[2]}"
            ops += [f"period.between d {mk} {pre}" for mk in date_masks]
            ops.append(f"period.between d {rng.choice([0, 16, 24, 512, 1023, 17])} {pre}")
            ops.append(f"date.daysbetween {pre}")
            ops += [f"period.between ym {mk} {o} {a[0]} {a[1]} {b[0]} {b[1]}" for mk in (1, 2, 3)]
        for i in range(ctx.scale(26, 300)):
            a = gen_date(rng, o)
            b = gen_end(rng, o, a)
            ta = gen_time(rng)
            tb = gen_time(rng, ta)
            pre = f"{o} {a[0]} {a[1]} {a[2]} {ta} {b[0]} {b[1]} {b[2]} {tb}"
            masks = all_masks if (ctx.thorough or i < 3) else [1 << k for k in range(10)] + rng.sample(all_masks, 70)
            ops += [f"period.between dt {mk} {pre}" for mk in masks]
        ops.append(f"period.between ym {rng.choice([0, 4, 8, 7, 16])} {o} {a[0]} {a[1]} {b[0]} {b[1]}")
    # month differences at the ends of the Hebrew calendars and backwards out of Ayyam-i-Ha (Badi)
    for o in (4, 5):
        c, mny, mxy, mnd, mxd = info(o)
        for _ in range(ctx.scale(12, 400)):
            a = gen_date(rng, o)
            b = from_days(o, rng.choice([mnd + rng.randint(0, 40), mxd - rng.randint(0, 40)]))
            ops += [f"period.between d {mk} {o} {a[0]} {a[1]} {a[2]} {b[0]} {b[1]} {b[2]}" for mk in (2, 3, 10, 15)]
    for _ in range(ctx.scale(12, 400)):
        y = gen_year(rng, 18)
        a = (y, 18, rng.randint(20, info(18)[0].get_days_in_month(y, 18)))
        b = gen_end(rng, 18, a)
        ops += [f"period.between d {mk} 18 {a[0]} {a[1]} {a[2]} {b[0]} {b[1]} {b[2]}" for mk in (2, 3, 10, 15)]
        b = clamp_date(18, y - rng.choice([0, 0, 1, 5]), rng.randint(1, 18), rng.randint(1, 6))
        ops += [f"period.between d {mk} 18 {a[0]} {a[1]} {a[2]} {b[0]} {b[1]} {b[2]}" for mk in (2, 3, 10, 15)]
    ops += ["period.between d 2 4 3603 8 29 1 1 19", "period.between d 2 18 564 18 22 1 11 1", "period.between ym 2 0 2020 1 2021 3"]
    for _ in range(ctx.scale(250, 3000)):
        ta = gen_time(rng)
        tb = gen_time(rng, ta)
        ops += [f"period.between t {mk} {ta} {tb}" for mk in time_masks]
        ops.append(f"period.between t {rng.choice([0, 1, 8, 15, 1023, 24])} {ta} {tb}")
    return ops


def gen_period_ops(ctx):
    rng = ctx.rng
    ops = []

    def comp(big):
        r = rng.random()
        if r < 0.3:
            return 0
        if r < 0.6:
            return rng.randint(-100, 100)
        if r < 0.9:
            return rng.randint(-10 ** 6, 10 ** 6)
        return rng.randint(-big, big)

    for _ in range(ctx.scale(8000, 200000)):
        c = [rng.choice([0, 0, 0, rng.randint(-5, 5)]), rng.choice([0, 0, 0, rng.randint(-20, 20)]), comp(10 ** 5), comp(10 ** 7),
             comp(10 ** 9), comp(10 ** 11), comp(10 ** 13), comp(10 ** 16), comp(10 ** 18), comp(10 ** 22)]
        if rng.random() < 0.15:
            k = rng.randrange(2, 10)
            c = [0] * 10
            c[k] = rng.choice([1, -1]) * rng.choice([1, 23, 24, 25, 59, 60, 61, 999, 1000, 1001, 86399, 86400, 10 ** 9, 2 ** 63, 10 ** 26])
            c[rng.randrange(2, 10)] += rng.choice([0, 1, -1])
        if rng.random() < 0.1:
            s = rng.choice([1, -1])
            c = [c[0], c[1]] + [s * abs(x) for x in c[2:]]
        line = " ".join(map(str, c))
        ops.append("period.normalize " + line)
        ops.append("period.toduration " + line)
    ops.append("period.toduration 0 0 0 1073741824 0 0 0 0 0 -1")
    ops.append("period.toduration 0 0 0 1073741824 0 0 0 0 0 0")
    ops.append("period.toduration 0 0 0 -1073741824 0 0 0 0 0 0")
    ops.append("period.toduration 0 0 0 -1073741824 0 0 0 0 0 -1")
    return ops


def neighbours(t):
    if t[0] == "date.plus":
        n = int(t[-1])
        return [" ".join(t[:-1] + [str(n + k)]) for k in (1, -1, 2, -2)]
    if t[0] == "period.between":
        mask = int(t[2])
        return [" ".join(t[:2] + [str(1 << k)] + t[3:]) for k in range(10) if mask >> k & 1 and mask != 1 << k]
    return []


EVALUATED = ["cal.wf 4", "cal.wf 5", "cal.wf 8", "cal.wf 17", "cal.wf 18", "date.wf 4", "date.wf 5"]


def run(ctx):
    # hypotheses of Pyoda.C09.Evaluated, evaluated on the compiled driver while the correspondence runs
    # (cal.wf 4|5 walk every day of 9999 Hebrew years: about 10 s each, on their own pinned processes)
    from concurrent.futures import ThreadPoolExecutor
    import common
    pool = ThreadPoolExecutor(max_workers=3)
    futures = {op: pool.submit(common.model_eval, [op], META["drivers"][0]) for op in EVALUATED[:2]}
    futures["rest"] = pool.submit(common.model_eval, EVALUATED[2:] + [f"date.wf {o}" for o in range(19)], META["drivers"][0])
    ctx.correspond("datearith.plus", gen_plus_ops(ctx), impl, oracle=oracle, neighbours=neighbours)
    ctx.correspond("datearith.between", gen_between_ops(ctx), impl, oracle=oracle, neighbours=neighbours)
    ctx.correspond("datearith.period", gen_period_ops(ctx), impl, oracle=oracle)
    ctx.check_cases("month-order", [(o, y) for o in ordinals() for y in sorted({info(o)[1], info(o)[2], gen_year(ctx.rng, o), gen_year(ctx.rng, o)})],
                    month_order_case)
    replies = {}
    rest_ops = EVALUATED[2:] + [f"date.wf {o}" for o in range(19)]
    for op, r in zip(rest_ops, futures["rest"].result()):
        replies[op] = r
    for op in EVALUATED[:2]:
        replies[op] = futures[op].result()[0]
    pool.shutdown()

    def evaluated_case(op):
        if replies.get(op) != "1":
            return fail("evaluated-hypothesis-false", f"driver op {op} replied {replies.get(op)!r}: a hypothesis of the C09 theorems "
                        "(calendar well-formedness / minimum year length) does not hold for the model's calendar description")
        return None
    ctx.check_cases("evaluated-hypotheses", sorted(replies), evaluated_case, exhaustive=True)
    ctx.note("calendars", len(ordinals()))


def month_order_case(case):
    """the chronological month order assumed by the month-index reference: 1..n (Hebrew scriptural: from Tishri)"""
    o, y = case
    c = info(o)[0]
    n = c.get_months_in_year(y)
    starts = [P().LocalDate(y, m, 1, c)._days_since_epoch for m in month_order(o, y)]
    lens = [c.get_days_in_month(y, m) for m in month_order(o, y)]
    if any(starts[i] + lens[i] != starts[i + 1] for i in range(n - 1)) or starts[0] != P().LocalDate._ctor(
            days_since_epoch=starts[0], calendar=c)._days_since_epoch or sum(lens) != c.get_days_in_year(y):
        return fail("month-order", f"{c.id} year {y}: months {month_order(o, y)} do not tile the year")
    if o == 5 and month_order(o, y)[0] != 7:
        return fail("month-order", f"Hebrew scriptural year {y} does not start with month 7")
    return None


def replay_op(op, failure):
    return oracle1(op.split(" "))
