"""C07 — formatting then parsing with the same pattern returns the original value.

Also hosts the machinery shared by the Text-area checks (C07, C08, C17): value codecs, the built-in pattern
registry, the independent pattern-text analyser, the grammar-directed pattern generator, and the
model-correspondence ops (`num.*`, `iso.*`, `pyiso.*`) evaluated on the real code."""
from __future__ import annotations

import os
import random

from common import InfraError, guard, hexs, model_eval

NPD = 86_400_000_000_000
NPS = 1_000_000_000
NPH = 3600 * NPS
NPM = 60 * NPS
DUR_MIN_DAYS, DUR_MAX_DAYS = -(1 << 30), (1 << 30) - 1
INST_MIN_DAYS, INST_MAX_DAYS = -4371222, 2932896
OFF_MAX = 64800

META = {
    "property": "C07",
    "proof_modules": ["PyodaProofs.C07", "PyodaProofs.C07b", "PyodaProofs.C07Stepped", "PyodaProofs.C07Reformat", "PyodaProofs.C07Instances", "PyodaProofs.C07DateTime", "PyodaProofs.C07Text", "PyodaProofs.C07TextInstances", "PyodaProofs.C07Duration", "PyodaProofs.C07Segmented", "PyodaProofs.C07SegmentedInstances", "PyodaProofs.C07Calendar", "PyodaProofs.C07Instant", "PyodaProofs.GenAgreeC07N"],
    "drivers": ["drv_text"],
    "theorems": [
        "Pyoda.C07.parseDigits_leftPad",
        "Pyoda.C07.parseDigits_pad2",
        "Pyoda.C07.parseDigits_pad4",
        "Pyoda.C07.parseFraction_appendFraction",
        "Pyoda.C07.parseFraction_appendFraction_exact",
        "Pyoda.C07.parseFraction_appendFractionTruncate",
        "Pyoda.C07.appendFractionTruncate_removes_dot",
        "Pyoda.C07.iso_time_roundtrip",
        "Pyoda.C07.iso_time_long_roundtrip",
        "Pyoda.C07.iso_time_general_roundtrip",
        "Pyoda.C07.iso_date_roundtrip",
        "Pyoda.C07.iso_datetime_roundtrip",
        "Pyoda.C07.iso_datetime_general_roundtrip",
        "Pyoda.C07.iso_datetime_bcl_roundtrip",
        "Pyoda.C07.iso_instant_roundtrip",
        "Pyoda.C07.iso_instant_general_roundtrip",
        "Pyoda.C07.iso_offset_roundtrip",
        "Pyoda.C07.iso_offset_z_roundtrip",
        "Pyoda.C07.iso_time_format_injective",
        "Pyoda.C07.iso_date_format_injective",
        "Pyoda.C07.iso_time_general_reformat",
        "Pyoda.C07.iso_time_general_parsed_chars",
        "Pyoda.C07.formatNum_eq",
        "Pyoda.C07.parseField_numOut",
        "Pyoda.C07.truncOut_cases",
        "Pyoda.C07.step_roundtrip",
        "Pyoda.C07.steps_roundtrip",
        "Pyoda.C07.lastSafe_sound",
        "Pyoda.C07.follow_sound",
        "Pyoda.C07.delimited_stepsOK",
        "Pyoda.C07.stepped_roundtrip",
        "Pyoda.C07.pattern_roundtrip",
        "Pyoda.C07.isoTime_compiles",
        "Pyoda.C07.isoTime_delimited",
        "Pyoda.C07.isoDate_compiles",
        "Pyoda.C07.isoDate_delimited",
        "Pyoda.C07.offsetLong_compiles",
        "Pyoda.C07.offsetLong_delimited",
        "Pyoda.C07.isoTime_generic_roundtrip",
        "Pyoda.C07.parseDigits_fixed_inv",
        "Pyoda.C07.parseField_fixed_inv",
        "Pyoda.C07.parseSteps_frame",
        "Pyoda.C07.reformat_idempotent",
        "Pyoda.C07.isoDate_generic_roundtrip",
        "Pyoda.C07.offsetLong_generic_roundtrip",
        "Pyoda.C07.datetime_pattern_roundtrip",
        "Pyoda.C07.isoDateTime_compiles",
        "Pyoda.C07.isoDateTime_delimited",
        "Pyoda.C07.isoDateTime_generic_roundtrip",
        "Pyoda.C07.mCI_short",
        "Pyoda.C07.mCI_long",
        "Pyoda.C07.findLongest_inv",
        "Pyoda.C07.parseLongest_formatted",
        "Pyoda.C07.monthText_roundtrip",
        "Pyoda.C07.dayText_roundtrip",
        "Pyoda.C07.amPm_roundtrip",
        "Pyoda.C07.eraScan_sound",
        "Pyoda.C07.era_roundtrip",
        "Pyoda.C07.calendar_roundtrip",
        "Pyoda.C07.notCharCI_sound",
        "Pyoda.C07.invariant_monthNamesOK",
        "Pyoda.C07.invariant_dayNamesOK",
        "Pyoda.C07.invariant_amPmOK",
        "Pyoda.C07.invariant_eraOK",
        "Pyoda.C07.invariant_dangers",
        "Pyoda.C07.longDate_compiles",
        "Pyoda.C07.longDate_delimited",
        "Pyoda.C07.longDate_generic_roundtrip",
        "Pyoda.C07.clock_compiles",
        "Pyoda.C07.clock_delimited",
        "Pyoda.C07.clock_generic_roundtrip",
        "Pyoda.C07.annualIso_compiles",
        "Pyoda.C07.annualIso_delimited",
        "Pyoda.C07.annualIso_generic_roundtrip",
        "Pyoda.C07.durRoundtrip_compiles",
        "Pyoda.C07.durJson_compiles",
        "Pyoda.C07.durRoundtrip_delimited",
        "Pyoda.C07.durJson_delimited",
        "Pyoda.C07.dur_getters",
        "Pyoda.C07.dur_totalHours",
        "Pyoda.C07.dur_value",
        "Pyoda.C07.durRoundtrip_generic_roundtrip",
        "Pyoda.C07.durJson_generic_roundtrip",
        "Pyoda.C07.spec_nonDigit",
        "Pyoda.C07.spec_notChar",
        "Pyoda.C07.spec_notCharCI",
        "Pyoda.C07.followF_sound",
        "Pyoda.C07.delimitedF_stepsOK",
        "Pyoda.C07.lastSafeList_sound",
        "Pyoda.C07.segs_roundtrip",
        "Pyoda.C07.segFollow_sound",
        "Pyoda.C07.delimitedSegs_segsOK",
        "Pyoda.C07.segmented_roundtrip",
        "Pyoda.C07.embedded_compiles",
        "Pyoda.C07.embedded_delimited",
        "Pyoda.C07.embedded_generic_roundtrip",
        "Pyoda.C07.eraC_roundtrip",
        "Pyoda.C07.matchText_diverge",
        "Pyoda.C07.parseCalendarId_of_diverge",
        "Pyoda.C07.calIdOK_all",
        "Pyoda.C07.fullDate_compiles",
        "Pyoda.C07.fullDate_delimited",
        "Pyoda.C07.calendar_years_four_digits",
        "Pyoda.C07.fullDate_generic_roundtrip",
        "Pyoda.C07.validDate_of_validate",
        "Pyoda.C07.instantFields_spec",
        "Pyoda.C07.daysOfDate_spec",
        "Pyoda.C07.instant_adapter_roundtrip",
        "Pyoda.C07.isoInstant_compiles",
        "Pyoda.C07.isoInstant_delimited",
        "Pyoda.C07.isoInstantPattern_roundtrip",
        "Pyoda.C07.isoInstant_generic_roundtrip",
        # agreement of the definitions generated from the Python source (tools/py2lean.py) with the model
        "Pyoda.GenAgree.C07N.gen_FormatHelper_leftPadNonNegative_eq",
        "Pyoda.GenAgree.C07N.gen_FormatHelper_leftPadNonNegative_dom",
        "Pyoda.GenAgree.C07N.gen_FormatHelper_format2DigitsNonNegative_eq",
        "Pyoda.GenAgree.C07N.gen_FormatHelper_format4DigitsValueFits_eq",
        "Pyoda.GenAgree.C07N.gen_FormatHelper_leftPad_eq", "Pyoda.GenAgree.C07N.gen_FormatHelper_appendFraction_eq",
        "Pyoda.GenAgree.C07N.gen_FormatHelper_formatInvariant_eq",
        "Pyoda.GenAgree.C07N.gen_FormatHelper_appendFractionTruncate_eq", "Pyoda.GenAgree.C07N.gen_Cursor_length_eq",
        "Pyoda.GenAgree.C07N.gen_Cursor_value_eq", "Pyoda.GenAgree.C07N.gen_Cursor_index_eq",
        "Pyoda.GenAgree.C07N.gen_Cursor_current_eq", "Pyoda.GenAgree.C07N.gen_Cursor_hasMoreCharacters_eq",
        "Pyoda.GenAgree.C07N.gen_Cursor_move_eq", "Pyoda.GenAgree.C07N.gen_Cursor_moveNext_eq",
        "Pyoda.GenAgree.C07N.gen_Cursor_movePrevious_eq", "Pyoda.GenAgree.C07N.gen_Cursor_parseDigits_eq",
        "Pyoda.GenAgree.C07N.gen_Cursor_parseDigits_model", "Pyoda.GenAgree.C07N.gen_Cursor_parseFraction_eq",
        "Pyoda.GenAgree.C07N.gen_Cursor_parseFraction_model", "Pyoda.GenAgree.C07N.gen_Cursor_matchText_eq",
        "Pyoda.GenAgree.C07N.gen_Cursor_matchText_rest", "Pyoda.GenAgree.C07N.gen_Cursor_getDigit_eq",
        "Pyoda.GenAgree.C07N.gen_Cursor_remainder_eq", "Pyoda.GenAgree.C07N.gen_Cursor_peekNext_eq",
        "Pyoda.GenAgree.C07N.gen_StringBuilder_length_eq", "Pyoda.GenAgree.C07N.gen_StringBuilder_getitem_eq",
        "Pyoda.GenAgree.C07N.gen_StringBuilder_toString_eq",
    ],
    "trusted_base": [
        "translator tie (tools/py2lean.py; GenAgreeC07N, builder T4): what Python's str operations mean is PyodaGen/TextSupport.lean — a str is the list of its code points, s[i] a character (negative indices from the end, IndexError outside), slices with Python's clamping, f\"{v:0N}\" / f\"{v:0{n}d}\" sign-aware zero padding (ValueError for n < 0), f\"{v:0>{n}}\" fill-right (a negative n = -k reads as sign option + width k), str(int), c.isdigit() as the table of CPython's 808 digit code points, int(c) only for '0'..'9', int(a * math.pow(10.0, k)) as the exact integer a*10^k ONLY where the double computation is exact (0 <= k <= 22, 0 <= a, a*10^k < 2^53) — outside these ranges, and for format widths above INT_MAX, the generated code answers 'outside the modelled domain'; all of it is compared with CPython on every run of the C03 check (tools/py2lean_selftest.py text_selftest: 25 corpus functions, every code point for isdigit, 21 must-refuse programs). The StringBuilder (append, length, item, length setter) and the four cursor attributes are explicit state (PyodaGen/GlueC07N.lean, the StringBuilder operations hand-written from _string_builder.py); the cursor methods themselves are translated",
        "float step of _ValueCursor._parse_fraction (int(result * math.pow(10.0, scale - count))) is exact for at most 9 digits (products below 2^53); sampled by suite text.num",
        "str.isdigit()/int() on ASCII digits; str slicing and comparison by code point",
    ],
    "partial": [
        "translator tie covers the numeric core only: _FormatHelper (_left_pad_non_negative, _format_2_digits_non_negative, _format_4_digits_value_fits, _left_pad, _append_fraction, _append_fraction_truncate, _format_invariant) and _TextCursor/_ValueCursor (length, value, current, index, has_more_characters, remainder, peek_next, move, move_next, move_previous, _match, _parse_digits, _parse_fraction, __get_digit), each proved equal to the model of PyodaModel/Text/Numeric.lean on cursor states VC.at v i (text v, index i; remaining text v.drop i). Hypotheses: widths <= INT_MAX; |value| < 10^27 where _towards_zero_division (Decimal) is used; _parse_fraction for maximum_digits <= scale <= 15 (where the float scaling is exact); cursor index inside 0..len for the scanning functions. Outside the tie (refused by the translator, correspondence only): _parse_int64 and __build_number_out_of_range_result (walrus over a raising call under `and` in the loop test; ParseResult objects carrying formatted messages), _match_case_insensitive (str.lower), _compare_ordinal (str ordering of whole strings), __str__, the pattern compiler and every step built on top of these primitives",
        "the theorems cover the modelled subset only: numeric primitives and the built-in ISO patterns (LocalDatePattern.iso, LocalTimePattern.extended_iso/long_extended_iso/general_iso, LocalDateTimePattern.extended_iso/general_iso/bcl_round_trip, InstantPattern.extended_iso/general over date-time fields, OffsetPattern g/G in the invariant culture) as straight-line functions",
        "generic engine (PyodaModel/Text/Stepped, Engine, Buckets; tied to the code by suites text.pat.compile/fmt/parse): stepped_roundtrip and pattern_roundtrip hold for every culture record and every Delimited list of steps of LocalTime, LocalDate (ISO), LocalDateTime (ISO, any template), Offset, AnnualDate (any template) and Duration patterns: literal / padded numeric / fraction (f, F, .F, ;F) / ';' / sign steps and the TEXT steps month names (MMM, MMMM; genitive and plain tables searched together), day names (ddd, dddd), am/pm designators (t, tt), era names (g) and the calendar id (c, ISO values); 'Representable' is stated as: the value is determined by the projection of its fields onto the slots the pattern sets; it is discharged for LocalTimePattern.extended_iso, LocalDatePattern.iso, the long Offset pattern, LocalDateTimePattern.extended_iso, the invariant long-date pattern 'dddd, dd MMMM yyyy' (every date of the common era), 'hh:mm tt' (every whole minute), AnnualDatePattern.iso (every annual date) and DurationPattern.roundtrip '-D:hh:mm:ss.FFFFFFFFF' and json_roundtrip '-H:mm:ss.FFFFFFFFF' for EVERY Duration from min_value to max_value inclusive (…_generic_roundtrip); other patterns instantiate it case by case; the share of generated patterns for which the decidable criterion Delimited holds is recorded under notes",
        "text steps: Delimited includes the decidable culture conditions NamesOK = monthNamesOK / dayNamesOK (every name of the table used on format is non-empty and no other position of the tables searched on parse holds a name of the same length equal to it up to ASCII case), amPmOK (t: first characters differ up to case; tt: the shorter designator is not a prefix of the longer up to case), eraOK (scanning the era names in parse order, the first name matching a primary name is that name) AND that the literal/field that follows a text step cannot continue a written name into a longer candidate (monthDanger / dayDanger / amPmDanger / eraDanger = the characters by which some candidate strictly extends a formatted name; Follow.notCharCI); the core theorem is parseLongest_formatted; the conditions are evaluated per run by the model (op cu.names, suite text.names, compared with the harness's own evaluation on the code's format info) and cultures failing them are listed in the notes together with concrete values that do not round-trip on the real code (e.g. 'h:mm t' where both designators start with the same character; 'MMM.'-style patterns where one month table has 'Jan' and the other 'Jan.'): these are properties of the culture data, not of the engine; CASE FOLDING is a parameter: _match_case_insensitive compares substring.lower() == match.lower(), modelled character by character with the folding lowC cu = ASCII lower-casing plus the run's table cu.fold of (character, str.lower(character)) pairs for the non-ASCII characters of the culture's names and of the text at hand (sent with every pat.parse / cu.names / pat.delim op); every theorem of C07Text.lean (mCI_short/long, findLongest_inv, parseLongest_formatted, the month/day/am-pm/era round trips) is stated and proved for ANY folding function Char -> Char (no idempotence needed), the culture-level ones for lowC cu with any table; the model answers !dom only when a character is not listed, which the harness arranges for exactly the two characters whose str.lower() is not character-wise: U+0130 (two characters) and U+03A3 (final-sigma rule) — about 0.2 % of the hostile parse ops (was 20 %)",
        "LocalDateTime custom patterns (one step list over date and time fields, combined bucket dtValue = _combine_buckets incl. the 24:00 roll-over, any ISO template value) are inside the engine (datetime_pattern_roundtrip); Representable is discharged for LocalDateTimePattern.extended_iso for every value and every template with whole seconds (isoDateTime_generic_roundtrip; an omitted optional fraction takes the template's fraction, example in C07DateTime.lean); tied to LocalDateTimePattern.create(text, culture, template) by suites text.pat.compile/fmt/parse (type tokens datetime / datetime:y,m,d,nod)",
        "patterns with embedded parts (ld<...>, lt<...> = Pat.segmented): segmented_roundtrip holds for every culture record, every template and every list of segments passing the decidable criterion DelimitedSegs (Delimited segment by segment — plain steps in the outer culture / field set, an embedded pattern in its own — each step against the text the FOLLOWING segments write: followF / segFollow; the trailing-dot buffer invariant is threaded through the segments), for values whose fields the steps can hold (SegValOK) and that the embedded patterns and the outer bucket represent (RepresentableSeg: each embedded pattern's own calculate_value returns its part, dtValueE of the outer bucket returns the value); discharged for ld<yyyy-MM-dd>'T'lt<HH:mm:ss> (embedded_compiles: it is what compileDateTime builds; embedded_generic_roundtrip: every common-era date with every time of day whose fraction of a second is the template's, any common-era template); DelimitedSegs is evaluated by the model on every generated pattern with embedded parts (op pat.delim = 3 / 2, share recorded under notes)",
        "all 19 calendars are inside the model (date fields, year of era / era of every calendar, the calendar field c for every id, template values in any calendar: type tokens dateC:/datetimeC:, values with their calendar ordinal; calculate_value through the calendar descriptions Calendar.Calc of property C01, with the repaired behaviour of the calendar-from-text finding) and tied to the code by suites text.pat.compile/fmt/parse over all 19 calendars; stepped_roundtrip / pattern_roundtrip cover the calendar step for every calendar (calendar_roundtrip: the id of any ordinal 0..18 is written and read back into the bucket's calendar slot; the ids are prefix-free in both directions, calIdOK_all) and the era step of the single-era calendars (eraC_roundtrip); Representable is discharged for LocalDatePattern.full_roundtrip uuuu'-'MM'-'dd '('c')' for EVERY date of EVERY calendar (fullDate_generic_roundtrip: any ordinal, any date the calendar has); other non-ISO patterns instantiate it case by case",
        "the Instant adapter is inside the model (PyodaModel/Text/InstantAdapter.lean, ops inst.fmt / inst.parse over (day number, nanosecond of day), StartOfTime / EndOfTime for the two sentinel instants): Instant -> in_utc().local_date_time through the calendar-less ISO constructor of the C01 calendar model (Greg.ymdOfDaysFast + the packed representation), LocalDateTime -> Instant through _get_days_since_epoch of the date's calendar; instantFields_spec / daysOfDate_spec: the two conversions are mutually inverse on the whole Instant range (from C01: gregorian_days_ymd_days, gregorian_ymd_days_ymd, the table paths greg_ymdOfDaysFast_eq / greg_daysOfYmdFast_eq, viaPacked_id); instant_adapter_roundtrip: if the LocalDateTime pattern round-trips the UTC date-time, the Instant pattern round-trips the instant; isoInstant_generic_roundtrip: InstantPattern.extended_iso round-trips EVERY Instant (min_value .. max_value, every nanosecond) through the generic engine",
        "NOT covered by theorems (correspondence and direct oracles only): str.lower() for U+0130 / U+03A3 (see above), ICU culture data extraction; reformat_idempotent (generic engine) covers patterns of literals and full-width non-negative numeric fields with distinct slots at the level of steps and buckets (the accessors must return the parsed field values); variable-width fields, fractions, signs and the sign-carrying 'uuuu' are excluded (negative zero, optional parts)",
    ],
    "rule": "distinct = distinct (pattern, culture, value) triple or op line; non-trivial = the pattern was created and the value formatted",
}


def _P():
    import pyoda_time as P
    return P


def _T():
    import pyoda_time.text as T
    return T


def fail(key, what):
    return {"key": key, "what": what}


# ---------------------------------------------------------------------------------------------------
# cultures
# ---------------------------------------------------------------------------------------------------

_CULT = {}


def have_icu():
    try:
        import icu
        return hasattr(icu, "Locale") and icu.Locale.getDefault() is not None and hasattr(icu.Locale, "getAvailableLocales")
    except Exception:  # noqa: BLE001
        return False


def culture(name):
    """'' = invariant"""
    if name in _CULT:
        return _CULT[name]
    from pyoda_time._compatibility._culture_info import CultureInfo
    c = CultureInfo.invariant_culture if name == "" else CultureInfo.read_only(CultureInfo.get_culture_info(name))
    _CULT[name] = c
    return c


def culture_names(ctx, quick_n):
    """invariant always; with real ICU a seeded sample (all in thorough)"""
    names = [""]
    if not have_icu():
        if "real ICU not available: only the invariant culture is exercised" not in ctx.assumptions:
            ctx.assumptions.append("real ICU not available: only the invariant culture is exercised")
        return names
    from pyoda_time._compatibility._culture_info import CultureInfo
    from pyoda_time._compatibility._culture_types import CultureTypes
    allc = sorted(c.name for c in CultureInfo.get_cultures(CultureTypes.ALL_CULTURES) if c.name)
    if ctx.thorough:
        return names + allc
    must = [n for n in ("en-US", "fr-FR", "zh-Hant-TW", "ar-SA", "ja-JP", "az-Latn-AZ", "th-TH", "fa-IR", "he-IL") if n in allc]
    rest = [n for n in allc if n not in must]
    return names + must + ctx.rng.sample(rest, max(0, min(len(rest), quick_n - len(must))))


def fmt_info(cname):
    from pyoda_time.globalization._pyoda_format_info import _PyodaFormatInfo
    return _PyodaFormatInfo._get_format_info(culture(cname))


# ---------------------------------------------------------------------------------------------------
# value codecs (canonical tuples <-> real objects)
# ---------------------------------------------------------------------------------------------------

_CAL = {}


def cal(cid):
    if cid not in _CAL:
        _CAL[cid] = _P().CalendarSystem.for_id(cid)
    return _CAL[cid]


def cal_ids():
    return list(_P().CalendarSystem.ids)


def mk(ty, v):
    P = _P()
    if ty == "offset":
        return P.Offset.from_seconds(v)
    if ty == "duration":
        return P.Duration._ctor(days=v[0], nano_of_day=v[1])
    if ty == "instant":
        return P.Instant._ctor(days=v[0], nano_of_day=v[1])
    if ty == "time":
        return P.LocalTime.from_nanoseconds_since_midnight(v)
    if ty == "date":
        return P.LocalDate(v[1], v[2], v[3], cal(v[0]))
    if ty == "datetime":
        return P.LocalDate(v[1], v[2], v[3], cal(v[0])).at(P.LocalTime.from_nanoseconds_since_midnight(v[4]))
    if ty == "annual":
        return P.AnnualDate(v[0], v[1])
    raise ValueError(ty)


def unmk(ty, x):
    if ty == "offset":
        return x.seconds
    if ty == "duration":
        return (x._floor_days, x._nanosecond_of_floor_day)
    if ty == "instant":
        return (x._days_since_epoch, x._nanosecond_of_day)
    if ty == "time":
        return x.nanosecond_of_day
    if ty == "date":
        return (x.calendar.id, x.year, x.month, x.day)
    if ty == "datetime":
        return (x.calendar.id, x.year, x.month, x.day, x.nanosecond_of_day)
    if ty == "annual":
        return (x.month, x.day)
    raise ValueError(ty)


def valid_value(ty, x):
    """independent statement of 'a valid value of the type' (inside its range) for a parse success"""
    P = _P()
    try:
        if ty == "offset":
            return isinstance(x, P.Offset) and -OFF_MAX <= x.seconds <= OFF_MAX
        if ty == "duration":
            return isinstance(x, P.Duration) and DUR_MIN_DAYS <= x._floor_days <= DUR_MAX_DAYS and 0 <= x._nanosecond_of_floor_day < NPD
        if ty == "instant":
            return isinstance(x, P.Instant) and INST_MIN_DAYS <= x._days_since_epoch <= INST_MAX_DAYS and 0 <= x._nanosecond_of_day < NPD
        if ty == "time":
            return isinstance(x, P.LocalTime) and 0 <= x.nanosecond_of_day < NPD
        if ty in ("date", "datetime"):
            d = x if ty == "date" else x.date
            if not isinstance(d, P.LocalDate):
                return False
            c = d.calendar
            if not (c.min_year <= d.year <= c.max_year):
                return False
            if not (1 <= d.month <= c.get_months_in_year(d.year) and 1 <= d.day <= c.get_days_in_month(d.year, d.month)):
                return False
            if not (c._min_days <= d._days_since_epoch <= c._max_days):
                return False
            if ty == "datetime" and not (0 <= x.nanosecond_of_day < NPD):
                return False
            return True
        if ty == "annual":
            return isinstance(x, P.AnnualDate) and 1 <= x.month <= 12 and 1 <= x.day <= [31, 29, 31, 30, 31, 30, 31, 31, 30, 31, 30, 31][x.month - 1]
    except Exception:  # noqa: BLE001
        return False
    return False


PCLS = {"offset": "OffsetPattern", "duration": "DurationPattern", "instant": "InstantPattern", "time": "LocalTimePattern",
        "date": "LocalDatePattern", "datetime": "LocalDateTimePattern", "annual": "AnnualDatePattern"}


def pcls(ty):
    return getattr(_T(), PCLS[ty])


_PATS = {}


def create(ty, text, cname="", calid=None):
    """pattern creation through the public API; cached (pattern objects are immutable)"""
    k = (ty, text, cname, calid)
    if k in _PATS:
        return _PATS[k]
    cls = pcls(ty)
    p = cls.create_with_invariant_culture(text) if cname == "" else cls.create(text, culture(cname))
    if calid is not None and calid != "ISO":
        p = p.with_calendar(cal(calid))
    if len(_PATS) > 20000:
        _PATS.clear()
    _PATS[k] = p
    return p


def template_value(ty, tmpl):
    """(calid, y, m, d[, nod]) -> LocalDate / LocalDateTime template value"""
    P = _P()
    d = P.LocalDate(tmpl[1], tmpl[2], tmpl[3], cal(tmpl[0]))
    if ty == "date":
        return d
    return d.at(P.LocalTime.from_nanoseconds_since_midnight(tmpl[4] if len(tmpl) > 4 else 0))


_TMPL_PATS = {}


def create_tmpl(ty, text, cname, tmpl, how="create", fresh=False):
    """LocalDate / LocalDateTime pattern whose template value is (calid, y, m, d[, nod]), built through the public API in
    one of three ways: create(text, culture, template) | create(text, culture).with_template_value(template) |
    create(text, culture).with_calendar(calendar of the template)"""
    k = (ty, text, cname, tmpl, how)
    if not fresh and k in _TMPL_PATS:
        return _TMPL_PATS[k]
    cls = pcls(ty)
    if how == "create":
        p = cls.create(text, culture(cname), template_value(ty, tmpl))
    elif how == "with_template_value":
        p = cls.create(text, culture(cname)).with_template_value(template_value(ty, tmpl))
    elif how == "with_calendar":
        p = cls.create(text, culture(cname)).with_calendar(cal(tmpl[0]))
    else:
        raise ValueError(how)
    if len(_TMPL_PATS) > 20000:
        _TMPL_PATS.clear()
    _TMPL_PATS[k] = p
    return p


# ---------------------------------------------------------------------------------------------------
# built-in patterns
# ---------------------------------------------------------------------------------------------------

# (type, attribute, precision in ns the pattern carries, calendars?)
BUILTINS = [
    ("offset", "general_invariant", 1, False), ("offset", "general_invariant_with_z", 1, False),
    ("duration", "roundtrip", 1, False), ("duration", "json_roundtrip", 1, False),
    ("instant", "extended_iso", 1, False), ("instant", "general", NPS, False),
    ("time", "extended_iso", 1, False), ("time", "long_extended_iso", 1, False), ("time", "general_iso", NPS, False),
    ("time", "hour_minute_iso", NPM, False), ("time", "hour_iso", NPH, False), ("time", "variable_precision_iso", 1, False),
    ("date", "iso", 1, False), ("date", "full_roundtrip", 1, True),
    ("datetime", "extended_iso", 1, False), ("datetime", "bcl_round_trip", 100, False),
    ("datetime", "full_roundtrip_without_calendar", 1, False), ("datetime", "full_roundtrip", 1, True),
    ("datetime", "general_iso", NPS, False), ("datetime", "date_hour_minute_iso", NPM, False),
    ("datetime", "date_hour_iso", NPH, False), ("datetime", "variable_precision_iso", 1, False),
    ("annual", "iso", 1, False),
]


def builtin(ty, attr):
    return getattr(pcls(ty), attr)


def trunc_value(ty, v, prec):
    if prec == 1:
        return v
    if ty == "time":
        return v - v % prec
    if ty in ("instant",):
        return (v[0], v[1] - v[1] % prec)
    if ty == "datetime":
        return v[:4] + (v[4] - v[4] % prec,)
    return v


# ---------------------------------------------------------------------------------------------------
# value generators (boundary-biased, whole range of each type)
# ---------------------------------------------------------------------------------------------------

def gen_nod(rng):
    c = rng.random()
    if c < 0.15:
        return rng.choice([0, 1, NPS - 1, NPS, NPM - 1, NPM, NPH - 1, NPH, 12 * NPH - 1, 12 * NPH, 13 * NPH, NPD - 1, NPD - NPS, 11 * NPH + 59 * NPM + 59 * NPS + 999999999])
    sec = rng.choice([0, 59, 60, 3599, 3600, 43199, 43200, 86399]) if c < 0.35 else rng.randrange(86400)
    w = rng.randint(0, 9)
    ns = 0 if w == 0 else rng.randrange(10 ** w) * 10 ** (9 - w)
    return sec * NPS + ns


def gen_days(rng, lo, hi):
    c = rng.random()
    if c < 0.2:
        return max(lo, min(hi, rng.choice([lo, hi, 0, -1, 1, -719162, -719163, -719528, 10957, 11016, 11017]) + rng.choice([0, 0, 1, -1, 2, -2, 365, -365, 366])))
    if c < 0.3:
        return rng.randint(max(lo, -1000), min(hi, 1000)) if lo <= 0 <= hi else rng.randint(lo, min(hi, lo + 1000))
    if c < 0.4:
        return rng.randint(max(lo, hi - 800), hi) if rng.random() < 0.5 else rng.randint(lo, min(hi, lo + 800))
    return rng.randint(lo, hi)


def date_from_days(calid, days):
    """-> (calid, y, m, d) or None when the calendar's day <-> date mapping is not self-consistent there (C01 defects)"""
    P = _P()
    try:
        d = P.LocalDate._ctor(days_since_epoch=days, calendar=cal(calid))
        y, m, dd = d.year, d.month, d.day
        e = P.LocalDate(y, m, dd, cal(calid))
        if e._days_since_epoch != days or e != d:
            return None
        return (calid, y, m, dd)
    except Exception:  # noqa: BLE001
        return None


def gen_value(rng, ty, calid="ISO"):
    if ty == "offset":
        c = rng.random()
        if c < 0.2:
            return rng.choice([0, 1, -1, 59, -59, 60, -60, 3599, 3600, 3601, -3600, -3601, OFF_MAX, -OFF_MAX, OFF_MAX - 1, -OFF_MAX + 1, 19800, -34200])
        if c < 0.5:
            return 60 * rng.randint(-1080, 1080)
        return rng.randint(-OFF_MAX, OFF_MAX)
    if ty == "duration":
        c = rng.random()
        if c < 0.25:
            d = rng.choice([DUR_MIN_DAYS, DUR_MAX_DAYS, 0, -1, 1, DUR_MIN_DAYS + 1, DUR_MAX_DAYS - 1])
        elif c < 0.6:
            d = rng.randint(-3, 3)
        else:
            d = rng.randint(DUR_MIN_DAYS, DUR_MAX_DAYS)
        return (d, gen_nod(rng))
    if ty == "instant":
        return (gen_days(rng, INST_MIN_DAYS, INST_MAX_DAYS), gen_nod(rng))
    if ty == "time":
        return gen_nod(rng)
    if ty in ("date", "datetime"):
        c = cal(calid)
        for _ in range(20):
            v = date_from_days(calid, gen_days(rng, c._min_days, c._max_days))
            if v is not None:
                return v if ty == "date" else v + (gen_nod(rng),)
        return None
    if ty == "annual":
        m = rng.randint(1, 12)
        dim = [31, 29, 31, 30, 31, 30, 31, 31, 30, 31, 30, 31][m - 1]
        return (m, rng.choice([1, 2, 9, 10, 28, dim, rng.randint(1, dim)]))
    raise ValueError(ty)


# ---------------------------------------------------------------------------------------------------
# round-trip oracle on the real code
# ---------------------------------------------------------------------------------------------------

def roundtrip_failure(ty, pat, v, label, expect=None, fresh=None):
    """parse(format(v)) == v (or `expect`), determinism, text re-formats to itself"""
    x = mk(ty, v)
    try:
        s = pat.format(x)
        s2 = pat.format(mk(ty, v))
    except Exception as e:  # noqa: BLE001
        return fail("format-raises-" + type(e).__name__, f"{label}: format({v!r}) raised {type(e).__name__}: {e}")
    if s != s2:
        return fail("format-nondeterministic", f"{label}: format({v!r}) gave {s!r} then {s2!r}")
    if fresh is not None:
        try:
            s3 = fresh().format(x)
        except Exception as e:  # noqa: BLE001
            return fail("format-raises-" + type(e).__name__, f"{label}: fresh pattern format raised {e}")
        if s3 != s:
            return fail("format-nondeterministic", f"{label}: a freshly created pattern formats {v!r} as {s3!r}, the cached one as {s!r}")
    try:
        r = pat.parse(s)
    except Exception as e:  # noqa: BLE001
        return fail("parse-raises-" + type(e).__name__, f"{label}: parse({s!r}) raised {type(e).__name__}: {e}")
    if not r.success:
        return fail("roundtrip-parse-fails", f"{label}: format({v!r}) = {s!r} does not parse back: {str(r.exception)[:160]}")
    got = unmk(ty, r.value)
    want = v if expect is None else expect
    if got != want:
        return fail("roundtrip-value-differs", f"{label}: format({v!r}) = {s!r} parses to {got!r}")
    try:
        s4 = pat.format(r.value)
    except Exception as e:  # noqa: BLE001
        return fail("format-raises-" + type(e).__name__, f"{label}: re-format raised {e}")
    if s4 != s:
        return fail("reformat-differs", f"{label}: {s!r} parses, but re-formats as {s4!r}")
    return None


def oracle_builtin(case):
    ty, attr, v = case
    prec = next(b[2] for b in BUILTINS if b[0] == ty and b[1] == attr)
    pat = builtin(ty, attr)
    return roundtrip_failure(ty, pat, trunc_value(ty, v, prec), f"{PCLS[ty]}.{attr}")


def oracle_builtin_calendar(case):
    """iso / extended_iso patterns re-targeted to another calendar with with_calendar"""
    ty, attr, v = case
    pat = builtin(ty, attr).with_calendar(cal(v[0]))
    return roundtrip_failure(ty, pat, v, f"{PCLS[ty]}.{attr}.with_calendar({v[0]})")


# ---------------------------------------------------------------------------------------------------
# independent pattern-text analyser (does not use the code's cursor)
# ---------------------------------------------------------------------------------------------------

LETTERS = {
    "time": set("HhmsfFt"), "date": set("yuMdcg"), "datetime": set("yuMdcgHhmsfFtTl"), "annual": set("Md"),
    "offset": set("HmsZ"), "duration": set("DHMSdhmsfF"), "instant": set("yuMdcgHhmsfFtTl"),
}


class NotAnalysable(Exception):
    pass


def tokenize(ty, text):
    """-> list of ('lit', str) | ('field', ch, n) | ('dotfrac', ch, n) | ('sep', '/'|':') | ('sign', ch) | ('embed', kind, inner)"""
    out = []
    i, n = 0, len(text)
    has_dot = ty in ("time", "datetime", "duration", "instant")
    has_semi = ty in ("time", "datetime", "instant")
    while i < n:
        c = text[i]
        if c in "'\"":
            j = i + 1
            buf = []
            while True:
                if j >= n:
                    raise NotAnalysable("unterminated quote")
                if text[j] == c:
                    break
                if text[j] == "\\":
                    j += 1
                    if j >= n:
                        raise NotAnalysable("escape at end")
                buf.append(text[j])
                j += 1
            out.append(("lit", "".join(buf)))
            i = j + 1
        elif c == "\\":
            if i + 1 >= n:
                raise NotAnalysable("escape at end")
            out.append(("lit", text[i + 1]))
            i += 2
        elif c == "%":
            i += 1
        elif (c == "." and has_dot) or (c == ";" and has_semi):
            if i + 1 < n and text[i + 1] == "F":
                j = i + 1
                while j < n and text[j] == "F":
                    j += 1
                out.append(("dotfrac", c, j - i - 1))
                i = j
            else:
                out.append(("lit" if c == "." else "semi", "."))
                i += 1
        elif c == "/" and ty in ("date", "datetime", "annual", "instant"):
            out.append(("sep", "/"))
            i += 1
        elif c == ":" and ty in ("time", "datetime", "offset", "duration", "instant"):
            out.append(("sep", ":"))
            i += 1
        elif c in "+-" and ty in ("offset", "duration"):
            out.append(("sign", c))
            i += 1
        elif c == "l" and ty in ("datetime", "instant"):
            kind = text[i + 1] if i + 1 < n else ""
            if kind not in "dt" or not kind or i + 2 >= n or text[i + 2] != "<":
                raise NotAnalysable("embedded")
            depth, j = 1, i + 3
            while j < n and depth:
                if text[j] == "<":
                    depth += 1
                elif text[j] == ">":
                    depth -= 1
                elif text[j] == "\\":
                    j += 1
                elif text[j] in "'\"":
                    q = text[j]
                    j += 1
                    while j < n and text[j] != q:
                        if text[j] == "\\":
                            j += 1
                        j += 1
                j += 1
            if depth:
                raise NotAnalysable("embedded unterminated")
            out.append(("embed", kind, text[i + 3:j - 1]))
            i = j
        elif ("a" <= c <= "z") or ("A" <= c <= "Z"):
            j = i
            while j < n and text[j] == c:
                j += 1
            if c == "T" and ty in ("datetime", "instant"):
                out.extend([("lit", "T")] * (j - i))
            else:
                out.append(("field", c, j - i))
            i = j
        else:
            out.append(("lit", c))
            i += 1
    return out


def flatten(ty, toks):
    """embedded date/time patterns contribute their fields"""
    out = []
    for t in toks:
        if t[0] == "embed":
            out.extend(flatten("date" if t[1] == "d" else "time", tokenize("date" if t[1] == "d" else "time", t[2])))
        else:
            out.append(t)
    return out


def names_ok(names, lo=1, hi=12):
    sub = [names[i] for i in range(lo, hi + 1)] if len(names) > hi else None
    if not sub or any(not s for s in sub):
        return False
    low = [s.lower() for s in sub]
    if len(set(low)) != len(low):
        return False
    if any(len(s.lower()) != len(s) for s in sub):
        return False
    return True


class Info:
    """what a pattern's fields can represent"""

    def __init__(self):
        self.f = {}          # letter -> count (numeric/text fields)
        self.frac = None     # digits carried, or None
        self.sign = None
        self.delimited = True
        self.fixed_numeric = True   # every numeric field full width, no text fields, no optional parts
        self.ok = True
        self.why = ""


MAXW = {"time": {"H": 2, "h": 2, "m": 2, "s": 2}, "date": {"u": 4, "y": 4, "M": 2, "d": 2},
        "annual": {"M": 2, "d": 2}, "offset": {"H": 2, "m": 2, "s": 2},
        "duration": {"D": 10, "H": 14, "M": 14, "S": 14, "h": 2, "m": 2, "s": 2}}
MAXW["datetime"] = {**MAXW["time"], **MAXW["date"]}
MAXW["instant"] = MAXW["datetime"]


def analyse(ty, text, cname=""):
    """-> Info. Independent of the code's pattern cursor; only meaningful for patterns the code accepts."""
    info = Info()
    try:
        toks = flatten(ty, tokenize(ty, text))
    except NotAnalysable as e:
        info.ok, info.why = False, str(e)
        return info
    fi = fmt_info(cname)
    am, pm = fi.am_designator, fi.pm_designator
    seps = {"/": fi.date_separator, ":": fi.time_separator}
    # render every token into (kind, first-char-class) to decide delimitation
    elems = []
    for t in toks:
        if t[0] in ("lit", "semi"):
            elems.append(("lit", t[1]))
            if t[0] == "semi":
                info.fixed_numeric = False
        elif t[0] == "sep":
            elems.append(("lit", seps[t[1]]))
        elif t[0] == "sign":
            info.sign = t[1]
            elems.append(("sign", t[1]))
        elif t[0] == "dotfrac":
            info.frac = t[2]
            info.fixed_numeric = False
            elems.append(("optdotnum", t[2], t[1]))
        elif t[0] == "field":
            ch, n = t[1], t[2]
            if ch in "fF":
                info.frac = n
                elems.append(("num", n, n) if ch == "f" else ("num", 0, n))
                if ch == "F":
                    info.fixed_numeric = False
                continue
            if ch == "t":
                info.f["t"] = n
                info.fixed_numeric = False
                elems.append(("text", [am[:1], pm[:1]] if n == 1 else [am, pm]))
                continue
            if ch == "g":
                info.f["g"] = n
                info.fixed_numeric = False
                elems.append(("text", None))
                continue
            if ch == "c":
                info.f["c"] = n
                info.fixed_numeric = False
                elems.append(("text", None))
                continue
            if ch == "Z" and ty == "offset":
                info.f["Z"] = 1
                info.fixed_numeric = False
                elems.append(("text", None))
                continue
            if ch in "Md" and n >= 3 and ty != "duration":
                info.f[ch + "t"] = n
                info.fixed_numeric = False
                if ch == "M":
                    tabs = [fi.short_month_names, fi.short_month_genitive_names] if n == 3 else [fi.long_month_names, fi.long_month_genitive_names]
                    for tb in tabs:
                        if not names_ok(tb):
                            info.ok, info.why = False, "month names not pairwise distinct"
                    # across the two tables a name must not denote two months
                    a, b = tabs
                    if len(a) > 12 and len(b) > 12:
                        for i in range(1, 13):
                            for j in range(1, 13):
                                if i != j and a[i] and a[i].lower() == b[j].lower():
                                    info.ok, info.why = False, "genitive/plain month names collide"
                    elems.append(("text", [x for tb in tabs for x in tb if x]))
                else:
                    tb = fi.short_day_names if n == 3 else fi.long_day_names
                    if not names_ok(tb, 1, 7):
                        info.ok, info.why = False, "day names not pairwise distinct"
                    elems.append(("text", [x for x in tb if x]))
                continue
            mw = MAXW[ty].get(ch)
            if mw is None:
                info.ok, info.why = False, f"unknown field {ch}"
                return info
            info.f[ch] = n
            if n != mw:
                info.fixed_numeric = False
            neg = ch == "u"
            elems.append(("num", n, mw, neg))
    # delimitation: a variable-width numeric (or an optional fraction) must not be followed by a digit-capable element;
    # a text element must not be followed by something that could extend another table entry
    for k, e in enumerate(elems):
        nxt = elems[k + 1] if k + 1 < len(elems) else None
        if e[0] == "num" and e[1] != e[2] or e[0] == "optdotnum":
            if nxt is not None:
                if nxt[0] in ("num", "optdotnum"):
                    if not (e[0] == "num" and nxt[0] == "optdotnum"):
                        info.delimited = False
                elif nxt[0] == "lit" and (nxt[1][:1].isdigit()):
                    info.delimited = False
                elif nxt[0] == "lit" and e[0] == "optdotnum" and (nxt[1][:1] == "." or (e[2] == ";" and nxt[1][:1] == ",")):
                    info.delimited = False   # an omitted optional fraction followed by a literal '.'/',' reads as a fraction
                elif nxt[0] == "text" and (nxt[1] is None or any(x[:1].isdigit() for x in nxt[1])):
                    info.delimited = False
        if e[0] == "lit" and e[1] == "" :
            pass
        if e[0] == "num" and len(e) > 3 and e[3] and k > 0:
            pass
        if e[0] == "text" and e[1] is not None and nxt is not None and nxt[0] == "lit" and nxt[1]:
            # the literal must not turn the formatted name into a longer table entry
            for x in e[1]:
                for y in e[1]:
                    if len(y) > len(x) and y.lower().startswith(x.lower()) and (x + nxt[1]).lower().startswith(y.lower()[:len(x) + len(nxt[1])]):
                        info.delimited = False
        if e[0] == "text" and e[1] is not None and nxt is not None and nxt[0] in ("num", "optdotnum"):
            # digits of the following field must not turn the formatted name into a longer table entry
            for x in e[1]:
                for y in e[1]:
                    if len(y) > len(x) and y.lower().startswith(x.lower()) and y[len(x)].isdigit():
                        info.delimited = False
        if e[0] == "text" and e[1] is not None and nxt is not None and nxt[0] in ("text",) and nxt[1]:
            for x in e[1]:
                for y in e[1]:
                    if len(y) > len(x) and y.lower().startswith(x.lower()):
                        info.delimited = False
    # a literal ending in '.' directly before a truncating fraction is eaten by the formatter: report separately
    for k, e in enumerate(elems[:-1]):
        nx = elems[k + 1]
        if e[0] == "lit" and e[1].endswith(".") and nx[0] == "num" and nx[1] == 0:
            info.dot_eaten = True
    # am/pm representability
    if "t" in info.f:
        n = info.f["t"]
        a, p = (am[:1], pm[:1]) if n == 1 else (am, pm)
        if a and p and a.lower() == p.lower():
            info.ok, info.why = False, "am/pm designators indistinguishable"
        if (a and not p) or (p and not a):
            pass
        if not a and not p:
            info.f.pop("t")
            info.t_empty = True
        for x in (a, p):
            if x and len(x.lower()) != len(x):
                info.ok, info.why = False, "designator changes length under lower()"
    return info


# ---------------------------------------------------------------------------------------------------
# representable values for a pattern (Info) — boundary-biased
# ---------------------------------------------------------------------------------------------------

def rep_time(rng, info, template_nod=0):
    th = template_nod // NPH
    f = info.f
    if "H" in f or ("h" in f and "t" in f):
        hour = rng.choice([0, 1, 9, 10, 11, 12, 13, 23, rng.randrange(24)])
    elif "h" in f:
        hour = rng.choice([0, 1, 9, 10, 11, rng.randrange(12)]) + 12 * (th // 12)
    elif "t" in f:
        hour = th % 12 + 12 * rng.randrange(2)
    else:
        hour = th
    tm = template_nod % NPH // NPM
    ts = template_nod % NPM // NPS
    tn = template_nod % NPS
    mi = rng.choice([0, 1, 9, 10, 59, rng.randrange(60)]) if "m" in f else tm
    s = rng.choice([0, 1, 9, 10, 59, rng.randrange(60)]) if "s" in f else ts
    if info.frac:
        k = info.frac
        q = rng.choice([0, 0, 1, 10 ** k - 1, 10 ** (k - 1), rng.randrange(10 ** k), rng.randrange(10 ** k) // 10 * 10])
        ns = q * 10 ** (9 - k)
    else:
        ns = tn
    return hour * NPH + mi * NPM + s * NPS + ns


def rep_date(rng, info, pat, calid):
    """value (calid, y, m, d) the date fields can represent; None if no luck"""
    P = _P()
    f = info.f
    tv = getattr(pat, "template_value", None)
    if tv is None:
        tv = getattr(pat, "_LocalDateTimePattern__template_value", None)
    if tv is None:
        tv = P.LocalDate(2000, 1, 1)
    if hasattr(tv, "date"):
        tv = tv.date
    ccal = cal(calid)
    if "c" not in f and tv.calendar.id != calid:
        return None
    # With a calendar field the value's calendar may differ from the template's: fields the pattern lacks are still taken
    # from the template value BY NUMBER (year, month, day, century of the two-digit year); the era is the template's when
    # the value's calendar has that era (ISO / Gregorian / Julian share theirs), and the calendar's only era otherwise.
    eras = list(ccal.eras())
    era_eff = tv.era if tv.era in eras else (eras[0] if len(eras) == 1 else None)
    for _ in range(30):
        v = gen_value(rng, "date", calid)
        if v is None:
            return None
        _, y, m, d = v
        if "u" not in f:
            if "y" in f:
                x = P.LocalDate(y, m, d, ccal)
                if "g" not in f:
                    if era_eff is None:
                        return None
                    if x.era != era_eff:
                        continue
                if f["y"] == 2:
                    if era_eff is None:
                        return None
                    # two-digit years: the 100-year window ending at century(template)+two_digit_year_max (30)
                    cent = tv.year_of_era // 100
                    yoe = x.year_of_era
                    lo, hi = (cent - 1) * 100 + 31, cent * 100 + 30
                    if cent <= 1:
                        lo, hi = cent * 100, cent * 100 + 99
                    if not (lo <= yoe <= hi) or x.era != era_eff:
                        lo2, hi2 = max(lo, ccal.get_min_year_of_era(era_eff)), min(hi, ccal.get_max_year_of_era(era_eff))
                        if lo2 > hi2:
                            return None
                        yy = rng.randint(lo2, hi2)
                        try:
                            y = ccal.get_absolute_year(yy, era_eff)
                        except Exception:  # noqa: BLE001
                            continue
            else:
                y = tv.year
        if "M" not in f and "Mt" not in f:
            m = tv.month
        if "Mt" in f and m > 12:
            m = rng.randint(1, 12)
        if "d" not in f:
            d = tv.day
        try:
            x = P.LocalDate(y, m, d, ccal)
            if date_from_days(calid, x._days_since_epoch) != (calid, y, m, d):
                continue
        except Exception:  # noqa: BLE001
            continue
        return (calid, y, m, d)
    return None


def rep_offset(rng, info):
    f = info.f
    h = rng.choice([0, 1, 9, 10, 17, 18, rng.randrange(19)]) if "H" in f else 0
    mi = rng.choice([0, 1, 30, 59, rng.randrange(60)]) if "m" in f else 0
    s = rng.choice([0, 1, 59, rng.randrange(60)]) if "s" in f else 0
    if h == 18:
        mi = s = 0
    v = h * 3600 + mi * 60 + s
    if info.sign is not None and rng.random() < 0.5:
        v = -v
    return v


def rep_duration(rng, info):
    f = info.f
    units = {"D": NPD, "H": NPH, "M": NPM, "S": NPS}
    total = next((c for c in "DHMS" if c in f), None)
    mag = 0
    if total:
        u = units[total]
        mx = (DUR_MAX_DAYS + 1) * NPD // u - 1
        mag += rng.choice([0, 1, 9, 10, 23, 24, 25, 59, 60, 61, 99, 100, mx, mx - 1, rng.randint(0, mx), rng.randint(0, 1000)]) * u
        cap = u
    else:
        cap = NPD
    for ch, u, n in (("h", NPH, 24), ("m", NPM, 60), ("s", NPS, 60)):
        if ch in f and u < cap:
            mag += rng.choice([0, 1, n - 1, rng.randrange(n)]) * u
        elif ch in f:
            return None  # partial field not smaller than the total field: not representable in general
    if info.frac:
        k = info.frac
        mag += rng.choice([0, 1, 10 ** k - 1, rng.randrange(10 ** k)]) * 10 ** (9 - k)
    mag = min(mag, (DUR_MAX_DAYS + 1) * NPD - 1)
    if info.sign is not None and rng.random() < 0.5:
        mag = -mag
    return divmod(mag, NPD)


def representable(rng, ty, info, pat, calid="ISO"):
    if ty == "time":
        tv = getattr(pat, "template_value", None)
        return rep_time(rng, info, tv.nanosecond_of_day if tv is not None else 0)
    if ty == "date":
        return rep_date(rng, info, pat, calid)
    if ty == "datetime":
        d = rep_date(rng, info, pat, calid)
        if d is None:
            return None
        tv = getattr(pat, "_LocalDateTimePattern__template_value", None)
        return d + (rep_time(rng, info, tv.nanosecond_of_day if tv is not None else 0),)
    if ty == "instant":
        d = rep_date(rng, info, None, "ISO")
        if d is None:
            return None
        P = _P()
        days = P.LocalDate(d[1], d[2], d[3])._days_since_epoch
        return (days, rep_time(rng, info, 0))
    if ty == "annual":
        f = info.f
        m = rng.randint(1, 12) if ("M" in f or "Mt" in f) else 1
        dim = [31, 29, 31, 30, 31, 30, 31, 31, 30, 31, 30, 31][m - 1]
        d = rng.choice([1, 2, 9, 10, 28, dim, rng.randint(1, dim)]) if "d" in f else 1
        return (m, d)
    if ty == "offset":
        return rep_offset(rng, info)
    if ty == "duration":
        return rep_duration(rng, info)
    raise ValueError(ty)


# ---------------------------------------------------------------------------------------------------
# grammar-directed pattern generator
# ---------------------------------------------------------------------------------------------------

SAFE_LIT = [" ", ",", "_", "~", "!", "#", "@", "(", ")", "=", "  ", ", "]
QUOTED = ["at", "o'clock", "x", "T", "den ", " de ", "h", "Z", "née", "日", "#5", "a\\b", 'say "hi"', " "]


def lit(rng, ty, allow_dq=True):
    c = rng.random()
    if c < 0.35:
        s = rng.choice(SAFE_LIT)
        if ty in ("offset", "duration"):
            s = s.replace("-", "").replace("+", "") or " "
        return s
    if c < 0.5 and ty in ("time", "datetime", "offset", "duration", "instant"):
        return ":"
    if c < 0.6 and ty in ("date", "datetime", "annual", "instant"):
        return "/"
    if c < 0.7 and ty in ("date", "datetime", "annual", "instant"):
        return "-"
    if c < 0.9:
        q = rng.choice("'\"" if allow_dq else "'")
        body = rng.choice(QUOTED)
        esc = "".join(("\\" + ch) if ch in (q, "\\") else ch for ch in body)
        return q + esc + q
    ch = rng.choice(["x", "q", "-", "'", '"', "\\", "z", "<", "%"])
    if ch == "-" and ty in ("offset", "duration"):
        ch = "_"   # a literal '-' after an optional sign is inherently ambiguous
    return "\\" + ch


def gen_time_fields(rng):
    fs = []
    c = rng.random()
    if c < 0.5:
        fs.append(rng.choice(["H", "HH"]))
    elif c < 0.85:
        fs.append(rng.choice(["h", "hh"]))
        if rng.random() < 0.8:
            fs.append(rng.choice(["t", "tt"]))
    elif c < 0.9:
        fs.append(rng.choice(["t", "tt"]))
    if rng.random() < 0.85:
        fs.append(rng.choice(["m", "mm"]))
        if rng.random() < 0.75:
            fs.append(rng.choice(["s", "ss"]))
            c = rng.random()
            k = rng.randint(1, 9)
            if c < 0.3:
                fs[-1] = fs[-1] + rng.choice([".", ";"]) + "F" * k
            elif c < 0.5:
                fs.append("f" * k)
            elif c < 0.6:
                fs.append("F" * k)
    if rng.random() < 0.3:
        rng.shuffle(fs)
    return fs


def gen_date_fields(rng, with_cal=True):
    fs = []
    c = rng.random()
    if c < 0.45:
        fs.append("u" * rng.randint(1, 4))
    elif c < 0.8:
        fs.append(rng.choice(["yyyy", "yy"]))
        if rng.random() < 0.5:
            fs.append(rng.choice(["g", "gg"]))
    elif c < 0.9:
        fs.extend(["uuuu", rng.choice(["yyyy", "yy"])])
    if rng.random() < 0.9:
        fs.append(rng.choice(["M", "MM", "MMM", "MMMM", "MM", "M"]))
    if rng.random() < 0.85:
        fs.append(rng.choice(["d", "dd"]))
    if rng.random() < 0.3:
        fs.append(rng.choice(["ddd", "dddd"]))
    if with_cal and rng.random() < 0.2 and not any(x.startswith("g") for x in fs):
        fs.append("c")
    if rng.random() < 0.4:
        rng.shuffle(fs)
    return fs


def join_fields(rng, ty, fs, allow_dq=True):
    out = []
    if rng.random() < 0.15:
        out.append(lit(rng, ty, allow_dq))
    for i, f in enumerate(fs):
        out.append(f)
        if i + 1 < len(fs):
            glue = rng.random() >= 0.97 and f[-1] != fs[i + 1][0] and not (f[-1] in ".;" and fs[i + 1][0] == "F")
            out.append("" if glue else lit(rng, ty, allow_dq))
    if rng.random() < 0.15:
        out.append(lit(rng, ty, allow_dq))
    s = "".join(out)
    if len(s) == 1:
        s = "%" + s
    return s


def gen_custom(rng, ty):
    """-> pattern text for the type (mostly valid and delimited)"""
    if ty == "time":
        fs = gen_time_fields(rng) or ["HH"]
        return join_fields(rng, ty, fs)
    if ty == "date":
        fs = gen_date_fields(rng) or ["uuuu"]
        return join_fields(rng, ty, fs)
    if ty in ("datetime", "instant"):
        c = rng.random()
        if c < 0.2 and ty == "datetime":
            d = join_fields(rng, "date", gen_date_fields(rng, rng.random() < 0.5) or ["uuuu"], allow_dq=True)
            t = join_fields(rng, "time", gen_time_fields(rng) or ["HH"])
            parts = ["ld<" + d + ">", "lt<" + t + ">"]
            if rng.random() < 0.3:
                parts.reverse()
            return parts[0] + lit(rng, "datetime") + parts[1]
        df = gen_date_fields(rng, with_cal=(ty == "datetime")) or ["uuuu"]
        tf = gen_time_fields(rng) or ["HH"]
        sep = rng.choice(["T", " ", "'T'", " 'at' "])
        a = join_fields(rng, ty, df)
        b = join_fields(rng, ty, tf)
        return a + sep + b if rng.random() < 0.85 else b + sep + a
    if ty == "annual":
        fs = [rng.choice(["M", "MM", "MMM", "MMMM"])]
        if rng.random() < 0.9:
            fs.append(rng.choice(["d", "dd"]))
        if rng.random() < 0.3:
            fs.reverse()
        return join_fields(rng, ty, fs)
    if ty == "offset":
        fs = [rng.choice(["H", "HH"])]
        if rng.random() < 0.8:
            fs.append(rng.choice(["m", "mm"]))
            if rng.random() < 0.6:
                fs.append(rng.choice(["s", "ss"]))
        body = join_fields(rng, ty, fs)
        sign = rng.choice(["+", "-", "+", ""])
        z = "Z" if rng.random() < 0.15 else ""
        return z + sign + body
    if ty == "duration":
        fs = []
        c = rng.random()
        if c < 0.4:
            fs.append("D" * rng.randint(1, 3))
            rest = ["h", "m", "s"]
        elif c < 0.55:
            fs.append("H" * rng.randint(1, 3))
            rest = ["m", "s"]
        elif c < 0.7:
            fs.append("M" * rng.randint(1, 3))
            rest = ["s"]
        elif c < 0.8:
            fs.append("S" * rng.randint(1, 3))
            rest = []
        else:
            rest = ["h", "m", "s"]
        for r in rest:
            if rng.random() < 0.85:
                fs.append(r * rng.randint(1, 2))
            else:
                break
        if fs and (fs[-1][0] in "sS"):
            c = rng.random()
            k = rng.randint(1, 9)
            if c < 0.35:
                fs[-1] += "." + "F" * k
            elif c < 0.5:
                fs.append("f" * k)
        if not fs:
            fs = ["hh"]
        body = join_fields(rng, ty, fs)
        return rng.choice(["-", "+", "-", ""]) + body
    raise ValueError(ty)


STANDARD = {"date": "dDMRr", "time": "oOtTr", "datetime": "oOrRsSfFgG", "offset": "gGiIlmsLMS", "duration": "oj",
            "instant": "g", "annual": "G"}


def expand_standard(ty, ch, cname):
    """culture-derived expansion of a standard pattern letter, read from the code's culture record; None = built-in"""
    fi = fmt_info(cname)
    d = fi.date_time_format
    if ty == "date":
        return {"d": d.short_date_pattern, "D": d.long_date_pattern, "M": d.month_day_pattern}.get(ch)
    if ty == "time":
        return {"t": d.short_time_pattern, "T": d.long_time_pattern, "r": "HH:mm:ss.FFFFFFFFF"}.get(ch)
    if ty == "datetime":
        return {"f": f"{d.long_date_pattern} {d.short_time_pattern}", "F": d.full_date_time_pattern,
                "g": f"{d.short_date_pattern} {d.short_time_pattern}", "G": f"{d.short_date_pattern} {d.long_time_pattern}"}.get(ch)
    if ty == "offset":
        return {"l": fi.offset_pattern_long, "m": fi.offset_pattern_medium, "s": fi.offset_pattern_short,
                "L": fi.offset_pattern_long_no_punctuation, "M": fi.offset_pattern_medium_no_punctuation,
                "S": fi.offset_pattern_short_no_punctuation}.get(ch)
    return None


BUILTIN_STD = {("date", "R"): ("uuuu'-'MM'-'dd", 1), ("date", "r"): ("uuuu'-'MM'-'dd '('c')'", 1),
               ("time", "o"): ("HH':'mm':'ss;FFFFFFFFF", 1), ("time", "O"): ("HH':'mm':'ss;fffffffff", 1),
               ("datetime", "o"): ("uuuu'-'MM'-'dd'T'HH':'mm':'ss'.'fffffff", 1), ("datetime", "O"): ("uuuu'-'MM'-'dd'T'HH':'mm':'ss'.'fffffff", 1),
               ("datetime", "r"): ("uuuu'-'MM'-'dd'T'HH':'mm':'ss'.'fffffffff '('c')'", 1),
               ("datetime", "R"): ("uuuu'-'MM'-'dd'T'HH':'mm':'ss'.'fffffffff", 1),
               ("datetime", "s"): ("uuuu'-'MM'-'dd'T'HH':'mm':'ss", 1), ("datetime", "S"): ("uuuu'-'MM'-'dd'T'HH':'mm':'ss;FFFFFFFFF", 1),
               ("duration", "o"): ("-D:hh:mm:ss.FFFFFFFFF", 1), ("duration", "j"): ("-H:mm:ss.FFFFFFFFF", 1),
               ("instant", "g"): ("uuuu'-'MM'-'dd'T'HH':'mm':'ss'Z'", 1), ("annual", "G"): ("MM'-'dd", 1),
               ("offset", "g"): ("+HH:mm:ss", 1), ("offset", "G"): ("+HH:mm:ss", 1), ("offset", "i"): ("+HH:mm:ss", 1), ("offset", "I"): ("+HH:mm:ss", 1)}


def effective_text(ty, text, cname):
    """the custom pattern text whose fields decide representability"""
    if len(text) == 1 and text in STANDARD[ty]:
        e = expand_standard(ty, text, cname)
        if e is not None:
            return e
        return BUILTIN_STD[(ty, text)][0]
    return text


def oracle_custom(case):
    """case = (type, pattern text, culture name, calendar id of the value, value seed[, calendar id of the pattern's
    template value — differs from the value's only for patterns carrying the calendar field 'c'])"""
    ty, text, cname, calid, vseed = case[:5]
    tcal = case[5] if len(case) > 5 else calid
    T = _T()
    try:
        pat = create(ty, text, cname, tcal if ty in ("date", "datetime") else None)
    except T.InvalidPatternError as e:
        return fail("valid-pattern-rejected", f"{PCLS[ty]} pattern {text!r} (culture {cname!r}) from the valid-pattern grammar was rejected: {e}")
    except Exception as e:  # noqa: BLE001
        return fail("create-raises-" + type(e).__name__, f"{PCLS[ty]}.create({text!r}, culture {cname!r})" + (f".with_calendar({tcal})" if tcal != "ISO" and ty in ("date", "datetime") else "")
                    + f" raised {type(e).__name__}: {e}")
    eff = effective_text(ty, text, cname)
    # (month-name fields are paired with months 1-12 only: rep_date never picks month 13-19 for them; formatting such a
    # month is the business of oracle format.month-names)
    info = analyse(ty, eff, cname)
    if not info.ok or not info.delimited:
        return {"skip": info.why or "not delimited"}
    if tcal != calid and "c" not in info.f:
        return {"skip": "value calendar differs from the template's and the pattern has no calendar field"}
    rng = random.Random(vseed)
    label = f"{PCLS[ty]} {text!r} culture {cname!r}" + (f" calendar {calid}" if calid != "ISO" else "") + (f" (template calendar {tcal})" if tcal != calid else "")
    done = 0
    for _ in range(6):
        v = representable(rng, ty, info, pat, calid)
        if v is None:
            continue
        done += 1
        f = roundtrip_failure(ty, pat, v, label,
                              fresh=(lambda: _fresh(ty, text, cname, tcal)) if done == 1 else None)
        if f:
            if f["key"] in ("roundtrip-value-differs", "roundtrip-parse-fails") and len(text) == 1 and (ty, text) in BUILTIN_STD and calid != "ISO" and "c" not in info.f:
                f["key"] = "with-calendar-ignored-by-standard-pattern"
                f["what"] += " — the standard letter resolves to the shared ISO-calendar pattern object and ignores the template value set by with_calendar"
            if f["key"].startswith("parse-raises-") and tcal != calid:
                f["key"] += ":calendar-from-text"
            if getattr(info, "dot_eaten", False) and f["key"] in ("roundtrip-parse-fails", "roundtrip-value-differs"):
                f["key"] = "literal-dot-eaten-before-F"
            return f
    if done == 0:
        return {"skip": "no representable value"}
    return None


MONTH_NAME_PATTERNS = [("date", "yyyy MMMM dd"), ("date", "uuuu-MMM-dd"), ("date", "MMMM"), ("date", "d MMM yyyy c"), ("date", "D"), ("date", "M"),
                       ("datetime", "yyyy MMMM dd HH:mm"), ("datetime", "ld<dd MMM uuuu> lt<HH:mm>"), ("datetime", "F"), ("datetime", "f")]


def oracle_format_total(case):
    """formatting is a function of (pattern, culture, value): a created date pattern gives a text (the same one twice)
    for EVERY date of every calendar, months 13-19 of the 13- and 19-month calendars included (format does not consult
    the template value, so the ISO-template pattern is asked)"""
    ty, text, cname, v = case
    try:
        pat = create(ty, text, cname)
    except Exception:  # noqa: BLE001 — creation belongs to the creation oracles
        return {"skip": "pattern not created"}
    try:
        x = mk(ty, v)
    except Exception:  # noqa: BLE001
        return {"skip": "value not constructible"}
    label = f"{PCLS[ty]} {text!r} culture {cname!r}"
    try:
        s1 = pat.format(x)
        s2 = pat.format(mk(ty, v))
    except Exception as e:  # noqa: BLE001
        return fail("format-raises-" + type(e).__name__, f"{label}: format({v!r}) raised {type(e).__name__}: {e}")
    if not isinstance(s1, str) or s1 != s2:
        return fail("format-nondeterministic", f"{label}: format({v!r}) gave {s1!r} then {s2!r}")
    return None


def format_total_cases(ctx):
    rng = ctx.rng
    cn = culture_names(ctx, 6)
    pats = list(MONTH_NAME_PATTERNS)
    for _ in range(ctx.scale(40, 2000)):
        ty = rng.choice(["date", "datetime"])
        t = gen_custom(rng, ty)
        if "MMM" in t:
            pats.append((ty, t))
    P = _P()
    cases = [("date", "yyyy MMMM dd", "", ("Badi", 170, 14, 1))]
    long_cals = [c for c in cal_ids() if cal(c).get_months_in_year(cal(c).max_year - 1) > 12 or c.startswith("Hebrew")]
    for ty, t in pats:
        for cname in ([""] + ([rng.choice(cn[1:])] if len(cn) > 1 else [])):
            for cid in long_cals:
                c = cal(cid)
                for _ in range(2):
                    y = rng.randint(c.min_year, c.max_year)
                    for m in range(11, c.get_months_in_year(y) + 1):
                        d = rng.choice([1, c.get_days_in_month(y, m)])
                        v = (cid, y, m, d) if ty == "date" else (cid, y, m, d, gen_nod(rng))
                        try:
                            P.LocalDate(y, m, d, c)
                        except Exception:  # noqa: BLE001
                            continue
                        cases.append((ty, t, cname, v))
    return cases


def _culture_answers(ci):
    """what a culture object says about names / separators / standard patterns, and what patterns built on it write"""
    from pyoda_time.calendars import Era
    from pyoda_time.globalization._pyoda_format_info import _PyodaFormatInfo as F
    P, T = _P(), _T()
    fi = F._get_format_info(ci)
    d = fi.date_time_format
    out = {"long_months": list(fi.long_month_names), "short_months": list(fi.short_month_names), "long_genitive": list(fi.long_month_genitive_names),
           "short_genitive": list(fi.short_month_genitive_names), "long_days": list(fi.long_day_names), "short_days": list(fi.short_day_names),
           "era_primary": fi.get_era_primary_name(Era.common), "era_names": list(fi.get_era_names(Era.common)),
           "separators": [fi.date_separator, fi.time_separator, fi.am_designator, fi.pm_designator],
           "standard": [d.short_date_pattern, d.long_date_pattern, d.month_day_pattern, d.short_time_pattern, d.long_time_pattern, d.full_date_time_pattern]}
    v = P.LocalDate(2024, 2, 29)
    for pt in ("D", "d", "M", "d MMMM yyyy g", "ddd d MMM yyyy"):
        try:
            pat = T.LocalDatePattern.create(pt, ci)
            s = pat.format(v)
            r = pat.parse(s)
            out["date:" + pt] = [s, bool(r.success and r.value == v)]
        except Exception as e:  # noqa: BLE001
            out["date:" + pt] = "raised " + type(e).__name__
    return out


def oracle_calendar_switch(name):
    """a mutable clone of culture `name` switched to the Gregorian calendar answers the same whether or not the culture
    object it was cloned from had been asked for its names before (formatting is a function of pattern, CULTURE, value —
    not of what was looked up earlier on another culture object)"""
    from pyoda_time._compatibility._culture_info import CultureInfo
    from pyoda_time._compatibility._gregorian_calendar import GregorianCalendar
    touched = CultureInfo(name)
    _culture_answers(touched)                       # every name table / pattern of the original is looked up
    a = touched.clone()
    a.date_time_format.calendar = GregorianCalendar()
    b = CultureInfo(name).clone()                   # from an object nobody asked anything
    b.date_time_format.calendar = GregorianCalendar()
    ra, rb = _culture_answers(a), _culture_answers(b)
    if ra != rb:
        k = [k for k in rb if ra.get(k) != rb[k]]
        return fail("calendar-switch-keeps-cached-data",
                    f"culture {name!r}: clone().date_time_format.calendar = GregorianCalendar() after the original was used answers {k[0]} = {ra[k[0]]!r}; "
                    f"the same clone of an unused {name!r} object answers {rb[k[0]]!r} (differing: {k})")
    bad = [k for k, v in ra.items() if k.startswith("date:") and (isinstance(v, str) or not v[1])]
    if bad and name not in ("",):
        # not a history matter: the switched culture itself does not round-trip; left to roundtrip.custom
        return None
    return None


def calendar_switch_cases(ctx):
    if not have_icu():
        return []
    from pyoda_time._compatibility._culture_info import CultureInfo
    from pyoda_time._compatibility._culture_types import CultureTypes
    allc = sorted(c.name for c in CultureInfo.get_cultures(CultureTypes.ALL_CULTURES) if c.name)
    must = [n for n in ("th-TH", "ar-SA", "fa-IR", "en-US", "ja-JP") if n in allc]
    rest = [n for n in allc if n not in must]
    return must + (rest if ctx.thorough else ctx.rng.sample(rest, min(len(rest), 25)))


def _fresh(ty, text, cname, calid):
    cls = pcls(ty)
    p = cls.create_with_invariant_culture(text) if cname == "" else cls.create(text, culture(cname))
    if ty in ("date", "datetime") and calid != "ISO":
        p = p.with_calendar(cal(calid))
    return p


def wrap_skips(ctx, name, fn, cap=30):
    """oracle wrapper: {'skip': reason} results are counted in notes, not failures; at most `cap` failures per key are
    recorded in full (the framework keeps 2000 failures in all), the rest only counted"""
    cnt = ctx.notes.setdefault("skipped:" + name, {})
    keys = ctx.notes.setdefault("failures-by-key:" + name, {})

    def g(case):
        r = fn(case)
        if r and "skip" in r:
            cnt[r["skip"]] = cnt.get(r["skip"], 0) + 1
            return None
        if r:
            k = r.get("key", "?")
            keys[k] = keys.get(k, 0) + 1
            if keys[k] > cap:
                return None
        return r
    return g


# ---------------------------------------------------------------------------------------------------
# re-format of parsed texts for fixed-width numeric patterns
# ---------------------------------------------------------------------------------------------------

FIXED_PATTERNS = [("time", "HH:mm:ss"), ("time", "HH:mm:ss.fff"), ("time", "HHmmss"), ("time", "hh:mm tt"), ("date", "uuuu-MM-dd"), ("date", "yyyy/MM/dd"),
                  ("date", "dd.MM.uuuu"), ("date", "yyMMdd"), ("datetime", "uuuu-MM-dd'T'HH:mm:ss"), ("datetime", "uuuuMMddHHmmssfffffffff"),
                  ("annual", "MM-dd"), ("annual", "ddMM"), ("offset", "+HH:mm"), ("offset", "+HHmmss"), ("duration", "+DDDDDDDDDD:hh:mm:ss"),
                  ("duration", "-hh:mm:ss.fffffffff"), ("instant", "uuuu-MM-dd HH:mm:ss'Z'")]


def oracle_reformat(case):
    """any text that parses successfully under a fixed-width numeric pattern re-formats to itself"""
    ty, ptext, text = case
    pat = create(ty, ptext, "")
    try:
        r = pat.parse(text)
    except Exception:  # noqa: BLE001 — a raise out of parse is C08's finding
        return {"skip": "parse raised (C08)"}
    if not r.success:
        return None
    v = r.value
    s = pat.format(v)
    if s == text:
        return None
    # documented alternative spellings of a value are not counted: negative zero, 24:00
    if "-" in text and s == text.replace("-", "+", 1) or s == text.replace("-", "", 1):
        return {"skip": "negative zero"}
    if ty in ("datetime", "instant") and "24" in text:
        return {"skip": "24:00 spelling"}
    if "\0" in text:
        return fail("nul-terminates-text", f"{PCLS[ty]} {ptext!r}: text {text!r} containing NUL parses successfully and re-formats as {s!r}")
    return fail("reformat-differs", f"{PCLS[ty]} {ptext!r}: {text!r} parses successfully to {unmk(ty, v)!r} but re-formats as {s!r}")


def gen_reformat_cases(ctx, n):
    rng = ctx.rng
    out = [("date", "uuuu-MM-dd", "2020-01-01\0")]
    for ty, ptext in FIXED_PATTERNS:
        pat = create(ty, ptext, "")
        info = analyse(ty, ptext, "")
        for _ in range(n):
            v = representable(rng, ty, info, pat, "ISO")
            if v is None:
                continue
            s = pat.format(mk(ty, v))
            out.append((ty, ptext, s))
            # digit substitutions keep the shape; many of them still parse
            cs = list(s)
            for _ in range(rng.randint(1, 3)):
                k = rng.randrange(len(cs))
                if cs[k].isdigit():
                    cs[k] = rng.choice("0123456789")
            out.append((ty, ptext, "".join(cs)))
            if rng.random() < 0.1:
                out.append((ty, ptext, s + "\0"))
    return out


# ---------------------------------------------------------------------------------------------------
# model correspondence: ops evaluated on the real code
# ---------------------------------------------------------------------------------------------------

def unhex(h):
    return "" if h == "-" else bytes.fromhex(h).decode("utf-8")


class _SB:
    pass


def _sb(prefix=""):
    from pyoda_time._compatibility._string_builder import StringBuilder
    sb = StringBuilder()
    if prefix:
        sb.append(prefix)
    return sb


ISO_KINDS = {
    "date": ("date", "iso"), "time": ("time", "extended_iso"), "timelong": ("time", "long_extended_iso"),
    "timegen": ("time", "general_iso"), "dt": ("datetime", "extended_iso"), "dtgen": ("datetime", "general_iso"),
    "dtbcl": ("datetime", "bcl_round_trip"), "inst": ("instant", "extended_iso"), "instgen": ("instant", "general"),
    "off": ("offset", "general_invariant"), "offz": ("offset", "general_invariant_with_z"),
}


def iso_value(kind, a):
    P = _P()
    ty = ISO_KINDS[kind][0]
    if ty == "date":
        return P.LocalDate(a[0], a[1], a[2])
    if ty == "time":
        return P.LocalTime.from_nanoseconds_since_midnight(a[0])
    if ty == "datetime":
        return P.LocalDate(a[0], a[1], a[2]).at(P.LocalTime.from_nanoseconds_since_midnight(a[3]))
    if ty == "instant":
        d = P.LocalDate(a[0], a[1], a[2])
        return P.Instant._ctor(days=d._days_since_epoch, nano_of_day=a[3])
    if ty == "offset":
        return P.Offset.from_seconds(a[0])
    raise ValueError(kind)


def iso_fields(kind, x):
    ty = ISO_KINDS[kind][0]
    if ty == "date":
        return [x.year, x.month, x.day]
    if ty == "time":
        return [x.nanosecond_of_day]
    if ty == "datetime":
        return [x.year, x.month, x.day, x.nanosecond_of_day]
    if ty == "instant":
        ldt = x.in_utc().local_date_time
        return [ldt.year, ldt.month, ldt.day, ldt.nanosecond_of_day]
    if ty == "offset":
        return [x.seconds]
    raise ValueError(kind)


def disturb(ty, text):
    """create (and drop) another pattern of the same type, in the invariant culture; malformed texts are fine too"""
    try:
        pcls(ty).create_with_invariant_culture(text)
    except _T().InvalidPatternError:
        pass


def stdlib_value(kind, text):
    """the ISO fields the standard library reads from `text`, when `text` is exactly what the standard library writes for
    them (canonical), else None: (fields as the op prints them)"""
    import datetime as dt
    ty = ISO_KINDS[kind][0]
    try:
        if ty == "time" and kind == "time":
            x = dt.time.fromisoformat(text)
            if x.tzinfo is None and x.isoformat() == text:
                return [((x.hour * 60 + x.minute) * 60 + x.second) * NPS + x.microsecond * 1000]
        if kind == "dt":
            x = dt.datetime.fromisoformat(text)
            if x.tzinfo is None and x.isoformat() == text:
                return [x.year, x.month, x.day, ((x.hour * 60 + x.minute) * 60 + x.second) * NPS + x.microsecond * 1000]
        if kind == "inst" and text.endswith("Z"):
            x = dt.datetime.fromisoformat(text[:-1])
            if x.tzinfo is None and x.isoformat() == text[:-1]:
                return [x.year, x.month, x.day, ((x.hour * 60 + x.minute) * 60 + x.second) * NPS + x.microsecond * 1000]
        if kind == "date":
            x = dt.date.fromisoformat(text)
            if x.isoformat() == text:
                return [x.year, x.month, x.day]
    except ValueError:
        return None
    return None


def impl(t):
    """the op evaluated on the real code"""
    op = t[0]
    if op == "num.pad":
        from pyoda_time.text._format_helper import _FormatHelper
        sb = _sb()
        _FormatHelper._left_pad(int(t[1]), int(t[2]), sb)
        return hexs(sb.to_string())
    if op == "num.pad2":
        from pyoda_time.text._format_helper import _FormatHelper
        sb = _sb()
        _FormatHelper._format_2_digits_non_negative(int(t[1]), sb)
        return hexs(sb.to_string())
    if op == "num.pad4":
        from pyoda_time.text._format_helper import _FormatHelper
        sb = _sb()
        _FormatHelper._format_4_digits_value_fits(int(t[1]), sb)
        return hexs(sb.to_string())
    if op == "num.frac":
        from pyoda_time.text._format_helper import _FormatHelper
        sb = _sb()
        _FormatHelper._append_fraction(int(t[1]), int(t[2]), int(t[3]), sb)
        return hexs(sb.to_string())
    if op == "num.fract":
        from pyoda_time.text._format_helper import _FormatHelper
        sb = _sb(unhex(t[4]))
        _FormatHelper._append_fraction_truncate(int(t[1]), int(t[2]), int(t[3]), sb)
        return hexs(sb.to_string())
    if op in ("num.digits", "num.fraction", "num.int64"):
        from pyoda_time.text._value_cursor import _ValueCursor
        c = _ValueCursor(unhex(t[1]))
        c.move_next()
        if op == "num.digits":
            ok, v = c._parse_digits(int(t[2]), int(t[3]))
            return f"ok {v} {c.index}" if ok else "fail"
        if op == "num.fraction":
            ok, v = c._parse_fraction(int(t[2]), int(t[3]), int(t[4]))
            return f"ok {v} {c.index}" if ok else "fail"
        r, v = c._parse_int64()
        return f"ok {v} {c.index}" if r is None else "fail"
    if op in ("iso.fmt", "iso.fmt@", "iso.parse", "iso.parse@"):
        kind = t[1]
        ty, attr = ISO_KINDS[kind]
        pat = builtin(ty, attr)
        if op.endswith("@"):
            disturb(ty, unhex(t[2]))       # another pattern of the family is created while `pat` is held
            t = [op[:-1], kind] + t[3:]
        if t[0] == "iso.fmt":
            return hexs(pat.format(iso_value(kind, [int(x) for x in t[2:]])))
        r = pat.parse(unhex(t[2]))
        if not r.success:
            return "fail"
        return "ok " + " ".join(str(x) for x in iso_fields(kind, r.value))
    if op == "pyiso.date":
        import datetime as dt
        return hexs(dt.date(int(t[1]), int(t[2]), int(t[3])).isoformat())
    if op == "pyiso.time":
        import datetime as dt
        us = int(t[1])
        return hexs(dt.time(us // 3600_000_000, us // 60_000_000 % 60, us // 1_000_000 % 60, us % 1_000_000).isoformat())
    if op == "pyiso.offset":
        import datetime as dt
        return hexs(dt.datetime(2000, 1, 1, tzinfo=dt.timezone(dt.timedelta(seconds=int(t[1])))).isoformat()[19:])
    raise ValueError("unknown op " + op)


def oracle_text_op(t):
    """the property itself at that op's input, on the real code, with plain Python as reference"""
    import c17
    import c08
    op = t[0]
    after = ""
    if op in ("iso.fmt@", "iso.parse@"):
        # the built-in pattern object is fetched, THEN another pattern of the family is created, then the object is used
        kind = t[1]
        ty, attr = ISO_KINDS[kind]
        pat = builtin(ty, attr)
        disturb(ty, unhex(t[2]))
        after = f" (after creating {PCLS[ty]} {unhex(t[2])!r})"
        t = [op[:-1], kind] + t[3:]
        op = t[0]
        f = _oracle_iso(t, pat, after)
        if f and after:
            f["key"] = "text-history:" + f["key"]
        return f
    if op in ("iso.fmt", "iso.parse"):
        ty, attr = ISO_KINDS[t[1]]
        return _oracle_iso(t, builtin(ty, attr), "")
    if op.startswith("num."):
        return oracle_num(t)
    return None


def _oracle_iso(t, pat, after):
    import c17
    import c08
    op = t[0]
    if op == "iso.fmt":
        kind = t[1]
        a = [int(x) for x in t[2:]]
        ty, attr = ISO_KINDS[kind]
        try:
            x = iso_value(kind, a)
        except Exception:  # noqa: BLE001
            return None
        prec = next(b[2] for b in BUILTINS if b[0] == ty and b[1] == attr)
        v = trunc_value(ty, unmk(ty, x), prec)
        f = roundtrip_failure(ty, pat, v, f"{PCLS[ty]}.{attr}" + after)
        if f:
            return f
        s = pat.format(x)
        if ty == "date":
            ref = c17.ref_date(*a)
        elif ty == "time":
            ref = c17.ref_time(a[0], {"extended_iso": "ext", "long_extended_iso": "long", "general_iso": "gen"}[attr])
        elif ty in ("datetime", "instant"):
            k = {"extended_iso": "ext", "general_iso": "gen", "general": "gen", "bcl_round_trip": "bcl"}[attr]
            ref = c17.ref_date(*a[:3]) + "T" + c17.ref_time(a[3], k) + ("Z" if ty == "instant" else "")
        else:
            ref = c17.ref_offset(a[0], attr.endswith("_z"))
        if s != ref:
            return fail("iso-format-differs", f"{PCLS[ty]}.{attr}.format{tuple(a)} = {s!r}, ISO text is {ref!r}")
        return None
    if op == "iso.parse":
        kind = t[1]
        ty, attr = ISO_KINDS[kind]
        text = unhex(t[2])
        f = c08.parse_failure(ty, pat, text, f"{PCLS[ty]}.{attr}" + after)
        if f:
            return f
        want = stdlib_value(kind, text)
        if want is not None and not (ty in ("date", "datetime", "instant") and not 1 <= want[0] <= 9999):
            r = pat.parse(text)
            got = iso_fields(kind, r.value) if r.success else None
            if got != want:
                return fail("iso-reads-stdlib", f"{PCLS[ty]}.{attr}{after}: parse({text!r}) -> {got!r}; the standard library writes exactly this text for {want!r}")
    return None


def oracle_num(t):
    """reference semantics of the numeric primitives in plain Python"""
    op = t[0]
    got = guard(impl, t)
    if op == "num.pad":
        v, n = int(t[1]), int(t[2])
        exp = ("-" if v < 0 else "") + str(abs(v)).rjust(n, "0")
        if unhex(got) != exp:
            return fail("left-pad", f"_left_pad({v}, {n}) = {unhex(got)!r}, expected {exp!r}")
    if op == "num.digits":
        s, mn, mx = unhex(t[1]), int(t[2]), int(t[3])
        k = 0
        while k < len(s) and k < mx and s[k] in "0123456789":
            k += 1
        exp = f"ok {int(s[:k] or '0')} {k}" if k >= mn else "fail"
        if got != exp:
            return fail("parse-digits", f"_parse_digits on {s!r} ({mn},{mx}) = {got}, expected {exp}")
    if op == "num.fraction":
        s, mx, sc, mn = unhex(t[1]), int(t[2]), int(t[3]), int(t[4])
        k = 0
        while k < len(s) and k < mx and s[k] in "0123456789":
            k += 1
        if mn > len(s) or k < mn:
            exp = "fail"
        elif sc - k >= 0:
            exp = f"ok {int(s[:k] or '0') * 10 ** (sc - k)} {k}"
        else:
            exp = None
        if exp is not None and got != exp:
            return fail("parse-fraction", f"_parse_fraction on {s!r} (max {mx}, scale {sc}, min {mn}) = {got}, expected {exp}")
    if op in ("num.frac", "num.fract"):
        v, ln, sc = int(t[1]), int(t[2]), int(t[3])
        if 0 <= v < 10 ** sc and 0 < ln <= sc:
            d = str(v // 10 ** (sc - ln)).rjust(ln, "0")
            if op == "num.frac":
                exp = d
            else:
                pre = unhex(t[4])
                d = d.rstrip("0")
                exp = pre + d if d else (pre[:-1] if pre.endswith(".") else pre)
            if unhex(got) != exp:
                return fail("append-fraction", f"{op} {v} {ln} {sc}: {unhex(got)!r}, expected {exp!r}")
    return None


def neighbours(t):
    out = []
    for i, x in enumerate(t):
        if i >= 1 and x.lstrip("-").isdigit() and len(x) < 30:
            for dlt in (-1, 1):
                u = list(t)
                u[i] = str(int(x) + dlt)
                out.append(" ".join(u))
    return out


def model_available():
    if os.environ.get("PYODA_TEXT_NOMODEL") == "1":
        return False
    return True


def gen_num_ops(ctx, n):
    rng = ctx.rng
    ops = []
    for v in [0, 1, 9, 10, 99, 100, 999, 1000, 9999, 10000, -1, -9, -10, -9999, -10000, 2147483647, -2147483647, -2147483648, 10 ** 12]:
        for ln in [1, 2, 3, 4, 5, 10, 11, 12, 14, 16]:
            ops.append(f"num.pad {v} {ln}")
    for v in range(0, 100):
        ops.append(f"num.pad2 {v}")
    for v in [0, 1, 9, 10, 99, 100, 999, 1000, 9999, -1, -10, -999, -9999]:
        ops.append(f"num.pad4 {v}")
    for _ in range(n):
        ops.append(f"num.pad {rng.choice([rng.randint(-10**5, 10**5), rng.randint(-10**15, 10**15)])} {rng.randint(1, 14)}")
        ops.append(f"num.pad4 {rng.randint(-9999, 9999)}")
        sc = rng.choice([9, 9, 9, 7, 3, 6])
        ln = rng.randint(1, sc)
        w = rng.randint(0, sc)
        v = 0 if w == 0 else rng.randrange(10 ** w) * 10 ** (sc - w)
        v = rng.choice([v, v, rng.randrange(10 ** sc), 0, 10 ** sc - 1])
        ops.append(f"num.frac {v} {ln} {sc}")
        pre = rng.choice(["", ".", "12.", "12", "..", "a.b", ","])
        ops.append(f"num.fract {v} {ln} {sc} {hexs(pre)}")
        # digit scanning
        k = rng.randint(0, 12)
        s = "".join(rng.choice("0123456789") for _ in range(k)) + rng.choice(["", "", "x", ":", "-", ".", " ", "٣", "²", "5", "\0", "１"])
        if rng.random() < 0.1:
            s = rng.choice(["٣٤", "１２", "²", "", "-5", "+5", "\0" + "1"]) + s
        mn = rng.randint(0, 5)
        mx = rng.randint(max(mn, 1), 14)
        ops.append(f"num.digits {hexs(s)} {mn} {mx}")
        mxf = rng.randint(1, 9)
        ops.append(f"num.fraction {hexs(s)} {mxf} {rng.choice([9, 9, mxf])} {rng.choice([0, 1, mxf])}")
        # int64
        c = rng.random()
        if c < 0.3:
            z = str(rng.choice([2**63 - 1, 2**63, -2**63, -2**63 - 1, 2**63 - 8, 922337203685477580, 922337203685477581, 9223372036854775799, 92233720368547758070]) + rng.randint(-2, 2))
        elif c < 0.6:
            z = str(rng.randint(-10**19, 10**19))
        else:
            z = str(rng.randint(-10**6, 10**6))
        z += rng.choice(["", "", "", "x", " ", "-", "9"])
        if rng.random() < 0.05:
            z = rng.choice(["-", "", "--1", "x", "-x", "+1"])
        ops.append(f"num.int64 {hexs(z)}")
    return ops


def iso_fmt_ops(ctx, n):
    import c17
    rng = ctx.rng
    ops = []
    dates = c17.gen_dates(ctx, n) + c17.gen_beyond_dates(ctx)
    nods = c17.gen_nods(ctx, n)
    rng.shuffle(dates)
    for (y, m, d) in dates[: n]:
        ops.append(f"iso.fmt date {y} {m} {d}")
    for nod in nods[: n]:
        for k in ("time", "timelong", "timegen"):
            ops.append(f"iso.fmt {k} {nod}")
    for (y, m, d), nod in zip(dates[: n], nods):
        k = rng.choice(["dt", "dtgen", "dtbcl", "inst", "instgen"])
        ops.append(f"iso.fmt {k} {y} {m} {d} {nod}")
    for s in [60 * k for k in range(-1080, 1081, 7)] + [rng.randint(-OFF_MAX, OFF_MAX) for _ in range(n // 4)] + [0, 1, -1, OFF_MAX, -OFF_MAX]:
        ops.append(f"iso.fmt off {s}")
        ops.append(f"iso.fmt offz {s}")
    return ops


def run_iso_correspondence(ctx, who):
    """model vs code on the built-in ISO patterns: format (string equality), then parse of the produced texts"""
    if not model_available():
        ctx.note("model", "skipped (PYODA_TEXT_NOMODEL=1)")
        return
    import c08
    n = ctx.scale(3000, 100_000)
    ops = iso_fmt_ops(ctx, n)
    ctx.correspond("text.iso.fmt", ops, impl, oracle=oracle_text_op, neighbours=neighbours, driver="drv_text")
    # parse the texts the code produced, plus mutations
    pops = []
    rng = ctx.rng
    for op in ops[:: 2]:
        t = op.split(" ")
        r = guard(impl, t)
        if r.startswith("!"):
            continue
        pops.append(f"iso.parse {t[1]} {r}")
        if who == "c08" and rng.random() < 0.7:
            s = c08.mutate(rng, unhex(r))
            try:
                pops.append(f"iso.parse {t[1]} {hexs(s)}")
            except UnicodeEncodeError:
                pass
    ctx.correspond("text.iso.parse", pops, impl, oracle=oracle_text_op, driver="drv_text")
    # the same questions with ANOTHER pattern of the family (other field widths) created between fetching the built-in
    # pattern object and using it: the model ignores the extra token, so any carried-over state is a disagreement
    import texthist
    hops = []
    kinds_std = {"time": "time", "dt": "datetime", "inst": "instant", "date": "date"}
    for op in rng.sample(ops, min(len(ops), ctx.scale(500, 20_000))) + rng.sample(pops, min(len(pops), ctx.scale(500, 20_000))):
        t = op.split(" ")
        ty = ISO_KINDS[t[1]][0]
        other = rng.choice(texthist.WIDTH_FAMILIES[ty])
        hops.append(" ".join([t[0] + "@", t[1], hexs(other)] + t[2:]))
    for kind, ty in kinds_std.items():
        for _ in range(ctx.scale(40, 2000)):
            for tx in texthist.stdlib_texts(ty, rng):
                hops.append(f"iso.parse@ {kind} {hexs(rng.choice(texthist.WIDTH_FAMILIES[ty]))} {hexs(tx)}")
    ctx.correspond("text.iso.history", hops, impl, oracle=oracle_text_op, driver="drv_text")


def run_pyiso_correspondence(ctx):
    if not model_available():
        return
    rng = ctx.rng
    import c17
    ops = []
    for (y, m, d) in c17.gen_dates(ctx, ctx.scale(2000, 100_000)):
        ops.append(f"pyiso.date {y} {m} {d}")
    for nod in c17.gen_nods(ctx, ctx.scale(2000, 100_000)):
        ops.append(f"pyiso.time {nod // 1000}")
    for s in range(-OFF_MAX, OFF_MAX + 1, 60):
        ops.append(f"pyiso.offset {s}")
    for _ in range(500):
        ops.append(f"pyiso.offset {rng.randint(-OFF_MAX, OFF_MAX)}")
    ctx.correspond("text.pyiso", ops, impl, driver="drv_text")


def run_num_correspondence(ctx):
    if not model_available():
        return
    ops = gen_num_ops(ctx, ctx.scale(4000, 300_000))
    ctx.correspond("text.num", ops, impl, oracle=oracle_num, neighbours=neighbours, driver="drv_text")


# ---------------------------------------------------------------------------------------------------
# run
# ---------------------------------------------------------------------------------------------------

def builtin_cases(ctx):
    rng = ctx.rng
    n = ctx.scale(700, 60_000)
    cases, calcases = [], []
    ids = cal_ids()
    for ty, attr, prec, cals in BUILTINS:
        if ty == "offset":
            vals = [60 * k for k in range(-1080, 1081)] if not ctx.thorough else list(range(-OFF_MAX, OFF_MAX + 1))
            vals += [gen_value(rng, ty) for _ in range(n)]
            for v in vals:
                cases.append((ty, attr, v))
            continue
        if ty == "annual":
            for m in range(1, 13):
                for d in range(1, [31, 29, 31, 30, 31, 30, 31, 31, 30, 31, 30, 31][m - 1] + 1):
                    cases.append((ty, attr, (m, d)))
            continue
        if cals:
            for cid in ids:
                for _ in range(max(40, n // 8)):
                    v = gen_value(rng, ty, cid)
                    if v is not None:
                        cases.append((ty, attr, v))
            continue
        for _ in range(n):
            cases.append((ty, attr, gen_value(rng, ty)))
    for ty, attr in (("date", "iso"), ("datetime", "extended_iso")):
        for cid in ids:
            if cid == "ISO":
                continue
            for _ in range(max(25, n // 20)):
                v = gen_value(rng, ty, cid)
                if v is not None:
                    calcases.append((ty, attr, v))
    return cases, calcases


def custom_cases(ctx):
    rng = ctx.rng
    types = ["time", "date", "datetime", "offset", "duration", "annual", "instant"]
    weights = [5, 5, 5, 2, 3, 1, 1]
    cnames = culture_names(ctx, 14)
    npat = ctx.scale(1200, 6000)
    ids = cal_ids()
    cases = [("date", 'yyyy"x"MM', "", "ISO", 1), ("date", "yyyy g", "", "Hebrew Civil", 2), ("date", "R", "", "Julian", 3),
             ("time", "ss'.'FF", "", "ISO", 2), ("date", "yyyy-MM-dd c", "", "Hijri Civil-Indian", 4, "ISO"), ("date", "yyyy MMM dd", "", "Badi", 5)]
    pats = []
    for _ in range(npat):
        ty = rng.choices(types, weights)[0]
        pats.append((ty, gen_custom(rng, ty)))
    for ty in types:
        for ch in STANDARD[ty]:
            pats.append((ty, ch))
    for ty, text in pats:
        # invariant always; other cultures: all for standard letters, a sample for custom patterns
        if len(text) == 1:
            cs = cnames
        else:
            cs = [""] + (rng.sample(cnames[1:], min(len(cnames) - 1, 3 if not ctx.thorough else 12)) if len(cnames) > 1 else [])
        for cn in cs:
            calid = "ISO"
            if ty in ("date", "datetime") and rng.random() < 0.35:
                calid = rng.choice(ids)
            for rep in range(ctx.scale(3, 8)):
                cases.append((ty, text, cn, calid, rng.getrandbits(32)))
            if ty in ("date", "datetime") and ("c" in text or text == "r"):
                # the calendar field: values of every calendar through a pattern whose template value is in another one
                for vc in (ids if len(text) > 1 else rng.sample(ids, 4)):
                    tc = "ISO" if rng.random() < 0.6 else rng.choice(ids)
                    if tc != vc:
                        cases.append((ty, text, cn, vc, rng.getrandbits(32), tc))
    return cases


def run(ctx):
    cases, calcases = builtin_cases(ctx)
    ctx.check_cases("roundtrip.builtin", cases, wrap_skips(ctx, "builtin", oracle_builtin))
    ctx.check_cases("roundtrip.builtin.with_calendar", calcases, wrap_skips(ctx, "builtin.with_calendar", oracle_builtin_calendar))
    ctx.check_cases("roundtrip.custom", custom_cases(ctx), wrap_skips(ctx, "custom", oracle_custom))
    ctx.check_cases("culture.calendar-switch", calendar_switch_cases(ctx), oracle_calendar_switch)
    import text_entrypoints as te
    mod, bcl, simple = te.cases_c07(ctx)
    ctx.check_cases("pattern.modifier-chains", mod, te.check_modifiers)
    ctx.check_cases("pattern.modifier-chains.simple", simple, te.check_simple_modifiers)
    ctx.check_cases("format.spec-entry-points", bcl, te.check_bclformat)
    ctx.check_cases("roundtrip.redundant-fields", te.REDUNDANT, te.check_redundant_fields, exhaustive=True)
    ctx.check_cases("roundtrip.standard-letters-in-every-calendar", te.cases_c07_standard_calendars(ctx), te.check_standard_with_calendar, exhaustive=True)
    import texthist
    texthist.run_history(ctx, [("culture", ctx.scale(3, 60)), ("random", ctx.scale(2, 40)), ("width", ctx.scale(1, 20))])
    ctx.check_cases("format.month-names", format_total_cases(ctx), wrap_skips(ctx, "format.month-names", oracle_format_total))
    ctx.check_cases("reformat.fixed-width", gen_reformat_cases(ctx, ctx.scale(250, 20_000)), wrap_skips(ctx, "reformat", oracle_reformat))
    ctx.assumptions.append("re-formatting is checked for patterns whose numeric fields are all fixed-width; alternative spellings of one value that the formats document (negative zero, 24:00) are excluded")
    ctx.assumptions.append("dates whose calendar day<->date mapping is not self-consistent on this tree (C01 defects: Um Al Qura tail, Badi) are not used as text inputs")
    run_num_correspondence(ctx)
    run_iso_correspondence(ctx, "c07")
    import textpat
    textpat.run_engine_correspondence(ctx, hostile=False)
    textpat.run_names(ctx)


def replay_op(op, failure):
    import ast
    src = failure.get("source", "")
    if src.startswith("oracle:"):
        name = src.split(":", 1)[1]
        try:
            case = ast.literal_eval(op)
        except (ValueError, SyntaxError):
            case = op                      # a case that is a plain string (culture name)
        fn = {"roundtrip.builtin": oracle_builtin, "roundtrip.builtin.with_calendar": oracle_builtin_calendar,
              "roundtrip.custom": oracle_custom, "reformat.fixed-width": oracle_reformat, "format.month-names": oracle_format_total,
              "culture.calendar-switch": oracle_calendar_switch, "text.history": __import__("texthist").oracle_history,
              "pattern.modifier-chains": __import__("text_entrypoints").check_modifiers,
              "pattern.modifier-chains.simple": __import__("text_entrypoints").check_simple_modifiers,
              "format.spec-entry-points": __import__("text_entrypoints").check_bclformat,
              "roundtrip.redundant-fields": __import__("text_entrypoints").check_redundant_fields,
              "roundtrip.standard-letters-in-every-calendar": __import__("text_entrypoints").check_standard_with_calendar}[name]
        r = fn(case)
        return None if (r and "skip" in r) else r
    t = op.split(" ")
    return oracle_text_op(t)
