"""C11 — OffsetDateTime / OffsetDate / OffsetTime / ZonedDateTime keep instant, local time, offset, calendar in step.

Wire encodings (all integers): calendar = `ord minDays maxDays`; odt = calendar + `days nod off`
(local day number, nanosecond of day, offset seconds); instant / duration = `days nod`;
zone = `Z id t before after lo hi` (two-interval zone valid on [lo, hi) ns; id `fixed` = fixed offset `before`).
"""
from __future__ import annotations

from common import guard, ints

NPD = 86_400_000_000_000
NPS = 1_000_000_000
IMIN, IMAX = -4371222, 2932896
INST_MIN = IMIN * NPD
INST_MAX = (IMAX + 1) * NPD - 1
DMAX = (1 << 30) - 1
DMIN = -(1 << 30)
OFF_MAX = 64800
P47 = 1 << 47

META = {
    "property": "C11",
    "proof_modules": ["PyodaProofs.C11", "PyodaProofs.C11Lemmas", "PyodaProofs.GenAgreeC11"],
    "drivers": ["drv_offsettypes"],
    "theorems": [
        "Pyoda.C11.local_eq_instant_plus_offset",
        "Pyoda.C11.ofInstant_raises_iff",
        "Pyoda.C11.toInstant_ofInstant",
        "Pyoda.C11.toInstant_eq_local_minus_offset",
        "Pyoda.C11.withOffset_same_instant",
        "Pyoda.C11.withOffset_raises_iff",
        "Pyoda.C11.withCalendar_same_instant_same_day",
        "Pyoda.C11.withCalendar_raises_iff",
        "Pyoda.C11.with_date_keeps_time_offset",
        "Pyoda.C11.with_time_keeps_date_offset",
        "Pyoda.C11.plus_duration_exact",
        "Pyoda.C11.minus_duration_exact",
        "Pyoda.C11.zoned_plus_duration",
        "Pyoda.C11.zoned_withZone_same_instant",
        "Pyoda.C11.zoned_withCalendar_same_instant",
        "Pyoda.C11.zoned_ofLocal_checks_offset",
        "Pyoda.C11.sub_is_elapsed",
        "Pyoda.C11.zoned_sub_is_elapsed",
        "Pyoda.C11.offsetTime_pack_unpack",
        "Pyoda.C11.offsetTime_unpack_pack",
        # agreement of the definitions generated from the Python source (tools/py2lean.py) with the model
        "Pyoda.GenAgree.C11.gen_OffsetTime_ofParts_eq", "Pyoda.GenAgree.C11.gen_OffsetTime_new_eq",
        "Pyoda.GenAgree.C11.gen_OffsetTime_ofZeroOffset_eq", "Pyoda.GenAgree.C11.gen_OffsetTime_nanosecondOfDay_eq",
        "Pyoda.GenAgree.C11.gen_OffsetTime_offsetSeconds_eq",
        "Pyoda.GenAgree.C11.gen_OffsetTime_offsetNanoseconds_eq", "Pyoda.GenAgree.C11.gen_OffsetTime_timeOfDay_eq",
        "Pyoda.GenAgree.C11.gen_OffsetTime_offset_eq", "Pyoda.GenAgree.C11.gen_OffsetTime_hour_eq",
        "Pyoda.GenAgree.C11.gen_OffsetTime_minute_eq", "Pyoda.GenAgree.C11.gen_OffsetTime_second_eq",
        "Pyoda.GenAgree.C11.gen_OffsetTime_millisecond_eq", "Pyoda.GenAgree.C11.gen_OffsetTime_tickOfDay_eq",
        "Pyoda.GenAgree.C11.gen_OffsetTime_tickOfSecond_eq",
        "Pyoda.GenAgree.C11.gen_OffsetTime_nanosecondOfSecond_eq", "Pyoda.GenAgree.C11.gen_OffsetTime_withOffset_eq",
        "Pyoda.GenAgree.C11.gen_OffsetTime_beq_eq", "Pyoda.GenAgree.C11.gen_ODT_ofParts_eq",
        "Pyoda.GenAgree.C11.gen_ODT_calendar_eq", "Pyoda.GenAgree.C11.gen_ODT_date_eq",
        "Pyoda.GenAgree.C11.gen_ODT_toOffsetTime_eq", "Pyoda.GenAgree.C11.gen_ODT_nanosecondOfDay_eq",
        "Pyoda.GenAgree.C11.gen_ODT_offset_eq", "Pyoda.GenAgree.C11.gen_ODT_ofInstant_eq",
        "Pyoda.GenAgree.C11.gen_ODT_toElapsed_eq", "Pyoda.GenAgree.C11.gen_ODT_toInstant_eq",
        "Pyoda.GenAgree.C11.gen_ODT_withOffset_eq", "Pyoda.GenAgree.C11.gen_ODT_withCalendar_eq",
        "Pyoda.GenAgree.C11.gen_ODT_plus_eq", "Pyoda.GenAgree.C11.gen_ODT_plusMethod_eq",
        "Pyoda.GenAgree.C11.gen_ODT_minusDur_eq", "Pyoda.GenAgree.C11.gen_ODT_minus_eq",
        "Pyoda.GenAgree.C11.gen_ODT_beq_eq",
    ],
    "trusted_base": [
        "translator tie (tools/py2lean.py): _offset_time.py (packing constructors, every accessor, with_offset, ==) and _offset_date_time.py (_ctor(instant, offset, calendar) and "
        "_ctor(local_date, offset_time), calendar/date/offset/nanosecond_of_day, __to_elapsed_time_since_epoch, to_instant, with_offset with its two-day carries, with_calendar, "
        "+/plus, - Duration, - OffsetDateTime, ==) are re-translated from the current source into lean/PyodaGen/C11.lean on every run and proved equal to PyodaModel/OffsetTypes.lean "
        "(PyodaProofs/GenAgreeC11.lean). There `nod | (off << 47) = nod + off * 2^47` for 0 <= nod < 2^47 is a THEOREM about two's-complement or on unbounded ints (GenAgreeBits.pyOr_low47), "
        "no longer only sampled. Trusted: the translator's semantics (self-test of C03); LocalDate as the model's (calendar, day number) with _ctor(days_since_epoch, calendar), plus_days, with_calendar, == "
        "hand-mapped to the model functions (C09/C01 tie the real ones), Instant/Duration/Offset/LocalTime members hand-mapped to the model functions that GenAgreeC03/C10 prove equal to their generated code; "
        "hypotheses of the agreements: a normalised nanosecond of day and offsets inside +-24 h (where the packing is the sum), valid stored offsets for ==",
        "CPython int arithmetic; `nod | (off << 47)` equals `nod + off * 2^47` for 0 <= nod < 2^47 (sampled by op otime.pack against the real packed field)",
        "calendar fields enter only through the day number (`LocalDate._days_since_epoch` / `LocalDate._ctor(days_since_epoch=, calendar=)`), whose round trip is C01",
        "tzdb zone behaviour is C04; the model sees a zone as the two-interval function named on the op line, the oracle asks the real zone",
    ],
    "partial": [
        "ZonedDateTime in this port has no with_zone / with_calendar / __sub__ / minus(Duration); the check exercises them as the compositions to_instant().in_zone(zone, calendar), zdt + (-d), to_instant() - to_instant()",
        "OffsetDateTime comparers are not ported (TODO in the source); only == is compared",
        "year/month/day/hour... accessors of OffsetDateTime and ZonedDateTime delegate to LocalDate / OffsetTime; OffsetTime's are modelled, the date ones are C01",
    ],
    "rule": "ops = calendars x local days at calendar/ISO range edges and interior x nanosecond-of-day at the day-carry thresholds of the op x offsets {0, +-1 s, +-18 h, +-17:59:59, random} x durations crossing 0, 1, 2 day boundaries and the range ends; zoned ops around real tzdb transitions; distinct = distinct op line; non-trivial = every op",
}

# ---------------------------------------------------------------------------------------------
# real objects
# ---------------------------------------------------------------------------------------------

_CALS: dict[int, object] = {}


def _P():
    import pyoda_time as P
    return P


def cal_of(o: int):
    c = _CALS.get(o)
    if c is None:
        from pyoda_time._calendar_ordinal import _CalendarOrdinal
        c = _P().CalendarSystem._for_ordinal(_CalendarOrdinal(o))
        _CALS[o] = c
    return c


def mk_date(o, days):
    import routes
    return routes.routed_date(cal_of(o), days)


def _mk_odt_plain(o, days, nod, off):
    P = _P()
    return P.OffsetDateTime._ctor(local_date=mk_date(o, days),
                                  offset_time=P.OffsetTime._ctor(nanosecond_of_day=nod, offset_seconds=off))


ROUTES_USED = {}


def mk_odt(o, days, nod, off):
    """The OffsetDateTime (calendar o, local day, nanosecond of day, offset) - built by one of several ROUTES and
    sometimes OBSERVED (to_instant, hash, ==, in_zone) before it is handed to the operation under test. The choice
    is a deterministic function of the fields. The abstract value is the same on every route, so the model's
    reply does not change; a value that remembers how it was made (memoised instant, calendar dropped on one
    route, non-normalised parts) makes the operation disagree."""
    P = _P()
    k = (days * 7 + nod // 1000 + nod + off) % 8
    x = None
    try:
        if k == 1:
            i = days * NPD + nod - off * NPS
            if INST_MIN <= i <= INST_MAX:
                x = mk_inst(*divmod(i, NPD)).with_offset(P.Offset.from_seconds(off), cal_of(o))
        elif k == 2:
            x = _mk_odt_plain(o, days, nod, off)
            x.to_instant()
            hash(x)
        elif k == 3:
            off2 = -off if off else 3600
            d2, n2 = divmod(days * NPD + nod + (off2 - off) * NPS, NPD)
            if day_ok(o, d2):
                x = _mk_odt_plain(o, d2, n2, off2).with_offset(P.Offset.from_seconds(off))
        elif k == 4:
            o2 = 0 if o != 0 else 2
            if day_ok(o2, days):
                x = _mk_odt_plain(o2, days, nod, off).with_calendar(cal_of(o))
        elif k == 5:
            d = P.Duration.from_nanoseconds(90_000_000_000_000 + nod % 1000)
            x = (_mk_odt_plain(o, days, nod, off) + d) - d
        elif k == 6:
            x = _mk_odt_plain(o, days, nod, off)
            x.in_fixed_zone().to_instant()
            _ = x == x, x.local_date_time, x.to_offset_date()
    except (ValueError, OverflowError):
        x = None
    if x is None:
        k = 0
        x = _mk_odt_plain(o, days, nod, off)
    ROUTES_USED[k] = ROUTES_USED.get(k, 0) + 1
    return x


def mk_inst(d, n):
    return _P().Instant._ctor(days=d, nano_of_day=n)


def mk_dur(d, n):
    return _P().Duration._ctor(days=d, nano_of_day=n)


def s_odt(x):
    """canonical fields of an OffsetDateTime; the instant it reports must be its local value minus its offset"""
    days, nod, off = x.date._days_since_epoch, x.nanosecond_of_day, x.offset.seconds
    want = days * NPD + nod - off * NPS
    if INST_MIN <= want <= INST_MAX:
        i = x.to_instant()
        got = i._days_since_epoch * NPD + i._nanosecond_of_day
        if got != want:
            return f"OUT-OF-STEP to_instant()={got} local-offset={want} fields {int(x.calendar._ordinal)} {days} {nod} {off}"
    return ints(int(x.calendar._ordinal), days, nod, off)


def s_inst(x):
    return ints(x._days_since_epoch, x._nanosecond_of_day)


def s_dur(x):
    return ints(x._floor_days, x._nanosecond_of_floor_day)


_ZONES: dict[str, object] = {}


def zone_of(zid: str, before: int):
    P = _P()
    if zid == "fixed":
        return P.DateTimeZone.for_offset(P.Offset.from_seconds(before))
    z = _ZONES.get(zid)
    if z is None:
        z = P.DateTimeZoneProviders.tzdb[zid]
        _ZONES[zid] = z
    return z


def split_z(t):
    """tokens -> (op, int args, zone tokens or None)"""
    if "Z" in t:
        k = t.index("Z")
        return t[0], [int(x) for x in t[1:k]], t[k + 1:]
    return t[0], [int(x) for x in t[1:]], None


def s_otime(x):
    raw = x._OffsetTime__nanoseconds_and_offset
    parts = [str(raw), str(x.nanosecond_of_day), str(x._offset_seconds)]
    for name in ["hour", "minute", "second", "millisecond", "tick_of_second", "tick_of_day", "nanosecond_of_second"]:
        parts.append(guard(lambda n=name: str(getattr(x, n))))
    return " ".join(parts)


def impl(t):
    P = _P()
    op, a, z = split_z(t)
    O = P.Offset
    if op == "odt.new":
        o, _, _, days, nod, off = a
        ldt = mk_date(o, days).at(P.LocalTime._ctor(nanoseconds=nod))
        x = P.OffsetDateTime(ldt, O.from_seconds(off)) if (days + nod) % 2 else ldt.with_offset(O.from_seconds(off))
        return s_odt(x) + " | " + guard(lambda: s_inst(x.to_instant()))
    if op == "odt.ofinst":
        o, _, _, idays, inod, off = a
        i = mk_inst(idays, inod)
        if o == 0 and inod % 2:
            return s_odt(P.OffsetDateTime._ctor(instant=i, offset=O.from_seconds(off)))
        if inod % 3 == 0:
            return s_odt(i.with_offset(O.from_seconds(off), cal_of(o)))
        return s_odt(P.OffsetDateTime._ctor(instant=i, offset=O.from_seconds(off), calendar=cal_of(o)))
    if op == "odt.toinst":
        return s_inst(mk_odt(a[0], a[3], a[4], a[5]).to_instant())
    if op == "odt.withoff":
        x, o2 = mk_odt(a[0], a[3], a[4], a[5]), O.from_seconds(a[6])
        try:
            return s_odt(x.with_offset(o2))
        except ValueError:
            # Badi: plus_days below the calendar's first day raises ValueError (days-in-year of year 0) where every
            # other calendar raises OverflowError; the property only asks for an error, compare as OverflowError
            if a[0] == 18:
                return "!overflowError"
            raise
    if op == "odt.withcal":
        return s_odt(mk_odt(a[0], a[3], a[4], a[5]).with_calendar(cal_of(a[6])))
    if op == "odt.withdate":
        nd = mk_date(a[6], a[9])
        return s_odt(mk_odt(a[0], a[3], a[4], a[5]).with_date_adjuster(lambda d: nd))
    if op == "odt.withtime":
        nt = P.LocalTime._ctor(nanoseconds=a[6])
        return s_odt(mk_odt(a[0], a[3], a[4], a[5]).with_time_adjuster(lambda _t: nt))
    if op == "odt.plus":
        x, d = mk_odt(a[0], a[3], a[4], a[5]), mk_dur(a[6], a[7])
        return s_odt(x + d if a[7] % 2 else x.plus(d))
    if op == "odt.minus":
        x, d = mk_odt(a[0], a[3], a[4], a[5]), mk_dur(a[6], a[7])
        return s_odt(x - d if a[7] % 2 else x.minus(d))
    if op == "odt.sub":
        return s_dur(mk_odt(a[0], a[3], a[4], a[5]) - mk_odt(a[6], a[9], a[10], a[11]))
    if op == "odt.eq":
        x, y = mk_odt(a[0], a[3], a[4], a[5]), mk_odt(a[6], a[9], a[10], a[11])
        e = x == y
        if (x != y) == e or x.equals(y) != e:
            return "inconsistent"
        return ints(e)
    if op == "odate.at":
        od = P.OffsetDate(mk_date(a[0], a[3]), O.from_seconds(a[4]))
        return s_odt(od.at(P.LocalTime._ctor(nanoseconds=a[5])))
    if op == "odate.withcal":
        od = P.OffsetDate(mk_date(a[0], a[3]), O.from_seconds(a[4])).with_calendar(cal_of(a[5]))
        return ints(int(od.calendar._ordinal), od.date._days_since_epoch, od.offset.seconds)
    if op == "odt.todate":
        od = mk_odt(a[0], a[3], a[4], a[5]).to_offset_date()
        return ints(int(od.calendar._ordinal), od.date._days_since_epoch, od.offset.seconds)
    if op == "otime.pack":
        nod, off = a
        if nod % 2:
            return s_otime(P.OffsetTime._ctor(nanosecond_of_day=nod, offset_seconds=off))
        return s_otime(P.OffsetTime(P.LocalTime._ctor(nanoseconds=nod), O._ctor(seconds=off)))
    if op == "otime.raw":
        return s_otime(P.OffsetTime._ctor(nanosecond_of_day_zero_offset=a[0]))
    if op == "otime.withoff":
        x = P.OffsetTime._ctor(nanosecond_of_day=a[0], offset_seconds=a[1]).with_offset(O.from_seconds(a[2]))
        return ints(x._OffsetTime__nanoseconds_and_offset, x.nanosecond_of_day, x._offset_seconds)
    if op == "otime.on":
        x = P.OffsetTime._ctor(nanosecond_of_day=a[0], offset_seconds=a[1])
        return s_odt(x.on(mk_date(a[2], a[5])))
    # ---- zoned
    if op == "zdt.ofinst":
        zone = zone_of(z[0], int(z[2]))
        i = mk_inst(a[3], a[4])
        if a[0] == 0 and a[4] % 2:
            return s_odt(i.in_zone(zone).to_offset_date_time())
        if a[4] % 3 == 0:
            return s_odt(P.ZonedDateTime(instant=i, zone=zone, calendar=cal_of(a[0])).to_offset_date_time())
        return s_odt(i.in_zone(zone, cal_of(a[0])).to_offset_date_time())
    if op == "zdt.new":
        zone = zone_of(z[0], int(z[2]))
        ldt = mk_date(a[0], a[3]).at(P.LocalTime._ctor(nanoseconds=a[4]))
        return s_odt(P.ZonedDateTime(local_date_time=ldt, zone=zone, offset=O.from_seconds(a[5])).to_offset_date_time())
    if op in ("zdt.plus", "zdt.minus", "zdt.withcal"):
        zone = zone_of(z[0], int(z[2]))
        x = P.ZonedDateTime._ctor(offset_date_time=mk_odt(a[0], a[3], a[4], a[5]), zone=zone)
        if op == "zdt.plus":
            return s_odt((x + mk_dur(a[6], a[7])).to_offset_date_time())
        if op == "zdt.minus":
            return s_odt((x + (-mk_dur(a[6], a[7]))).to_offset_date_time())
        return s_odt(x.to_instant().in_zone(x.zone, cal_of(a[6])).to_offset_date_time())
    if op == "zdt.withzone":
        zone2 = zone_of(z[0], int(z[2]))
        x = P.ZonedDateTime._ctor(offset_date_time=mk_odt(a[0], a[3], a[4], a[5]), zone=P.DateTimeZone.utc)
        return s_odt(x.to_instant().in_zone(zone2, x.calendar).to_offset_date_time())
    if op == "zdt.sub":
        utc = P.DateTimeZone.utc
        x = P.ZonedDateTime._ctor(offset_date_time=mk_odt(a[0], a[3], a[4], a[5]), zone=utc)
        y = P.ZonedDateTime._ctor(offset_date_time=mk_odt(a[6], a[9], a[10], a[11]), zone=utc)
        return s_dur(x.to_instant() - y.to_instant())
    raise ValueError("unknown op " + op)


# ---------------------------------------------------------------------------------------------
# the property in Python integers
# ---------------------------------------------------------------------------------------------

RAISE = "!raise"


def odt_valid(a):
    """a = [ord, mn, mx, days, nod, off]"""
    return a[1] <= a[3] <= a[2] and 0 <= a[4] < NPD and -OFF_MAX <= a[5] <= OFF_MAX


def odt_inst(a):
    return a[3] * NPD + a[4] - a[5] * NPS


def at_offset(o, mn, mx, inst, off):
    """the odt showing instant `inst` at offset `off` in calendar (o, mn, mx)"""
    if not INST_MIN <= inst <= INST_MAX or not -OFF_MAX <= off <= OFF_MAX:
        return RAISE
    d, n = divmod(inst + off * NPS, NPD)
    if not mn <= d <= mx:
        return RAISE
    return ints(o, d, n, off)


def s_split(ns, lo, hi):
    if not lo <= ns <= hi:
        return RAISE
    return ints(*divmod(ns, NPD))


def tdiv(x, y):
    q = abs(x) // abs(y)
    return q if (x >= 0) == (y > 0) else -q


def real_zone_offset(z, inst):
    zone = zone_of(z[0], int(z[2]))
    return zone.get_utc_offset(mk_inst(*divmod(inst, NPD))).seconds


def expect(t):
    """expected canonical reply, RAISE, or None when the input is outside the property's domain"""
    op, a, z = split_z(t)
    if op == "odt.new":
        o, mn, mx, days, nod, off = a
        if not 0 <= nod < NPD:
            return None
        if not (mn <= days <= mx and -OFF_MAX <= off <= OFF_MAX):
            return RAISE
        i = s_split(odt_inst(a), INST_MIN, INST_MAX)
        return ints(o, days, nod, off) + " | " + ("!overflowError" if i == RAISE else i)
    if op == "odt.ofinst":
        o, mn, mx, idays, inod, off = a
        if not (0 <= inod < NPD and IMIN <= idays <= IMAX):
            return None
        return at_offset(o, mn, mx, idays * NPD + inod, off)
    if op.startswith("odt.") or op.startswith("zdt."):
        if len(a) >= 6 and not odt_valid(a[:6]):
            return None
    if op == "odt.toinst":
        return s_split(odt_inst(a), INST_MIN, INST_MAX)
    if op == "odt.withoff":
        d, n = divmod(odt_inst(a) + a[6] * NPS, NPD)
        if not -OFF_MAX <= a[6] <= OFF_MAX or not a[1] <= d <= a[2]:
            return RAISE
        return ints(a[0], d, n, a[6])
    if op == "odt.withcal":
        return ints(a[6], a[3], a[4], a[5]) if a[7] <= a[3] <= a[8] else RAISE
    if op == "odt.withdate":
        return ints(a[6], a[9], a[4], a[5]) if a[7] <= a[9] <= a[8] else RAISE
    if op == "odt.withtime":
        return ints(a[0], a[3], a[6], a[5]) if 0 <= a[6] < NPD else None
    if op in ("odt.plus", "odt.minus"):
        if not (DMIN <= a[6] <= DMAX and 0 <= a[7] < NPD):
            return None
        d = a[6] * NPD + a[7]
        i = odt_inst(a)
        if not INST_MIN <= i <= INST_MAX:
            return RAISE
        return at_offset(a[0], a[1], a[2], i + d if op == "odt.plus" else i - d, a[5])
    if op in ("odt.sub", "zdt.sub"):
        if not odt_valid(a[6:12]):
            return None
        i, j = odt_inst(a[:6]), odt_inst(a[6:12])
        if not (INST_MIN <= i <= INST_MAX and INST_MIN <= j <= INST_MAX):
            return RAISE
        return s_split(i - j, DMIN * NPD, (DMAX + 1) * NPD - 1)
    if op == "odt.eq":
        if not odt_valid(a[6:12]):
            return None
        return ints((a[0], a[3], a[4], a[5]) == (a[6], a[9], a[10], a[11]))
    if op == "odate.at":
        if not (a[1] <= a[3] <= a[2] and abs(a[4]) <= OFF_MAX and 0 <= a[5] < NPD):
            return None
        return ints(a[0], a[3], a[5], a[4])
    if op == "odate.withcal":
        if not (a[1] <= a[3] <= a[2] and abs(a[4]) <= OFF_MAX):
            return None
        return ints(a[5], a[3], a[4]) if a[6] <= a[3] <= a[7] else RAISE
    if op == "odt.todate":
        return ints(a[0], a[3], a[5])
    if op in ("otime.pack", "otime.withoff", "otime.on"):
        if not (0 <= a[0] < NPD and abs(a[1]) <= OFF_MAX):
            return None
    if op == "otime.pack":
        nod, off = a
        return ints(nod + off * P47, nod, off, nod // (3600 * NPS), nod // (60 * NPS) % 60, nod // NPS % 60,
                    nod // 10**6 % 1000, nod // 100 % 10**7, nod // 100, nod % NPS)
    if op == "otime.raw":
        return None
    if op == "otime.withoff":
        if abs(a[2]) > OFF_MAX:
            return RAISE
        return ints(a[0] + a[2] * P47, a[0], a[2])
    if op == "otime.on":
        return ints(a[2], a[5], a[0], a[1]) if a[3] <= a[5] <= a[4] else None
    if op == "zdt.ofinst":
        if not (0 <= a[4] < NPD and IMIN <= a[3] <= IMAX):
            return None
        i = a[3] * NPD + a[4]
        return at_offset(a[0], a[1], a[2], i, real_zone_offset(z, i))
    if op == "zdt.new":
        i = odt_inst(a)
        if not INST_MIN <= i <= INST_MAX:
            return RAISE
        return ints(a[0], a[3], a[4], a[5]) if real_zone_offset(z, i) == a[5] else RAISE
    if op in ("zdt.plus", "zdt.minus"):
        if not (DMIN <= a[6] <= DMAX and 0 <= a[7] < NPD):
            return None
        d = a[6] * NPD + a[7]
        i = odt_inst(a)
        if not INST_MIN <= i <= INST_MAX:
            return RAISE
        j = i + d if op == "zdt.plus" else i - d
        if not INST_MIN <= j <= INST_MAX:
            return RAISE
        if op == "zdt.minus" and not DMIN * NPD <= -d:
            return RAISE
        return at_offset(a[0], a[1], a[2], j, real_zone_offset(z, j))
    if op == "zdt.withzone":
        i = odt_inst(a)
        if not INST_MIN <= i <= INST_MAX:
            return RAISE
        return at_offset(a[0], a[1], a[2], i, real_zone_offset(z, i))
    if op == "zdt.withcal":
        i = odt_inst(a)
        if not INST_MIN <= i <= INST_MAX:
            return RAISE
        return at_offset(a[6], a[7], a[8], i, real_zone_offset(z, i))
    return None


def oracle(t):
    exp = expect(t)
    if exp is None:
        return None
    got = guard(impl, t)
    op = t[0]
    line = " ".join(t)
    if exp == RAISE:
        if got.startswith("!") and not got.startswith("!other") and got != "!typeError":
            return None
        if op in ("odt.plus", "odt.minus") and got.split(" ")[0] != t[1]:
            return {"key": "odt-arith-drops-calendar",
                    "what": f"{line}: OffsetDateTime +/- Duration answered in calendar ordinal {got.split(' ')[0]} "
                            f"instead of {t[1]} (and so did not raise although the result is outside that calendar's range): {got}"}
        return {"key": op + "-out-of-range-returned", "what": f"{line}: returned {got} although the exact result is outside the supported range"}
    if got == exp:
        return _extra(t)
    if got.startswith("!"):
        return {"key": op + "-raises-in-range", "what": f"{line}: raised {got}, expected {exp}"}
    if op in ("odt.plus", "odt.minus") and got.split(" ")[0] != exp.split(" ")[0] and got.split(" ")[3:] == exp.split(" ")[3:]:
        return {"key": "odt-arith-drops-calendar",
                "what": f"{line}: OffsetDateTime +/- Duration answered in calendar ordinal {got.split(' ')[0]} (reply {got}); "
                        f"the calendar {t[1]} must be retained (expected {exp})"}
    return {"key": op + "-mismatch", "what": f"{line}: got {got}, exact integer arithmetic gives {exp}"}


def _extra(t):
    """checks on the real objects that the one-line reply does not show"""
    P = _P()
    op, a, z = split_z(t)
    if op in ("zdt.plus", "zdt.ofinst"):
        zone = zone_of(z[0], int(z[2]))
        if op == "zdt.plus":
            x = P.ZonedDateTime._ctor(offset_date_time=mk_odt(a[0], a[3], a[4], a[5]), zone=zone)
            try:
                r = x + mk_dur(a[6], a[7])
            except (ValueError, OverflowError):
                return None
        else:
            try:
                r = mk_inst(a[3], a[4]).in_zone(zone, cal_of(a[0]))
            except (ValueError, OverflowError):
                return None
        if r.zone is not zone:
            return {"key": "zdt-zone-not-retained", "what": f"{' '.join(t)}: result zone {r.zone} is not the zone of the operand"}
        li = r.local_date_time
        if (li.date._days_since_epoch, li.nanosecond_of_day) != (r.date._days_since_epoch, r.time_of_day.nanosecond_of_day):
            return {"key": "zdt-local-inconsistent", "what": f"{' '.join(t)}: local_date_time disagrees with date/time_of_day"}
        ri = r.to_instant()
        if (ri._days_since_epoch * NPD + ri._nanosecond_of_day) != li.date._days_since_epoch * NPD + li.nanosecond_of_day - r.offset.seconds * NPS:
            return {"key": "zdt-instant-not-local-minus-offset", "what": f"{' '.join(t)}: to_instant() != local - offset"}
        if op == "zdt.ofinst" and a[4] % 4 == 0:
            from pyoda_time.testing import FakeClock
            zc = P.ZonedClock(FakeClock(mk_inst(a[3], a[4])), zone, cal_of(a[0]))
            if (zc.get_current_zoned_date_time() != r or zc.get_current_offset_date_time() != r.to_offset_date_time()
                    or zc.get_current_local_date_time() != li or zc.get_current_date() != r.date
                    or zc.get_curent_time_of_day() != r.time_of_day or s_inst(zc.get_current_instant()) != ints(a[3], a[4])):
                return {"key": "zonedclock-getters", "what": f"{' '.join(t)}: ZonedClock getters disagree with Instant.in_zone"}
    if op == "odt.ofinst":
        try:
            x = mk_inst(a[3], a[4]).with_offset(P.Offset.from_seconds(a[5]), cal_of(a[0]))
        except (ValueError, OverflowError):
            return None
        if s_inst(x.to_instant()) != ints(a[3], a[4]):
            return {"key": "odt-toinstant-ofinstant", "what": f"{' '.join(t)}: to_instant() gives {s_inst(x.to_instant())}"}
        if x.in_fixed_zone().to_offset_date_time() != x or x.local_date_time.with_offset(x.offset) != x:
            return {"key": "odt-conversion-roundtrip", "what": f"{' '.join(t)}: in_fixed_zone / local_date_time.with_offset do not give the value back"}
        if x.to_offset_time().on(x.date) != x or x.to_offset_date().at(x.time_of_day) != x:
            return {"key": "odt-conversion-roundtrip", "what": f"{' '.join(t)}: to_offset_time().on / to_offset_date().at do not give the value back"}
    return None


PERTURB = {
    "odt.new": [4, 5, 6], "odt.ofinst": [4, 5, 6], "odt.toinst": [4, 5, 6], "odt.withoff": [4, 5, 6, 7],
    "odt.plus": [4, 5, 7, 8], "odt.minus": [4, 5, 7, 8], "odt.withtime": [5, 7], "odt.sub": [4, 5, 10, 11],
    "zdt.plus": [4, 5, 7, 8], "zdt.minus": [4, 5, 7, 8], "zdt.ofinst": [4, 5], "otime.pack": [1, 2],
}


def neighbours(t):
    out = []
    for i in PERTURB.get(t[0], []):
        if i < len(t) and t[i].lstrip("-").isdigit():
            for dlt in (-1, 1):
                u = list(t)
                u[i] = str(int(t[i]) + dlt)
                out.append(" ".join(u))
    return out


# ---------------------------------------------------------------------------------------------
# generators
# ---------------------------------------------------------------------------------------------

CAL_ORDS = [0, 1, 2, 3, 4, 5, 6, 8, 9, 13, 16, 17, 18]
OFFS = [0, 1, -1, OFF_MAX, -OFF_MAX, OFF_MAX - 1, -(OFF_MAX - 1), 3600, -3600, 19800, -34200]

_day_ok: dict[tuple[int, int], bool] = {}


def day_ok(o, d):
    """inside the calendar's range the day number must survive day -> y/m/d -> day on the real calendar
    (it does not in the pinned Um Al Qura and Badi tables: C01's findings; such days are not used here)"""
    c = cal_of(o)
    if not c._min_days <= d <= c._max_days:
        return True
    if o not in (17, 18):
        return True
    k = (o, d)
    r = _day_ok.get(k)
    if r is None:
        try:
            x = mk_date(o, d)
            r = x._days_since_epoch == d and c.min_year <= x.year <= c.max_year
        except Exception:  # noqa: BLE001
            r = False
        _day_ok[k] = r
    return r


def cal_tok(o):
    c = cal_of(o)
    return f"{o} {c._min_days} {c._max_days}"


def gen_off(rng):
    return rng.choice(OFFS) if rng.random() < 0.7 else rng.randint(-OFF_MAX, OFF_MAX)


def gen_day(rng, o):
    c = cal_of(o)
    mn, mx = c._min_days, c._max_days
    r = rng.random()
    if r < 0.3:
        d = rng.choice([mn, mn + 1, mn + 2, mx, mx - 1, mx - 2])
    elif r < 0.45:
        d = rng.choice([0, -1, 1, IMIN, IMAX, IMIN + 1, IMAX - 1, -719162, -719163])
    elif r < 0.6:
        d = rng.randint(-30000, 30000)
    else:
        d = rng.randint(mn, mx)
    return max(mn, min(mx, d))


def gen_nod(rng, shift_ns=0):
    """nanosecond of day near the thresholds where adding `shift_ns` carries 0, 1 or 2 days"""
    r = rng.random()
    if r < 0.25:
        n = rng.choice([0, 1, NPD - 1, NPD - 2, NPD // 2, NPS, NPD - NPS])
    elif r < 0.7:
        n = (rng.choice([0, NPD, 2 * NPD, -NPD]) - shift_ns) % NPD + rng.choice([-1, 0, 1, 0, -NPS, NPS])
    else:
        n = rng.randint(0, NPD - 1)
    return max(0, min(NPD - 1, n))


def gen_odt(rng, o=None):
    """a valid odt (list of 6 ints) whose day survives the calendar round trip"""
    for _ in range(50):
        oo = rng.choice(CAL_ORDS) if o is None else o
        c = cal_of(oo)
        off = gen_off(rng)
        d = gen_day(rng, oo)
        if day_ok(oo, d):
            return [oo, c._min_days, c._max_days, d, gen_nod(rng, -off * NPS), off]
    raise RuntimeError("no valid day found")


def same_fields_other_calendar(rng, x):
    """an odt whose date has the same year/month/day NUMBERS as x's date but in another calendar system"""
    P = _P()
    d = mk_date(x[0], x[3])
    for _ in range(6):
        o2 = rng.choice(CAL_ORDS)
        if o2 == x[0]:
            continue
        c2 = cal_of(o2)
        try:
            d2 = P.LocalDate(d.year, d.month, d.day, c2)
        except Exception:  # noqa: BLE001  (fields not valid in that calendar)
            continue
        dd = d2._days_since_epoch
        if not day_ok(o2, dd):
            continue
        r = rng.random()
        nod = x[4] if r < 0.4 else gen_nod(rng)
        off = x[5] if r < 0.7 else gen_off(rng)
        return [o2, c2._min_days, c2._max_days, dd, nod, off]
    return None


def gen_dur_for(rng, x):
    """a duration that moves odt x across 0, 1, 2 local day boundaries, to the range ends, or far away"""
    loc = x[3] * NPD + x[4]
    r = rng.random()
    if r < 0.1:
        d = rng.choice([0, 1, -1, NPD, -NPD, 2 * NPD, -2 * NPD, NPD - 1, 1 - NPD])
    elif r < 0.5:
        k = rng.choice([-2, -1, 0, 1, 2, 3])
        d = (x[3] + k) * NPD - loc + rng.choice([-1, 0, 1, 0])
    elif r < 0.65:
        tgt_day = rng.choice([x[1], x[2] + 1])            # first valid / first invalid local instants of the calendar
        d = tgt_day * NPD - loc + rng.choice([-1, 0, 1])
    elif r < 0.75:
        tgt = rng.choice([INST_MIN, INST_MAX]) + rng.choice([-1, 0, 1])
        d = tgt - (loc - x[5] * NPS)
    elif r < 0.9:
        d = rng.randint(-400 * NPD, 400 * NPD)
    else:
        d = rng.randint(DMIN * NPD, (DMAX + 1) * NPD - 1)
    d = max(DMIN * NPD, min((DMAX + 1) * NPD - 1, d))
    return divmod(d, NPD)


def result_day_ok(x, delta_ns):
    d = (x[3] * NPD + x[4] + delta_ns) // NPD
    return all(day_ok(x[0], d + k) for k in (-1, 0, 1))


def J(*parts):
    out = []
    for p in parts:
        if isinstance(p, (list, tuple)):
            out.extend(str(v) for v in p)
        else:
            out.append(str(p))
    return " ".join(out)


def gen_plain_ops(ctx, n):
    rng = ctx.rng
    ops = []
    for _ in range(n):
        x = gen_odt(rng)
        o = x[0]
        c3 = x[:3]
        k = rng.random()
        if k < 0.08:
            d = x[3] if rng.random() < 0.8 else rng.choice([x[1] - 1, x[2] + 1])
            off = x[5] if rng.random() < 0.9 else rng.choice([OFF_MAX + 1, -OFF_MAX - 1])
            ops.append(J("odt.new", c3, d, x[4], off))
        elif k < 0.25:
            # instant shown at an offset: pick the local value first, so that calendar edges are hit
            i = x[3] * NPD + x[4] - x[5] * NPS + rng.choice([0, 0, 0, NPD, -NPD])
            i = max(INST_MIN, min(INST_MAX, i))
            if result_day_ok(x, 0):
                ops.append(J("odt.ofinst", c3, divmod(i, NPD), x[5]))
        elif k < 0.3:
            ops.append(J("odt.toinst", x))
        elif k < 0.45:
            off2 = gen_off(rng)
            y = list(x)
            y[4] = gen_nod(rng, (off2 - x[5]) * NPS)
            if result_day_ok(y, (off2 - y[5]) * NPS):
                ops.append(J("odt.withoff", y, off2))
        elif k < 0.53:
            o2 = rng.choice(CAL_ORDS)
            if day_ok(o2, x[3]):
                ops.append(J("odt.withcal", x, cal_tok(o2)))
                if rng.random() < 0.3:
                    ops.append(J("odate.withcal", c3, x[3], x[5], cal_tok(o2)))
        elif k < 0.58:
            y = gen_odt(rng, o if rng.random() < 0.6 else None)
            ops.append(J("odt.withdate", x, y[:4]))
        elif k < 0.62:
            ops.append(J("odt.withtime", x, gen_nod(rng)))
        elif k < 0.82:
            dd = gen_dur_for(rng, x)
            delta = dd[0] * NPD + dd[1]
            if not result_day_ok(x, delta):
                continue
            if rng.random() < 0.5:
                ops.append(J("odt.plus", x, dd))
            elif DMIN * NPD <= -delta:
                ops.append(J("odt.minus", x, divmod(-delta, NPD)))
        elif k < 0.9:
            y = gen_odt(rng)
            if rng.random() < 0.3:
                # same instant, other offset and calendar
                i = odt_inst(x)
                d2, n2 = divmod(i + y[5] * NPS, NPD)
                if y[1] <= d2 <= y[2] and day_ok(y[0], d2):
                    y = y[:3] + [d2, n2, y[5]]
            ops.append(J(rng.choice(["odt.sub", "odt.sub", "zdt.sub"]), x, y))
            ops.append(J("odt.eq", x, y if rng.random() < 0.5 else x))
            # the same raw (year, month, day) numbers in ANOTHER calendar (a different physical day), same or other
            # offset and time: a shortcut that compares packed fields without the calendar shows up here
            tw = same_fields_other_calendar(rng, x)
            if tw is not None:
                ops.append(J("odt.sub", x, tw))
                ops.append(J("odt.sub", tw, x))
                ops.append(J("odt.eq", x, tw))
        elif k < 0.94:
            ops.append(J("odate.at", c3, x[3], x[5], x[4]))
            ops.append(J("odt.todate", x))
            ops.append(J("otime.on", x[4], x[5], c3, x[3]))
        else:
            ops.append(J("otime.pack", x[4], x[5]))
            ops.append(J("otime.withoff", x[4], x[5], gen_off(rng) if rng.random() < 0.9 else OFF_MAX + 1))
    for nod in [0, 1, NPD - 1, P47 - 1 - NPD, 2**46, 2**46 - 1, 3600 * NPS - 1, 3600 * NPS, 60 * NPS - 1]:
        for off in [0, 1, -1, OFF_MAX, -OFF_MAX]:
            if nod < NPD:
                ops.append(J("otime.pack", nod, off))
            ops.append(J("otime.raw", nod % NPD + off * P47))
    return ops


ZONE_IDS = [
    "Europe/London", "Europe/Paris", "America/New_York", "America/Los_Angeles", "America/St_Johns", "America/Sao_Paulo",
    "Australia/Lord_Howe", "Australia/Sydney", "Pacific/Apia", "Pacific/Kiritimati", "Pacific/Chatham", "Asia/Kathmandu",
    "Asia/Kolkata", "Asia/Tehran", "Asia/Tokyo", "Africa/Casablanca", "Africa/Cairo", "Africa/Monrovia", "America/Caracas",
    "Antarctica/Troll", "Asia/Pyongyang", "Europe/Dublin", "Europe/Moscow", "America/Havana", "Asia/Gaza", "America/Godthab",
    "Pacific/Tongatapu", "America/Anchorage", "Asia/Manila", "Atlantic/Azores", "Asia/Dhaka", "America/Juneau",
]


def zone_specs(ctx):
    """(id, t, before, after, lo, hi) for transitions of real tzdb zones, read off the real zone intervals,
    plus fixed zones"""
    import zonelib
    rng = ctx.rng
    P = _P()
    specs = []
    per_zone = 6 if not ctx.thorough else 40
    for zid in ZONE_IDS:
        try:
            zone = zone_of(zid, 0)
        except Exception:  # noqa: BLE001
            continue
        for _ in range(per_zone):
            yr = rng.choice([rng.randint(1880, 2040), rng.randint(1970, 2037), rng.randint(2038, 2400)])
            at = P.Instant.from_utc(yr, rng.randint(1, 12), 1, 0, 0)
            zi = zone.get_zone_interval(at)
            if not zi.has_end:
                if not zi.has_start:
                    continue
                t = zonelib.inst_ns(zi.start)
                prev = zone.get_zone_interval(zi.start - P.Duration.epsilon)
                lo = zonelib.inst_ns(prev.start) if prev.has_start else INST_MIN
                specs.append((zid, t, prev.wall_offset.seconds, zi.wall_offset.seconds, lo, INST_MAX + 1))
                continue
            t = zonelib.inst_ns(zi.end)
            nxt = zone.get_zone_interval(zi.end)
            lo = zonelib.inst_ns(zi.start) if zi.has_start else INST_MIN
            hi = zonelib.inst_ns(nxt.end) if nxt.has_end else INST_MAX + 1
            specs.append((zid, t, zi.wall_offset.seconds, nxt.wall_offset.seconds, lo, hi))
    for off in OFFS:
        specs.append(("fixed", 0, off, off, INST_MIN, INST_MAX + 1))
    return specs


def gen_zoned_ops(ctx, n):
    rng = ctx.rng
    specs = zone_specs(ctx)
    ops = []

    def ztok(s):
        return "Z " + " ".join(str(v) for v in s)

    def off_at(s, i):
        return s[2] if i < s[1] else s[3]

    def inst_in(s):
        zid, t, _b, _a, lo, hi = s
        r = rng.random()
        if zid == "fixed":
            o = rng.choice(CAL_ORDS)
            c = cal_of(o)
            i = gen_day(rng, o) * NPD + gen_nod(rng) - s[2] * NPS
        elif r < 0.6:
            i = t + rng.choice([-1, 0, 1, -NPS, NPS, rng.randint(-3 * NPD, 3 * NPD), -3600 * NPS, 3600 * NPS - 1])
        else:
            i = rng.randint(lo, hi - 1)
        return max(lo, min(hi - 1, INST_MAX, max(INST_MIN, i)))

    for _ in range(n):
        s = rng.choice(specs)
        o = rng.choice(CAL_ORDS)
        c = cal_of(o)
        i = inst_in(s)
        off = off_at(s, i)
        d, nn = divmod(i + off * NPS, NPD)
        in_cal = c._min_days <= d <= c._max_days
        if not all(day_ok(o, d + k) for k in (-1, 0, 1)):
            continue
        k = rng.random()
        if k < 0.25 or not in_cal:
            ops.append(J("zdt.ofinst", cal_tok(o), divmod(i, NPD), ztok(s)))
            continue
        x = [o, c._min_days, c._max_days, d, nn, off]
        if k < 0.35:
            wrong = rng.choice([off, off, s[2], s[3], off + 1, off - 3600])
            if abs(wrong) <= OFF_MAX:
                ops.append(J("zdt.new", x[:5], wrong, ztok(s)))
            # local values INSIDE the gap / overlap at the transition, with the offset before and the offset after it:
            # inside a gap neither offset is the zone's offset at (local - offset), so the constructor must refuse both
            lo_l, hi_l = sorted((s[1] + s[2] * NPS, s[1] + s[3] * NPS))
            if hi_l > lo_l:
                for l in (lo_l, lo_l + 1, (lo_l + hi_l) // 2, hi_l - 1, hi_l):
                    dl, nl = divmod(l, NPD)
                    if c._min_days < dl < c._max_days and day_ok(o, dl):
                        for w in (s[2], s[3]):
                            ops.append(J("zdt.new", [o, c._min_days, c._max_days, dl, nl], w, ztok(s)))
        elif k < 0.8:
            # land around the transition, at the window ends, across local day boundaries
            r = rng.random()
            if r < 0.4:
                j = s[1] + rng.choice([-1, 0, 1, -NPS, NPS, rng.randint(-2 * NPD, 2 * NPD)])
            elif r < 0.7:
                dd = gen_dur_for(rng, x)
                j = i + dd[0] * NPD + dd[1]
            else:
                j = rng.randint(s[4], s[5] - 1)
            j = max(s[4], min(s[5] - 1, j))
            if s[0] == "fixed" and rng.random() < 0.3:
                j = rng.choice([INST_MIN, INST_MAX]) + rng.choice([-1, 0, 1])
            delta = j - i
            if not DMIN * NPD < delta < (DMAX + 1) * NPD:
                continue
            jd = (j + off_at(s, j) * NPS) // NPD
            if not all(day_ok(o, jd + q) for q in (-1, 0, 1)):
                continue
            if rng.random() < 0.75:
                ops.append(J("zdt.plus", x, divmod(delta, NPD), ztok(s)))
            else:
                ops.append(J("zdt.minus", x, divmod(-delta, NPD), ztok(s)))
        elif k < 0.9:
            o2 = rng.choice(CAL_ORDS)
            if all(day_ok(o2, d + q) for q in (-1, 0, 1)):
                ops.append(J("zdt.withcal", x, cal_tok(o2), ztok(s)))
        else:
            s2 = rng.choice(specs)
            if s2[4] <= i < s2[5]:
                d2 = (i + off_at(s2, i) * NPS) // NPD
                if all(day_ok(o, d2 + q) for q in (-1, 0, 1)):
                    ops.append(J("zdt.withzone", x, ztok(s2)))
    return ops


def run(ctx):
    n = ctx.scale(60_000, 2_000_000)
    ops = gen_plain_ops(ctx, n)
    ctx.correspond("offsettypes.ops", ops, impl, oracle=oracle, neighbours=neighbours)
    zops = gen_zoned_ops(ctx, ctx.scale(25_000, 600_000))
    ctx.correspond("offsettypes.zoned", zops, impl, oracle=oracle, neighbours=neighbours)


def replay_op(op, failure):
    return oracle(op.split(" "))
