"""Shared helpers for the Zone-area checks (C04, C05, C06): extraction of zone data from the real objects
into `zone.def` lines for the model driver, instant <-> integer conversion, canonical rendering."""
from __future__ import annotations

from common import InfraError, hexs

NPD = 86_400_000_000_000
NPS = 1_000_000_000
MIN_DAYS, MAX_DAYS = -4371222, 2932896
MINI = MIN_DAYS * NPD
MAXI = (MAX_DAYS + 1) * NPD - 1
BMIN = -(1 << 30) * NPD
AMAX = ((1 << 30) - 1) * NPD
INT_MIN, INT_MAX = -(2**31), 2**31 - 1


def P():
    import pyoda_time
    return pyoda_time


def inst_ns(i) -> int:
    return i._days_since_epoch * NPD + i._nanosecond_of_day


def ns_inst(t: int):
    I = P().Instant
    if t == BMIN:
        return I._before_min_value()
    if t == AMAX:
        return I._after_max_value()
    d, n = divmod(t, NPD)
    return I._ctor(days=d, nano_of_day=n)


def zi_str(z) -> str:
    return f"{inst_ns(z._raw_start)} {inst_ns(z._raw_end)} {hexs(z.name)} {z.wall_offset.seconds} {z.savings.seconds}"


def _attr(obj, cls, name):
    for n in (f"_{cls.lstrip('_')}__{name}", f"_{name}", name):
        if hasattr(obj, n):
            return getattr(obj, n)
    raise InfraError(f"cannot read {cls}.{name}: the private layout changed; update zonelib._attr")


def rec_str(r) -> str:
    yo = r.year_offset
    c = "_ZoneYearOffset"
    tod = _attr(yo, c, "time_of_day").nanosecond_of_day
    return " ".join(map(str, [hexs(r.name), r.savings.seconds, int(_attr(yo, c, "transition_mode")), _attr(yo, c, "month_of_year"),
                              _attr(yo, c, "day_of_month"), _attr(yo, c, "day_of_week"), int(_attr(yo, c, "advance_day_of_week")),
                              tod, int(_attr(yo, c, "add_day")), r.from_year, r.to_year]))


def unwrap(zone):
    """the uncached zone behind the provider's caching wrapper"""
    tz = getattr(zone, "_time_zone", None)
    return tz if tz is not None else zone


def zone_def_line(zid: str, zone) -> str:
    z = unwrap(zone)
    cn = type(z).__name__
    if cn == "_FixedDateTimeZone":
        return f"zone.def {zid} fixed " + zi_str(z.get_zone_interval(P().Instant.from_unix_time_seconds(0)))
    if cn == "_PrecalculatedDateTimeZone":
        periods = _attr(z, cn, "periods")
        tail = _attr(z, cn, "tail_zone")
        parts = [f"zone.def {zid} precalc {len(periods)}"] + [zi_str(p) for p in periods]
        if tail is None:
            parts.append("0")
        else:
            tc = "_StandardDaylightAlternatingMap"
            parts.append("1 " + str(_attr(tail, tc, "standard_offset").seconds))
            parts.append(rec_str(_attr(tail, tc, "standard_recurrence")))
            parts.append(rec_str(_attr(tail, tc, "dst_recurrence")))
        return " ".join(parts)
    raise InfraError(f"unsupported zone class {cn} for {zid}")


def zone_data(zone):
    """(periods, tail) of the real object, for generators"""
    z = unwrap(zone)
    cn = type(z).__name__
    if cn == "_PrecalculatedDateTimeZone":
        return _attr(z, cn, "periods"), _attr(z, cn, "tail_zone")
    return [z.get_zone_interval(P().Instant.from_unix_time_seconds(0))], None


_ids_cache = {}


def tzdb():
    return P().DateTimeZoneProviders.tzdb


def all_ids():
    if "ids" not in _ids_cache:
        _ids_cache["ids"] = list(tzdb().ids)
    return _ids_cache["ids"]


def safe_id(zid: str) -> str:
    return zid.replace(" ", "_")


def local_ns(ldt) -> int:
    li = ldt._to_local_instant()
    return li._days_since_epoch * NPD + li._nanosecond_of_day


def ns_local(l: int, calendar=None):
    """LocalDateTime (ISO or given calendar) for a local-instant nanosecond count"""
    Pm = P()
    d, n = divmod(l, NPD)
    date = Pm.LocalDate._ctor(days_since_epoch=d) if calendar is None else Pm.LocalDate._ctor(days_since_epoch=d, calendar=calendar)
    return date + Pm.LocalTime.from_nanoseconds_since_midnight(n)
