"""Child interpreter for checks that need a FRESH process and / or another interpreter mode.
  fresh_child.py factories   : calendar factories are first called with PLAIN INTS (the C# enum port accepts them), then
                               the calendars are used through the normal accessors; prints day numbers / month lengths
  fresh_child.py provider    : the built-in provider queried for ids and zone intervals (run with and without -O)
Output: JSON on stdout."""
import json
import os
import sys

sys.path.insert(0, os.environ.get("PYODA_REPO", "/repo"))
try:
    import icu  # noqa: F401
except Exception:  # noqa: BLE001
    sys.path.insert(0, os.path.join(os.path.dirname(os.path.abspath(__file__)), "icu_stub"))
import pyoda_time as P  # noqa: E402

mode = sys.argv[1]
plain = len(sys.argv) > 2 and sys.argv[2] == "plain-ints-first"
out = {}
if mode == "factories":
    CS = P.CalendarSystem
    if plain:
        CS.get_hebrew_calendar(2)
        CS.get_hebrew_calendar(1)
    cals = {"Hebrew Scriptural": CS.hebrew_scriptural, "Hebrew Civil": CS.hebrew_civil,
            "Hijri Civil-Base15": CS.for_id("Hijri Civil-Base15"), "Hijri Astronomical-Indian": CS.for_id("Hijri Astronomical-Indian"),
            "Hijri Civil-HabashAlHasib": CS.for_id("Hijri Civil-HabashAlHasib")}
    for name, c in cals.items():
        rows = []
        for y in (5784, 5785) if name.startswith("Hebrew") else (1445, 1446):
            n = c.get_months_in_year(y)
            rows.append([y, n, [c.get_days_in_month(y, m) for m in range(1, n + 1)],
                         [P.LocalDate(y, m, 1, c)._days_since_epoch for m in range(1, n + 1)]])
        d = P.LocalDate(2024, 4, 9).with_calendar(c)
        rows.append([d.year, d.month, d.day])
        out[name] = rows
elif mode == "provider":
    tz = P.DateTimeZoneProviders.tzdb
    ids = list(tz.ids)
    out["n_ids"] = len(ids)
    out["ids_head_tail"] = ids[:5] + ids[-5:]
    for zid in ["Europe/London", "America/New_York", "Africa/Cairo", "Australia/Lord_Howe", "Europe/Dublin", "GB", "Etc/GMT+5", "Asia/Tokyo",
                "UTC+05:30", "Pacific/Apia"]:
        rows = []
        for secs in (-2_000_000_000, 0, 946_684_800, 1_579_089_600, 1_720_000_000, 4_000_000_000):
            try:
                zi = tz[zid].get_zone_interval(P.Instant.from_unix_time_seconds(secs))
                rows.append([zi.name, zi.wall_offset.seconds, zi.savings.seconds])
            except Exception as e:  # noqa: BLE001
                rows.append(type(e).__name__)
        out[zid] = rows
elif mode == "culture-case":
    # culture-case <first-name or -> <name>: optionally construct CultureInfo(first) first, then report CultureInfo(name)
    from pyoda_time._compatibility._culture_info import CultureInfo
    first, name = sys.argv[2], sys.argv[3]
    if first != "-":
        CultureInfo(first)
    c = CultureInfo(name)
    out = {"name": c.name, "months": list(c.date_time_format.month_names)[:3], "get_culture_info": CultureInfo.get_culture_info(name).name}
print(json.dumps(out, sort_keys=True))
