"""C12 support: equality / hashing / ordering must not depend on HOW a value was constructed.

For one abstract value (an instant in ns, a duration in ns, a local date-time = (calendar, day, nanosecond of
day), ...) build the value by several public routes of the real code (factories, arithmetic that lands on it,
conversions through offsets and calendars) and demand that all results are ==, hash equally, compare as 0, are
normalised, and that min/max/sorted treat them as one value. Direct oracle on the real code; the Lean theorems
about equality (duration_eq_iff_components, cmp_iff_timeline, ...) are about the normalised representation, this
oracle is what ties "every route yields the normalised representation" to the code."""
from __future__ import annotations

NPD = 86_400_000_000_000
NPS = 1_000_000_000
IMIN, IMAX = -4371222, 2932896          # Instant day range


def _P():
    import pyoda_time as P
    return P


def _offs(ns_of_day):
    """offsets (seconds) for which local = instant + offset lands exactly on / just around a day boundary"""
    s = ns_of_day // NPS
    out = {0, 3600, -3600, 64800, -64800, 1, -1}
    if ns_of_day % NPS == 0:
        for k in (0, 86400):
            o = k - s
            if -64800 <= o <= 64800:
                out.add(o)
            if -64800 <= -o <= 64800:
                out.add(-o)
        if -64800 <= -s <= 64800:
            out.add(-s)
        if -64800 <= 86400 - s <= 64800:
            out.add(86400 - s)
    return sorted(out)


def instant_routes(ns):
    P = _P()
    d, n = divmod(ns, NPD)
    base = P.Instant._ctor(days=d, nano_of_day=n)
    yield "ctor", base
    yield "epoch+dur", P.Instant.from_unix_time_ticks(0) + P.Duration.from_nanoseconds(ns)
    yield "plus_nanoseconds", P.Instant.from_unix_time_ticks(0).plus_nanoseconds(ns)
    for delta in (1, -1, NPD, -NPD, NPD - 1, n, -n if n else 7, NPD - n):
        try:
            yield f"(x+{delta})-{delta}", (base + P.Duration.from_nanoseconds(delta)) - P.Duration.from_nanoseconds(delta)
        except (ValueError, OverflowError):
            pass
        try:
            yield f"(x-{delta})+{delta}", (base - P.Duration.from_nanoseconds(delta)) + P.Duration.from_nanoseconds(delta)
        except (ValueError, OverflowError):
            pass
    for off in _offs(n):
        o = P.Offset.from_seconds(off)
        try:
            odt = base.with_offset(o)
        except (ValueError, OverflowError):
            continue
        yield f"with_offset({off}).to_instant", odt.to_instant()
        try:
            ld, nd = divmod(ns + off * NPS, NPD)
            ldt = P.LocalDateTime._ctor(local_date=P.LocalDate._ctor(days_since_epoch=ld, calendar=P.CalendarSystem.iso),
                                        local_time=P.LocalTime._ctor(nanoseconds=nd)) if hasattr(P.LocalDateTime, "_ctor") else None
            if ldt is not None:
                yield f"ldt.with_offset({off}).to_instant", ldt.with_offset(o).to_instant()
                yield f"ldt.in_utc-offset({off})", ldt.in_utc().to_instant() - P.Duration.from_seconds(off)
        except (ValueError, OverflowError, TypeError):
            pass
    try:
        yield "in_utc.to_instant", base.in_utc().to_instant()
    except (ValueError, OverflowError):
        pass
    if ns % 100 == 0:
        yield "from_unix_time_ticks", P.Instant.from_unix_time_ticks(ns // 100)
        yield "plus_ticks", P.Instant.from_unix_time_ticks(0).plus_ticks(ns // 100)
    if ns % 10**6 == 0:
        yield "from_unix_time_milliseconds", P.Instant.from_unix_time_milliseconds(ns // 10**6)
    if ns % NPS == 0:
        yield "from_unix_time_seconds", P.Instant.from_unix_time_seconds(ns // NPS)


def duration_routes(ns):
    P = _P()
    d, n = divmod(ns, NPD)
    base = P.Duration._ctor(days=d, nano_of_day=n)
    yield "ctor", base
    yield "from_nanoseconds", P.Duration.from_nanoseconds(ns)
    yield "days+nanos", P.Duration.from_days(d) + P.Duration.from_nanoseconds(n)
    yield "neg(neg)", -(-base) if ns != 0 or True else base
    for delta in (1, -1, NPD, -NPD, n, NPD - n, -ns):
        try:
            yield f"(x+{delta})-{delta}", (base + P.Duration.from_nanoseconds(delta)) - P.Duration.from_nanoseconds(delta)
        except (ValueError, OverflowError):
            pass
    e = P.Instant.from_unix_time_ticks(0)
    try:
        yield "instant-diff", (e + base) - e
        yield "neg instant-diff", -(e - (e + base))
    except (ValueError, OverflowError):
        pass
    for off in _offs(n):
        try:
            a = (e + base).with_offset(P.Offset.from_seconds(off))
            b = e.with_offset(P.Offset.from_seconds(-off if -64800 <= -off <= 64800 else 0))
            yield f"odt-diff({off})", a - b
            yield f"odt.to_instant-diff({off})", a.to_instant() - b.to_instant()
        except (ValueError, OverflowError):
            pass
    if ns % 100 == 0:
        yield "from_ticks", P.Duration.from_ticks(ns // 100)
    if ns % NPS == 0:
        yield "from_seconds", P.Duration.from_seconds(ns // NPS)
    if ns % 2 == 0:
        yield "half*2", P.Duration.from_nanoseconds(ns // 2) * 2
    yield "x*3/3", (base * 3) / 3 if abs(ns) < 10**26 else base


def ldt_routes(cal_ord, day, nod):
    P = _P()
    from pyoda_time._calendar_ordinal import _CalendarOrdinal
    c = P.CalendarSystem._for_ordinal(_CalendarOrdinal(cal_ord))
    ld = P.LocalDate._ctor(days_since_epoch=day, calendar=c)
    base = ld + P.LocalTime.from_nanoseconds_since_midnight(nod) if hasattr(ld, "__add__") else ld.at(P.LocalTime.from_nanoseconds_since_midnight(nod))
    yield "date+time", base
    yield "fields", P.LocalDateTime(ld.year, ld.month, ld.day, calendar=c).plus_nanoseconds(nod)
    yield "at_midnight+ns", ld.at_midnight().plus_nanoseconds(nod)
    for delta in (1, -1, NPD, -NPD, nod, NPD - nod, 36 * 3600 * NPS):
        try:
            yield f"(x+{delta})-{delta}", base.plus_nanoseconds(delta).plus_nanoseconds(-delta)
        except (ValueError, OverflowError):
            pass
    for hrs in (24, -24, 48, 1):
        try:
            yield f"hours({hrs})", base.plus_hours(hrs).plus_hours(-hrs)
        except (ValueError, OverflowError):
            pass
    for off in _offs(nod):
        try:
            o = P.Offset.from_seconds(off)
            yield f"via odt({off})", base.with_offset(o).local_date_time
            yield f"via instant({off})", base.with_offset(o).to_instant().with_offset(o, c).local_date_time
        except (ValueError, OverflowError):
            pass
    try:
        yield "other calendar and back", base.with_calendar(P.CalendarSystem.julian if cal_ord != 2 else P.CalendarSystem.iso).with_calendar(c)
    except (ValueError, OverflowError):
        pass


def ld_routes(cal_ord, day):
    """one LocalDate (calendar, day number) by many routes; years <= 0 are frequent in the generator because the
    packed year/month/day value changes sign there"""
    P = _P()
    from pyoda_time._calendar_ordinal import _CalendarOrdinal
    c = P.CalendarSystem._for_ordinal(_CalendarOrdinal(cal_ord))
    base = P.LocalDate._ctor(days_since_epoch=day, calendar=c)
    y, m, d = base.year, base.month, base.day
    yield "days-ctor", base
    yield "fields-ctor", P.LocalDate(y, m, d, c)
    for k in (1, -1, 40, -40, 400, -400):
        try:
            yield f"plus_days({k}) from a neighbour", P.LocalDate._ctor(days_since_epoch=day - k, calendar=c).plus_days(k)
        except (ValueError, OverflowError):
            pass
    for k in (1, -1, 4):
        try:
            src = P.LocalDate(y - k, m, d, c)
            r = src.plus_years(k)
            if (r.year, r.month, r.day) == (y, m, d):
                yield f"plus_years({k})", r
        except (ValueError, OverflowError):
            pass
    for k in (1, -1, 12):
        try:
            r = base.plus_months(k).plus_months(-k)
            if (r.year, r.month, r.day) == (y, m, d):
                yield f"plus_months({k}) and back", r
        except (ValueError, OverflowError):
            pass
    for other in (P.CalendarSystem.iso, P.CalendarSystem.julian, P.CalendarSystem.gregorian):
        if other is not c:
            try:
                yield f"with_calendar from {other.id}", P.LocalDate._ctor(days_since_epoch=day, calendar=other).with_calendar(c)
            except (ValueError, OverflowError):
                pass
    try:
        yield "LocalDateTime.date", (base.at_midnight().plus_nanoseconds(5)).date
        yield "to_year_month.on_day_of_month", base.to_year_month().on_day_of_month(d)
    except (ValueError, OverflowError, AttributeError):
        pass
    if cal_ord == 0:
        try:
            i = P.Instant._ctor(days=day, nano_of_day=1234)
            yield "Instant.in_utc().date", i.in_utc().date
            yield "Instant.with_offset.date", i.with_offset(P.Offset.zero).date
        except (ValueError, OverflowError):
            pass
        try:
            if not (m == 2 and d == 29):
                yield "AnnualDate.in_year", P.AnnualDate(m, d).in_year(y)
        except (ValueError, OverflowError, AttributeError):
            pass


def ym_routes(cal_ord, day):
    P = _P()
    for name, v in ld_routes(cal_ord, day):
        try:
            yield "to_year_month of " + name, v.to_year_month()
        except (ValueError, OverflowError):
            pass


def zi_routes(name, s_ns, e_ns, wall, sav):
    """one ZoneInterval by the constructor and as the result of _with_start / _with_end applied to intervals whose
    bound really moves (that is how a zone derives the first interval of its recurring tail), chained, and as
    intervals handed out by a SingleTransitionDateTimeZone"""
    P = _P()
    from pyoda_time.time_zones import ZoneInterval

    def I(ns):
        return P.Instant._ctor(days=ns // NPD, nano_of_day=ns % NPD)
    w, sv = P.Offset.from_seconds(wall), P.Offset.from_seconds(sav)
    base = ZoneInterval(name=name, start=I(s_ns), end=I(e_ns), wall_offset=w, savings=sv)
    yield "ctor", base
    for d in (1, NPD, -NPD, 12345678901234):
        if s_ns + d < e_ns:
            yield f"_with_start from start{d:+d}", ZoneInterval(name=name, start=I(s_ns + d), end=I(e_ns), wall_offset=w, savings=sv)._with_start(I(s_ns))
        if e_ns + d > s_ns:
            yield f"_with_end from end{d:+d}", ZoneInterval(name=name, start=I(s_ns), end=I(e_ns + d), wall_offset=w, savings=sv)._with_end(I(e_ns))
    mid = (s_ns + e_ns) // 2
    yield "chained", ZoneInterval(name=name, start=I(mid), end=I(mid + 1), wall_offset=w, savings=sv)._with_end(I(e_ns))._with_start(I(s_ns))
    yield "identity _with_start", base._with_start(I(s_ns))
    try:
        from pyoda_time.testing.time_zones import SingleTransitionDateTimeZone
        z = SingleTransitionDateTimeZone(I(e_ns), P.Offset.from_seconds(wall), P.Offset.from_seconds(0))
        early = z.early_interval
        if early.wall_offset == w:
            yield "zone-made early interval with its start moved", early._with_start(I(s_ns))._with_end(I(e_ns)) if False else \
                ZoneInterval(name=name, start=early._raw_start, end=I(e_ns), wall_offset=w, savings=sv)._with_start(I(s_ns))
    except Exception:  # noqa: BLE001
        pass


def iv_routes(has_s, s_ns, has_e, e_ns):
    """an Interval (either side possibly unbounded) by the constructor; copies are added by _check_group"""
    P = _P()

    def I(ns):
        return P.Instant._ctor(days=ns // NPD, nano_of_day=ns % NPD)
    yield "ctor", P.Interval(I(s_ns) if has_s else None, I(e_ns) if has_e else None)
    yield "ctor again", P.Interval(I(s_ns) if has_s else None, I(e_ns) if has_e else None)


def _derived_values(kind, v):
    """values built from a date: they must be equal whenever the dates are"""
    P = _P()
    if kind != "localdate":
        return []
    out = [("LocalDateTime", v.at_midnight()), ("OffsetDate", P.OffsetDate(v, P.Offset.zero)),
           ("DateInterval", P.DateInterval(v, v))]
    return out


def _fingerprint(v):
    """all public data attributes of a value that are plain data (int, str, bool, None), or the exception type they
    raise: two equal values must agree on every one of them (has_end of a copied Interval, fields of a derived date...)"""
    out = {}
    for a in dir(type(v)):
        if a.startswith("_"):
            continue
        try:
            static = getattr(type(v), a)
        except Exception:  # noqa: BLE001
            continue
        if not isinstance(static, property):
            continue
        try:
            x = getattr(v, a)
        except Exception as e:  # noqa: BLE001
            out[a] = "raises " + type(e).__name__
            continue
        if isinstance(x, (int, str, bool)) or x is None:
            out[a] = x
    return out


def _copies(name, v):
    import copy
    import pickle
    for cn, f in (("copy.copy", copy.copy), ("copy.deepcopy", copy.deepcopy), ("pickle", lambda x: pickle.loads(pickle.dumps(x)))):
        try:
            yield f"{cn} of {name}", f(v)
        except TypeError:
            pass                     # the type does not support it (ZonedDateTime, Period, ZoneInterval: not picklable)


def _check_group(kind, key, routes):
    P = _P()
    vals = []
    for name, v in routes:
        vals.append((name, v))
    if vals:
        vals.extend(list(_copies(*vals[0])) + (list(_copies(*vals[-1])) if len(vals) > 1 else []))
    if not vals:
        return None
    n0, v0 = vals[0]
    for name, v in vals[1:]:
        if not (v == v0) or (v != v0) or not (v0 == v):
            return {"key": f"{kind}-route-dependent-equality",
                    "what": f"{kind} {key}: route '{name}' gives a value that is not == the value of route '{n0}' although both denote {key} ({v!r} vs {v0!r})"}
        try:
            if hash(v) != hash(v0):
                return {"key": f"{kind}-route-dependent-hash", "what": f"{kind} {key}: hash differs between routes '{name}' and '{n0}'"}
        except TypeError:
            pass
        if hasattr(v, "compare_to") and v.compare_to(v0) != 0:
            return {"key": f"{kind}-route-dependent-order", "what": f"{kind} {key}: compare_to between routes '{name}' and '{n0}' is {v.compare_to(v0)}"}
        if kind not in ("zoneinterval", "interval") and ((v < v0) or (v > v0) or not (v <= v0) or not (v >= v0)):
            return {"key": f"{kind}-route-dependent-order", "what": f"{kind} {key}: ordering operators separate routes '{name}' and '{n0}'"}
        for (dn, dv), (_, d0) in zip(_derived_values(kind, v), _derived_values(kind, v0)):
            if not (dv == d0) or hash(dv) != hash(d0):
                return {"key": f"{kind}-route-dependent-equality",
                        "what": f"{kind} {key}: the {dn} built from route '{name}' is not == / does not hash like the one built from route '{n0}'"}
        fa, fb = _fingerprint(v), _fingerprint(v0)
        if fa != fb:
            k = next(a for a in fa if fa.get(a) != fb.get(a))
            return {"key": f"{kind}-route-dependent-attribute",
                    "what": f"{kind} {key}: attribute {k} is {fa.get(k)!r} on the value of route '{name}' and {fb.get(k)!r} on the == value of route '{n0}'"}
        if len({v, v0}) != 1:
            return {"key": f"{kind}-route-dependent-hash", "what": f"{kind} {key}: a set keeps the values of routes '{name}' and '{n0}' apart"}
        if kind in ("instant", "duration"):
            nod = v._nanosecond_of_day if kind == "instant" else v._nanosecond_of_floor_day
            if not (0 <= nod < NPD):
                return {"key": f"{kind}-not-normalised", "what": f"{kind} {key}: route '{name}' yields nanosecond-of-day {nod}"}
    return None


def case_fn(case):
    kind = case[0]
    if kind == "instant":
        return _check_group(kind, f"{case[1]} ns", instant_routes(case[1]))
    if kind == "duration":
        return _check_group(kind, f"{case[1]} ns", duration_routes(case[1]))
    if kind == "iv":
        return _check_group("interval", f"{case[1:]}", iv_routes(*case[1:]))
    if kind == "zi":
        return _check_group("zoneinterval", f"{case[1]} [{case[2]},{case[3]}) {case[4]} {case[5]}", zi_routes(*case[1:]))
    if kind == "ld":
        return _check_group("localdate", f"cal {case[1]} day {case[2]}", ld_routes(case[1], case[2]))
    if kind == "ym":
        return _check_group("yearmonth", f"cal {case[1]} month of day {case[2]}", ym_routes(case[1], case[2]))
    if kind == "ldt":
        return _check_group("localdatetime", f"cal {case[1]} day {case[2]} nod {case[3]}", ldt_routes(case[1], case[2], case[3]))
    raise ValueError(kind)


def gen_cases(rng, n):
    out = []
    for _ in range(n):
        r = rng.random()
        # values ON and next to day boundaries dominate: that is where carries live
        k = rng.random()
        if k < 0.45:
            nod = rng.choice([0, 0, 0, 1, NPD - 1, NPS, NPD - NPS, 3600 * NPS, NPD - 3600 * NPS, 12 * 3600 * NPS])
        elif k < 0.75:
            nod = rng.randrange(86400) * NPS
        else:
            nod = rng.randrange(NPD)
        if r < 0.03:
            a = rng.randint(-10**18, 10**18)
            out.append(("iv", rng.random() < 0.6, a, rng.random() < 0.6, a + rng.randint(0, 10**17)))
        elif r < 0.06:
            a = rng.randint(-10**18, 10**18)
            out.append(("zi", rng.choice(["A", "BST", "x y"]), a, a + rng.choice([1, 2, NPD, 180 * NPD, rng.randint(3, 10**17)]),
                        rng.choice([0, 3600, -18000, 64800]), rng.choice([0, 3600, 1800])))
        elif r < 0.25:
            o = rng.choice([0, 0, 1, 2, 2, 5, 3, 4, 6, 14])
            # around year 1 / year 0 / negative years of the Gregorian-like calendars, and anywhere
            day = rng.choice([-719162 + rng.randint(-1500, 800), -719162 - rng.randint(0, 3000000), rng.randint(-200000, 200000)])
            if o not in (0, 1, 2):
                day = rng.randint(-200000, 200000)
            out.append((rng.choice(["ld", "ld", "ym"]), o, day))
        elif r < 0.5:
            d = rng.choice([0, -1, 1, IMIN + 2, IMAX - 2, rng.randint(-800, 800), rng.randint(IMIN + 2, IMAX - 2)])
            out.append(("instant", d * NPD + nod))
        elif r < 0.7:
            d = rng.choice([0, -1, 1, -2, rng.randint(-800, 800), rng.randint(-2**23, 2**23)])
            out.append(("duration", d * NPD + nod))
        else:
            o = rng.choice([0, 0, 1, 2, 5, 3, 4])
            out.append(("ldt", o, rng.randint(-200000, 200000), nod))
    return out
