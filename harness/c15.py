"""C15 — conversions to and from Python's datetime types are exact and round-trip.

Stdlib values on the wire: date = proleptic Gregorian ordinal; time = microsecond of day; datetime = `ordinal us`;
aware datetime = `ordinal us off` (fixed offset seconds); timedelta = `days seconds microseconds`.
Pyoda values: calendar = `ord minDays maxDays`, date = calendar + day number, time = nanosecond of day,
instant / duration = `days nod`, offset = seconds.
"""
from __future__ import annotations

import datetime as dtm

from common import guard, ints

NPD = 86_400_000_000_000
NPS = 1_000_000_000
UPD = 86_400_000_000
ORD0 = 719163
MAX_ORD = 3652059
IMIN, IMAX = -4371222, 2932896
DMAX = (1 << 30) - 1
DMIN = -(1 << 30)
OFF_MAX = 64800
TD_MAX = 999_999_999

META = {
    "property": "C15",
    "proof_modules": ["PyodaProofs.C15", "PyodaProofs.C15Lemmas"],
    "drivers": ["drv_bridge"],
    "theorems": [
        "Pyoda.C15.date_from_to_id",
        "Pyoda.C15.time_from_to_id",
        "Pyoda.C15.ldt_from_to_id",
        "Pyoda.C15.inst_from_to_id",
        "Pyoda.C15.inst_from_to_id_utc",
        "Pyoda.C15.odt_from_to_id",
        "Pyoda.C15.dur_from_to_id",
        "Pyoda.C15.off_from_to_id",
        "Pyoda.C15.date_to_truncates",
        "Pyoda.C15.time_to_truncates",
        "Pyoda.C15.ldt_to_truncates",
        "Pyoda.C15.inst_to_truncates",
        "Pyoda.C15.odt_to_truncates",
        "Pyoda.C15.dur_to_truncates",
        "Pyoda.C15.off_from_truncates",
        "Pyoda.C15.off_to_exact",
        "Pyoda.C15.inst_from_exact",
        "Pyoda.C15.dur_from_exact",
        "Pyoda.C15.date_to_raises_iff_out_of_range",
        "Pyoda.C15.ldt_to_raises_iff_out_of_range",
        "Pyoda.C15.inst_to_raises_iff_out_of_range",
        "Pyoda.C15.odt_to_raises_iff_out_of_range",
        "Pyoda.C15.dur_to_raises_iff_out_of_range",
        "Pyoda.C15.off_from_raises_iff_out_of_range",
        "Pyoda.C15.inst_from_raises_iff",
    ],
    "trusted_base": [
        "CPython datetime/timedelta arithmetic and normalisation as modelled by PyTimedelta.ofUs / PyDateTime.addTd / sub (sampled by every bridge op)",
        "Gregorian year/month/day <-> day number of both libraries (C01/C02 and the stdlib): the model passes day number <-> ordinal directly, `gregorian.year < 1` is `ordinal < 1`",
        "Offset.from_timedelta goes through float total_seconds()*1e7; exact outcome (truncated whole seconds, range test) on the timedelta domain is sampled around every whole second and the +-18 h edge",
    ],
    "partial": [
        "tzinfo objects other than fixed-offset datetime.timezone, and datetime.time tzinfo/fold, are outside the model (from_time ignores them)",
    ],
    "rule": "stdlib values at min/max, years 1/2/9999, leap days, microseconds 0/1/999999, sub-microsecond remainders of both signs, non-ISO calendars, offsets in +-18 h (and beyond, to see the error); distinct = distinct op line; non-trivial = every op",
}


def _P():
    import pyoda_time as P
    return P


def _c11():
    import c11
    return c11


UTC = dtm.timezone.utc
T0 = dtm.datetime(1, 1, 1)


def py_time(us):
    return (T0 + dtm.timedelta(microseconds=us)).time()


def py_dt(o, us, off=None):
    x = dtm.datetime.combine(dtm.date.fromordinal(o), py_time(us))
    if off is not None:
        x = x.replace(tzinfo=dtm.timezone(dtm.timedelta(seconds=off)))
    return x


def us_of(t):
    return ((t.hour * 60 + t.minute) * 60 + t.second) * 10**6 + t.microsecond


def s_dt(x):
    return ints(x.toordinal(), us_of(x))


def s_td(x):
    return ints(x.days, x.seconds, x.microseconds)


def mk_ldt(o, days, nod):
    P = _P()
    return _c11().mk_date(o, days).at(P.LocalTime._ctor(nanoseconds=nod))


def impl(t):
    P = _P()
    c11 = _c11()
    op = t[0]
    a = [int(x) for x in t[1:]]
    if op == "br.date.to":
        return str(c11.mk_date(a[0], a[3]).to_date().toordinal())
    if op == "br.date.from":
        r = P.LocalDate.from_date(dtm.date.fromordinal(a[0]))
        return ints(int(r.calendar._ordinal), r._days_since_epoch)
    if op == "br.time.to":
        return str(us_of(P.LocalTime._ctor(nanoseconds=a[0]).to_time()))
    if op == "br.time.from":
        return str(P.LocalTime.from_time(py_time(a[0])).nanosecond_of_day)
    if op == "br.ldt.to":
        return s_dt(mk_ldt(a[0], a[3], a[4]).to_naive_datetime())
    if op == "br.ldt.from":
        x = py_dt(a[0], a[1])
        r = P.LocalDateTime.from_naive_datetime(x) if a[2] == 0 and a[1] % 2 else P.LocalDateTime.from_naive_datetime(x, c11.cal_of(a[2]))
        return ints(int(r.calendar._ordinal), r.date._days_since_epoch, r.nanosecond_of_day)
    if op == "br.inst.to":
        r = c11.mk_inst(a[0], a[1]).to_datetime_utc()
        if r.utcoffset() != dtm.timedelta(0):
            return "not-utc"
        return s_dt(r)
    if op == "br.inst.from":
        return c11.s_inst(P.Instant.from_aware_datetime(py_dt(a[0], a[1], a[2])))
    if op == "br.odt.to":
        r = c11.mk_odt(a[0], a[3], a[4], a[5]).to_aware_datetime()
        off = r.utcoffset()
        return s_dt(r) + " " + str(off.days * 86400 + off.seconds)
    if op == "br.odt.from":
        return c11.s_odt(P.OffsetDateTime.from_aware_datetime(py_dt(a[0], a[1], a[2])))
    if op == "br.dur.to":
        return s_td(c11.mk_dur(a[0], a[1]).to_timedelta())
    if op == "br.dur.from":
        return c11.s_dur(P.Duration.from_timedelta(dtm.timedelta(days=a[0], seconds=a[1], microseconds=a[2])))
    if op == "br.off.to":
        return s_td(P.Offset.from_seconds(a[0]).to_timedelta())
    if op == "br.off.from":
        return str(P.Offset.from_timedelta(dtm.timedelta(days=a[0], seconds=a[1], microseconds=a[2])).seconds)
    if op == "br.ticks.dt":
        from pyoda_time.utility._csharp_compatibility import _to_ticks
        x = py_dt(a[0], a[1])
        r = _to_ticks(x)
        if _to_ticks(x.replace(tzinfo=dtm.timezone(dtm.timedelta(hours=5)))) != r:
            return "aware-differs"
        return str(r)
    if op == "br.ticks.td":
        from pyoda_time.utility._csharp_compatibility import _to_ticks
        return str(_to_ticks(dtm.timedelta(days=a[0], seconds=a[1], microseconds=a[2])))
    raise ValueError("unknown op " + op)


# ---------------------------------------------------------------------------------------------
# the property, with the standard library as the reference
# ---------------------------------------------------------------------------------------------

def tdiv(x, y):
    q = abs(x) // abs(y)
    return q if (x >= 0) == (y > 0) else -q


def _raises(fn):
    try:
        fn()
    except (ValueError, OverflowError, RuntimeError) as e:
        return type(e).__name__
    return None


def fail(key, what):
    return {"key": key, "what": what}


YEAR1 = "to-naive-datetime-rejects-year-1"


def oracle(t):
    P = _P()
    c11 = _c11()
    op = t[0]
    a = [int(x) for x in t[1:]]
    line = " ".join(t)
    if op == "br.date.to":
        c = c11.cal_of(a[0])
        if not c._min_days <= a[3] <= c._max_days:
            return None
        ld = c11.mk_date(a[0], a[3])
        o = a[3] + ORD0
        if not 1 <= o <= MAX_ORD:
            e = _raises(ld.to_date)
            return None if e else fail("date-to-out-of-range-returned", f"{line}: to_date() returned {ld.to_date()} for a day before 0001-01-01")
        e = _raises(ld.to_date)
        if e:
            return fail("date-to-raises-in-range", f"{line}: to_date() raised {e}")
        r = ld.to_date()
        g = ld.with_calendar(P.CalendarSystem.gregorian)
        if r != dtm.date.fromordinal(o) or (r.year, r.month, r.day) != (g.year, g.month, g.day):
            return fail("date-to-wrong-day", f"{line}: to_date() = {r}, same physical day is {dtm.date.fromordinal(o)} / Gregorian {g.year}-{g.month}-{g.day}")
        return None
    if op == "br.date.from":
        if not 1 <= a[0] <= MAX_ORD:
            return None
        x = dtm.date.fromordinal(a[0])
        ld = P.LocalDate.from_date(x)
        if (ld.year, ld.month, ld.day) != (x.year, x.month, x.day) or ld.calendar != P.CalendarSystem.iso:
            return fail("date-from-fields", f"{line}: from_date({x}) = {ld.year}-{ld.month}-{ld.day} in {ld.calendar}")
        if ld.to_date() != x:
            return fail("date-roundtrip", f"{line}: from_date({x}).to_date() = {ld.to_date()}")
        return None
    if op == "br.time.to":
        if not 0 <= a[0] < NPD:
            return None
        r = P.LocalTime._ctor(nanoseconds=a[0]).to_time()
        if us_of(r) != a[0] // 1000 or r.tzinfo is not None:
            return fail("time-to-truncation", f"{line}: to_time() = {r} ({us_of(r)} us), floor is {a[0] // 1000} us")
        return None
    if op == "br.time.from":
        if not 0 <= a[0] < UPD:
            return None
        x = py_time(a[0])
        lt = P.LocalTime.from_time(x)
        if lt.nanosecond_of_day != a[0] * 1000:
            return fail("time-from-inexact", f"{line}: from_time({x}) = {lt.nanosecond_of_day} ns")
        if lt.to_time() != x:
            return fail("time-roundtrip", f"{line}: from_time({x}).to_time() = {lt.to_time()}")
        return None
    if op == "br.ldt.to":
        c = c11.cal_of(a[0])
        if not (c._min_days <= a[3] <= c._max_days and 0 <= a[4] < NPD):
            return None
        v = mk_ldt(a[0], a[3], a[4])
        o = a[3] + ORD0
        e = _raises(v.to_naive_datetime)
        if o < 1:
            return None if e else fail("ldt-to-out-of-range-returned", f"{line}: to_naive_datetime() returned a value for a day before 0001-01-01")
        if e:
            if dtm.date.fromordinal(o).year == 1:
                return fail(YEAR1, f"{line}: LocalDateTime on {dtm.date.fromordinal(o)} (calendar ordinal {a[0]}) .to_naive_datetime() raised {e}; datetime.min is 0001-01-01")
            return fail("ldt-to-raises-in-range", f"{line}: to_naive_datetime() raised {e}")
        r = v.to_naive_datetime()
        if (r.toordinal(), us_of(r)) != (o, a[4] // 1000) or r.tzinfo is not None:
            return fail("ldt-to-truncation", f"{line}: to_naive_datetime() = {r}; same day/time floored to us is ordinal {o}, {a[4] // 1000} us")
        return None
    if op == "br.ldt.from":
        if not (1 <= a[0] <= MAX_ORD and 0 <= a[1] < UPD):
            return None
        x = py_dt(a[0], a[1])
        c = c11.cal_of(a[2])
        inr = c._min_days <= a[0] - ORD0 <= c._max_days
        e = _raises(lambda: P.LocalDateTime.from_naive_datetime(x, c))
        if not inr:
            return None if e else fail("ldt-from-out-of-calendar-returned", f"{line}: from_naive_datetime({x}, {c}) returned although the day is outside the calendar")
        if e:
            return fail("ldt-from-raises-in-range", f"{line}: from_naive_datetime({x}, {c}) raised {e}")
        v = P.LocalDateTime.from_naive_datetime(x, c)
        if (v.date._days_since_epoch, v.nanosecond_of_day, v.calendar) != (a[0] - ORD0, a[1] * 1000, c):
            return fail("ldt-from-inexact", f"{line}: from_naive_datetime({x}) = day {v.date._days_since_epoch}, {v.nanosecond_of_day} ns, {v.calendar}")
        if a[2] == 0 and (v.year, v.month, v.day, v.hour, v.minute, v.second) != (x.year, x.month, x.day, x.hour, x.minute, x.second):
            return fail("ldt-from-fields", f"{line}: fields differ from {x}")
        e = _raises(v.to_naive_datetime)
        if e:
            return fail(YEAR1 if x.year == 1 else "ldt-roundtrip-raises", f"{line}: from_naive_datetime({x}).to_naive_datetime() raised {e}")
        if v.to_naive_datetime() != x:
            return fail("ldt-roundtrip", f"{line}: from_naive_datetime({x}).to_naive_datetime() = {v.to_naive_datetime()}")
        return None
    if op == "br.inst.to":
        if not (IMIN <= a[0] <= IMAX and 0 <= a[1] < NPD):
            return None
        i = c11.mk_inst(a[0], a[1])
        e = _raises(i.to_datetime_utc)
        o = a[0] + ORD0
        if o < 1:
            return None if e else fail("inst-to-out-of-range-returned", f"{line}: to_datetime_utc() returned for an instant before 0001-01-01")
        if e:
            return fail("inst-to-raises-in-range", f"{line}: to_datetime_utc() raised {e}")
        r = i.to_datetime_utc()
        if r.tzinfo is None or r.utcoffset() != dtm.timedelta(0) or (r.toordinal(), us_of(r)) != (o, a[1] // 1000):
            return fail("inst-to-truncation", f"{line}: to_datetime_utc() = {r}; floor to us is ordinal {o}, {a[1] // 1000} us UTC")
        return None
    if op == "br.inst.from":
        if not (1 <= a[0] <= MAX_ORD and 0 <= a[1] < UPD and abs(a[2]) < 86400):
            return None
        x = py_dt(a[0], a[1], a[2])
        e = _raises(lambda: P.Instant.from_aware_datetime(x))
        ns = ((a[0] - ORD0) * UPD + a[1] - a[2] * 10**6) * 1000
        if ns > (IMAX + 1) * NPD - 1:
            # the instant itself lies after Instant.max_value (a local time late in year 9999 at a negative offset)
            return None if e else fail("inst-from-out-of-range-returned", f"{line}: from_aware_datetime({x}) returned {c11.s_inst(P.Instant.from_aware_datetime(x))}")
        if e:
            return fail("inst-from-raises", f"{line}: from_aware_datetime({x}) raised {e}")
        i = P.Instant.from_aware_datetime(x)
        if i._days_since_epoch * NPD + i._nanosecond_of_day != ns:
            return fail("inst-from-inexact", f"{line}: from_aware_datetime({x}) = {c11.s_inst(i)}, exact {divmod(ns, NPD)}")
        if ns >= -(ORD0 - 1) * NPD:
            e = _raises(i.to_datetime_utc)
            if e:
                return fail("inst-roundtrip-raises", f"{line}: from_aware_datetime({x}).to_datetime_utc() raised {e}")
            r = i.to_datetime_utc()
            if r != x or r.utcoffset() != dtm.timedelta(0):
                return fail("inst-roundtrip", f"{line}: from_aware_datetime({x}).to_datetime_utc() = {r}")
        return None
    if op == "br.odt.to":
        c = c11.cal_of(a[0])
        if not (c._min_days <= a[3] <= c._max_days and 0 <= a[4] < NPD and abs(a[5]) <= OFF_MAX):
            return None
        v = c11.mk_odt(a[0], a[3], a[4], a[5])
        o = a[3] + ORD0
        e = _raises(v.to_aware_datetime)
        if o < 1:
            return None if e else fail("odt-to-out-of-range-returned", f"{line}: to_aware_datetime() returned for a day before 0001-01-01")
        if e:
            if dtm.date.fromordinal(o).year == 1:
                return fail(YEAR1, f"{line}: OffsetDateTime on {dtm.date.fromordinal(o)} .to_aware_datetime() raised {e}")
            return fail("odt-to-raises-in-range", f"{line}: to_aware_datetime() raised {e}")
        r = v.to_aware_datetime()
        if (r.toordinal(), us_of(r)) != (o, a[4] // 1000) or r.utcoffset() != dtm.timedelta(seconds=a[5]):
            return fail("odt-to-truncation", f"{line}: to_aware_datetime() = {r}")
        return None
    if op == "br.odt.from":
        if not (1 <= a[0] <= MAX_ORD and 0 <= a[1] < UPD and abs(a[2]) < 86400):
            return None
        x = py_dt(a[0], a[1], a[2])
        e = _raises(lambda: P.OffsetDateTime.from_aware_datetime(x))
        if abs(a[2]) > OFF_MAX:
            return None if e else fail("odt-from-offset-out-of-range-returned", f"{line}: accepted utc offset {a[2]} s")
        if e:
            return fail("odt-from-raises-in-range", f"{line}: from_aware_datetime({x}) raised {e}")
        v = P.OffsetDateTime.from_aware_datetime(x)
        if c11.s_odt(v) != ints(0, a[0] - ORD0, a[1] * 1000, a[2]):
            return fail("odt-from-inexact", f"{line}: from_aware_datetime({x}) = {c11.s_odt(v)}")
        e = _raises(v.to_aware_datetime)
        if e:
            return fail(YEAR1 if x.year == 1 else "odt-roundtrip-raises", f"{line}: from_aware_datetime({x}).to_aware_datetime() raised {e}")
        r = v.to_aware_datetime()
        if r != x or r.utcoffset() != x.utcoffset() or r.replace(tzinfo=None) != x.replace(tzinfo=None):
            return fail("odt-roundtrip", f"{line}: from_aware_datetime({x}).to_aware_datetime() = {r}")
        return None
    if op == "br.dur.to":
        if not (DMIN <= a[0] <= DMAX and 0 <= a[1] < NPD):
            return None
        d = c11.mk_dur(a[0], a[1])
        us = tdiv(a[0] * NPD + a[1], 1000)
        inr = -TD_MAX * UPD <= us < (TD_MAX + 1) * UPD
        e = _raises(d.to_timedelta)
        if not inr:
            return None if e else fail("dur-to-out-of-range-returned", f"{line}: to_timedelta() returned {d.to_timedelta()} outside timedelta's range")
        if e:
            return fail("dur-to-raises-in-range", f"{line}: to_timedelta() raised {e}; {us} us is inside timedelta's range")
        r = d.to_timedelta()
        if r != dtm.timedelta(microseconds=us):
            return fail("dur-to-truncation", f"{line}: to_timedelta() = {r!r}; truncated toward zero it is {dtm.timedelta(microseconds=us)!r}")
        return None
    if op in ("br.dur.from", "br.off.from", "br.ticks.td"):
        if not (abs(a[0]) <= TD_MAX and 0 <= a[1] < 86400 and 0 <= a[2] < 10**6):
            return None
        x = dtm.timedelta(days=a[0], seconds=a[1], microseconds=a[2])
        us = a[0] * UPD + a[1] * 10**6 + a[2]
        if op == "br.ticks.td":
            from pyoda_time.utility._csharp_compatibility import _to_ticks
            return None if _to_ticks(x) == us * 10 else fail("to-ticks-timedelta", f"{line}: _to_ticks = {_to_ticks(x)}")
        if op == "br.dur.from":
            e = _raises(lambda: P.Duration.from_timedelta(x))
            if e:
                return fail("dur-from-raises", f"{line}: from_timedelta({x!r}) raised {e}")
            d = P.Duration.from_timedelta(x)
            if d.to_nanoseconds() != us * 1000 or not 0 <= d._nanosecond_of_floor_day < NPD:
                return fail("dur-from-inexact", f"{line}: from_timedelta({x!r}) = {c11.s_dur(d)}")
            if d.to_timedelta() != x:
                return fail("dur-roundtrip", f"{line}: from_timedelta({x!r}).to_timedelta() = {d.to_timedelta()!r}")
            return None
        e = _raises(lambda: P.Offset.from_timedelta(x))
        if abs(us) > OFF_MAX * 10**6:
            return None if e else fail("off-from-out-of-range-returned", f"{line}: Offset.from_timedelta({x!r}) returned {P.Offset.from_timedelta(x).seconds}")
        if e:
            return fail("off-from-raises-in-range", f"{line}: Offset.from_timedelta({x!r}) raised {e}")
        o = P.Offset.from_timedelta(x)
        if o.seconds != tdiv(us, 10**6):
            return fail("off-from-truncation", f"{line}: Offset.from_timedelta({x!r}) = {o.seconds} s")
        if us % 10**6 == 0 and o.to_timedelta() != x:
            return fail("off-roundtrip", f"{line}: from_timedelta({x!r}).to_timedelta() = {o.to_timedelta()!r}")
        return None
    if op == "br.off.to":
        if abs(a[0]) > OFF_MAX:
            return None
        r = P.Offset.from_seconds(a[0]).to_timedelta()
        if r != dtm.timedelta(seconds=a[0]):
            return fail("off-to", f"{line}: to_timedelta() = {r!r}")
        return None
    if op == "br.ticks.dt":
        if not (1 <= a[0] <= MAX_ORD and 0 <= a[1] < UPD):
            return None
        from pyoda_time.utility._csharp_compatibility import _to_ticks
        r = _to_ticks(py_dt(a[0], a[1]))
        if r != ((a[0] - 1) * UPD + a[1]) * 10:
            return fail("to-ticks-datetime", f"{line}: _to_ticks = {r}")
        return None
    return None


PERTURB = {"br.date.to": [4], "br.date.from": [1], "br.time.to": [1], "br.time.from": [1], "br.ldt.to": [4, 5],
           "br.ldt.from": [1, 2], "br.inst.to": [1, 2], "br.inst.from": [1, 2, 3], "br.odt.to": [4, 5, 6],
           "br.odt.from": [1, 2, 3], "br.dur.to": [1, 2], "br.dur.from": [1, 2, 3], "br.off.from": [1, 2, 3], "br.off.to": [1]}


def neighbours(t):
    out = []
    for i in PERTURB.get(t[0], []):
        for dlt in (-1, 1):
            u = list(t)
            u[i] = str(int(t[i]) + dlt)
            out.append(" ".join(u))
    return out


# ---------------------------------------------------------------------------------------------
# generators
# ---------------------------------------------------------------------------------------------

def gen_ord(rng):
    r = rng.random()
    if r < 0.3:
        return rng.choice([1, 2, 365, 366, 367, 730, 731, MAX_ORD, MAX_ORD - 1, MAX_ORD - 364, MAX_ORD - 365, ORD0, ORD0 - 1, ORD0 + 1])
    if r < 0.45:
        y = rng.choice([4, 100, 400, 1600, 1900, 2000, 2024, 2100, 9996])
        m, d = rng.choice([(2, 28), (3, 1), (12, 31), (1, 1)])
        return dtm.date(y, m, d).toordinal() + rng.choice([-1, 0, 1])
    if r < 0.6:
        return rng.randint(1, 800)
    return rng.randint(1, MAX_ORD)


def gen_us(rng):
    r = rng.random()
    if r < 0.35:
        return rng.choice([0, 1, 999_999, 1_000_000, UPD - 1, UPD - 2, UPD - 10**6, 3_600_000_000 - 1, 3_600_000_000, 59_999_999, 60_000_000])
    if r < 0.55:
        return rng.randint(0, 86399) * 10**6 + rng.choice([0, 1, 999_999])
    return rng.randint(0, UPD - 1)


def gen_nod(rng):
    us = gen_us(rng)
    return us * 1000 + rng.choice([0, 0, 1, 999, 99, 100, 500, rng.randint(0, 999)])


def gen_ops(ctx, n):
    rng = ctx.rng
    c11 = _c11()
    ops = []
    cals = c11.CAL_ORDS
    for _ in range(n):
        k = rng.random()
        o = rng.choice(cals) if rng.random() < 0.6 else 0
        c = c11.cal_of(o)
        ct = c11.cal_tok(o)
        if k < 0.3:
            # pyoda -> stdlib: days around 0001-01-01, year 1, the calendar's edges, interior
            r = rng.random()
            if r < 0.35:
                d = rng.choice([1, 0, 2, 365, 366, 367, -1, -365]) - ORD0 + rng.choice([0, 0, 1, -1])
            elif r < 0.5:
                d = rng.choice([c._min_days, c._min_days + 1, c._max_days, c._max_days - 1])
            elif r < 0.6:
                d = rng.randint(-ORD0 - 400, -ORD0 + 800)
            else:
                d = rng.randint(c._min_days, c._max_days)
            d = max(c._min_days, min(c._max_days, d))
            if not c11.day_ok(o, d):
                continue
            nod = gen_nod(rng)
            kind = rng.random()
            if kind < 0.25:
                ops.append(f"br.date.to {ct} {d}")
            elif kind < 0.6:
                ops.append(f"br.ldt.to {ct} {d} {nod}")
            else:
                ops.append(f"br.odt.to {ct} {d} {nod} {c11.gen_off(rng)}")
        elif k < 0.4:
            i_d = rng.choice([-ORD0 + 1, -ORD0, -ORD0 + 2, -ORD0 + 366, IMIN, IMAX, 0, -1, rng.randint(IMIN, IMAX), rng.randint(-ORD0 - 3, -ORD0 + 800)])
            ops.append(f"br.inst.to {i_d} {gen_nod(rng)}")
            ops.append(f"br.time.to {gen_nod(rng)}")
        elif k < 0.7:
            od, us = gen_ord(rng), gen_us(rng)
            kind = rng.random()
            if kind < 0.15:
                ops.append(f"br.date.from {od}")
                ops.append(f"br.time.from {us}")
            elif kind < 0.45:
                if c11.day_ok(o, od - ORD0):
                    ops.append(f"br.ldt.from {od} {us} {ct}")
            elif kind < 0.7:
                off = c11.gen_off(rng) if rng.random() < 0.8 else rng.choice([OFF_MAX + 1, -OFF_MAX - 1, 86399, -86399])
                ops.append(f"br.odt.from {od} {us} {off}")
            elif kind < 0.95:
                off = c11.gen_off(rng) if rng.random() < 0.8 else rng.choice([OFF_MAX + 1, -OFF_MAX - 1, 86399, -86399])
                ops.append(f"br.inst.from {od} {us} {off}")
            else:
                ops.append(f"br.ticks.dt {od} {us}")
        elif k < 0.85:
            # durations: around zero (both signs, sub-us remainders), timedelta's range ends, Duration's range ends
            r = rng.random()
            if r < 0.3:
                ns = rng.choice([0, 1, -1, 999, -999, 1000, -1000, 1001, -1001, NPD, -NPD, NPD - 1, -NPD + 1, -NPD - 1]) + rng.choice([0, 0, 1, -1])
            elif r < 0.5:
                edge = rng.choice([-TD_MAX * NPD, (TD_MAX + 1) * NPD - 1000, (TD_MAX + 1) * NPD, DMIN * NPD, (DMAX + 1) * NPD - 1])
                ns = edge + rng.choice([0, 1, -1, 999, -999, 1000, -1000, -1001, 1001])
            elif r < 0.8:
                ns = rng.randint(-10**6, 10**6) * rng.choice([1, 1000, 10**6, 10**9, NPD]) + rng.randint(-1000, 1000)
            else:
                ns = rng.randint(DMIN * NPD, (DMAX + 1) * NPD - 1)
            ns = max(DMIN * NPD, min((DMAX + 1) * NPD - 1, ns))
            ops.append("br.dur.to " + ints(*divmod(ns, NPD)))
        else:
            r = rng.random()
            if r < 0.3:
                us = rng.choice([0, 1, -1, 999_999, -999_999, 10**6, -10**6, UPD, -UPD, UPD - 1, -UPD + 1])
            elif r < 0.45:
                us = rng.choice([-TD_MAX * UPD, (TD_MAX + 1) * UPD - 1]) + rng.choice([0, 1, -1]) * rng.choice([1, 10**6, UPD])
            elif r < 0.75:
                s = rng.choice([OFF_MAX, -OFF_MAX, 0, 1, -1, rng.randint(-OFF_MAX, OFF_MAX)])
                us = s * 10**6 + rng.choice([0, 0, 1, -1, 999_999, -999_999, 500_000])
            else:
                us = rng.randint(-TD_MAX * UPD, (TD_MAX + 1) * UPD - 1)
            us = max(-TD_MAX * UPD, min((TD_MAX + 1) * UPD - 1, us))
            d, rem = divmod(us, UPD)
            tok = ints(d, rem // 10**6, rem % 10**6)
            ops.append("br.dur.from " + tok)
            if abs(us) < 200_000 * 10**6 or rng.random() < 0.2:
                ops.append("br.off.from " + tok)
            if rng.random() < 0.2:
                ops.append("br.ticks.td " + tok)
            ops.append(f"br.off.to {rng.choice([0, 1, -1, OFF_MAX, -OFF_MAX, rng.randint(-OFF_MAX, OFF_MAX)])}")
    # fixed corner list: the ends of every stdlib range
    for od in (1, 2, 365, 366, MAX_ORD - 1, MAX_ORD):
        for us in (0, 1, UPD - 1):
            ops.append(f"br.ldt.from {od} {us} {c11.cal_tok(0)}")
            ops.append(f"br.ldt.to {c11.cal_tok(0)} {od - ORD0} {us * 1000 + 999}")
            for off in (0, OFF_MAX, -OFF_MAX):
                ops.append(f"br.odt.from {od} {us} {off}")
                ops.append(f"br.inst.from {od} {us} {off}")
        ops.append(f"br.date.from {od}")
        ops.append(f"br.date.to {c11.cal_tok(0)} {od - ORD0}")
    ops.append(f"br.date.to {c11.cal_tok(0)} {-ORD0}")
    ops.append(f"br.ldt.to {c11.cal_tok(0)} {-ORD0} {NPD - 1}")
    ops.append(f"br.inst.to {-ORD0} {NPD - 1}")
    ops.append(f"br.inst.to {-ORD0 + 1} 0")
    return ops


def run(ctx):
    ops = gen_ops(ctx, ctx.scale(60_000, 3_000_000))
    ctx.correspond("bridge.ops", ops, impl, oracle=oracle, neighbours=neighbours)


def replay_op(op, failure):
    return oracle(op.split(" "))
