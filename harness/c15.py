"""C15 — conversions to and from Python's datetime types are exact and round-trip.

Stdlib values on the wire: date = proleptic Gregorian ordinal; time = microsecond of day; datetime = `ordinal us`;
aware datetime = `ordinal us off` (fixed offset seconds); timedelta = `days seconds microseconds`.
Pyoda values: calendar = `ord minDays maxDays`, date = calendar + day number, time = nanosecond of day,
instant / duration = `days nod`, offset = seconds.
Datetimes with an arbitrary tzinfo (`br.*.aware`): `ordinal us fold V0 V1` where the tzinfo is a test class whose
utcoffset(dt) returns V[dt.fold]; a view V is `k d s u`: k = 0 no tzinfo at all, 1 utcoffset() returns None,
2 utcoffset() returns timedelta(days=d, seconds=s, microseconds=u) (any size, microsecond resolution).
"""
from __future__ import annotations

import datetime as dtm

from common import guard, ints

NPD = 86_400_000_000_000
NPS = 1_000_000_000
UPD = 86_400_000_000
ORD0 = 719163
MAX_ORD = 3652059
IMIN, IMAX = -4371222, 2932896
DMAX = (1 << 30) - 1
DMIN = -(1 << 30)
OFF_MAX = 64800
TD_MAX = 999_999_999

META = {
    "property": "C15",
    "proof_modules": ["PyodaProofs.C15", "PyodaProofs.C15Lemmas", "PyodaProofs.C15Aware", "PyodaProofs.GenAgreeC15"],
    "drivers": ["drv_bridge"],
    "theorems": [
        "Pyoda.C15.date_from_to_id",
        "Pyoda.C15.time_from_to_id",
        "Pyoda.C15.ldt_from_to_id",
        "Pyoda.C15.inst_from_to_id",
        "Pyoda.C15.inst_from_to_id_utc",
        "Pyoda.C15.odt_from_to_id",
        "Pyoda.C15.dur_from_to_id",
        "Pyoda.C15.off_from_to_id",
        "Pyoda.C15.date_to_truncates",
        "Pyoda.C15.time_to_truncates",
        "Pyoda.C15.ldt_to_truncates",
        "Pyoda.C15.inst_to_truncates",
        "Pyoda.C15.odt_to_truncates",
        "Pyoda.C15.dur_to_truncates",
        "Pyoda.C15.off_from_truncates",
        "Pyoda.C15.off_to_exact",
        "Pyoda.C15.inst_from_exact",
        "Pyoda.C15.dur_from_exact",
        "Pyoda.C15.date_to_raises_iff_out_of_range",
        "Pyoda.C15.ldt_to_raises_iff_out_of_range",
        "Pyoda.C15.inst_to_raises_iff_out_of_range",
        "Pyoda.C15.odt_to_raises_iff_out_of_range",
        "Pyoda.C15.dur_to_raises_iff_out_of_range",
        "Pyoda.C15.off_from_raises_iff_out_of_range",
        "Pyoda.C15.inst_from_raises_iff",
        "Pyoda.C15.inst_aware_exact",
        "Pyoda.C15.inst_aware_raises_iff",
        "Pyoda.C15.inst_aware_to_id",
        "Pyoda.C15.inst_aware_fixed",
        "Pyoda.C15.aware_without_offset_raises",
        "Pyoda.C15.odtFromAware_eq",
        "Pyoda.C15.odt_aware_raises_iff",
        "Pyoda.C15.odt_aware_error_is_valueError",
        "Pyoda.C15.odt_aware_exact",
        "Pyoda.C15.odt_aware_same_instant",
        "Pyoda.C15.odt_aware_fixed",
        "Pyoda.C15.odt_aware_to_id",
        "Pyoda.C15.ldt_any",
        "Pyoda.C15.time_any_from_to_id",
        # agreement of the definitions generated from the Python source (tools/py2lean.py) with the model
        "Pyoda.GenAgree.C15.gen_toTicksNaive_eq", "Pyoda.GenAgree.C15.gen_toTicksAware_eq",
        "Pyoda.GenAgree.C15.gen_toTicksTd_eq", "Pyoda.GenAgree.C15.gen_LocalDate_toDate_eq",
        "Pyoda.GenAgree.C15.gen_LocalDate_fromDate_eq", "Pyoda.GenAgree.C15.gen_LocalTime_toTime_eq",
        "Pyoda.GenAgree.C15.gen_LocalTime_fromTime_eq", "Pyoda.GenAgree.C15.gen_LocalDateTime_fromNaive_eq",
        "Pyoda.GenAgree.C15.gen_LocalDateTime_fromAware_eq", "Pyoda.GenAgree.C15.gen_Instant_toDatetimeUtc_eq",
        "Pyoda.GenAgree.C15.gen_Instant_fromAwareNaive_eq", "Pyoda.GenAgree.C15.gen_Instant_fromAware_eq",
        "Pyoda.GenAgree.C15.gen_Duration_fromTimedelta_eq", "Pyoda.GenAgree.C15.gen_Duration_toTimedelta_eq",
        "Pyoda.GenAgree.C15.gen_Offset_toTimedelta_eq",
    ],
    "trusted_base": [
        "translator tie (tools/py2lean.py; GenAgreeC15): _to_ticks (naive, aware, timedelta), LocalDate.to_date/from_date, LocalTime.to_time/from_time, LocalDateTime.from_naive_datetime (naive / aware argument), Instant.to_datetime_utc/from_aware_datetime (naive / aware argument), Duration.from_timedelta/to_timedelta, Offset.to_timedelta are re-translated from the source on every run and proved equal to the Bridge model. The stdlib objects are the model's structures; their constructors/accessors/operators (date(y,m,d) as an ordinal, timedelta(...) normalisation, time(...) validation, date/datetime arithmetic, tzinfo.utcoffset) are the hand-written functions of PyodaGen/GlueC15.lean (what CPython does: correspondence bridge.ops); a naive and an aware datetime are different argument types of the translation. Outside the tie: LocalDateTime.to_naive_datetime and OffsetDateTime.to_aware_datetime (they go through the Gregorian year/month/day fields, which the model itself replaces by the ordinal — trusted base), OffsetDateTime.from_aware_datetime (walrus on tzinfo / isinstance of its answer), Offset.from_timedelta (float total_seconds()), a tzinfo whose utcoffset() answers None. Duration.from_timedelta adds days+seconds before converting the microseconds (the model converts all three first): the same unless from_microseconds raises, which it cannot for 0 <= microseconds < 10^6 (hypothesis of gen_Duration_fromTimedelta_eq)",
        "CPython datetime/timedelta arithmetic and normalisation as modelled by PyTimedelta.ofUs / PyDateTime.addTd / sub (sampled by every bridge op)",
        "Gregorian year/month/day <-> day number of both libraries (C01/C02 and the stdlib): the model passes day number <-> ordinal directly, `gregorian.year < 1` is `ordinal < 1`",
        "Offset.from_timedelta goes through float total_seconds()*1e7; exact outcome (truncated whole seconds, range test) on the timedelta domain is sampled around every whole second and the +-18 h edge",
        "arbitrary tzinfo objects: a conversion observes of dt.tzinfo only whether it is None and what tzinfo.utcoffset(dt) returns for that dt (fold included) - "
        "None or a timedelta; the model's TzView is that observation and suite bridge.aware drives the real code with a tzinfo subclass whose utcoffset is an "
        "arbitrary timedelta per fold (microsecond resolution, beyond +-24 h, up to timedelta's own range); dst()/tzname() are never called by the conversions",
    ],
    "partial": [
        "OffsetDateTime.from_aware_datetime with a utc offset that has a fraction of a second: the model carries the intended behaviour (ValueError); the "
        "code truncates the fraction (Offset.from_timedelta), pinned by a ported test - known finding odt-from-subsecond-offset-truncated",
        "Instant.from_aware_datetime with a tzinfo whose utcoffset() returns None raises TypeError (from _to_ticks) where the docstring promises ValueError; "
        "modelled as coded (it raises, which is all the property asks)",
        "datetime.time with tzinfo/fold: LocalTime has no offset; from_time keeps the wall time and ignores both (modelled so, time_any_from_to_id; going "
        "back yields the naive wall time, not the aware time)",
        "real zoneinfo.ZoneInfo zones are exercised by the direct oracle zoneinfo.zones only (their utcoffset is a whole number of seconds, a special case of the modelled views)",
    ],
    "rule": "stdlib values at min/max, years 1/2/9999, leap days, microseconds 0/1/999999, sub-microsecond remainders of both signs, non-ISO calendars, offsets in +-18 h (and beyond, to see the error); datetimes with a custom tzinfo: utc offsets of whole minutes/seconds, "
            "fractions of a second (+-1 us, half seconds, 999999 us), the +-18 h and +-24 h edges and beyond, up to +-999999999 days, offsets that put local - offset on the "
            "ends of the Instant and datetime ranges, fold 0/1 with different answers, utcoffset() None, no tzinfo; distinct = distinct op line; non-trivial = every op",
}


def _P():
    import pyoda_time as P
    return P


def _c11():
    import c11
    return c11


UTC = dtm.timezone.utc
T0 = dtm.datetime(1, 1, 1)


def py_time(us):
    return (T0 + dtm.timedelta(microseconds=us)).time()


def py_dt(o, us, off=None):
    x = dtm.datetime.combine(dtm.date.fromordinal(o), py_time(us))
    if off is not None:
        x = x.replace(tzinfo=dtm.timezone(dtm.timedelta(seconds=off)))
    return x


class FoldTz(dtm.tzinfo):
    """a tzinfo whose utcoffset is whatever the op says, separately for fold 0 and fold 1 (None, or a timedelta of any
    size and microsecond resolution); dst/tzname are not used by the conversions"""

    def __init__(self, v0, v1):
        self.v = (v0, v1)

    def utcoffset(self, dt):
        return self.v[0 if dt is None else dt.fold]

    def dst(self, dt):
        return None

    def tzname(self, dt):
        return "fold-tz"

    def __repr__(self):
        return f"FoldTz({self.v[0]!r}, {self.v[1]!r})"


def _view(v):
    return None if v[0] == 1 else dtm.timedelta(days=v[1], seconds=v[2], microseconds=v[3])


def _tz_of(views):
    """tzinfo object for two views; None when the views say 'no tzinfo' (k = 0 for the fold in use is handled by caller)"""
    return FoldTz(_view(views[0:4]), _view(views[4:8]))


def aware_dt(o, us, fold, views):
    x = py_dt(o, us).replace(fold=fold)
    if views[4 * fold] == 0:
        return x                                   # no tzinfo at all
    return x.replace(tzinfo=_tz_of(views))


def aware_time(us, fold, views):
    t = py_time(us).replace(fold=fold)
    if views[4 * fold] == 0:
        return t
    return t.replace(tzinfo=_tz_of(views))


def view_us(views, fold):
    """(kind, utc offset in microseconds or None) the conversion can observe for this fold"""
    v = views[4 * fold: 4 * fold + 4]
    if v[0] != 2:
        return v[0], None
    return 2, v[1] * UPD + v[2] * 10**6 + v[3]


def us_of(t):
    return ((t.hour * 60 + t.minute) * 60 + t.second) * 10**6 + t.microsecond


def s_dt(x):
    return ints(x.toordinal(), us_of(x))


def s_td(x):
    return ints(x.days, x.seconds, x.microseconds)


def mk_ldt(o, days, nod):
    P = _P()
    return _c11().mk_date(o, days).at(P.LocalTime._ctor(nanoseconds=nod))


def impl(t):
    P = _P()
    c11 = _c11()
    op = t[0]
    a = [int(x) for x in t[1:]]
    if op == "br.date.to":
        return str(c11.mk_date(a[0], a[3]).to_date().toordinal())
    if op == "br.date.from":
        r = P.LocalDate.from_date(dtm.date.fromordinal(a[0]))
        return ints(int(r.calendar._ordinal), r._days_since_epoch)
    if op == "br.time.to":
        return str(us_of(P.LocalTime._ctor(nanoseconds=a[0]).to_time()))
    if op == "br.time.from":
        return str(P.LocalTime.from_time(py_time(a[0])).nanosecond_of_day)
    if op == "br.ldt.to":
        return s_dt(mk_ldt(a[0], a[3], a[4]).to_naive_datetime())
    if op == "br.ldt.from":
        x = py_dt(a[0], a[1])
        r = P.LocalDateTime.from_naive_datetime(x) if a[2] == 0 and a[1] % 2 else P.LocalDateTime.from_naive_datetime(x, c11.cal_of(a[2]))
        return ints(int(r.calendar._ordinal), r.date._days_since_epoch, r.nanosecond_of_day)
    if op == "br.inst.to":
        r = c11.mk_inst(a[0], a[1]).to_datetime_utc()
        if r.utcoffset() != dtm.timedelta(0):
            return "not-utc"
        return s_dt(r)
    if op == "br.inst.from":
        return c11.s_inst(P.Instant.from_aware_datetime(py_dt(a[0], a[1], a[2])))
    if op == "br.odt.to":
        r = c11.mk_odt(a[0], a[3], a[4], a[5]).to_aware_datetime()
        off = r.utcoffset()
        return s_dt(r) + " " + str(off.days * 86400 + off.seconds)
    if op == "br.odt.from":
        return c11.s_odt(P.OffsetDateTime.from_aware_datetime(py_dt(a[0], a[1], a[2])))
    if op == "br.dur.to":
        return s_td(c11.mk_dur(a[0], a[1]).to_timedelta())
    if op == "br.dur.from":
        return c11.s_dur(P.Duration.from_timedelta(dtm.timedelta(days=a[0], seconds=a[1], microseconds=a[2])))
    if op == "br.off.to":
        return s_td(P.Offset.from_seconds(a[0]).to_timedelta())
    if op == "br.off.from":
        return str(P.Offset.from_timedelta(dtm.timedelta(days=a[0], seconds=a[1], microseconds=a[2])).seconds)
    if op == "br.inst.aware":
        return c11.s_inst(P.Instant.from_aware_datetime(aware_dt(a[0], a[1], a[2], a[3:11])))
    if op == "br.odt.aware":
        return c11.s_odt(P.OffsetDateTime.from_aware_datetime(aware_dt(a[0], a[1], a[2], a[3:11])))
    if op == "br.ldt.aware":
        r = P.LocalDateTime.from_naive_datetime(aware_dt(a[0], a[1], a[2], a[6:14]), c11.cal_of(a[3]))
        return ints(int(r.calendar._ordinal), r.date._days_since_epoch, r.nanosecond_of_day)
    if op == "br.time.aware":
        return str(P.LocalTime.from_time(aware_time(a[0], a[1], a[2:10])).nanosecond_of_day)
    if op == "br.ticks.dt":
        from pyoda_time.utility._csharp_compatibility import _to_ticks
        x = py_dt(a[0], a[1])
        r = _to_ticks(x)
        if _to_ticks(x.replace(tzinfo=dtm.timezone(dtm.timedelta(hours=5)))) != r:
            return "aware-differs"
        return str(r)
    if op == "br.ticks.td":
        from pyoda_time.utility._csharp_compatibility import _to_ticks
        return str(_to_ticks(dtm.timedelta(days=a[0], seconds=a[1], microseconds=a[2])))
    raise ValueError("unknown op " + op)


# ---------------------------------------------------------------------------------------------
# the property, with the standard library as the reference
# ---------------------------------------------------------------------------------------------

def tdiv(x, y):
    q = abs(x) // abs(y)
    return q if (x >= 0) == (y > 0) else -q


def _raises(fn):
    try:
        fn()
    except (ValueError, OverflowError, RuntimeError) as e:
        return type(e).__name__
    return None


def fail(key, what):
    return {"key": key, "what": what}


YEAR1 = "to-naive-datetime-rejects-year-1"


_key_count = {}
_held_back = {}
KEY_LIMIT = 40


def oracle(t):
    """the framework keeps at most 2000 failures per run; one finding hit by thousands of ops (the recorded sub-second
    utcoffset truncation) must not crowd out others, so beyond KEY_LIMIT hits of one key the failure is held back on
    the first evaluation of an op and returned when the same op is evaluated again (the search around a
    model/implementation disagreement)"""
    line = " ".join(t)
    if line in _held_back:
        return _held_back[line]
    f = oracle1(t)
    if f:
        _key_count[f["key"]] = _key_count.get(f["key"], 0) + 1
        _held_back[line] = f                     # a second evaluation of this op reports it in any case
        if _key_count[f["key"]] > KEY_LIMIT:
            return None
    return f


def oracle1(t):
    P = _P()
    c11 = _c11()
    op = t[0]
    a = [int(x) for x in t[1:]]
    line = " ".join(t)
    if op == "br.date.to":
        c = c11.cal_of(a[0])
        if not c._min_days <= a[3] <= c._max_days:
            return None
        ld = c11.mk_date(a[0], a[3])
        o = a[3] + ORD0
        if not 1 <= o <= MAX_ORD:
            e = _raises(ld.to_date)
            return None if e else fail("date-to-out-of-range-returned", f"{line}: to_date() returned {ld.to_date()} for a day before 0001-01-01")
        e = _raises(ld.to_date)
        if e:
            return fail("date-to-raises-in-range", f"{line}: to_date() raised {e}")
        r = ld.to_date()
        g = ld.with_calendar(P.CalendarSystem.gregorian)
        if r != dtm.date.fromordinal(o) or (r.year, r.month, r.day) != (g.year, g.month, g.day):
            return fail("date-to-wrong-day", f"{line}: to_date() = {r}, same physical day is {dtm.date.fromordinal(o)} / Gregorian {g.year}-{g.month}-{g.day}")
        return None
    if op == "br.date.from":
        if not 1 <= a[0] <= MAX_ORD:
            return None
        x = dtm.date.fromordinal(a[0])
        ld = P.LocalDate.from_date(x)
        if (ld.year, ld.month, ld.day) != (x.year, x.month, x.day) or ld.calendar != P.CalendarSystem.iso:
            return fail("date-from-fields", f"{line}: from_date({x}) = {ld.year}-{ld.month}-{ld.day} in {ld.calendar}")
        if ld.to_date() != x:
            return fail("date-roundtrip", f"{line}: from_date({x}).to_date() = {ld.to_date()}")
        return None
    if op == "br.time.to":
        if not 0 <= a[0] < NPD:
            return None
        r = P.LocalTime._ctor(nanoseconds=a[0]).to_time()
        if us_of(r) != a[0] // 1000 or r.tzinfo is not None:
            return fail("time-to-truncation", f"{line}: to_time() = {r} ({us_of(r)} us), floor is {a[0] // 1000} us")
        return None
    if op == "br.time.from":
        if not 0 <= a[0] < UPD:
            return None
        x = py_time(a[0])
        lt = P.LocalTime.from_time(x)
        if lt.nanosecond_of_day != a[0] * 1000:
            return fail("time-from-inexact", f"{line}: from_time({x}) = {lt.nanosecond_of_day} ns")
        if lt.to_time() != x:
            return fail("time-roundtrip", f"{line}: from_time({x}).to_time() = {lt.to_time()}")
        return None
    if op == "br.ldt.to":
        c = c11.cal_of(a[0])
        if not (c._min_days <= a[3] <= c._max_days and 0 <= a[4] < NPD):
            return None
        v = mk_ldt(a[0], a[3], a[4])
        o = a[3] + ORD0
        e = _raises(v.to_naive_datetime)
        if o < 1:
            return None if e else fail("ldt-to-out-of-range-returned", f"{line}: to_naive_datetime() returned a value for a day before 0001-01-01")
        if e:
            if dtm.date.fromordinal(o).year == 1:
                return fail(YEAR1, f"{line}: LocalDateTime on {dtm.date.fromordinal(o)} (calendar ordinal {a[0]}) .to_naive_datetime() raised {e}; datetime.min is 0001-01-01")
            return fail("ldt-to-raises-in-range", f"{line}: to_naive_datetime() raised {e}")
        r = v.to_naive_datetime()
        if (r.toordinal(), us_of(r)) != (o, a[4] // 1000) or r.tzinfo is not None:
            return fail("ldt-to-truncation", f"{line}: to_naive_datetime() = {r}; same day/time floored to us is ordinal {o}, {a[4] // 1000} us")
        return None
    if op == "br.ldt.from":
        if not (1 <= a[0] <= MAX_ORD and 0 <= a[1] < UPD):
            return None
        x = py_dt(a[0], a[1])
        c = c11.cal_of(a[2])
        inr = c._min_days <= a[0] - ORD0 <= c._max_days
        e = _raises(lambda: P.LocalDateTime.from_naive_datetime(x, c))
        if not inr:
            return None if e else fail("ldt-from-out-of-calendar-returned", f"{line}: from_naive_datetime({x}, {c}) returned although the day is outside the calendar")
        if e:
            return fail("ldt-from-raises-in-range", f"{line}: from_naive_datetime({x}, {c}) raised {e}")
        v = P.LocalDateTime.from_naive_datetime(x, c)
        if (v.date._days_since_epoch, v.nanosecond_of_day, v.calendar) != (a[0] - ORD0, a[1] * 1000, c):
            return fail("ldt-from-inexact", f"{line}: from_naive_datetime({x}) = day {v.date._days_since_epoch}, {v.nanosecond_of_day} ns, {v.calendar}")
        if a[2] == 0 and (v.year, v.month, v.day, v.hour, v.minute, v.second) != (x.year, x.month, x.day, x.hour, x.minute, x.second):
            return fail("ldt-from-fields", f"{line}: fields differ from {x}")
        e = _raises(v.to_naive_datetime)
        if e:
            return fail(YEAR1 if x.year == 1 else "ldt-roundtrip-raises", f"{line}: from_naive_datetime({x}).to_naive_datetime() raised {e}")
        if v.to_naive_datetime() != x:
            return fail("ldt-roundtrip", f"{line}: from_naive_datetime({x}).to_naive_datetime() = {v.to_naive_datetime()}")
        return None
    if op == "br.inst.to":
        if not (IMIN <= a[0] <= IMAX and 0 <= a[1] < NPD):
            return None
        i = c11.mk_inst(a[0], a[1])
        e = _raises(i.to_datetime_utc)
        o = a[0] + ORD0
        if o < 1:
            return None if e else fail("inst-to-out-of-range-returned", f"{line}: to_datetime_utc() returned for an instant before 0001-01-01")
        if e:
            return fail("inst-to-raises-in-range", f"{line}: to_datetime_utc() raised {e}")
        r = i.to_datetime_utc()
        if r.tzinfo is None or r.utcoffset() != dtm.timedelta(0) or (r.toordinal(), us_of(r)) != (o, a[1] // 1000):
            return fail("inst-to-truncation", f"{line}: to_datetime_utc() = {r}; floor to us is ordinal {o}, {a[1] // 1000} us UTC")
        return None
    if op == "br.inst.from":
        if not (1 <= a[0] <= MAX_ORD and 0 <= a[1] < UPD and abs(a[2]) < 86400):
            return None
        x = py_dt(a[0], a[1], a[2])
        e = _raises(lambda: P.Instant.from_aware_datetime(x))
        ns = ((a[0] - ORD0) * UPD + a[1] - a[2] * 10**6) * 1000
        if ns > (IMAX + 1) * NPD - 1:
            # the instant itself lies after Instant.max_value (a local time late in year 9999 at a negative offset)
            return None if e else fail("inst-from-out-of-range-returned", f"{line}: from_aware_datetime({x}) returned {c11.s_inst(P.Instant.from_aware_datetime(x))}")
        if e:
            return fail("inst-from-raises", f"{line}: from_aware_datetime({x}) raised {e}")
        i = P.Instant.from_aware_datetime(x)
        if i._days_since_epoch * NPD + i._nanosecond_of_day != ns:
            return fail("inst-from-inexact", f"{line}: from_aware_datetime({x}) = {c11.s_inst(i)}, exact {divmod(ns, NPD)}")
        if ns >= -(ORD0 - 1) * NPD:
            e = _raises(i.to_datetime_utc)
            if e:
                return fail("inst-roundtrip-raises", f"{line}: from_aware_datetime({x}).to_datetime_utc() raised {e}")
            r = i.to_datetime_utc()
            if r != x or r.utcoffset() != dtm.timedelta(0):
                return fail("inst-roundtrip", f"{line}: from_aware_datetime({x}).to_datetime_utc() = {r}")
        return None
    if op == "br.odt.to":
        c = c11.cal_of(a[0])
        if not (c._min_days <= a[3] <= c._max_days and 0 <= a[4] < NPD and abs(a[5]) <= OFF_MAX):
            return None
        v = c11.mk_odt(a[0], a[3], a[4], a[5])
        o = a[3] + ORD0
        e = _raises(v.to_aware_datetime)
        if o < 1:
            return None if e else fail("odt-to-out-of-range-returned", f"{line}: to_aware_datetime() returned for a day before 0001-01-01")
        if e:
            if dtm.date.fromordinal(o).year == 1:
                return fail(YEAR1, f"{line}: OffsetDateTime on {dtm.date.fromordinal(o)} .to_aware_datetime() raised {e}")
            return fail("odt-to-raises-in-range", f"{line}: to_aware_datetime() raised {e}")
        r = v.to_aware_datetime()
        if (r.toordinal(), us_of(r)) != (o, a[4] // 1000) or r.utcoffset() != dtm.timedelta(seconds=a[5]):
            return fail("odt-to-truncation", f"{line}: to_aware_datetime() = {r}")
        return None
    if op == "br.odt.from":
        if not (1 <= a[0] <= MAX_ORD and 0 <= a[1] < UPD and abs(a[2]) < 86400):
            return None
        x = py_dt(a[0], a[1], a[2])
        e = _raises(lambda: P.OffsetDateTime.from_aware_datetime(x))
        if abs(a[2]) > OFF_MAX:
            return None if e else fail("odt-from-offset-out-of-range-returned", f"{line}: accepted utc offset {a[2]} s")
        if e:
            return fail("odt-from-raises-in-range", f"{line}: from_aware_datetime({x}) raised {e}")
        v = P.OffsetDateTime.from_aware_datetime(x)
        if c11.s_odt(v) != ints(0, a[0] - ORD0, a[1] * 1000, a[2]):
            return fail("odt-from-inexact", f"{line}: from_aware_datetime({x}) = {c11.s_odt(v)}")
        e = _raises(v.to_aware_datetime)
        if e:
            return fail(YEAR1 if x.year == 1 else "odt-roundtrip-raises", f"{line}: from_aware_datetime({x}).to_aware_datetime() raised {e}")
        r = v.to_aware_datetime()
        if r != x or r.utcoffset() != x.utcoffset() or r.replace(tzinfo=None) != x.replace(tzinfo=None):
            return fail("odt-roundtrip", f"{line}: from_aware_datetime({x}).to_aware_datetime() = {r}")
        return None
    if op == "br.dur.to":
        if not (DMIN <= a[0] <= DMAX and 0 <= a[1] < NPD):
            return None
        d = c11.mk_dur(a[0], a[1])
        us = tdiv(a[0] * NPD + a[1], 1000)
        inr = -TD_MAX * UPD <= us < (TD_MAX + 1) * UPD
        e = _raises(d.to_timedelta)
        if not inr:
            return None if e else fail("dur-to-out-of-range-returned", f"{line}: to_timedelta() returned {d.to_timedelta()} outside timedelta's range")
        if e:
            return fail("dur-to-raises-in-range", f"{line}: to_timedelta() raised {e}; {us} us is inside timedelta's range")
        r = d.to_timedelta()
        if r != dtm.timedelta(microseconds=us):
            return fail("dur-to-truncation", f"{line}: to_timedelta() = {r!r}; truncated toward zero it is {dtm.timedelta(microseconds=us)!r}")
        return None
    if op in ("br.dur.from", "br.off.from", "br.ticks.td"):
        if not (abs(a[0]) <= TD_MAX and 0 <= a[1] < 86400 and 0 <= a[2] < 10**6):
            return None
        x = dtm.timedelta(days=a[0], seconds=a[1], microseconds=a[2])
        us = a[0] * UPD + a[1] * 10**6 + a[2]
        if op == "br.ticks.td":
            from pyoda_time.utility._csharp_compatibility import _to_ticks
            return None if _to_ticks(x) == us * 10 else fail("to-ticks-timedelta", f"{line}: _to_ticks = {_to_ticks(x)}")
        if op == "br.dur.from":
            e = _raises(lambda: P.Duration.from_timedelta(x))
            if e:
                return fail("dur-from-raises", f"{line}: from_timedelta({x!r}) raised {e}")
            d = P.Duration.from_timedelta(x)
            if d.to_nanoseconds() != us * 1000 or not 0 <= d._nanosecond_of_floor_day < NPD:
                return fail("dur-from-inexact", f"{line}: from_timedelta({x!r}) = {c11.s_dur(d)}")
            if d.to_timedelta() != x:
                return fail("dur-roundtrip", f"{line}: from_timedelta({x!r}).to_timedelta() = {d.to_timedelta()!r}")
            return None
        e = _raises(lambda: P.Offset.from_timedelta(x))
        if abs(us) > OFF_MAX * 10**6:
            return None if e else fail("off-from-out-of-range-returned", f"{line}: Offset.from_timedelta({x!r}) returned {P.Offset.from_timedelta(x).seconds}")
        if e:
            return fail("off-from-raises-in-range", f"{line}: Offset.from_timedelta({x!r}) raised {e}")
        o = P.Offset.from_timedelta(x)
        if o.seconds != tdiv(us, 10**6):
            return fail("off-from-truncation", f"{line}: Offset.from_timedelta({x!r}) = {o.seconds} s")
        if us % 10**6 == 0 and o.to_timedelta() != x:
            return fail("off-roundtrip", f"{line}: from_timedelta({x!r}).to_timedelta() = {o.to_timedelta()!r}")
        return None
    if op == "br.off.to":
        if abs(a[0]) > OFF_MAX:
            return None
        r = P.Offset.from_seconds(a[0]).to_timedelta()
        if r != dtm.timedelta(seconds=a[0]):
            return fail("off-to", f"{line}: to_timedelta() = {r!r}")
        return None
    if op in ("br.inst.aware", "br.odt.aware", "br.ldt.aware", "br.time.aware"):
        return oracle_aware(op, a, line)
    if op == "br.ticks.dt":
        if not (1 <= a[0] <= MAX_ORD and 0 <= a[1] < UPD):
            return None
        from pyoda_time.utility._csharp_compatibility import _to_ticks
        r = _to_ticks(py_dt(a[0], a[1]))
        if r != ((a[0] - 1) * UPD + a[1]) * 10:
            return fail("to-ticks-datetime", f"{line}: _to_ticks = {r}")
        return None
    return None


SUBSEC = "odt-from-subsecond-offset-truncated"


def _views_ok(v):
    return all(v[i] in (0, 1, 2) and abs(v[i + 1]) <= TD_MAX and 0 <= v[i + 2] < 86400 and 0 <= v[i + 3] < 10**6 for i in (0, 4))


def oracle_aware(op, a, line):
    """datetimes / times carrying an arbitrary tzinfo: the conversion either denotes exactly local - utcoffset(dt)
    (for the fold of dt) or raises; nothing in between.  Reference: Python integers."""
    P = _P()
    c11 = _c11()
    if op == "br.time.aware":
        us, fold, views = a[0], a[1], a[2:10]
        if not (0 <= us < UPD and fold in (0, 1) and _views_ok(views)):
            return None
        t = aware_time(us, fold, views)
        e = _raises(lambda: P.LocalTime.from_time(t))
        if e:
            return fail("time-from-raises", f"{line}: from_time({t!r}) raised {e}")
        lt = P.LocalTime.from_time(t)
        if lt.nanosecond_of_day != us * 1000:
            return fail("time-from-inexact", f"{line}: from_time({t!r}) = {lt.nanosecond_of_day} ns, the wall time is {us * 1000} ns")
        r = lt.to_time()
        if r != py_time(us) or r.tzinfo is not None or r.fold != 0:
            return fail("time-roundtrip", f"{line}: from_time({t!r}).to_time() = {r!r}, expected the naive wall time")
        return None
    o, us, fold = a[0], a[1], a[2]
    views = a[6:14] if op == "br.ldt.aware" else a[3:11]
    if not (1 <= o <= MAX_ORD and 0 <= us < UPD and fold in (0, 1) and _views_ok(views)):
        return None
    x = aware_dt(o, us, fold, views)
    kind, off = view_us(views, fold)
    if op == "br.ldt.aware":
        c = c11.cal_of(a[3])
        e = _raises(lambda: P.LocalDateTime.from_naive_datetime(x, c))
        if kind != 0:
            # a datetime that carries a tzinfo is not a local date-time: refusing it is the documented behaviour
            return None if e else fail("ldt-from-aware-accepted", f"{line}: from_naive_datetime({x!r}) accepted a datetime with a tzinfo")
        if not c._min_days <= o - ORD0 <= c._max_days:
            return None if e else fail("ldt-from-out-of-calendar-returned", f"{line}: from_naive_datetime({x}, {c}) returned although the day is outside the calendar")
        if e:
            return fail("ldt-from-raises-in-range", f"{line}: from_naive_datetime({x!r}, {c}) raised {e}")
        v = P.LocalDateTime.from_naive_datetime(x, c)
        if (v.date._days_since_epoch, v.nanosecond_of_day) != (o - ORD0, us * 1000):
            return fail("ldt-from-inexact", f"{line}: from_naive_datetime({x!r}) = day {v.date._days_since_epoch}, {v.nanosecond_of_day} ns")
        return None
    fn = P.Instant.from_aware_datetime if op == "br.inst.aware" else P.OffsetDateTime.from_aware_datetime
    try:
        got, exc = fn(x), None
    except (ValueError, OverflowError, TypeError, RuntimeError) as ex:
        got, exc = None, type(ex).__name__
    if kind != 2:
        # no tzinfo, or a tzinfo without an offset: a naive datetime names no instant and no offset
        return None if exc else fail("aware-from-naive-accepted", f"{line}: {fn.__qualname__}({x!r}) returned a value for a datetime without a utc offset")
    local_us = (o - ORD0) * UPD + us
    if op == "br.inst.aware":
        ns = (local_us - off) * 1000
        if not IMIN * NPD <= ns <= (IMAX + 1) * NPD - 1:
            return None if exc else fail("inst-from-out-of-range-returned", f"{line}: from_aware_datetime({x!r}) returned {c11.s_inst(got)}; local - offset = {ns} ns is outside Instant's range")
        if exc:
            return fail("inst-from-raises", f"{line}: from_aware_datetime({x!r}) raised {exc}; local - offset = {ns} ns is inside Instant's range")
        if got._days_since_epoch * NPD + got._nanosecond_of_day != ns or not 0 <= got._nanosecond_of_day < NPD:
            return fail("inst-from-inexact", f"{line}: from_aware_datetime({x!r}) = {c11.s_inst(got)}, exact local - offset is {divmod(ns, NPD)}")
        if -(ORD0 - 1) * NPD <= ns:
            # the way back gives the same instant in UTC (compared field by field: `==` between aware datetimes of
            # different zones is always False when a utcoffset depends on fold, PEP 495)
            if abs(off) < 86400 * 10**6:
                ref = x - dtm.datetime(1970, 1, 1, tzinfo=UTC)          # the stdlib's own arithmetic agrees
                if (ref.days * UPD + ref.seconds * 10**6 + ref.microseconds) * 1000 != ns:
                    return fail("oracle-exception", f"{line}: stdlib subtraction disagrees with the integer reference")
            r = got.to_datetime_utc()
            if (r.toordinal(), us_of(r)) != divmod(local_us - off + ORD0 * UPD, UPD) or r.utcoffset() != dtm.timedelta(0):
                return fail("inst-roundtrip", f"{line}: from_aware_datetime({x!r}).to_datetime_utc() = {r!r}")
        return None
    # OffsetDateTime: local part exact, offset exact — or raise
    representable = off % 10**6 == 0 and abs(off) <= OFF_MAX * 10**6
    if not representable:
        if exc:
            return None
        if off % 10**6 != 0 and abs(off) <= OFF_MAX * 10**6 + 999_999:
            return fail(SUBSEC, f"{line}: OffsetDateTime.from_aware_datetime({x!r}) silently dropped the fraction of the utc offset "
                        f"{off} us and returned offset {got.offset.seconds} s: the result denotes the instant "
                        f"{divmod((local_us * 10**6 - got.offset.seconds * 10**12) // 10**3, NPD)} (days, ns of day), the datetime is the instant "
                        f"{divmod((local_us - off) * 1000, NPD)}")
        return fail("odt-from-offset-out-of-range-returned", f"{line}: accepted utc offset {off} us")
    if exc:
        return fail("odt-from-raises-in-range", f"{line}: from_aware_datetime({x!r}) raised {exc}")
    if c11.s_odt(got) != ints(0, o - ORD0, us * 1000, off // 10**6):
        return fail("odt-from-inexact", f"{line}: from_aware_datetime({x!r}) = {c11.s_odt(got)}")
    ns = (local_us - off) * 1000
    if IMIN * NPD <= ns <= (IMAX + 1) * NPD - 1:       # (late on 9999-12-31 at a negative offset the instant is past Instant.max_value)
        i = got.to_instant()
        if i._days_since_epoch * NPD + i._nanosecond_of_day != ns:
            return fail("odt-from-other-instant", f"{line}: from_aware_datetime({x!r}).to_instant() = {c11.s_inst(i)}")
    e = _raises(got.to_aware_datetime)
    if e:
        return fail(YEAR1 if x.year == 1 else "odt-roundtrip-raises", f"{line}: from_aware_datetime({x!r}).to_aware_datetime() raised {e}")
    r = got.to_aware_datetime()
    if r.utcoffset() != dtm.timedelta(microseconds=off) or (r.toordinal(), us_of(r)) != (o, us) or (views[0:4] == views[4:8] and r != x):
        return fail("odt-roundtrip", f"{line}: from_aware_datetime({x!r}).to_aware_datetime() = {r!r}")
    return None


PERTURB = {"br.date.to": [4], "br.date.from": [1], "br.time.to": [1], "br.time.from": [1], "br.ldt.to": [4, 5],
           "br.ldt.from": [1, 2], "br.inst.to": [1, 2], "br.inst.from": [1, 2, 3], "br.odt.to": [4, 5, 6],
           "br.odt.from": [1, 2, 3], "br.dur.to": [1, 2], "br.dur.from": [1, 2, 3], "br.off.from": [1, 2, 3], "br.off.to": [1],
           "br.inst.aware": [1, 2, 6, 7, 10, 11], "br.odt.aware": [1, 2, 6, 7, 10, 11], "br.ldt.aware": [1, 2], "br.time.aware": [1]}


def neighbours(t):
    out = []
    for i in PERTURB.get(t[0], []):
        for dlt in (-1, 1):
            u = list(t)
            u[i] = str(int(t[i]) + dlt)
            out.append(" ".join(u))
    return out


# ---------------------------------------------------------------------------------------------
# generators
# ---------------------------------------------------------------------------------------------

def gen_ord(rng):
    r = rng.random()
    if r < 0.3:
        return rng.choice([1, 2, 365, 366, 367, 730, 731, MAX_ORD, MAX_ORD - 1, MAX_ORD - 364, MAX_ORD - 365, ORD0, ORD0 - 1, ORD0 + 1])
    if r < 0.45:
        y = rng.choice([4, 100, 400, 1600, 1900, 2000, 2024, 2100, 9996])
        m, d = rng.choice([(2, 28), (3, 1), (12, 31), (1, 1)])
        return dtm.date(y, m, d).toordinal() + rng.choice([-1, 0, 1])
    if r < 0.6:
        return rng.randint(1, 800)
    return rng.randint(1, MAX_ORD)


def gen_us(rng):
    r = rng.random()
    if r < 0.35:
        return rng.choice([0, 1, 999_999, 1_000_000, UPD - 1, UPD - 2, UPD - 10**6, 3_600_000_000 - 1, 3_600_000_000, 59_999_999, 60_000_000])
    if r < 0.55:
        return rng.randint(0, 86399) * 10**6 + rng.choice([0, 1, 999_999])
    return rng.randint(0, UPD - 1)


def gen_nod(rng):
    us = gen_us(rng)
    return us * 1000 + rng.choice([0, 0, 1, 999, 99, 100, 500, rng.randint(0, 999)])


WHOLE_OFFS = [0, 3600, 19800, 34200, 20717, 64800, 64799, 64801, 86399, 86400, 86401, 90000, 108000]


def gen_view(rng, local_us=None):
    """one tzinfo view `k d s u`: mostly utc offsets — whole minutes and seconds, fractions of a second, the +-18 h and
    +-24 h edges, beyond them, huge ones, and offsets that put local - offset at the ends of the Instant range"""
    r = rng.random()
    if r < 0.03:
        return (0, 0, 0, 0)
    if r < 0.07:
        return (1, 0, 0, 0)
    r = rng.random()
    if r < 0.45:
        off = rng.choice(WHOLE_OFFS) * rng.choice([1, -1]) * 10**6
    elif r < 0.6:
        off = rng.randint(-OFF_MAX, OFF_MAX) * 10**6
    elif r < 0.7:
        off = rng.randint(-OFF_MAX * 10**6, OFF_MAX * 10**6)
    elif r < 0.8:
        off = rng.randint(-30 * 3600 * 10**6, 30 * 3600 * 10**6)
    elif r < 0.9 and local_us is not None:
        edge = rng.choice([IMIN * UPD, (IMAX + 1) * UPD - 1, -(ORD0 - 1) * UPD])      # local - off lands on an end of a range
        off = local_us - edge + rng.choice([0, 1, -1, 10**6, -10**6, rng.randint(-10**7, 10**7)])
    elif r < 0.95:
        off = rng.randint(-TD_MAX, TD_MAX) * UPD + rng.randint(0, UPD - 1)
    else:
        off = rng.choice([-TD_MAX * UPD, (TD_MAX + 1) * UPD - 1, TD_MAX * UPD])
    if rng.random() < 0.35:
        off += rng.choice([1, -1, 500_000, -500_000, 999_999, -999_999, rng.randint(-999_999, 999_999)])
    off = max(-TD_MAX * UPD, min((TD_MAX + 1) * UPD - 1, off))
    d, rem = divmod(off, UPD)
    return (2, d, rem // 10**6, rem % 10**6)


def gen_aware_ops(ctx, n):
    rng = ctx.rng
    c11 = _c11()
    ops = []
    for _ in range(n):
        od, us = gen_ord(rng), gen_us(rng)
        local_us = (od - ORD0) * UPD + us
        fold = rng.choice([0, 0, 1])
        v = gen_view(rng, local_us)
        w = v if rng.random() < 0.4 else gen_view(rng, local_us)       # the other fold's answer: often different
        views = (v + w) if fold == 0 else (w + v)
        tok = ints(od, us, fold)
        k = rng.random()
        if k < 0.45:
            ops.append(f"br.odt.aware {tok} {ints(*views)}")
            if rng.random() < 0.5:
                ops.append(f"br.inst.aware {tok} {ints(*views)}")
        elif k < 0.85:
            ops.append(f"br.inst.aware {tok} {ints(*views)}")
        elif k < 0.93:
            o = rng.choice(c11.CAL_ORDS) if rng.random() < 0.5 else 0
            if c11.day_ok(o, od - ORD0):
                ops.append(f"br.ldt.aware {tok} {c11.cal_tok(o)} {ints(*views)}")
        else:
            ops.append(f"br.time.aware {us} {fold} {ints(*views)}")
    # fixed corners: both ends of datetime with offsets that just fit / just do not fit
    Z = "2 0 0 0"
    for od, us in ((1, 0), (1, 1), (MAX_ORD, UPD - 1), (MAX_ORD, UPD - 2), (ORD0, 0)):
        for off in (0, 1, -1, 500_000, -500_000, 10**6, -10**6, OFF_MAX * 10**6, -OFF_MAX * 10**6, OFF_MAX * 10**6 + 1,
                    -OFF_MAX * 10**6 - 1, OFF_MAX * 10**6 - 1, 86400 * 10**6, -86400 * 10**6):
            d, rem = divmod(off, UPD)
            v = f"2 {d} {rem // 10**6} {rem % 10**6}"
            for fold, views in ((0, f"{v} {Z}"), (1, f"{Z} {v}")):
                ops.append(f"br.inst.aware {od} {us} {fold} {views}")
                ops.append(f"br.odt.aware {od} {us} {fold} {views}")
        for views in ("0 0 0 0 0 0 0 0", "1 0 0 0 1 0 0 0", f"1 0 0 0 {Z}", f"{Z} 0 0 0 0"):
            for fold in (0, 1):
                ops.append(f"br.inst.aware {od} {us} {fold} {views}")
                ops.append(f"br.odt.aware {od} {us} {fold} {views}")
                ops.append(f"br.ldt.aware {od} {us} {fold} {c11.cal_tok(0)} {views}")
                ops.append(f"br.time.aware {us} {fold} {views}")
    return ops


def gen_ops(ctx, n):
    rng = ctx.rng
    c11 = _c11()
    ops = []
    cals = c11.CAL_ORDS
    for _ in range(n):
        k = rng.random()
        o = rng.choice(cals) if rng.random() < 0.6 else 0
        c = c11.cal_of(o)
        ct = c11.cal_tok(o)
        if k < 0.3:
            # pyoda -> stdlib: days around 0001-01-01, year 1, the calendar's edges, interior
            r = rng.random()
            if r < 0.35:
                d = rng.choice([1, 0, 2, 365, 366, 367, -1, -365]) - ORD0 + rng.choice([0, 0, 1, -1])
            elif r < 0.5:
                d = rng.choice([c._min_days, c._min_days + 1, c._max_days, c._max_days - 1])
            elif r < 0.6:
                d = rng.randint(-ORD0 - 400, -ORD0 + 800)
            else:
                d = rng.randint(c._min_days, c._max_days)
            d = max(c._min_days, min(c._max_days, d))
            if not c11.day_ok(o, d):
                continue
            nod = gen_nod(rng)
            kind = rng.random()
            if kind < 0.25:
                ops.append(f"br.date.to {ct} {d}")
            elif kind < 0.6:
                ops.append(f"br.ldt.to {ct} {d} {nod}")
            else:
                ops.append(f"br.odt.to {ct} {d} {nod} {c11.gen_off(rng)}")
        elif k < 0.4:
            i_d = rng.choice([-ORD0 + 1, -ORD0, -ORD0 + 2, -ORD0 + 366, IMIN, IMAX, 0, -1, rng.randint(IMIN, IMAX), rng.randint(-ORD0 - 3, -ORD0 + 800)])
            ops.append(f"br.inst.to {i_d} {gen_nod(rng)}")
            ops.append(f"br.time.to {gen_nod(rng)}")
        elif k < 0.7:
            od, us = gen_ord(rng), gen_us(rng)
            kind = rng.random()
            if kind < 0.15:
                ops.append(f"br.date.from {od}")
                ops.append(f"br.time.from {us}")
            elif kind < 0.45:
                if c11.day_ok(o, od - ORD0):
                    ops.append(f"br.ldt.from {od} {us} {ct}")
            elif kind < 0.7:
                off = c11.gen_off(rng) if rng.random() < 0.8 else rng.choice([OFF_MAX + 1, -OFF_MAX - 1, 86399, -86399])
                ops.append(f"br.odt.from {od} {us} {off}")
            elif kind < 0.95:
                off = c11.gen_off(rng) if rng.random() < 0.8 else rng.choice([OFF_MAX + 1, -OFF_MAX - 1, 86399, -86399])
                ops.append(f"br.inst.from {od} {us} {off}")
            else:
                ops.append(f"br.ticks.dt {od} {us}")
        elif k < 0.85:
            # durations: around zero (both signs, sub-us remainders), timedelta's range ends, Duration's range ends
            r = rng.random()
            if r < 0.3:
                ns = rng.choice([0, 1, -1, 999, -999, 1000, -1000, 1001, -1001, NPD, -NPD, NPD - 1, -NPD + 1, -NPD - 1]) + rng.choice([0, 0, 1, -1])
            elif r < 0.5:
                edge = rng.choice([-TD_MAX * NPD, (TD_MAX + 1) * NPD - 1000, (TD_MAX + 1) * NPD, DMIN * NPD, (DMAX + 1) * NPD - 1])
                ns = edge + rng.choice([0, 1, -1, 999, -999, 1000, -1000, -1001, 1001])
            elif r < 0.8:
                ns = rng.randint(-10**6, 10**6) * rng.choice([1, 1000, 10**6, 10**9, NPD]) + rng.randint(-1000, 1000)
            else:
                ns = rng.randint(DMIN * NPD, (DMAX + 1) * NPD - 1)
            ns = max(DMIN * NPD, min((DMAX + 1) * NPD - 1, ns))
            ops.append("br.dur.to " + ints(*divmod(ns, NPD)))
        else:
            r = rng.random()
            if r < 0.3:
                us = rng.choice([0, 1, -1, 999_999, -999_999, 10**6, -10**6, UPD, -UPD, UPD - 1, -UPD + 1])
            elif r < 0.45:
                us = rng.choice([-TD_MAX * UPD, (TD_MAX + 1) * UPD - 1]) + rng.choice([0, 1, -1]) * rng.choice([1, 10**6, UPD])
            elif r < 0.75:
                s = rng.choice([OFF_MAX, -OFF_MAX, 0, 1, -1, rng.randint(-OFF_MAX, OFF_MAX)])
                us = s * 10**6 + rng.choice([0, 0, 1, -1, 999_999, -999_999, 500_000])
            else:
                us = rng.randint(-TD_MAX * UPD, (TD_MAX + 1) * UPD - 1)
            us = max(-TD_MAX * UPD, min((TD_MAX + 1) * UPD - 1, us))
            d, rem = divmod(us, UPD)
            tok = ints(d, rem // 10**6, rem % 10**6)
            ops.append("br.dur.from " + tok)
            if abs(us) < 200_000 * 10**6 or rng.random() < 0.2:
                ops.append("br.off.from " + tok)
            if rng.random() < 0.2:
                ops.append("br.ticks.td " + tok)
            ops.append(f"br.off.to {rng.choice([0, 1, -1, OFF_MAX, -OFF_MAX, rng.randint(-OFF_MAX, OFF_MAX)])}")
    # fixed corner list: the ends of every stdlib range
    for od in (1, 2, 365, 366, MAX_ORD - 1, MAX_ORD):
        for us in (0, 1, UPD - 1):
            ops.append(f"br.ldt.from {od} {us} {c11.cal_tok(0)}")
            ops.append(f"br.ldt.to {c11.cal_tok(0)} {od - ORD0} {us * 1000 + 999}")
            for off in (0, OFF_MAX, -OFF_MAX):
                ops.append(f"br.odt.from {od} {us} {off}")
                ops.append(f"br.inst.from {od} {us} {off}")
        ops.append(f"br.date.from {od}")
        ops.append(f"br.date.to {c11.cal_tok(0)} {od - ORD0}")
    ops.append(f"br.date.to {c11.cal_tok(0)} {-ORD0}")
    ops.append(f"br.ldt.to {c11.cal_tok(0)} {-ORD0} {NPD - 1}")
    ops.append(f"br.inst.to {-ORD0} {NPD - 1}")
    ops.append(f"br.inst.to {-ORD0 + 1} 0")
    return ops


ZONE_KEYS = ["Europe/London", "America/New_York", "Australia/Lord_Howe", "Asia/Kolkata", "Asia/Kathmandu", "Pacific/Apia",
             "America/St_Johns", "Africa/Monrovia", "Europe/Amsterdam", "Pacific/Kiritimati", "America/Sao_Paulo", "Asia/Tehran",
             "Europe/Dublin", "Antarctica/Troll", "UTC"]
ZONE_FIXED = [("Europe/London", (2020, 10, 25, 1, 30, 0, 0)), ("America/New_York", (2021, 11, 7, 1, 30, 0, 5)),
              ("Australia/Lord_Howe", (2021, 4, 4, 1, 45, 0, 0)), ("Europe/London", (2020, 3, 29, 1, 30, 0, 0)),
              ("Pacific/Apia", (2011, 12, 30, 12, 0, 0, 0)), ("Africa/Monrovia", (1972, 1, 7, 0, 10, 0, 999_999)),
              ("Europe/Amsterdam", (1930, 6, 1, 12, 0, 0, 1)), ("UTC", (1, 1, 1, 0, 0, 0, 0)), ("UTC", (9999, 12, 31, 23, 59, 59, 999_999)),
              ("America/New_York", (9999, 12, 31, 23, 59, 59, 999_999)), ("Pacific/Kiritimati", (1, 1, 1, 0, 0, 0, 0))]


def zone_cases(ctx):
    rng = ctx.rng
    out = []
    for key, f in ZONE_FIXED:
        out += [(key, f, 0), (key, f, 1)]
    for key in ZONE_KEYS:
        for _ in range(ctx.scale(120, 6000)):
            r = rng.random()
            y = rng.choice([1, 2, 1883, 1900, 1916, 1945, 1970, 2007, 2037, 2038, 9999]) if r < 0.2 else rng.randint(1850, 2100) if r < 0.9 else rng.randint(1, 9999)
            if rng.random() < 0.5:
                mo, h = rng.choice([3, 4, 9, 10, 11]), rng.randint(0, 3)            # where most transitions are
            else:
                mo, h = rng.randint(1, 12), rng.randint(0, 23)
            f = (y, mo, rng.randint(1, 28), h, rng.choice([0, 15, 30, 45, rng.randint(0, 59)]), rng.choice([0, 0, 59, rng.randint(0, 59)]),
                 rng.choice([0, 0, 1, 999_999, rng.randint(0, 999_999)]))
            out += [(key, f, 0), (key, f, 1)]
    return out


_fold_sensitive = [0]


def check_zone_case(case):
    """real zoneinfo zones (utcoffset depends on the local time and on fold): both aware conversions agree with the
    standard library's own arithmetic on that datetime"""
    import zoneinfo
    P = _P()
    c11 = _c11()
    key, f, fold = case
    try:
        z = zoneinfo.ZoneInfo(key)
    except Exception:  # noqa: BLE001   (zone not in this system's tz database: nothing to check)
        return None
    x = dtm.datetime(*f, tzinfo=z, fold=fold)
    off = x.utcoffset()
    if off != x.replace(fold=1 - fold).utcoffset():
        _fold_sensitive[0] += 1
    off_us = (off.days * 86400 + off.seconds) * 10**6 + off.microseconds
    local_us = (x.toordinal() - ORD0) * UPD + us_of(x)
    ns = (local_us - off_us) * 1000
    try:
        i, ie = P.Instant.from_aware_datetime(x), None
    except (ValueError, OverflowError, TypeError, RuntimeError) as ex:
        i, ie = None, type(ex).__name__
    if not IMIN * NPD <= ns <= (IMAX + 1) * NPD - 1:
        if ie is None:
            return fail("inst-from-out-of-range-returned", f"{case}: from_aware_datetime({x!r}) returned {c11.s_inst(i)}")
    elif ie or i._days_since_epoch * NPD + i._nanosecond_of_day != ns:
        return fail("inst-from-inexact" if not ie else "inst-from-raises",
                    f"{case}: Instant.from_aware_datetime({x!r}) -> {ie or c11.s_inst(i)}; the datetime's utc offset is {off}, exact instant {divmod(ns, NPD)}")
    elif ns >= -(ORD0 - 1) * NPD:
        ref = x - dtm.datetime(1970, 1, 1, tzinfo=UTC)
        if (ref.days * UPD + ref.seconds * 10**6 + ref.microseconds) * 1000 != ns:
            return fail("oracle-exception", f"{case}: stdlib subtraction disagrees with the integer reference")
        r = i.to_datetime_utc()
        if (r.toordinal(), us_of(r)) != divmod(local_us - off_us + ORD0 * UPD, UPD) or r.utcoffset() != dtm.timedelta(0):
            return fail("inst-roundtrip", f"{case}: from_aware_datetime({x!r}).to_datetime_utc() = {r!r}")
    if off_us % 10**6 or abs(off_us) > OFF_MAX * 10**6:
        return None                                   # not the case for any tz database zone
    try:
        o = P.OffsetDateTime.from_aware_datetime(x)
    except (ValueError, OverflowError, TypeError, RuntimeError) as ex:
        return fail("odt-from-raises-in-range", f"{case}: OffsetDateTime.from_aware_datetime({x!r}) raised {type(ex).__name__}")
    if c11.s_odt(o) != ints(0, x.toordinal() - ORD0, us_of(x) * 1000, off_us // 10**6):
        return fail("odt-from-inexact", f"{case}: from_aware_datetime({x!r}) = {c11.s_odt(o)}; utc offset {off}")
    r = o.to_aware_datetime()
    if r.utcoffset() != off or (r.toordinal(), us_of(r)) != (x.toordinal(), us_of(x)):
        return fail("odt-roundtrip", f"{case}: from_aware_datetime({x!r}).to_aware_datetime() = {r!r}")
    return None


def run(ctx):
    ops = gen_ops(ctx, ctx.scale(60_000, 3_000_000))
    ctx.correspond("bridge.ops", ops, impl, oracle=oracle, neighbours=neighbours)
    ctx.correspond("bridge.aware", gen_aware_ops(ctx, ctx.scale(15_000, 800_000)), impl, oracle=oracle, neighbours=neighbours)
    _fold_sensitive[0] = 0
    ctx.check_cases("zoneinfo.zones", zone_cases(ctx), check_zone_case)
    ctx.note("zoneinfo_cases_whose_utcoffset_depends_on_fold", _fold_sensitive[0])
    if _fold_sensitive[0] < 4:
        ctx.assumptions.append("fewer than 4 zoneinfo cases had a fold-dependent utcoffset (system tz database missing or incomplete); "
                               "fold-dependent offsets are then covered by the custom tzinfo of suite bridge.aware only")


def replay_op(op, failure):
    if op.startswith("("):
        import ast
        return check_zone_case(ast.literal_eval(op))
    return oracle1(op.split(" "))
