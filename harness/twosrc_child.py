"""child interpreter for C13 oracle provider.two-sources-same-ids: loads ONLY the given .nzd file and prints, for the
given zone ids, the zone interval at each probe instant (a process that never saw another source is the reference)"""
import json
import os
import sys


def answers(path, ids, probes):
    from pyoda_time.time_zones import DateTimeZoneCache
    from pyoda_time.time_zones._tzdb_date_time_zone_source import TzdbDateTimeZoneSource
    import pyoda_time as P
    with open(path, "rb") as f:
        src = TzdbDateTimeZoneSource.from_stream(f)
    prov = DateTimeZoneCache(src)
    out = {}
    for zid in ids:
        z = prov[zid]
        row = []
        for (y, m) in probes:
            zi = z.get_zone_interval(P.Instant.from_utc(y, m, 15, 12, 0))
            row.append([zi.name, zi.wall_offset.seconds, zi.savings.seconds, str(zi._raw_start), str(zi._raw_end)])
        out[zid] = row
    return out


if __name__ == "__main__":
    sys.path.insert(0, os.environ.get("PYODA_REPO", "/repo"))
    try:
        import icu  # noqa: F401
    except Exception:  # noqa: BLE001
        sys.path.insert(0, os.path.join(os.path.dirname(os.path.abspath(__file__)), "icu_stub"))
    req = json.loads(sys.stdin.read())
    print(json.dumps(answers(req["path"], req["ids"], [tuple(p) for p in req["probes"]]), sort_keys=True))
