#!/usr/bin/env python3
"""Markdown status table per property from harness META + evidence (for DESIGN.md section 12)."""
import ast, json, glob
from pathlib import Path
V = Path('/verif')
print('| Prop | theorems (audited) | correspondence suites (quick ops) | direct oracles | partial (outside the theorems) |\n|---|---|---|---|---|')
for f in sorted((V/'harness').glob('c[0-9][0-9].py')):
    meta = None
    for n in ast.parse(f.read_text()).body:
        if isinstance(n, ast.Assign) and getattr(n.targets[0], 'id', '') == 'META':
            meta = ast.literal_eval(n.value)
    pid = meta['property']
    e = json.load(open(V/'evidence'/f'{pid}.json'))['coverage']
    th = meta['theorems']
    names = ', '.join(t.split('.')[-1] for t in th[:6]) + (' …' if len(th) > 6 else '')
    suites = '; '.join(f"{k} ({v['ops']})" for k, v in e['suites'].items())
    orc = '; '.join(f"{k} ({v['cases']})" for k, v in e['oracles'].items()) or 'per-op oracle inside the suites'
    part = ' / '.join(p[:150] for p in meta.get('partial', [])) or '—'
    print(f"| {pid} | {len(th)}: {names} | {suites} | {orc} | {part} |")
