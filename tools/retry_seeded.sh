#!/bin/bash
# tools/retry_seeded.sh Cxx-n [check args...]: run the current check again against the recorded seeded change Cxx-n
set -u
ID=$1; shift; P=${ID%%-*}; N=${ID##*-}; O=/tmp/mutre_$ID
rm -rf "$O"; mkdir -p "$O"
cp /verif/seeded/$ID/patch.diff "$O/patch1.diff"; cp /verif/seeded/$ID/demo.py "$O/demo1.py"; cp /verif/seeded/$ID/meta.json "$O/meta1.json"
MUT_OUT=$O MUT_DST=$N /verif/tools/try_mutant.sh "$P" 1 "$@"
rm -rf "$O"
