"""dev aid: run a property's correspondence and print disagreement classes: tools/dis.py c03 [n]"""
import sys, os
sys.path.insert(0, '/verif/harness')
import common
boot = common.bootstrap()
import importlib
from collections import Counter
mod = importlib.import_module(sys.argv[1])
ctx = common.Ctx(sys.argv[1].upper(), 'quick', int(sys.argv[2]) if len(sys.argv) > 2 else 1, mod.META.get('drivers', ['drv_elapsed'])[0])
mod.run(ctx)
c = Counter()
ex = {}
for u in ctx.unexplained:
    k = u['op'].split(' ')[0]
    c[k] += 1
    ex.setdefault(k, u)
print('unexplained', c)
for k, u in ex.items(): print(' ', u)
c2 = Counter(f['key'] for f in ctx.failures)
print('failures', c2)
seen=set()
for f in ctx.failures:
    if f['key'] not in seen:
        seen.add(f['key']); print(' ', f['key'], '|', f['op'], '|', f['what'][:200])
for s, st in ctx.suites.items(): print(s, {k: v for k, v in st.items() if k != 'first_disagreements'})
for s, st in ctx.oracles.items(): print(s, st)
