#!/usr/bin/env python3
"""Print a Python source file without docstrings/comments (reading aid). usage: src.py file [from [to]]"""
import ast,sys
src=open(sys.argv[1]).read()
tree=ast.parse(src)
for node in ast.walk(tree):
    if isinstance(node,(ast.FunctionDef,ast.ClassDef,ast.Module,ast.AsyncFunctionDef)):
        b=node.body
        if b and isinstance(b[0],ast.Expr) and isinstance(getattr(b[0],'value',None),ast.Constant) and isinstance(b[0].value.value,str):
            node.body=b[1:] or [ast.Pass()]
lines=ast.unparse(tree).split('\n')
a=int(sys.argv[2]) if len(sys.argv)>2 else 0
b=int(sys.argv[3]) if len(sys.argv)>3 else len(lines)
print('\n'.join(lines[a:b]))
