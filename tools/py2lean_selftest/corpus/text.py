"""Corpus of the translator self-test, text part (builder T4): str values as lists of characters, the f-string forms the
translator accepts, slices, character tests, `int(a * math.pow(10.0, k))`, `break`, a StringBuilder handed in as a parameter
and a cursor object with a class-level one-character constant.  Every function is translated by tools/py2lean.py (group
"SelftestText" of ../targets.py), evaluated in Lean on a grid and compared with CPython running this very file."""
import math


def fmt2(v: int) -> str:
    return f"{v:02}"


def fmt4(v: int) -> str:
    return f"{v:04}"


def fmt3d(v: int) -> str:
    return f"{v:03d}"


def fmt_dyn(v: int, n: int) -> str:
    return f"{v:0{n}d}"


def fmt_fill(v: int, n: int) -> str:
    return f"{v:0>{n}}"


def str_int(v: int) -> str:
    return str(v)


def char_at(s: str, i: int) -> str:
    return s[i]


def slice_from(s: str, a: int) -> str:
    return s[a:]


def slice_to(s: str, b: int) -> str:
    return s[:b]


def slice_both(s: str, a: int, b: int) -> str:
    return s[a:b]


def zeros_tail(n: int) -> str:
    return "000000"[16 - n:]


def concat_len(s: str, t: str) -> int:
    u = s + t + "-x"
    return len(u) * 100 + len(s)


def text_eq(s: str, t: str) -> int:
    if s == t:
        return 1
    if s != t + "":
        return 2
    return 3


def digit_class(s: str, i: int) -> int:
    c = s[i]
    r = 0
    if c.isdigit():
        r += 1
    if "0" <= c <= "9":
        r += 2
    if c == "-":
        r += 4
    if c != ".":
        r += 8
    if c < "a":
        r += 16
    return r


def digit_value(s: str, i: int) -> int:
    c = s[i]
    return int(c) + 1


def pow10(a: int, k: int) -> int:
    return int(a * math.pow(10.0, k))


def count_digits(s: str, limit: int) -> tuple[int, int]:
    """a `while` loop left by `break`"""
    i = 0
    total = 0
    while i < limit:
        if i >= len(s):
            break
        c = s[i]
        if not c.isdigit() or not "0" <= c <= "9":
            break
        total = total * 10 + int(c)
        i += 1
    return (i, total)


def first_big(n: int) -> int:
    """a `for … in range` loop left by `break`"""
    found = -1
    for i in range(n):
        if i * i > 50:
            found = i
            break
    return found


class StringBuilder:
    """the subset of pyoda_time._compatibility._string_builder.StringBuilder the text engine uses (same code)"""
    __slots__ = ("__string",)

    def __init__(self, string: str = "") -> None:
        self.__string = string

    def __getitem__(self, item: int) -> str:
        return self.__string.__getitem__(item)

    @property
    def length(self) -> int:
        return len(self.__string)

    @length.setter
    def length(self, value: int) -> None:
        assert 0 <= value <= self.length
        self.__string = self.__string[:value]

    def append(self, string: str):
        self.__string += string
        return self

    def to_string(self) -> str:
        return self.__string

    @classmethod
    def make(cls, ti: int, _unused: int):
        return cls(TEXTS[ti % len(TEXTS)])

    def show(self) -> str:
        return str([ord(c) for c in self.__string])


def sb_write(v: int, n: int, out: StringBuilder) -> int:
    """append / length / item / length setter of the buffer handed in"""
    before = out.length
    if v < 0:
        out.append("-")
        v = -v
    out.append(f"{v:0{n}d}")
    if out.length > 0 and out[out.length - 1] == "0":
        out.length -= 1
    return out.length - before


def sb_trim(n: int, out: StringBuilder) -> int:
    out.length = n
    return out.length


class Cur:
    """a cursor over a text (the shape of pyoda_time.text._text_cursor._TextCursor)"""
    _NUL: str = "\0"

    def __init__(self, value: str, index: int) -> None:
        self.__value = value
        self.__length = len(value)
        self.__index = index
        self.__current = self._NUL

    @classmethod
    def make(cls, ti: int, idx: int):
        r = cls(TEXTS[ti % len(TEXTS)], 0)
        r.move(idx - 3)
        return r

    def show(self) -> str:
        return f"{self.__index} {ord(self.__current)}"

    @property
    def index(self) -> int:
        return self.__index

    @property
    def current(self) -> str:
        return self.__current

    def move(self, target: int) -> bool:
        if target >= 0:
            if target < self.__length:
                self.__index = target
                self.__current = self.__value[self.index]
                return True
            self.__current = self._NUL
            self.__index = self.__length
            return False
        self.__current = self._NUL
        self.__index = -1
        return False

    def match(self, m: str) -> bool:
        target = self.index + len(m)
        if self.__value[self.index:target] == m:
            self.move(target)
            return True
        return False

    def digits(self, most: int) -> tuple[bool, int]:
        result = 0
        at = self.index
        stop = min(self.__length, at + most)
        while at < stop:
            d = self.__value[at]
            if not d.isdigit() or not "0" <= d <= "9":
                break
            result = result * 10 + int(d)
            at += 1
        if at == self.index:
            return (False, result)
        self.move(at)
        return (True, result)


TEXTS = ["", "0", "7", "-", ".", "12", "007", "-45", "3.14", "2024-02-29", "12:34:56.789", "a1b2", "99999999999999999999", "x", "٣٤", "1²3", "\0", "0.", "10.", "é9", " 42", "12a", "0000"]
