"""Corpus of the py2lean self-test: small functions that exercise every construct of the translated subset.
tools/py2lean_selftest.py translates this file, evaluates the generated Lean definitions on a grid of inputs
(`#eval`) and compares every result with what CPython computes by importing and calling this module."""
from __future__ import annotations

import base64
import enum
from typing import ClassVar, Final, cast

from .consts import Limits

SHIFT: Final[int] = 3
MASK: Final[int] = (1 << 4) - 1
NEG_DIV: Final[int] = -7


def _ckv(value: int, lo: int, hi: int) -> int:
    """returns value, ValueError outside [lo, hi]"""
    if value < lo or value > hi:
        raise ValueError("range")
    return value


def _ck(name: str, value: int, lo: int, hi: int) -> None:
    if value < lo or value > hi:
        raise ValueError(name)


def _ovf(value: int) -> int:
    """returns value, OverflowError above 1000"""
    if value > 1000:
        raise OverflowError("big")
    return value


class Base:
    _SCALE: Final[int] = 10
    __PRIVATE: Final[int] = _SCALE * 3 + 1
    _TABLE: Final[list[int]] = [5, 7, 11, 13]

    @staticmethod
    def __build(*steps: int) -> list[int]:
        ret = [0]
        for i in range(len(steps)):
            ret.append(ret[i] + steps[i])
        return ret

    __RUNNING: Final[list[int]] = __build(*_TABLE)

    def _weight(self, x: int) -> int:
        raise NotImplementedError

    def scaled(self, x: int) -> int:
        return self._weight(x) * self._SCALE + self.__PRIVATE

    @classmethod
    def running(cls, i: int) -> int:
        return cls.__RUNNING[i]

    @classmethod
    def table_or(cls, i: int, flag: bool) -> int:
        return cls._TABLE[i] if flag else cls.__RUNNING[i + 1]


class Child(Base):
    _SCALE: Final[int] = 12

    def _weight(self, x: int) -> int:
        return x * x - 1 if x & 1 == 1 else -x


class Vec:
    def __init__(self, x: int = 0, y: int = Limits.DEFAULT_Y) -> None:
        if x < Limits.LO or x > Limits.HI:
            _ck("x", x, Limits.LO, Limits.HI)
        self.__x = x
        self.__y = y

    @classmethod
    def _ctor(cls, *, x: int, y: int) -> Vec:
        self = super().__new__(cls)
        self.__x = x
        self.__y = y
        self.__y += 0
        return self

    @classmethod
    def make(cls, x: int | None = None, y: int | None = None, both: int | None = None) -> Vec:
        if both is not None and x is None and y is None:
            return cls._ctor(x=both, y=both)
        elif both is None and x is not None and y is not None:
            return cls._ctor(x=x, y=y)
        raise TypeError

    @property
    def x(self) -> int:
        return self.__x

    @property
    def norm1(self) -> int:
        return abs(self.__x) + abs(self.__y)

    def __add__(self, other: Vec) -> Vec:
        if isinstance(other, Vec):
            return Vec._ctor(x=_ovf(self.__x + other.__x), y=_ckv(self.__y + other.__y, -500, 500))
        return NotImplemented

    def __neg__(self) -> Vec:
        return Vec._ctor(x=-self.__x, y=-self.__y)

    def __eq__(self, other: object) -> bool:
        if not isinstance(other, Vec):
            return NotImplemented
        return self.__x == other.__x and self.__y == other.__y

    def __lt__(self, other: Vec) -> bool:
        if not isinstance(other, Vec):
            return NotImplemented
        return self.__x < other.__x or (self.__x == other.__x and self.__y < other.__y)

    def __le__(self, other: Vec) -> bool:
        return self < other or self == other

    def dot(self, other: Vec | int) -> int:
        if isinstance(other, int | float):
            return self.__x * other + self.__y * other
        if isinstance(other, Vec):
            return self.__x * other.__x + self.__y * other.__y
        raise TypeError

    def flip_sum(self, other: Vec) -> Vec:
        return -(self + other)

    def between(self, lo: Vec, hi: Vec) -> bool:
        return lo <= self <= hi

    def __hash__(self) -> int:
        # deliberately outside the Py_ssize_t range for |x| >= 2, and -1 for Vec(0, -1): the builtin `hash` reduces both
        return self.__x * (1 << 62) + self.__y

    def bucket(self, other: Vec) -> int:
        """builtin `hash` of objects: `__hash__`, then the builtin's reduction of the integer it returned"""
        return hash(self) * 3 - hash(other)


# ---- arithmetic ---------------------------------------------------------------------------------------

def floor_ops(a: int) -> tuple[int, int, int, int]:
    return (a // 7, a % 7, a // NEG_DIV, a % NEG_DIV)


def divmod_ops(a: int) -> int:
    q, r = divmod(a, 60)
    q2, r2 = divmod(a, -13)
    return q * 1000003 + r * 1009 + q2 * 31 + r2


def shifts(a: int) -> tuple[int, int, int]:
    return (a >> SHIFT, a << 2, (a + 3 >> 2) - (a >> 14))


def masks(a: int) -> tuple[int, int, int]:
    return (a & 1, a & MASK, (a + (a >> 3)) & 1)


def powers(a: int) -> int:
    return a ** 3 - 2 ** 10 + (-a) ** 2


def unary(a: int) -> tuple[int, int, int]:
    return (-a, ~a, +a)


def runtime_div(a: int, b: int) -> tuple[int, int]:
    return (a // b, a % b)


def minmaxabs(a: int, b: int) -> int:
    return min(a, b) * 3 + max(a, b) * 5 + abs(a - b) + int(a)


# ---- booleans and comparisons ---------------------------------------------------------------------------

def chained(a: int, b: int, c: int) -> bool:
    return a < b <= c != a


def logic(a: int, b: int) -> bool:
    return (a > 0 and b > 0) or not (a < b or a == 7) and a != b


def bool_values(a: int, b: int) -> int:
    p = a < b
    q = a == b
    if p == q:
        return 1
    if p and not q:
        return 2
    return 3


def cond_expr(a: int) -> int:
    return -1 if a < 31 else 30 if a < 59 else 58 if a < 90 else (89 if a & 1 == 0 else 88)


def walrus(a: int, b: int) -> int:
    if not (d := (a - b)) == 0:
        return d
    return a + b


# ---- statements -----------------------------------------------------------------------------------------

def fallthrough(a: int, b: int) -> int:
    x = a
    y = b
    if x > y:
        x -= y
        y += 1
    elif x == y:
        return 0
    if y & 1 == 1:
        y *= 2
    else:
        x //= 2
        if x < 0:
            return x
    x, y = y, x
    return x * 1000 + y


def augmented(a: int) -> int:
    r = a
    r += 5
    r -= 2
    r *= 3
    r //= 4
    r %= 1000
    r <<= 2
    r >>= 1
    return r


def raise_order(a: int, b: int) -> int:
    return _ovf(a) + _ckv(b, -50, 50) * _ovf(a * 2)


def raise_in_branches(a: int, b: int) -> int:
    return _ovf(a) if a > b else _ckv(b, 0, 100)


def statement_raise(a: int) -> int:
    _ck("a", a, -100, 100)
    if a == 13:
        raise RuntimeError("unlucky")
    if a == 14:
        raise OverflowError
    return a


def defaults(a: int, step: int = 7, flag: bool = True) -> int:
    return a + step if flag else a - step


def use_defaults(a: int) -> int:
    return defaults(a) * 2 + defaults(a, step=3)


def no_return_value(a: int) -> None:
    if a < 0:
        _ck("a", a, 0, 10)
    if 1 <= a <= 20:
        return
    _ck("a", a, 0, 1000)


# ---- while loops (fuel-recursive functions; a Lean reply `!dom` = out of fuel, not compared) ------------------

def gcd_loop(a: int, b: int) -> int:
    a = abs(a)
    b = abs(b)
    while b != 0:
        a, b = b, a % b
    return a


def collatz_steps(n: int) -> int:
    steps = 0
    if n < 1:
        return -1
    while n != 1:
        if n & 1 == 0:
            n //= 2
        else:
            n = 3 * n + 1
        steps += 1
    return steps


def _length(year: int) -> int:
    return 366 if year % 4 == 0 else 365


def year_search(days: int) -> tuple[int, int]:
    """the shape of _YearMonthDayCalculator._get_year: an estimate, then one of two correction loops"""
    candidate = days // 365
    start = candidate * 365 + (candidate + 3) // 4
    rem = days - start
    if rem < 0:
        while rem < 0:
            candidate -= 1
            rem += _length(candidate)
        return (candidate, rem)
    length = _length(candidate)
    while rem >= length:
        candidate += 1
        rem -= length
        length = _length(candidate)
    return (candidate, rem)


def loop_with_raise(a: int) -> int:
    total = 0
    while a > 0:
        total += _ckv(a, 0, 40)
        a -= 7
    return total


def bitwise(a: int, b: int) -> tuple[int, int, int, int]:
    return (a & b, a | b, a ^ b, a & 6)


def runtime_shifts(a: int, b: int) -> tuple[int, int]:
    return (a >> b, a << b)


PATTERN: Final[int] = 623158436


def bit_test(year: int) -> bool:
    year_of_cycle = year % 30 if year >= 0 else -(-year % 30) + 30
    key = 1 << year_of_cycle
    return PATTERN & key > 0


def for_range_sum(a: int, b: int) -> int:
    total = 0
    for i in range(a, b):
        total += _length(i) - 360
    return total


def for_range_one_arg(n: int) -> int:
    acc = 1
    for k in range(n):
        acc = (acc * 3 + k) % 1000003
    return acc


# ---- objects with virtual members (records of functions), lambda-returning factories ---------------------------

class Scaler:
    """an interface: the translator sees its virtual members as function-valued fields of a structure"""

    def scale(self, x: int) -> int:
        raise NotImplementedError

    def check(self, value: int, limit: int) -> int:
        raise NotImplementedError


class LinearScaler(Scaler):
    """the implementation the self-test passes in (Lean side: the record ⟨fun x => m*x+1, fun v l => ckv v (-l) l⟩)"""

    def __init__(self, m: int) -> None:
        self.__m = m

    def scale(self, x: int) -> int:
        return self.__m * x + 1

    def check(self, value: int, limit: int) -> int:
        return _ckv(value, -limit, limit)


class Holder:
    def __init__(self, scaler: Scaler, bias: int) -> None:
        self.__scaler = scaler
        self.__bias = bias

    @property
    def scaler(self) -> Scaler:
        return self.__scaler

    @property
    def bias(self) -> int:
        return self.__bias


def _not_null(argument: Holder | None, name: str) -> Holder:
    if argument is None:
        raise TypeError(name)
    return argument


def use_object(h: Holder, x: int) -> int:
    _not_null(h, "h")
    s = h.scaler
    a = s.scale(x)
    if a > 100:
        return s.check(limit=1000, value=a) - h.bias
    return a * 2 + h.scaler.check(x, limit=h.bias)


def make_adjuster(k: int):
    if k < -50:
        raise ValueError("k")
    return lambda v, n: v if v.x == k else v + Vec._ctor(x=k * n, y=_ckv(n, -100, 100))


# ---- optional results, `in`, len(), & and |, raising calls under and / or / chained comparisons ----------------

class Span:
    def __init__(self, lo: int, hi: int) -> None:
        if hi < lo:
            raise ValueError("empty")
        self.__lo = lo
        self.__hi = hi

    @classmethod
    def _ctor(cls, *, lo: int, hi: int) -> Span:
        self = super().__new__(cls)
        self.__lo = lo
        self.__hi = hi
        return self

    def __contains__(self, item: int | Span) -> bool:
        if isinstance(item, int):
            return _ckv(self.__lo, -600, 600) <= item <= _ovf(self.__hi)
        if isinstance(item, Span):
            return self.__lo <= item.__lo and _ovf(item.__hi) <= self.__hi
        raise TypeError

    def __len__(self) -> int:
        return self.__hi - self.__lo + 1

    def __and__(self, other: Span) -> Span | None:
        if other in self:
            return other
        if self.__hi < other.__lo or other.__hi < self.__lo:
            return None
        return Span(max(self.__lo, other.__lo), min(self.__hi, other.__hi))

    def __or__(self, other: Span) -> Span | None:
        if len(self) + len(other) > 150:
            return None
        if self.__lo not in other and other.__lo not in self:
            return None
        return Span._ctor(lo=min(self.__lo, other.__lo), hi=max(self.__hi, other.__hi))

    def meet(self, other: Span) -> Span | None:
        return self & other

    def join(self, other: Span) -> Span | None:
        return self | other


def or_with_raise(a: int, b: int) -> bool:
    return a > 5 or _ovf(a * 300) > b or a == b


def and_assigned(a: int, b: int) -> int:
    flag = a > 0 and _ckv(b, -5, 5) == b and a != 7
    return 1 if flag else 0


def optional_int(a: int) -> int | None:
    if a < 0:
        return None
    if a > 500:
        return _ovf(a)
    return a * 2


def none_passed(start: int | None = 3, end: int | None = 4) -> int:
    if start is None:
        start = -1000
    if end is None:
        end = 1000
    if end < start:
        raise ValueError("order")
    return end - start


def tags(x: int, y: int, z: int) -> bool:
    return x == y and y != z


# ---- match statements, `in` over a literal tuple, helpers that never return, enum identity -----------------------

def _fail(name: str, value: int) -> None:
    raise ValueError(f"{name}={value}")


def match_stmt(m: int, x: int) -> int:
    match m:
        case 1:
            return x
        case 2 | 4 | -6:
            return x * 2
        case 3:
            x += 1
        case _:
            return -1
    return x * 3


def match_fallthrough(m: int, x: int) -> int:
    match m:
        case 1:
            return x
        case 7:
            x -= 1
        case 13:
            return _ovf(x)
    if x > 50:
        return x
    _fail("m", m)


def in_tuple(a: int, b: int) -> int:
    return 1 if a in (0, 3, b) else (2 if b not in (1, a + 1) else 3)


class Mode(enum.IntEnum):
    PLAIN = 1
    FANCY = 2


class Styled:
    def __init__(self, mode: Mode) -> None:
        self.__mode: Final[Mode] = mode

    def pick(self, a: int) -> int:
        if self.__mode is Mode.PLAIN:
            return a
        return a * 2 if self.__mode == Mode.FANCY else -a

    def pick_not(self, a: int) -> int:
        return a + 1 if self.__mode is not Mode.FANCY else a - 1


# ---- tables: base64 literals, dicts filled by the class body; abstract callees called with keywords -------------

class Tables:
    RAW: Final[bytes] = base64.b64decode(
        "AQIDBAUGBwgJCgsMDQ4PEBESExQVFhcYGRobHB0eHyAhIiMkJSYnKCkqKywtLi8wMTIzNDU2Nzg5Ojs8PT4/QEFCQ0RFRkdISUpLTE1OT1BRUlM="
    )
    __WORDS: ClassVar[dict[int, int]] = {}
    __SUMS: ClassVar[dict[int, int]] = {}

    @staticmethod
    def _fill(data: str, words: dict[int, int], sums: dict[int, int], offset: int) -> None:
        raw = base64.b64decode(data)
        total = 0
        for i in range(int(len(raw) / 2)):
            words[i] = raw[i * 2] << 8 | raw[i * 2 + 1]
            total += words[i] + offset
            sums[i] = total

    _fill(data="AAEAAgEDAAQABf//" + "AAc=", words=__WORDS, sums=__SUMS, offset=1)
    del _fill

    @classmethod
    def raw_at(cls, i: int) -> int:
        return cls.RAW[i]

    @classmethod
    def word_at(cls, i: int) -> int:
        return cls.__WORDS[i] * 1000 + cls.__SUMS[i - 1]


def _mk(year: int, month: int, day: int) -> int:
    return year * 400 + month * 31 + _ckv(day, 1, 31)


def keyword_callee(a: int, b: int) -> int:
    return _mk(day=b, year=a, month=3) + _mk(a, day=b + 1, month=4)


# ---- a dict attribute read and stored into (explicit state passing) ------------------------------------------------

class Memo:
    __STORE: ClassVar[dict[int, int]] = {}

    @classmethod
    def peek(cls, k: int) -> int:
        return cls.__STORE[k & 7]

    @classmethod
    def get(cls, k: int) -> int:
        slot = k & 7
        cur = cls.__STORE[slot]
        if cur != k * 3:
            cls.__STORE[slot] = k * 3 + cls.peek(k + 1) % 2
        return cls.__STORE[slot] + cls.__STORE[k % 11]


# ---- loops whose body returns; names local to one iteration ------------------------------------------------------------

def first_multiple(a: int, b: int) -> int:
    for i in range(1, 40):
        probe = i * a
        if probe % 7 == b % 7:
            return probe + _ckv(i, 0, 30)
        a += 1
    if a > 1000:
        raise OverflowError("a")
    return -a


def search(lo: int, hi: int) -> int:
    """a binary search shape: the body returns when it hits"""
    while lo < hi:
        mid = (lo + hi) >> 1
        sq = mid * mid
        if sq == 49:
            return mid
        if sq < 49:
            lo = mid + 1
        else:
            hi = mid
    return -lo


# ---- optional objects, lists of objects, typing.cast, hoisted conditional arguments, custom exceptions -------------

class SkippedTimeError(Exception):
    pass


class Node:
    def __init__(self, key: int, nxt: int) -> None:
        self.__key = key
        self.__nxt = nxt

    @property
    def key(self) -> int:
        return self.__key

    @property
    def nxt(self) -> int:
        return self.__nxt


def find_node(nodes: list[Node], k: int) -> Node | None:
    lower = 0
    upper = len(nodes)
    while lower < upper:
        current = (lower + upper) // 2
        candidate = nodes[current]
        if candidate.key > k:
            upper = current
        elif candidate.key < k:
            lower = current + 1
        else:
            return candidate
    return None


def walrus_optional(nodes: list[Node], k: int) -> int:
    if (hit := find_node(nodes, k)):
        return hit.nxt
    if (other := find_node(nodes, -k)):
        return -other.nxt + cast(int, k)
    if k == 99:
        raise SkippedTimeError("gap")
    return nodes[k].nxt


def hoisted_argument(a: int, b: int) -> int:
    return _mk(a if a > 0 else _ovf(b), 3, _ckv(b, -40, 31) if b > 0 else 5)


def _mk2(tag: object, a: int, b: int) -> int:
    return a * 2 + b


class Chain:
    def __init__(self, fallback: Scaler | None, base: int) -> None:
        self.__fallback = fallback
        self.__base = base

    def pick(self, x: int) -> int:
        if self.__fallback is not None and x > 5:
            return self.__fallback.scale(x) + _mk2(self, x, self.__base)
        return _mk2(self, self.__base, x)


# ---- the arguments of a raised exception are evaluated first (a failing one wins) ---------------------------------

def raise_evaluates_arguments(a: int, b: int) -> int:
    if a > 5:
        raise ValueError(_ovf(a * 100), f"{a // b} of {a}")
    return a
