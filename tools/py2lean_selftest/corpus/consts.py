from __future__ import annotations

from typing import Final

_BASE: Final[int] = 25


class Limits:
    LO: Final[int] = -_BASE * 4
    HI: Final[int] = ~LO
    DEFAULT_Y: Final[int] = (HI >> 3) % 5 + 2 ** 3
