"""Corpus of the py2lean self-test, third part: the LOCK DISCIPLINE records (`lock_discipline`, emitted as `<name>.lockInfo`).
`Guarded` keeps the discipline the interleaving theorems assume (the shape of pyoda_time's FakeClock); every method of
`Sloppy` breaks it in one way; `Bare` has no lock at all (the shape of the zone-interval cache); `Wrapper` only hands on to
another object (the shape of ZonedClock).  The expected records are in tools/py2lean_selftest.py (LOCK_EXPECT)."""
from __future__ import annotations

import threading
from collections.abc import Callable


class Guarded:
    def __init__(self, n: int, step: int) -> None:
        self.__lock = threading.Lock()
        self.__n = n
        self.__step = step
        self.__label = n * 2  # frozen: never written again

    def bump(self) -> int:
        """read-modify-write in one critical section"""
        with self.__lock:
            then = self.__n
            self.__n += self.__step
            return then

    def peek(self) -> int:
        with self.__lock:
            return self.__n

    def set_step(self, step: int) -> None:
        with self.__lock:
            self.__step = step

    def label(self) -> int:
        """a frozen attribute needs no lock"""
        return self.__label

    def bump_by_label(self) -> int:
        """no shared state of its own, one step of another operation, pure work around it"""
        return self.bump() + self.label()

    def renamed(self) -> int:
        """the same as bump with other local names: the record must be the same"""
        with self.__lock:
            before = self.__n
            self.__n += self.__step
            return before


class Sloppy:
    def __init__(self, n: int, cb: Callable[[int], int]) -> None:
        self.__lock = threading.Lock()
        self.__other = threading.Lock()
        self.__n = n
        self.__items: list[int] = []
        self.__cb = cb

    def ok(self) -> int:
        with self.__lock:
            self.__n += 1
            return self.__n

    def leak(self, v: int) -> None:
        """the write is outside the lock"""
        with self.__lock:
            pass
        self.__n = v

    def early_read(self) -> int:
        """the read is outside the lock"""
        then = self.__n
        with self.__lock:
            self.__n = then + 1
        return then

    def split(self) -> int:
        """read and write in two critical sections"""
        with self.__lock:
            then = self.__n
        with self.__lock:
            self.__n = then + 1
        return then

    def reenter(self) -> int:
        """calls a locking member while holding the (non-re-entrant) lock"""
        with self.__lock:
            return self.ok() + 1

    def twice(self) -> int:
        """two steps of another operation"""
        return self.ok() + self.ok()

    def wrong_lock(self) -> None:
        """guarded by another lock than the class's"""
        with self.__other:
            self.__n = 0

    def manual(self) -> None:
        """acquire / release by hand: not the `with` form"""
        self.__lock.acquire()
        self.__n = 0
        self.__lock.release()

    def in_place(self, v: int) -> None:
        """in-place mutation of a container attribute without the lock"""
        self.__items.append(v)

    def call_back(self, v: int) -> int:
        with self.__lock:
            self.__n = self.__cb(v)
            return self.__n


class Bare:
    SIZE = 4

    def __init__(self) -> None:
        self.__slots = [0] * 4
        self.__base = 7

    def get(self, i: int) -> int:
        k = i & (self.SIZE - 1)
        v = self.__slots[k]
        if v == 0:
            v = i + self.__base
            self.__slots[k] = v
        return v


class Wrapper:
    def __init__(self, inner: Guarded, tag: int) -> None:
        self.__inner = inner
        self.__tag = tag

    @property
    def tag(self) -> int:
        return self.__tag

    def read(self) -> int:
        return self.__inner.bump()

    def tagged(self) -> int:
        return self.read() + self.tag

    def both(self) -> int:
        return self.read() + self.__inner.peek()
