"""Functions the translator must REFUSE (one unsupported construct each). tools/py2lean_selftest.py checks that every one
of them yields an `UNSUPPORTED: file:line construct` error whose text contains the expected fragment."""
from __future__ import annotations

LIMIT = 10
TABLE = [1, 2, 3]


def _raiser(v: int) -> int:
    if v > 5:
        raise ValueError
    return v


def while_loop(a: int) -> int:
    while a > 0:
        a -= 1
    return a


def for_loop(a: int) -> int:
    for x in TABLE:
        a += x
    return a


def for_var_after(a: int) -> int:
    for i in range(3):
        a += i
    return a + i


def true_division(a: int) -> int:
    return int(a / 2)


def float_literal(a: int) -> int:
    return a * 2.0


def variable_power(a: int, b: int) -> int:
    return a ** b


def divide_by_constant_zero(a: int) -> int:
    return a // (LIMIT - 10)


def raising_call_short_circuit(a: int) -> int:
    return 1 + (2 if (a > 0 and _raiser(a) > 1) else 0)


def truthiness_of_int(a: int) -> int:
    if a:
        return 1
    return 0


def falls_off_end(a: int) -> int:
    if a > 0:
        return 1


def try_except(a: int) -> int:
    try:
        return _raiser(a)
    except ValueError:
        return 0


def unknown_call(a: int) -> int:
    return hash(a)


def string_result(a: int) -> str:
    return "x"


def list_value(a: int) -> int:
    xs = [a, a + 1]
    return xs[0]


def mutated_table(a: int) -> int:
    TABLE[0] = a
    return TABLE[a]


def read_before_assignment(a: int) -> int:
    if a > 0:
        y = 1
    return y


def local_shadows_constant(a: int) -> int:
    if a > 0:
        LIMIT = 3
    return LIMIT


def star_args(*a: int) -> int:
    return 0


def lambda_value(a: int) -> int:
    f = lambda x: x + 1  # noqa: E731
    return f(a)


def comprehension(a: int) -> int:
    return sum(i for i in range(a))


def isinstance_unknown(a: int, b) -> int:
    if isinstance(b, int):
        return a
    return 0


def reachable_not_implemented(a: int) -> int:
    if a > 0:
        return a
    return NotImplemented


def assert_stmt(a: int) -> int:
    assert a > 0
    return a


def raise_custom(a: int) -> int:
    class E(Exception):
        pass
    raise E


class Obj:
    def virt(self, x: int, y: int) -> int:
        raise NotImplementedError


def lambda_shadow(a: int):
    v = a + 1
    return lambda v: v + a


def lambda_names_differ(a: int):
    return lambda w: w + a


def lambda_factory(a: int):
    return lambda v: v + a


def calls_lambda_factory(a: int) -> int:
    f = lambda_factory(a)
    return f(1)


def unknown_method(o: Obj, a: int) -> int:
    return o.other(a)


def method_missing_argument(o: Obj, a: int) -> int:
    return o.virt(a)


def method_unknown_keyword(o: Obj, a: int) -> int:
    return o.virt(a, z=a)


def chained_raising_middle(a: int, b: int) -> bool:
    return a < _raiser(b) < _raiser(a + b)


def opaque_order(x: int, y: int) -> bool:
    return x < y


def none_where_int(a: int) -> int:
    if a > 0:
        return None
    return a


def match_capture(a: int) -> int:
    match a:
        case 1:
            return 0
        case other:
            return other


def match_guard(a: int) -> int:
    match a:
        case 1 if a > 0:
            return 0
    return 1


def is_plain_int(a: int, b: int) -> bool:
    return a is b


class Counter:
    STORE: dict[int, int] = {}

    @classmethod
    def bump_readonly(cls, k: int) -> int:
        cls.STORE[k] = 1
        return k

    @classmethod
    def loop_store(cls, k: int) -> int:
        while k > 0:
            cls.STORE[k] = k
            k -= 1
        return k


def break_in_loop(a: int) -> int:
    while a > 0:
        if a == 5:
            break
        a -= 1
    return a


class Sized:
    def __len__(self) -> int:
        return 0


def maybe_sized(a: int) -> Sized | None:
    return None


def truthiness_of_sized(a: int) -> int:
    if (x := maybe_sized(a)):
        return 1
    return 0


def hoist_after_call(a: int, b: int) -> int:
    return _two(_raiser(a), b if b > 0 else _raiser(b))


def _two(x: int, y: int) -> int:
    return x + y


def raise_unknown_call_argument(a: int) -> int:
    if a > 5:
        raise ValueError(hash(a))
    return a


# ---- objects with mutable state, mutable builtin values (tools/py2lean.py "mstate") -------------------------------

class Box:
    __value: int
    __items: list[int] | None

    def bump(self) -> int:
        self.__value += 1
        return self.__value

    def state_call_short_circuit(self, a: int) -> bool:
        return (a > 0 and self.bump() > 3) == (a > 5)

    def state_call_conditional(self, a: int) -> int:
        return 1 + (self.bump() if a > 0 else 0)

    def assign_readonly(self, a: int) -> int:
        self.__value = a
        return a

    def none_into_plain_field(self) -> int:
        self.__value = None
        return 0

    def forever(self, a: int) -> int:
        while True:
            a += self.bump()


def alias_of_bytearray(n: int) -> int:
    data = bytearray()
    other = data
    other.extend(bytes([n]))
    return len(data)


def extend_parameter(data: bytes, n: int) -> int:
    data.extend(bytes([n]))
    return len(data)


def mutate_iterated(items: list[int]) -> int:
    total = 0
    for x in items:
        items.append(x)
        total += x
    return total


def list_loop_var_after(items: list[int]) -> int:
    x = 0
    for y in items:
        x += y
    return y


def store_into_parameter(d: dict[int, int], k: int) -> int:
    d[k] = 1
    return len(d)


def optional_used_as_int(x: int | None) -> int:
    return x + 1


def fuel_missing(n: int) -> int:
    while n > 0:
        n -= 1
    return n


# ---- try / except beyond "translate one exception into another" ------------------------------------------------------

def try_falls_through(a: int) -> int:
    try:
        x = _raiser(a)
    except ValueError as e:
        raise OverflowError("x") from e
    return x


def try_bare_except(a: int) -> int:
    try:
        return _raiser(a)
    except:  # noqa: E722
        raise ValueError("x")


def try_unknown_class(a: int) -> int:
    try:
        return _raiser(a)
    except AttributeError as e:
        raise ValueError("x") from e


def try_finally(a: int) -> int:
    try:
        return _raiser(a)
    except ValueError as e:
        raise OverflowError("x") from e
    finally:
        a = 0


class Opaque:
    __value: int


def hash_without_dunder(b: Opaque) -> int:
    return hash(b)


def none_local_as_value(a: int) -> int:
    w = None
    return a + w


def none_in_loop(a: int) -> int:
    w = 0
    for i in range(a):
        w = None
    return 1


def _two(x: int, y: int) -> int:
    return x + y


def none_for_plain_parameter(a: int) -> int:
    return _two(None, a)
