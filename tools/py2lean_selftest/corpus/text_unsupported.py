"""Must-refuse programs of the text part of the translator self-test (builder T4): every function here has to be refused by
tools/py2lean.py with the reason given in "expect" of the group "SelftestTextRefuse"."""
import math


def fstring_with_text(v: int) -> str:
    return f"v={v:02}"


def fstring_nonliteral_spec(v: int, n: int) -> str:
    return f"{v:{n}}"


def fstring_space_fill(v: int) -> str:
    return f"{v: >4}"


def fstring_conversion(v: int) -> str:
    return f"{v!r:02}"


def fstring_no_spec(v: int) -> str:
    return f"{v}"


def fstring_of_text(s: str) -> str:
    return f"{s:04}"


def fstring_zero_width(v: int) -> str:
    return f"{v:00}"


def fstring_float_spec(v: int) -> str:
    return f"{v:04.1f}"


def float_scale(a: int, n: int, k: int) -> int:
    return int(a / math.pow(10.0, n) * math.pow(10.0, k))


def float_pow_base2(a: int, k: int) -> int:
    return int(a * math.pow(2.0, k))


def float_pow_alone(k: int) -> int:
    return int(math.pow(10.0, k))


def float_literal_result(a: int) -> int:
    return int(a * 0.5)


def slice_step(s: str) -> str:
    return s[::2]


def char_vs_long_literal(s: str, i: int) -> int:
    if s[i] == "ab":
        return 1
    return 0


def str_times(s: str, n: int) -> str:
    return s * n


def str_method(s: str) -> str:
    return s.upper()


def percent_format(v: int) -> str:
    return "%02d" % v


def int_of_text(s: str) -> int:
    return int(s)


def str_of_text(s: str) -> str:
    return str(s)


def break_in_list_loop(xs: list) -> int:
    n = 0
    for x in xs:
        if x > 3:
            break
        n += x
    return n


def continue_in_loop(n: int) -> int:
    i = 0
    t = 0
    while i < n:
        i += 1
        if i == 3:
            continue
        t += i
    return t
