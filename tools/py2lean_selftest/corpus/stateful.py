"""Corpus of the py2lean self-test, second part: objects with MUTABLE state translated as state-passing functions, run-time
optionals, bytes / bytearray / list / dict values, loops over lists, `while True` with a return, loop fuel given as a term.
(The same shapes as pyoda_time's `_DateTimeZoneReader`, `_DateTimeZoneWriter`, `FakeClock`, `_Cache`.)"""
from __future__ import annotations

from typing import Final


class InvalidPyodaDataError(Exception):
    pass


class Source:
    """a binary stream that hands out at most `chunk` bytes per read (short reads); hand-mapped on the Lean side"""

    def __init__(self, data: bytes, chunk: int) -> None:
        self.data = data
        self.chunk = chunk

    def read(self, n: int) -> bytes:
        if n < 0:
            k = len(self.data)
        else:
            k = min(n, self.chunk, len(self.data))
        out, self.data = self.data[:k], self.data[k:]
        return out


class Reader:
    class Limits:
        MAX: Final[int] = 300
        MARK_A: Final[int] = 7
        MARK_B: Final[int] = 1 << 3

    __src: Source
    __peeked: int | None
    __total: int
    __log: list[int] | None

    @classmethod
    def make(cls, a: int, b: int) -> Reader:
        """(not translated) the state the self-test builds from two integers; `mkRd` of SelftestSupport is its twin"""
        self = super().__new__(cls)
        n = b % 7
        self.__src = Source(bytes((a * (i + 3) + i * i) % 256 for i in range(n)), 1 + b % 3)
        self.__peeked = None if a % 2 == 0 else a % 256
        self.__total = a % 11
        self.__log = None if b % 2 == 0 else [a % 5]
        return self

    def show(self) -> str:
        return f"{list(self.__src.data)} {self.__peeked} {self.__total} {self.__log}"

    def take(self) -> int:
        if self.__peeked is not None:
            ret, self.__peeked = (self.__peeked, None)
            return ret
        b = self.__src.read(1)
        if not b:
            raise InvalidPyodaDataError("end of data")
        self.__total += 1
        return b[0]

    @property
    def more(self) -> bool:
        if self.__peeked is not None:
            return True
        nxt = self.__src.read(1)
        if not nxt:
            return False
        self.__peeked = nxt[0]
        return True

    def varint(self) -> int:
        ret = 0
        shift = 0
        while True:
            b = self.take()
            ret += (b & 15) << shift
            shift += 4
            if b < 128:
                return ret

    def take_n(self, n: int) -> int:
        data = bytearray()
        while len(data) < n:
            chunk = self.__src.read(n - len(data))
            if not chunk:
                raise InvalidPyodaDataError("short")
            data.extend(chunk)
        if n > 0:
            return len(data) * 1000 + data[0] + data[-1]
        return 0

    def pair(self) -> int:
        return (self.take() << 8) + self.take() * 2

    def peek_or(self, d: int) -> int:
        if self.more:
            return self.take()
        return d

    def remember(self, x: int) -> int:
        if self.__log is None:
            return -1
        if x not in self.__log:
            self.__log.append(x)
        return self.__log.index(x) * 100 + len(self.__log)

    def classify(self, v: int) -> int:
        if v > Reader.Limits.MAX:
            raise InvalidPyodaDataError(f"too big: {v}")
        match v:
            case Reader.Limits.MARK_A:
                return self.__total
            case Reader.Limits.MARK_B:
                return self.take()
            case _:
                return v * 2

    def skip(self, upto: int | None = None) -> int:
        """translated twice: for `upto is None` and for an int"""
        if upto is None:
            return self.take()
        if upto > 2:
            return self.take() + self.take()
        return upto

    def total(self) -> int:
        return self.__total

    def add_products(self, items: list[tuple[int, int]]) -> int:
        acc = 1
        for a, b in items:
            self.__total += a * b
            acc = acc * 3 + a
        return acc


def opt_add(x: int | None, y: int) -> int:
    if x is None:
        return y
    return x + y * 2


def opt_flag(x: int | None, y: int) -> bool:
    return x is not None and y > 0


def distinct_mod(n: int, m: int) -> int:
    seen = {}
    for i in range(n):
        seen[(i * i) % m] = i
    if n > 0:
        return len(seen) * 100 + seen[1]
    return -1


def one_byte(v: int) -> int:
    b = bytes([v])
    return b[0] + len(b)


def countdown(n: int) -> int:
    steps = 0
    while n > 0:
        n = n // 2
        steps += 1
    return steps


class Lru:
    """dict + deque state (the shape of pyoda_time's `_Cache`): item stores and deletions on a state attribute, popleft"""

    @classmethod
    def make(cls, a: int, b: int) -> Lru:
        """(not translated) `mkLru a b` of SelftestSupport is its twin"""
        from collections import deque
        self = super().__new__(cls)
        ks = [(a + 2 * i) % 7 for i in range(b % 5)]
        self.__limit = a % 4
        self.__order = deque(ks)
        self.__table = {}
        for k in ks:
            self.__table[k] = k * k + 1
        return self

    def show(self) -> str:
        return f"{self.__limit} {list(self.__order)} " + "{" + ", ".join(f"{k}: {v}" for k, v in self.__table.items()) + "}"

    def touch(self, k: int) -> int:
        if k in self.__table:
            return self.__table[k]
        self.__order.append(k)
        self.__table[k] = k * 3
        while len(self.__table) > self.__limit:
            old = self.__order.popleft()
            if old in self.__table:
                del self.__table[old]
        return self.__table[k]

    def drop(self, k: int) -> int:
        del self.__table[k]
        return len(self.__table)


def _check(v: int, lo: int, hi: int) -> int:
    if v < lo or v > hi:
        raise ValueError("range")
    return v


def _lookup(v: int) -> int:
    if v == 13:
        raise KeyError("unlucky")
    if v == 17:
        raise IndexError("prime")
    if v == 19:
        raise RuntimeError("odd")
    return v * 2


def guarded(a: int, b: int) -> int:
    """try/except that translates exceptions: the first matching handler decides; subclasses; a bare re-raise; no match"""
    try:
        x = _check(a, -50, 50)
        return _lookup(x) + _lookup(b)
    except InvalidPyodaDataError:
        raise
    except ValueError as e:
        raise InvalidPyodaDataError("bad value") from e
    except (LookupError, OverflowError) as e:
        raise ValueError("lookup") from e


class Walker:
    """a function that works on a Reader handed in as a PARAMETER (the state object is not `self`), passes it on, and collects
    values with `tuple(f(reader) for _ in range(n))`"""

    @classmethod
    def two(cls, reader: Reader) -> int:
        return reader.take() * 1000 + reader.take()

    @classmethod
    def hop(cls, reader: Reader, k: int) -> int:
        """a bound member with two specialisations: the call's arguments (a literal None / an int) pick one"""
        return reader.skip(None) * 100 + reader.skip(k)

    @classmethod
    def several(cls, reader: Reader, n: int) -> int:
        vals = tuple(reader.take() for _ in range(n))
        total = 0
        for v in vals:
            total = total * 7 + v
        rest = Walker.two(reader) if reader.more else -5
        return total * 100000 + rest + len(vals)


def check_groups(groups: list[list[int]], limit: int) -> int:
    """nested loops over lists, a set that grows, exceptions from the inner loop"""
    seen = set()
    total = 0
    for g in groups:
        for x in g:
            if x > limit:
                raise ValueError("big")
            if x in seen:
                raise InvalidPyodaDataError("dup")
            seen.add(x)
            total += x
    return total * 10 + len(seen)


def lookup_or(n: int, k: int) -> int:
    """`(w := d.get(k)) is None` on a run-time optional"""
    d = {}
    for i in range(n):
        d[i * 2] = i + 1
    if (w := d.get(k)) is None:
        return -1
    return w * 3


class Audit:
    """a procedure made of independent checks, translated in slices; an attribute fixed to None by the specialisation"""

    def __init__(self, items: list[int], cap: int, extra: list[int] | None) -> None:
        self.items = items
        self.cap = cap
        self.extra = extra

    def two_checks(self) -> None:
        for x in self.items:
            if x < 0:
                raise ValueError("negative")
        worst = 0
        for x in self.items:
            if x > self.cap:
                raise OverflowError("big")
            worst = max(worst, x)
        if self.extra:
            for x in self.extra:
                if x == worst:
                    raise RuntimeError("clash")


def _opt_or(x: int | None, d: int) -> int:
    """(hand-mapped: SelftestSupport.optOr) a helper with an optional parameter"""
    return d if x is None else x


def pick_none(x: int | None, y: int) -> int:
    """translated twice: for `x is None` and for an int x"""
    if x is None:
        return y * 2 + 1
    return x * 10 + y


def none_selects(y: int) -> int:
    """a literal None argument: the specialisation translated for `x is None`; for a run-time optional parameter, `none`"""
    return pick_none(None, y) * 1000 + pick_none(4, y) * 10 + opt_add(None, y) + opt_add(y, 2)


def static_none_local(a: int) -> int:
    """`w = None` on one path, an int on the other (paths are never joined): passing w on selects / wraps accordingly"""
    if a % 2 == 0:
        w = None
    else:
        w = a * 3
    if w is None:
        extra = 5
    else:
        extra = w
    return _opt_or(w, 7) * 10000 + opt_add(w, a) * 100 + pick_none(w, 2) + extra


class Pt:
    def __init__(self, u: int) -> None:
        self.u = u


def collect_points(n: int) -> int:
    """two list types share the text `[]`: the annotation of the assignment picks the one that is meant"""
    pts: list[Pt] = []
    nums: list[int] = []
    for i in range(n):
        pts.append(Pt(i * i - 3))
        nums.append(i)
    total = 0
    for p in pts:
        total = total * 3 + p.u
    return total * 100 + len(pts) * 10 + len(nums)
