#!/usr/bin/env python3
"""Generate MANIFEST.json from the META dictionaries of harness/cXX.py. Properties without a harness module are
listed under not_applicable with the reason given in PENDING below."""
import ast, json
from pathlib import Path
V = Path(__file__).resolve().parent.parent
props = [json.loads(l) for l in (V/'properties.jsonl').read_text().splitlines() if l.strip()]
checks, na = [], []
ready = set((V/'READY').read_text().split())
for p in props:
    pid = p['id']
    f = V/'harness'/f'{pid.lower()}.py'
    if not f.exists() or pid not in ready:
        na.append({"property_id": pid, "reason": "check not built yet in this revision of /verif (the technique applies; see DESIGN.md section 6); not claimed until its model, theorems and correspondence exist"})
        continue
    meta = None
    for n in ast.parse(f.read_text()).body:
        if isinstance(n, ast.Assign) and getattr(n.targets[0], 'id', '') == 'META':
            meta = ast.literal_eval(n.value)
    partial = meta.get('partial', [])
    text = meta.get('level_text') or (
        f"Lean 4 theorems ({len(meta['theorems'])} audited: " + ", ".join(t.split('.')[-1] for t in meta['theorems'][:8]) + (", ..." if len(meta['theorems']) > 8 else "") +
        ") about the hand-written executable model, kernel-checked with axioms limited to propext/Classical.choice/Quot.sound; the model is tied to /repo's working tree on every run by differential correspondence through the line protocol, and a direct oracle evaluates the property on the real code for the failing-input search."
        + (" Partial: " + "; ".join(partial) if partial else ""))
    checks.append({
        "property_id": pid,
        "quick_cmd": f"./check {pid} --tier quick",
        "thorough_cmd": f"./check {pid} --tier thorough",
        "evidence_file": f"evidence/{pid}.json",
        "replay_cmd_template": f"./check {pid} --replay {{path}}",
        "engine": "lean4+correspondence",
        "level_claimed": {"category": "proof", "text": text, "design_ref": f"DESIGN.md section 6, {pid}"},
        "level_note": meta.get('level_note') or ("Trusted: Lean kernel and the three standard axioms; the hand-written model's faithfulness is established only by the correspondence suites (sampled unless marked exhaustive in evidence); harness and canonicalisation; " + "; ".join(meta.get('trusted_base', []))),
        "technique": meta.get('technique', ("Lean 4 proof over executable model + Lean definitions regenerated from the Python source on every run (translator) with "
                                             "kernel-checked agreement theorems + model/code correspondence + direct-oracle failing-input search")
                              if any("GenAgree" in m for m in meta.get("proof_modules", []))
                              else "Lean 4 proof over executable model + model/code correspondence + direct-oracle failing-input search"),
    })
man = {
    "version": 1,
    "setup_cmd": "./setup.sh",
    "hooks": {"guard": "PYODA_TIME_VERIF", "enable": "the harness sets PYODA_TIME_VERIF=1 in its own process; no source in /repo reads it (no hooks were needed)",
              "baseline_off_cmd": "cd /repo && /venv/bin/python -m pytest -ra -q -p no:cacheprovider --timeout=900 --continue-on-collection-errors",
              "source_commits": [], "add_only": True},
    "engines": [{"name": "lean4+correspondence", "path": "lean/ harness/", "serves_properties": [c['property_id'] for c in checks],
                 "kind_free_text": "Lean 4 library (model + theorems) with compiled line-protocol driver; Python harness running the real code in-process"}],
    "checks": checks,
    "notes": "Exit 2 from ./check means an infrastructure failure of the harness, never a violation. known_findings.json is read-only at run time. "
             "Every check has two ties to /repo's working tree: the sampled/exhaustive correspondence through the line protocol (all 20 properties) and, "
             "for the properties whose technique field says so, Lean definitions regenerated from the Python source by tools/py2lean.py on every run with "
             "kernel-checked agreement theorems (lean/PyodaProofs/GenAgree*.lean). A broken proof, tie or correspondence triggers the failing-input search "
             "of the direct oracles; when none is found the VIOLATION line ends with no-failing-input-found and the replay names the theorem or suite. "
             "PYODA_REPO=<dir> points a check at another tree (seeded changes: tools/try_mutant.sh). Repairs of genuine defects are the `fix:` commits of /repo "
             "(DESIGN.md 12.2); DESIGN.md 12.4 lists every seeded change and which check catches it.",
    "not_applicable": na,
}
# lakefile default targets: the proof library (root imports only READY proof modules) + drivers of READY checks
import re
drivers = []
for c in checks:
    for n in ast.parse((V/'harness'/f"{c['property_id'].lower()}.py").read_text()).body:
        if isinstance(n, ast.Assign) and getattr(n.targets[0], 'id', '') == 'META':
            for d in ast.literal_eval(n.value).get('drivers', ['drv_elapsed']):
                if d not in drivers:
                    drivers.append(d)
lf = V/'lean'/'lakefile.toml'
txt = lf.read_text()
txt = re.sub(r'defaultTargets = \[[^\]]*\]', 'defaultTargets = [' + ', '.join(f'"{t}"' for t in ['PyodaProofs'] + drivers) + ']', txt)
lf.write_text(txt)
(V/'MANIFEST.json').write_text(json.dumps(man, indent=1) + "\n")
print(len(checks), 'checks;', len(na), 'pending')
