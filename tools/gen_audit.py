#!/usr/bin/env python3
"""Write lean/PyodaProofs/Audit/Cxx.lean (#print axioms for every property theorem named in harness/cxx.py META)
and lean/PyodaProofs.lean (imports all proof modules). usage: tools/gen_audit.py [C03 ...]"""
import ast, sys, re
from pathlib import Path
V = Path(__file__).resolve().parent.parent
props = [a.upper() for a in sys.argv[1:]] or sorted(p.stem.upper() for p in (V/'harness').glob('c[0-9][0-9].py'))
allmods = set()
for pr in props:
    src = (V/'harness'/f'{pr.lower()}.py').read_text()
    tree = ast.parse(src)
    meta = None
    for n in tree.body:
        if isinstance(n, ast.Assign) and getattr(n.targets[0], 'id', '') == 'META':
            meta = ast.literal_eval(n.value)
    mods = meta['proof_modules']
    out = ''.join(f'import {m}\n' for m in mods) + '\n' + ''.join(f'#print axioms {t}\n' for t in meta['theorems'])
    (V/'lean'/'PyodaProofs'/'Audit'/f'{pr}.lean').write_text(out)
    print(pr, len(meta['theorems']), 'theorems')
ready = set((V/'READY').read_text().split())
for p in sorted((V/'harness').glob('c[0-9][0-9].py')):
    if p.stem.upper() not in ready:
        continue
    m = re.search(r'"proof_modules":\s*\[([^\]]*)\]', p.read_text())
    if m:
        for x in re.findall(r'"([^"]+)"', m.group(1)):
            allmods.add(x)
allmods.add('PyodaProofs.Basic')
(V/'lean'/'PyodaProofs.lean').write_text(''.join(f'import {m}\n' for m in sorted(allmods)))
