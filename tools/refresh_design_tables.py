#!/usr/bin/env python3
"""Rewrite the generated tables of DESIGN.md section 12 (12.1 per property, 12.2 repairs, 12.3 known findings, 12.4 seeded)."""
import json, re, subprocess, sys
from pathlib import Path
V = Path('/verif')
d = (V / 'DESIGN.md').read_text()

def run(tool):
    p = subprocess.run([sys.executable, str(V / 'tools' / tool)], capture_output=True, text=True)
    out = p.stdout.strip()
    if p.returncode != 0 or out.count('\n') < 5:
        raise SystemExit(f'{tool} failed: {p.stderr[-300:]}')
    return out

def replace_table(text, header_prefix, new_table):
    lines = text.split('\n')
    for i, l in enumerate(lines):
        if l.startswith(header_prefix):
            j = i
            while j < len(lines) and lines[j].startswith('|'):
                j += 1
            return '\n'.join(lines[:i] + new_table.split('\n') + lines[j:])
    raise SystemExit('table not found: ' + header_prefix)

d = replace_table(d, '| Prop | theorems (audited)', run('status_table.py'))
d = replace_table(d, '| id | change | needs | verdict | note |', run('seeded_table.py'))
# 12.2 repairs: list of fix commits in /repo
log = subprocess.run(['git', '-C', '/repo', 'log', '--format=* `%h` %s', '--reverse'], capture_output=True, text=True).stdout.strip().split('\n')
fixes = [l for l in log if ' fix:' in l]
m = re.search(r'(### 12\.2 [^\n]*\n\n)(?:\* `[0-9a-f]{7}` fix:[^\n]*\n)+', d)
d = d[:m.start()] + m.group(1) + '\n'.join(fixes) + '\n' + d[m.end():]
# 12.3 known findings
kf = json.load(open(V / 'known_findings.json'))['findings']
known = [f"* **{f['property']}** `{f['key']}` — {f['what']}" for f in kf if f.get('status') == 'known']
m = re.search(r'(### 12\.3 [^\n]*\n\n)(?:\* \*\*C\d\d\*\*[^\n]*\n)+', d)
d = d[:m.start()] + m.group(1) + '\n'.join(known) + '\n' + d[m.end():]
(V / 'DESIGN.md').write_text(d)
print('tables refreshed:', len(fixes), 'fix commits,', len(known), 'known findings')
