#!/usr/bin/env python3
"""Validate MANIFEST.json and evidence/*.json against the schemas in /root/.vp (run with python3-vt: has jsonschema)."""
import sys
sys.path.pop(0)  # tools/dis.py would shadow the stdlib module
import json, glob, os
import jsonschema
root = os.path.dirname(os.path.dirname(os.path.abspath(__file__)))
bad = 0
def check(path, schema):
    global bad
    try:
        jsonschema.validate(json.load(open(path)), json.load(open(schema)))
    except Exception as e:  # noqa: BLE001
        bad += 1
        print("INVALID", path, str(e)[:300])
check(f"{root}/MANIFEST.json", "/root/.vp/MANIFEST.schema.json")
m = json.load(open(f"{root}/MANIFEST.json"))
for c in m["checks"]:
    p = f"{root}/{c['evidence_file']}"
    if os.path.exists(p):
        check(p, "/root/.vp/EVIDENCE.schema.json")
    else:
        bad += 1; print("MISSING", p)
claimed = {c["property_id"] for c in m["checks"]} | {x["property_id"] if isinstance(x, dict) else x for x in m.get("not_applicable", [])}
props = {json.loads(l)["id"] for l in open(f"{root}/properties.jsonl")}
if claimed != props:
    bad += 1; print("properties not accounted for:", sorted(props ^ claimed))
print("ok" if not bad else f"{bad} problem(s)")
sys.exit(1 if bad else 0)
