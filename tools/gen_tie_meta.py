#!/usr/bin/env python3
"""Refresh the block of agreement-theorem names in META['theorems'] of harness/cXX.py from
lean/PyodaProofs/GenAgree<Prop>.lean (every `theorem gen_*` and `theorem *_in_source`).  The block starts at the marker comment
'# agreement of the definitions generated from the Python source' and ends at the closing bracket of the list.
usage: tools/gen_tie_meta.py C01 [C02 ...]   then run tools/gen_audit.py and tools/gen_manifest.py."""
import ast
import re
import sys
from pathlib import Path

V = Path(__file__).resolve().parent.parent
MARK = "        # agreement of the definitions generated from the Python source"
targets = None
for st in ast.parse((V / "tools" / "py2lean_targets.py").read_text()).body:
    if isinstance(st, ast.Assign) and getattr(st.targets[0], "id", "") == "TARGETS":
        targets = ast.literal_eval(st.value)
for prop in [a.upper() for a in sys.argv[1:]]:
    gprop = targets.get(prop, {}).get("same_as", prop)
    groups = [gprop] + sorted(k for k, v in targets.items() if v.get("of") == gprop)
    names = []
    for g in groups:
        src = (V / "lean" / "PyodaProofs" / f"GenAgree{g}.lean").read_text()
        names += [f"{g}.{n}" for n in re.findall(r"^theorem (gen_\S+|\w+_in_source)\b", src, flags=re.M)]
    lines, cur = [], "        "
    for n in names:
        item = f'"Pyoda.GenAgree.{n}", '
        if len(cur) + len(item) > 118:
            lines.append(cur.rstrip())
            cur = "        "
        cur += item
    lines.append(cur.rstrip())
    block = MARK + " (tools/py2lean.py) with the model\n" + "\n".join(lines) + "\n"
    p = V / "harness" / f"{prop.lower()}.py"
    s = p.read_text()
    if MARK not in s:
        sys.exit(f"{p}: marker comment not found in META['theorems']")
    i = s.index(MARK)
    j = s.index("    ],", i)
    p.write_text(s[:i] + block + s[j:])
    print(prop, len(names), "agreement theorems")
