#!/bin/sh
# Runs the pinned baseline suite (guard off) and prints the pass count; exit 0 iff 393 passed.
unset PYODA_TIME_VERIF
cd /repo && out=$(/venv/bin/python -m pytest -ra -q -p no:cacheprovider --timeout=900 --continue-on-collection-errors 2>&1 | tail -3)
echo "$out"
echo "$out" | grep -q "393 passed"
