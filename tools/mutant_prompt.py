#!/usr/bin/env python3
"""Print the prompt for a seeded-change agent for property Cxx (creates /tmp/mut_Cxx worktree if missing)."""
import json, subprocess, sys, os
pid = sys.argv[1].upper()
wt = f"/tmp/mut_{pid}"
if not os.path.isdir(wt):
    subprocess.run(["git", "-C", "/repo", "worktree", "add", "-q", wt, "HEAD"], check=True)
for l in open('/verif/properties.jsonl'):
    p = json.loads(l)
    if p['id'] == pid:
        break
import glob
prev = []
for m in sorted(glob.glob(f'/verif/seeded/{pid}-*/meta.json')):
    try:
        d = json.load(open(m)); prev.append("- " + d.get('summary', '')[:300])
    except Exception:
        pass
AVOID = ("\nEARLIER CHANGES ALREADY COLLECTED FOR THIS PROPERTY (choose different functions and different mechanisms from these):\n" + "\n".join(prev) + "\n") if prev else ""
prop = f"{p['id']} — {p['title']}\n\n{p['statement']}\n\nQuantifier: {p['quantifier']['text']}\n\nFiles the property is anchored in: {', '.join(p['anchors']['files'])}"
print(f"""You are testing how well a verification effort detects realistic regressions in the Python library pyoda-time (a port of Noda Time). You get ONLY the text of one semantic property and your own scratch git worktree of the repository at {wt} (work only inside that directory and /tmp/mutout_{pid}; never touch /repo or /verif, and do not read anything under /verif).

THE PROPERTY
{prop}

{AVOID}
YOUR TASK: produce TWO independent changes (patches) to the library source under {wt}/pyoda_time, each of which BREAKS this property while the code still imports and the repository's pinned test suite still passes, plus for each a small demonstration program that fails with the change and passes without it. We want subtle, realistic regressions of the kind a maintainer could plausibly introduce (an off-by-one in a boundary comparison, a wrong branch for negative values, a carry dropped in a rarely taken path, a cache key that collides, a fast path that skips validation, two cooperating sites that each look fine alone…) that need something specific to manifest: an unusual input, a value at a range edge, a particular multi-step sequence, a rarely used calendar/zone/unit — NOT changes that ordinary use or the simplest call would expose at once, and not changes that just raise exceptions everywhere. The two changes should be in different functions/mechanisms.

How to run things:
 * Python with the library's dependencies: /venv/bin/python. To import the worktree's copy (not the installed one) and the ICU libraries it needs: `cd {wt} && PYTHONPATH={wt} LD_LIBRARY_PATH=/root/miniconda/lib /venv/bin/python your_demo.py`. Check `pyoda_time.__file__` starts with {wt}.
 * The pinned test suite (must still report exactly `393 passed`; the 68 collection errors are expected in this sandbox because the suite runs without the ICU path): `cd {wt} && PYTHONPATH={wt} /venv/bin/python -m pytest -ra -q -p no:cacheprovider --timeout=900 --continue-on-collection-errors 2>&1 | tail -3`.
 * Optional but appreciated: the full suite with ICU (`cd {wt} && PYTHONPATH={wt} LD_LIBRARY_PATH=/root/miniconda/lib /venv/bin/python -m pytest -q -p no:cacheprovider -x -n 8 2>&1 | tail -3`, about a minute, normally `10256 passed`) — prefer changes that keep it green too, and say whether it stays green.
For each change i in (1, 2): make the edit in the worktree, verify (a) the pinned suite still gives 393 passed, (b) the demo FAILS (non-zero exit, with a clear message showing the property violated), then save `git -C {wt} diff > /tmp/mutout_{pid}/patch{{i}}.diff`, save the demo as /tmp/mutout_{pid}/demo{{i}}.py (a standalone script: exit 0 = property holds on that input, exit 1 = violated; it must use only the public or semi-public API of pyoda_time), then revert the worktree (`git -C {wt} checkout -- .`) and verify the demo PASSES on the unchanged code. Also write /tmp/mutout_{pid}/meta{{i}}.json with keys: property ("{pid}"), summary (one sentence on what was changed), needs (what specific input/sequence/state is needed for the breakage to manifest), files (list), pinned_suite ("393 passed"), full_suite (result or "not run"), demo_fails_with_patch (true), demo_passes_without_patch (true).
Leave the worktree clean (unchanged) at the end. Final message: for each change, one paragraph (what, where, what it needs to manifest) and the demo's output with and without the patch.""")
