#!/bin/bash
# tools/try_mutant.sh Cxx <n> [check args...]: confirm seeded change n of property Cxx (from /tmp/mutout_Cxx) in the scratch
# worktree /tmp/mut_Cxx, run the property's check against the patched worktree (PYODA_REPO), record everything
# under /verif/seeded/Cxx-n/. Never touches /repo.
set -u
P=$1; N=$2; shift 2
# optional: MUT_OUT=<dir with patchN.diff/demoN.py/metaN.json> MUT_DST=<index used under seeded/>
WT=/tmp/mut_$P; OUT=${MUT_OUT:-/tmp/mutout_$P}; DN=${MUT_DST:-$N}; DST=/verif/seeded/$P-$DN
[ -d "$WT" ] || git -C /repo worktree add -q "$WT" HEAD
git -C "$WT" checkout -q -- . ; git -C "$WT" clean -fdq -e '*.pyc' >/dev/null 2>&1
mkdir -p "$DST"; cp "$OUT/patch$N.diff" "$DST/patch.diff"; cp "$OUT/demo$N.py" "$DST/demo.py"
run_demo() { (cd "$WT" && PYTHONPATH="$WT" LD_LIBRARY_PATH=/root/miniconda/lib timeout 600 /venv/bin/python "$DST/demo.py" >"$DST/$1" 2>&1; echo $?); }
d0=$(run_demo demo_clean.out)
git -C "$WT" apply "$DST/patch.diff" || { echo "patch does not apply"; exit 2; }
suite=$(cd "$WT" && PYTHONPATH="$WT" /venv/bin/python -m pytest -ra -q -p no:cacheprovider --timeout=900 --continue-on-collection-errors 2>&1 | tail -1)
d1=$(run_demo demo_patched.out)
cd /verif
cp "evidence/$P.json" "/tmp/evidence_$P.bak" 2>/dev/null
PYODA_GEN_TIE=1 PYODA_REPO="$WT" timeout 2400 ./check "$P" --no-proof "$@" >"$DST/check_patched.out" 2>&1; c1=$?
cp "evidence/$P.json" "$DST/evidence_patched.json" 2>/dev/null
mv "/tmp/evidence_$P.bak" "evidence/$P.json" 2>/dev/null
git -C "$WT" checkout -q -- .
viol=$(grep -c '^VIOLATION' "$DST/check_patched.out")
echo "$P-$DN: demo clean=$d0 patched=$d1 | suite: $suite | check exit=$c1 violations=$viol"
grep '^VIOLATION' "$DST/check_patched.out" | head -3
python3 - "$P" "$N" "$OUT" "$DST" "$d0" "$d1" "$suite" "$c1" "$viol" "$*" <<'PY'
import json,sys,os
P,N,out,dst,d0,d1,suite,c1,viol,args=sys.argv[1:11]
meta=json.load(open(f"{out}/meta{N}.json")) if os.path.exists(f"{out}/meta{N}.json") else {}
meta.update({"property":P,"confirmed":{"demo_exit_clean":int(d0),"demo_exit_patched":int(d1),"pinned_suite_patched":suite.strip(),
 "check_cmd":f"PYODA_REPO=/tmp/mut_{P} ./check {P} --no-proof {args}".strip(),"check_exit":int(c1),"violation_lines":int(viol)},
 "caught": int(c1)==1 and int(viol)>0})
json.dump(meta,open(f"{dst}/meta.json","w"),indent=1)
PY
