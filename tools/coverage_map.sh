#!/bin/bash
# tools/coverage_map.sh [outdir]: line coverage of /repo/pyoda_time under the QUICK tier of every claimed check
# (--no-proof). Diagnostic only (which code the correspondence/oracles execute); not a check, writes nothing
# under /verif except restoring evidence/. Needs `coverage` in /venv (present in this sandbox).
OUT=${1:-/tmp/cov}; mkdir -p "$OUT"; rm -f "$OUT"/.coverage*
cd "$(dirname "$0")/.."
for p in $(cat READY); do
  ( _PYODA_VERIF_BOOT=1 _PYODA_VERIF_ICU=/root/miniconda/lib PYTHONPATH=/repo PYTHONHASHSEED=0 PYTHONDONTWRITEBYTECODE=1 \
    LD_LIBRARY_PATH=/root/miniconda/lib COVERAGE_CORE=sysmon COVERAGE_FILE="$OUT/.coverage.$p" \
    /venv/bin/python -m coverage run --source=/repo/pyoda_time harness/check.py "$p" --tier quick --no-proof >"$OUT/$p.out" 2>&1
    echo "$p exit=$?" ) &
done; wait
git checkout -q -- evidence
cd "$OUT" && /venv/bin/python -m coverage combine -q --keep .coverage.C* && /venv/bin/python -m coverage report --sort=miss | tail -70
