#!/usr/bin/env python3
"""Print a markdown table of the seeded changes under seeded/ (from their meta.json)."""
import json, glob, os
rows = []
for d in sorted(glob.glob('/verif/seeded/*/')):
    if not os.path.exists(d + 'meta.json'):
        continue
    m = json.load(open(d + 'meta.json'))
    c = m.get('confirmed', {})
    rows.append((os.path.basename(d.rstrip('/')), m.get('summary', '')[:160].replace('|', '/'), m.get('needs', '')[:140].replace('|', '/'),
                 'caught' if m.get('caught') else 'MISSED', m.get('caught_note', '')))
print('| id | change | needs | verdict | note |\n|---|---|---|---|---|')
for r in rows:
    print('| ' + ' | '.join(r) + ' |')
