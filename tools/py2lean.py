#!/usr/bin/env python3
"""
py2lean — regenerate Lean 4 definitions from the *current* Python source of pyoda_time.

    /venv/bin/python tools/py2lean.py [--repo DIR] [--out DIR] [--prop C03 ...] [--json] [--stdout]

Reads the target list `tools/py2lean_targets.py` (one literal `TARGETS = {...}`, read with
`ast.literal_eval`, never imported) and the Python files under `$PYODA_REPO` (default /repo), and
writes `<out>/<Prop>.lean` (default out = lean/PyodaGen, namespace `Pyoda.Gen.<Prop>`), one file per
property, atomically and only when the content changed.  Pure stdlib (`ast`); nothing of pyoda_time is
imported or executed.

The translator never guesses: every construct outside the supported subset aborts the function with
`UNSUPPORTED: file:line construct`.  Supported subset (see DESIGN.md, translator section):

  statements   assignment (names, tuple targets from tuple-valued calls / divmod, fields of the object
               under construction), augmented assignment, if/elif/else, return, raise <Builtin>(...),
               `while` loops without break/continue/return/else (only when the target declares "loop_fuel": each
               becomes a function recursive on a fuel counter; out of fuel = error `decimalDomain`, i.e. outside
               the modelled domain), `for i in range([lo,] hi)` rewritten to such a while loop (i not assigned in
               the body and not used after the loop),
               expression statements that call a raising helper, pass, local imports, docstrings,
               the constructor idiom `self = super().__new__(cls)` ... `return self`
  expressions  int literals, True/False, names, + - * // % ** (literal exponent) >> << & | ^ ~ unary -,
               comparisons incl. chained, and/or/not, conditional expressions, tuples, walrus,
               module-/class-level integer constants (resolved from the SOURCE by AST evaluation of the
               defining expression, recursively; tables built at class creation by a static function of the
               same class are evaluated by a small interpreter for for/range/append/yield), constant int
               tables indexed by an expression (`Pyoda.Gen.pyIndex`: negative index wraps, IndexError outside),
               calls to whitelisted helpers, to other translated functions/properties/operators,
               divmod/min/max/abs on ints
  specialisation   `isinstance(x, T)`, `x is None`, `x is not None` are decided from the declared parameter
               types of the target (ints are ints, `absent` parameters are None); statically decided
               branches are dropped; code after a statically taken returning branch is dead.
               Virtual calls (`self._is_leap_year(...)`) are either bound to a named target (`binds`) or become a
               function parameter of the generated definition (`fun_params`, pure or `R`-valued); instance
               attributes of classes without a structure become ordinary parameters (`extra_params`/`self_attrs`).
  objects with state   (third wave) a class whose methods CHANGE attributes of `self` (the codec reader / writer, FakeClock, the
               caches) is translated as state-passing functions: the target names the state structure ("mstate": parameter,
               type, "mode": "rw" / "ro", "py_param" when the object is a parameter other than `self`); reads and stores of
               the declared attributes become reads and functional updates of that structure, every translated function
               returns (result, final state), a raised exception discards the state (as the model does: nothing can observe
               the object after the exception has propagated out of the modelled call), callees that work on the same
               object receive and return it.  Property setters ("setter": true), `with <declared lock>:` ("locks": the body,
               a lock changes nothing in a single-threaded model), generator bodies as one step ("generator_step"), slices
               of a long procedure ("slice": {"from_text", "until_text"}; the slices must be independent checks).
  lock discipline   what "`with lock:` = its body" leaves out is emitted as DATA: for every translated instance method of a group that
               declares "locks" (or "lock_info": true) a record `<lean_name>.lockInfo : Pyoda.Gen.LockInfo` (attributes of self read
               / written, which of them are mutable after construction, whether every access to those lies inside
               `with self.<lock>:`, the number of such blocks, same-class members used while holding the lock, steps taken outside
               it, `gilOnly` + the single operations relied on when the class has no lock) — `lock_discipline` below; the
               atomicity theorems `gen_<op>_atomic` of GenAgreeC19 / GenAgreeC13 evaluate `LockInfo.Atomic` on it.
  optionals    an attribute / parameter / local declared `?T` is a run-time `Option T`; `x is None`, `x is not None`,
               `if (x := f()) is None`, `while x is not None and …`, `if x is None or B` narrow it; use of an optional where
               a T is needed without such a test is UNSUPPORTED.
  containers   bytes / bytearray / list / dict / set / deque values of a declared type (the type entry names the Lean
               functions for truthiness, len, indexing, item store / delete, the fresh empty value, and the mutating methods
               with their element type); a mutable container created in the function may only be used through the one local
               that holds it (an alias, a store into a parameter, mutation of a parameter or of the list being iterated are
               UNSUPPORTED); `for x in <list>` (nested too) is structural recursion on the list, `for a, b in items`;
               `tuple(f(r) for _ in range(n))` / list comprehensions of that shape are rewritten to an append loop;
               `bytes([x])`.
  loops        `while True:` with `return` inside, `while` with a `return` in the body, loop fuel given as a Lean term of
               the state / parameters ("loop_fuel": "<term>" or a list, one per loop in source order).
  exceptions   `try: … except (A, B) as e: raise C(...) from e` / bare `raise`: the body's outcome mapped through the
               handlers (`Pyoda.Gen.pyTry`), the first handler whose classes include the raised class (subclass table
               EXC_CLASSES, mirrored from CPython's hierarchy) decides; handlers that do anything but raise, `else`,
               `finally` are UNSUPPORTED.
  calls        a `binds` entry may name SEVERAL specialisations of the bound member (the arguments pick one, as for a direct
               call); a literal `None` argument selects the specialisation translated for `<parameter> is None`; `x = None` on
               a straight-line path makes x statically None from there on (paths are never joined; inside a loop it is
               UNSUPPORTED); a value of type T / a statically None value passed for an optional (`?T`) parameter of a helper or
               a translated callee becomes `some v` / `none`; `xs: list[C] = []` takes the declared list type whose elements
               are C when several declared types share the fresh text `[]`; a method of a structure may take the state
               object as ANOTHER parameter (`def _write(self, writer)`) and be called on a value with that state passed on.
  misc         nested-class constants and class paths "A.B.C", `match` on dotted constants, `SomeIntEnum(x)` (member lookup,
               ValueError when absent), `hash(obj)` of an object of a translated class (the group's "object_hash" applied to
               its translated `__hash__`), `==` / `!=` on declared identity-compared objects ("eq_only"), helper
               alternatives chosen by argument types ("ignore" / "require"), "noop" helpers.
  text         (builder T4; only in a group that declares "text": {"str": <type>, "chr": <type>}) a str value is the list of its
               characters: string literals, class-level str constants (one character long: a character), `s[i]` (the declared
               "getitem": a character), slices `s[a:b]` / `s[a:]` / `s[:b]` (no step), `+`, `==`, `!=`, `len`, comparison of a
               character with a one-character literal (`"0" <= c <= "9"`), `c.isdigit()`, `int(c)`, `str(<int>)`; f-strings of ONE
               field over an int with the specification `0N`, `0Nd` (literal N >= 1), `0{n}d` or `0>{n}` — any other f-string is
               UNSUPPORTED; `int(a * math.pow(10.0, k))` with ints a, k as `Pyoda.Gen.pyIntMulPow10` (the exact integer where the
               double computation is exact, the out-of-domain error elsewhere) — every other float expression is UNSUPPORTED;
               `buffer[i]` and `buffer.attr = v` / `buffer.attr -= v` on the state object handed in as a parameter (helpers
               "<param>.__getitem__", "<param>.<attr>.setter"); `break` in a `while` / `for … in range` loop ("loop_break": true).
               What these mean is lean/PyodaGen/TextSupport.lean, compared with CPython by the self-test (`text_selftest`).
  names        Python identifiers are kept verbatim («quoted» when Lean reserves them); names invented by the
               translator contain `'`; a generated definition whose name a Python local would shadow is referred
               to by its fully qualified name.
Self-test: tools/py2lean_selftest.py translates a corpus that uses every construct above, evaluates the generated
Lean on input grids and compares with CPython (and checks that a list of unsupported constructs is refused).

Semantics fixed by the translator (its trusted base):
  * Python int = Lean Int.  `//` and `%` are emitted as `Int.fdiv` / `Int.fmod` (floor, sign of the divisor —
    exactly Python's) when the divisor is a compile-time constant different from 0 (so no ZeroDivisionError
    path exists); for a positive divisor they coincide with Lean's `/` and `%` (`Pyoda.fdiv_pos`,
    `Pyoda.fmod_pos`).  With a run-time divisor they are the raising calls `Pyoda.Gen.pyFloorDiv/pyFloorMod`
    (ZeroDivisionError for 0, else Int.fdiv/Int.fmod).  Division by the constant 0 is UNSUPPORTED.
  * `>>` by a constant n ≥ 0 is `Int.shiftRight` (floor division by 2^n, as in Python); `<<` is `* 2^n`; with a
    run-time count they are the raising calls `Pyoda.Gen.pyShr/pyShl` (ValueError for a negative count).
    `x & (2^k - 1)` is emitted as `Int.fmod x (2^k)` (two's-complement identity, valid for every Python int);
    every other & | ^ is `Pyoda.Gen.pyAnd/pyOr/pyXor`, the two's-complement operations on unbounded ints
    defined in PyodaGen/Support.lean (validated against CPython by tools/py2lean_selftest.py).
  * calls that can raise are bound in evaluation order (left to right, arguments before the call) in the
    `Except PyExc` monad; a raising call under a short-circuit operand or conditional expression is UNSUPPORTED.
    All other expressions are pure, so evaluation order is irrelevant for them.
  * `if` statements are translated by tail duplication (the statements after the `if` are copied into both
    branches), re-binding (shadowing) assigned names; every path ends in return / raise.
"""
from __future__ import annotations

import argparse
import ast
import hashlib
import json
import os
import sys
import tempfile
from pathlib import Path

VERIF = Path(__file__).resolve().parent.parent
TARGETS_FILE = VERIF / "tools" / "py2lean_targets.py"

EXC_MAP = {
    "ValueError": "valueError", "OverflowError": "overflowError", "ZeroDivisionError": "zeroDivision",
    "IndexError": "indexError", "KeyError": "keyError", "RuntimeError": "runtimeError", "TypeError": "typeError",
    "NotImplementedError": "notImplemented",
    # pyoda_time's own exceptions that the model distinguishes (PyExc.skippedTime / ambiguousTime)
    "SkippedTimeError": "skippedTime", "AmbiguousTimeError": "ambiguousTime",
    # pyoda_time.utility.InvalidPyodaDataError (damaged time-zone data), and the stdlib errors the codec models name
    "InvalidPyodaDataError": "invalidData", "UnicodeDecodeError": "unicodeError",
}
LEAN_KEYWORDS = {
    "at", "end", "from", "do", "then", "else", "if", "let", "fun", "in", "match", "with", "where", "open", "local",
    "instance", "theorem", "def", "have", "show", "by", "this", "Type", "Prop", "Sort", "namespace", "section",
    "variable", "universe", "import", "structure", "class", "inductive", "deriving", "mutual", "for", "unless",
    "return", "try", "catch", "finally", "macro", "syntax", "notation", "infix", "prefix", "postfix", "abbrev",
    "example", "axiom", "opaque", "private", "protected", "partial", "unsafe", "noncomputable", "attribute",
    "export", "extends", "using", "calc", "nomatch", "nofun", "fun", "true", "false", "suffices", "obtain", "exists",
}
MAX_NODES = 4000  # tail duplication budget per function


class Unsupported(Exception):
    def __init__(self, file, node, what):
        self.file, self.line, self.what = str(file), getattr(node, "lineno", 0), what
        super().__init__(f"UNSUPPORTED: {self.file}:{self.line} {what}")


# ------------------------------------------------------------------------------------------------
# source access and constant resolution (AST only)
# ------------------------------------------------------------------------------------------------

class Source:
    def __init__(self, repo: Path):
        self.repo = Path(repo)
        self._mods: dict[str, ast.Module] = {}
        self.read: dict[str, str] = {}  # relpath -> sha256

    def module(self, rel: str) -> ast.Module:
        if rel not in self._mods:
            p = self.repo / rel
            data = p.read_bytes()
            self.read[rel] = hashlib.sha256(data).hexdigest()
            self._mods[rel] = ast.parse(data.decode("utf-8"), filename=str(p))
        return self._mods[rel]

    def exists(self, rel: str) -> bool:
        return (self.repo / rel).is_file()

    def resolve_import(self, rel: str, level: int, module: str | None) -> str | None:
        """Path (relative to the repo) of the module named by `from <level dots><module> import ...` in file `rel`."""
        if level == 0:
            parts = (module or "").split(".")
            base = Path()
        else:
            base = Path(rel).parent
            for _ in range(level - 1):
                base = base.parent
            parts = module.split(".") if module else []
        p = base.joinpath(*parts) if parts else base
        for cand in (str(p) + ".py", str(p / "__init__.py")):
            if self.exists(cand):
                return cand
        return None

    @staticmethod
    def top_statements(body):
        """Statements of a module/class/function body, looking through `if TYPE_CHECKING:` blocks."""
        for st in body:
            yield st
            if isinstance(st, ast.If) and "TYPE_CHECKING" in ast.unparse(st.test):
                yield from st.body

    def imports_of(self, body) -> dict[str, tuple[int, str | None, str]]:
        m = {}
        for st in self.top_statements(body):
            if isinstance(st, ast.ImportFrom):
                for a in st.names:
                    m[a.asname or a.name] = (st.level, st.module, a.name)
        return m

    def find_class(self, rel: str, name: str) -> ast.ClassDef | None:
        """a top-level class, or `Outer.Inner.Innermost` for a class nested in class bodies"""
        body = self.module(rel).body
        found = None
        for part in name.split("."):
            found = next((st for st in body if isinstance(st, ast.ClassDef) and st.name == part), None)
            if found is None:
                return None
            body = found.body
        return found

    def lookup_global(self, rel: str, name: str, extra_imports=None, depth=0):
        """-> ('class', rel, ClassDef) | ('func', rel, FunctionDef) | ('assign', rel, expr) | None"""
        if depth > 12:
            return None
        mod = self.module(rel)
        found = None
        for st in self.top_statements(mod.body):
            if isinstance(st, ast.ClassDef) and st.name == name:
                found = ("class", rel, st)
            elif isinstance(st, ast.FunctionDef) and st.name == name:
                found = ("func", rel, st)
            elif isinstance(st, ast.Assign) and len(st.targets) == 1 and isinstance(st.targets[0], ast.Name) and st.targets[0].id == name:
                found = ("assign", rel, st.value)
            elif isinstance(st, ast.AnnAssign) and isinstance(st.target, ast.Name) and st.target.id == name and st.value is not None:
                found = ("assign", rel, st.value)
        if found:
            return found
        imps = dict(self.imports_of(mod.body))
        if extra_imports:
            imps.update(extra_imports)
        if name in imps:
            level, module, orig = imps[name]
            target = self.resolve_import(rel, level, module)
            if target is None:
                return None
            if target == rel:
                return None
            return self.lookup_global(target, orig, None, depth + 1)
        return None

    def class_bases(self, rel: str, cls: ast.ClassDef):
        for b in cls.bases:
            if isinstance(b, ast.Name):
                r = self.lookup_global(rel, b.id)
                if r and r[0] == "class":
                    yield r[1], r[2]

    def class_member(self, rel: str, cls: ast.ClassDef, name: str, depth=0):
        """-> ('assign', rel, cls, expr) | ('func', rel, cls, [FunctionDef,...]) | None, searching base classes."""
        funcs = []
        assign = None
        for st in cls.body:
            if isinstance(st, ast.FunctionDef) and st.name == name:
                if not any(ast.unparse(d).endswith("overload") for d in st.decorator_list):
                    funcs.append(st)
            elif isinstance(st, ast.Assign) and len(st.targets) == 1 and isinstance(st.targets[0], ast.Name) and st.targets[0].id == name:
                assign = st.value
            elif isinstance(st, ast.AnnAssign) and isinstance(st.target, ast.Name) and st.target.id == name and st.value is not None:
                assign = st.value
        if funcs:
            return ("func", rel, cls, funcs)
        if assign is not None:
            return ("assign", rel, cls, assign)
        if depth < 8:
            for brel, bcls in self.class_bases(rel, cls):
                r = self.class_member(brel, bcls, name, depth + 1)
                if r:
                    return r
        return None


class _NeedClassBody(Exception):
    """the value of this class attribute is only known after running the statements of the class body"""


class DictTable(list):
    """a class-level dict {0: v0, 1: v1, …, n-1: v(n-1)} as the list of its values: lookups raise KeyError outside
    0 … n-1 (no negative-index wrap-around)"""


class ConstEval:
    """Evaluate constant-defining expressions from the source. Values: int, bool, list[int] (DictTable for a dict with
    the keys 0 … n-1); strings only as intermediate values (base64 literals)."""

    def __init__(self, src: Source):
        self.src = src
        self.private_owner = None  # (rel, ClassDef) in which the function being translated is DEFINED

    def eval(self, e: ast.AST, rel: str, cls: ast.ClassDef | None, extra_imports=None, depth=0):
        if depth > 40:
            raise ValueError("constant recursion too deep")
        ev = lambda x: self.eval(x, rel, cls, extra_imports, depth + 1)  # noqa: E731
        if isinstance(e, ast.Constant):
            if isinstance(e.value, bool) or isinstance(e.value, int):
                return e.value
            if isinstance(e.value, str):
                return e.value  # only ever consumed by base64.b64decode below
            raise ValueError("non-integer constant")
        if isinstance(e, ast.BinOp) and isinstance(e.op, ast.Add):
            a, b = ev(e.left), ev(e.right)
            if isinstance(a, str) and isinstance(b, str):
                return a + b
        if isinstance(e, ast.Call) and ast.unparse(e.func) == "base64.b64decode" and len(e.args) == 1 and not e.keywords:
            # a bytes table written as a base64 literal: the list of its byte values (stdlib decoding of a literal)
            import base64 as _b64
            v = ev(e.args[0])
            if not isinstance(v, str):
                raise ValueError("base64.b64decode of a non-literal")
            return list(_b64.b64decode(v))
        if isinstance(e, ast.Dict):
            if cls is None:
                raise ValueError("dict outside a class body")
            raise _NeedClassBody()
        if isinstance(e, ast.UnaryOp):
            v = ev(e.operand)
            if isinstance(v, bool) or not isinstance(v, int):
                raise ValueError("unary operator on non-int")
            if isinstance(e.op, ast.USub):
                return -v
            if isinstance(e.op, ast.UAdd):
                return v
            if isinstance(e.op, ast.Invert):
                return ~v
            raise ValueError("unary operator")
        if isinstance(e, ast.BinOp):
            a, b = ev(e.left), ev(e.right)
            if not (isinstance(a, int) and isinstance(b, int)) or isinstance(a, bool) or isinstance(b, bool):
                raise ValueError("binary operator on non-int")
            op = e.op
            if isinstance(op, ast.Add):
                return a + b
            if isinstance(op, ast.Sub):
                return a - b
            if isinstance(op, ast.Mult):
                return a * b
            if isinstance(op, ast.FloorDiv):
                return a // b
            if isinstance(op, ast.Mod):
                return a % b
            if isinstance(op, ast.Pow) and 0 <= b <= 4096:
                return a ** b
            if isinstance(op, ast.LShift) and 0 <= b <= 4096:
                return a << b
            if isinstance(op, ast.RShift) and b >= 0:
                return a >> b
            if isinstance(op, ast.BitAnd):
                return a & b
            if isinstance(op, ast.BitOr):
                return a | b
            if isinstance(op, ast.BitXor):
                return a ^ b
            raise ValueError("binary operator")
        if isinstance(e, (ast.List, ast.Tuple)):
            vals = []
            for x in e.elts:
                if isinstance(x, ast.Starred):
                    v = ev(x.value)
                    if not isinstance(v, list):
                        raise ValueError("* of a non-list")
                    vals.extend(v)
                else:
                    vals.append(ev(x))
            if not all(isinstance(v, int) and not isinstance(v, bool) for v in vals):
                raise ValueError("table of non-ints")
            return vals
        if isinstance(e, ast.Call) and isinstance(e.func, ast.Name) and cls is not None and not e.keywords:
            # a table built at class-creation time by a function of the same class body
            m = self.src.class_member(rel, cls, e.func.id)
            if m and m[0] == "func" and len(m[3]) == 1 and any(ast.unparse(d) == "staticmethod" for d in m[3][0].decorator_list):
                args = []
                for x in e.args:
                    if isinstance(x, ast.Starred):
                        v = ev(x.value)
                        if not isinstance(v, list):
                            raise ValueError("* of a non-list")
                        args.extend(v)
                    else:
                        args.append(ev(x))
                r = self.run_function(m[3][0], args, m[1], m[2], depth + 1)
                if isinstance(r, list) and all(isinstance(v, int) and not isinstance(v, bool) for v in r):
                    return list(r)
                raise ValueError(f"{e.func.id}(...) does not build a table of ints")
            raise ValueError(f"call of {e.func.id} in a constant expression")
        if isinstance(e, ast.Name):
            if cls is not None:
                m = self.src.class_member(rel, cls, e.id)
                if m and m[0] == "assign":
                    return self.member_value(m, e.id, depth)
            g = self.src.lookup_global(rel, e.id, extra_imports)
            if g and g[0] == "assign":
                return self.eval(g[2], g[1], None, None, depth + 1)
            raise ValueError(f"name {e.id} is not a constant")
        if isinstance(e, ast.Attribute):
            owner = self.class_of(e.value, rel, cls, extra_imports)
            if owner is None:
                raise ValueError(f"{ast.unparse(e)}: owner is not a class")
            orel, ocls = owner
            if e.attr.startswith("__") and not e.attr.endswith("__") and isinstance(e.value, ast.Name) and e.value.id in ("cls", "self") \
                    and self.private_owner is not None:
                orel, ocls = self.private_owner  # `self.__X` inside class A means `_A__X`
            m = self.src.class_member(orel, ocls, e.attr)
            if m and m[0] == "assign":
                return self.member_value(m, e.attr, depth)
            raise ValueError(f"{ast.unparse(e)} is not a class-level constant")
        raise ValueError(f"not a constant expression: {type(e).__name__}")

    def member_value(self, m, name: str, depth: int):
        """value of the class attribute found by Source.class_member: its defining expression, or — for a dict that the
        class body fills afterwards (`_ctor(month_lengths=__MONTH_LENGTHS, …)` at class level) — what the statements of
        the class body leave in it."""
        try:
            return self.eval(m[3], m[1], m[2], None, depth + 1)
        except _NeedClassBody:
            env = self.class_body_env(m[1], m[2])
            v = env.get(name)
            if isinstance(v, dict):
                n = len(v)
                if n == 0 or sorted(v) != list(range(n)) or not all(isinstance(x, int) and not isinstance(x, bool) for x in v.values()):
                    raise ValueError(f"{name}: a dict whose keys are not 0 … n-1 / values not ints")
                return DictTable(v[i] for i in range(n))
            raise ValueError(f"{name} is not a table after the class body has run")

    def class_body_env(self, rel: str, cls: ast.ClassDef) -> dict:
        """Run the top-level statements of a class body (constant assignments, function definitions, calls of those
        functions, `del`) with the small interpreter below; attributes whose value it cannot compute are left out."""
        key = (rel, cls.name)
        cache = self.__dict__.setdefault("_class_envs", {})
        if key in cache:
            return cache[key]
        env: dict = {}
        state = {"steps": 0, "yielded": None}
        for st in cls.body:
            try:
                if isinstance(st, ast.FunctionDef):
                    env[st.name] = st
                elif isinstance(st, (ast.Assign, ast.AnnAssign)) and getattr(st, "value", None) is not None:
                    tgt = st.targets[0] if isinstance(st, ast.Assign) else st.target
                    if isinstance(tgt, ast.Name):
                        env.pop(tgt.id, None)
                        env[tgt.id] = self._ev(st.value, env, rel, None, 0, state)
                elif isinstance(st, ast.Expr) and isinstance(st.value, ast.Call) and isinstance(st.value.func, ast.Name) \
                        and isinstance(env.get(st.value.func.id), ast.FunctionDef):
                    fn = env[st.value.func.id]
                    args = [self._ev(a, env, rel, None, 0, state) for a in st.value.args]
                    kw = {k.arg: self._ev(k.value, env, rel, None, 0, state) for k in st.value.keywords}
                    self.run_function(fn, args, rel, None, 1, kw)
                elif isinstance(st, ast.Delete):
                    for t in st.targets:
                        if isinstance(t, ast.Name):
                            env.pop(t.id, None)
            except (ValueError, KeyError, TypeError, ZeroDivisionError, _NeedClassBody):
                continue
        cache[key] = env
        return env

    # -- a small interpreter for the functions that BUILD class-level tables (for/range/append/yield) ----------
    def run_function(self, fn: ast.FunctionDef, args: list, rel: str, cls, depth: int, kwargs: dict | None = None):
        a = fn.args
        params = [x.arg for x in a.posonlyargs + a.args]
        env = {}
        if a.vararg:
            env.update(zip(params, args[:len(params)]))
            env[a.vararg.arg] = list(args[len(params):])
        else:
            env.update(zip(params, args))
            for k, v in (kwargs or {}).items():
                if k not in params or k in env:
                    raise ValueError(f"call of {fn.name}: keyword {k}")
                env[k] = v
            if len(env) != len(params) or len(args) > len(params):
                raise ValueError(f"call of {fn.name}: arity")
        state = {"steps": 0, "yielded": None}
        is_gen = any(isinstance(n, (ast.Yield, ast.YieldFrom)) for n in ast.walk(fn))
        if is_gen:
            state["yielded"] = []
        r = self._exec(fn.body, env, rel, cls, depth, state)
        if is_gen:
            return state["yielded"]
        if r is None or r[0] != "return":
            return None  # a procedure (it mutates the tables it was given)
        return r[1]

    def _exec(self, body, env, rel, cls, depth, state):
        for st in body:
            state["steps"] += 1
            if state["steps"] > 200000:
                raise ValueError("table-building function runs too long")
            if isinstance(st, ast.Expr) and isinstance(st.value, ast.Constant):
                continue
            if isinstance(st, ast.Pass):
                continue
            if isinstance(st, (ast.Assign, ast.AnnAssign, ast.AugAssign)):
                if isinstance(st, ast.AnnAssign) and st.value is None:
                    continue
                tgt = st.targets[0] if isinstance(st, ast.Assign) else st.target
                if isinstance(tgt, ast.Subscript) and isinstance(st, ast.Assign) and len(st.targets) == 1 and isinstance(tgt.value, ast.Name):
                    box = env.get(tgt.value.id)
                    k = self._ev(tgt.slice, env, rel, cls, depth, state)
                    v = self._ev(st.value, env, rel, cls, depth, state)
                    if isinstance(box, dict) and isinstance(k, int) and not isinstance(k, bool):
                        box[k] = v
                        continue
                    raise ValueError("table-building function: subscript store into something that is not a dict")
                if isinstance(st, ast.Assign) and len(st.targets) != 1 or not isinstance(tgt, ast.Name):
                    raise ValueError("table-building function: assignment target")
                v = self._ev(st.value, env, rel, cls, depth, state)
                if isinstance(st, ast.AugAssign):
                    v = self._binop(st.op, env[tgt.id], v)
                env[tgt.id] = v
                continue
            if isinstance(st, ast.For):
                if st.orelse or not isinstance(st.target, ast.Name):
                    raise ValueError("table-building function: for/else or tuple target")
                it = self._ev(st.iter, env, rel, cls, depth, state)
                if not isinstance(it, (list, range)):
                    raise ValueError("table-building function: iteration over a non-list")
                for x in it:
                    env[st.target.id] = x
                    r = self._exec(st.body, env, rel, cls, depth, state)
                    if r is not None:
                        return r
                continue
            if isinstance(st, ast.If):
                c = self._ev(st.test, env, rel, cls, depth, state)
                r = self._exec(st.body if c else st.orelse, env, rel, cls, depth, state)
                if r is not None:
                    return r
                continue
            if isinstance(st, ast.Return):
                return ("return", self._ev(st.value, env, rel, cls, depth, state) if st.value is not None else None)
            if isinstance(st, ast.Expr) and isinstance(st.value, ast.Yield):
                state["yielded"].append(self._ev(st.value.value, env, rel, cls, depth, state))
                continue
            if isinstance(st, ast.Expr) and isinstance(st.value, ast.Call) and isinstance(st.value.func, ast.Attribute) \
                    and st.value.func.attr == "append" and isinstance(st.value.func.value, ast.Name) and len(st.value.args) == 1:
                lst = env.get(st.value.func.value.id)
                if not isinstance(lst, list):
                    raise ValueError("append to a non-list")
                lst.append(self._ev(st.value.args[0], env, rel, cls, depth, state))
                continue
            raise ValueError(f"table-building function: statement {type(st).__name__}")
        return None

    @staticmethod
    def _binop(op, a, b):
        if isinstance(op, ast.Div) and isinstance(a, int) and isinstance(b, int) and not isinstance(a, bool) and not isinstance(b, bool) and b != 0:
            return a / b  # CPython's own true division; only int(...) of it is accepted further on
        if isinstance(a, bool) or isinstance(b, bool) or not isinstance(a, int) or not isinstance(b, int):
            raise ValueError("table-building function: operator on non-ints")
        table = {ast.Add: lambda: a + b, ast.Sub: lambda: a - b, ast.Mult: lambda: a * b, ast.FloorDiv: lambda: a // b,
                 ast.Mod: lambda: a % b, ast.BitAnd: lambda: a & b, ast.BitOr: lambda: a | b, ast.BitXor: lambda: a ^ b,
                 ast.LShift: lambda: a << b if 0 <= b <= 4096 else None, ast.RShift: lambda: a >> b if b >= 0 else None}
        f = table.get(type(op))
        v = f() if f else None
        if v is None:
            raise ValueError("table-building function: operator")
        return v

    def _ev(self, e, env, rel, cls, depth, state):
        ev = lambda x: self._ev(x, env, rel, cls, depth, state)  # noqa: E731
        if isinstance(e, ast.Name) and e.id in env:
            return env[e.id]
        if isinstance(e, ast.BinOp):
            a, b = ev(e.left), ev(e.right)
            if isinstance(e.op, ast.Add) and isinstance(a, str) and isinstance(b, str):
                return a + b
            return self._binop(e.op, a, b)
        if isinstance(e, ast.IfExp):
            return ev(e.body) if ev(e.test) else ev(e.orelse)
        if isinstance(e, ast.Compare) and len(e.ops) == 1:
            a, b = ev(e.left), ev(e.comparators[0])
            ops = {ast.Eq: a == b, ast.NotEq: a != b}
            if isinstance(a, int) and isinstance(b, int):
                ops.update({ast.Lt: a < b, ast.LtE: a <= b, ast.Gt: a > b, ast.GtE: a >= b})
            if type(e.ops[0]) in ops:
                return ops[type(e.ops[0])]
            raise ValueError("table-building function: comparison")
        if isinstance(e, ast.Subscript):
            l, i = ev(e.value), ev(e.slice)
            if isinstance(l, list) and isinstance(i, int) and -len(l) <= i < len(l):
                return l[i]
            if isinstance(l, dict) and isinstance(i, int) and i in l:
                return l[i]
            raise ValueError("table-building function: subscript")
        if isinstance(e, ast.Dict) and not e.keys:
            return {}
        if isinstance(e, ast.Call) and ast.unparse(e.func) == "base64.b64decode" and len(e.args) == 1 and not e.keywords:
            import base64 as _b64
            v = ev(e.args[0])
            if not isinstance(v, str):
                raise ValueError("base64.b64decode of a non-string")
            return list(_b64.b64decode(v))
        if isinstance(e, ast.Constant) and isinstance(e.value, str):
            return e.value
        if isinstance(e, ast.Call) and isinstance(e.func, ast.Name) and e.func.id == "int" and len(e.args) == 1 and not e.keywords:
            v = ev(e.args[0])
            if isinstance(v, (int, float)) and not isinstance(v, bool):
                return int(v)
            raise ValueError("table-building function: int() of a non-number")
        if isinstance(e, ast.Call) and isinstance(e.func, ast.Name) and e.func.id == "len" and len(e.args) == 1 and not e.keywords:
            v = ev(e.args[0])
            if isinstance(v, (list, dict)):
                return len(v)
            raise ValueError("table-building function: len()")
        if isinstance(e, ast.List):
            out = []
            for x in e.elts:
                if isinstance(x, ast.Starred):
                    out.extend(ev(x.value))
                else:
                    out.append(ev(x))
            return out
        if isinstance(e, ast.Call) and isinstance(e.func, ast.Name) and e.func.id in ("range", "len", "list") and not e.keywords:
            args = [ev(x) for x in e.args]
            if e.func.id == "range" and 1 <= len(args) <= 3 and all(isinstance(x, int) for x in args):
                r = range(*args)
                if len(r) > 100000:
                    raise ValueError("range too long")
                return r
            if e.func.id == "len" and len(args) == 1 and isinstance(args[0], list):
                return len(args[0])
            if e.func.id == "list" and len(args) == 1 and isinstance(args[0], (list, range)):
                return list(args[0])
            raise ValueError("table-building function: builtin call")
        if isinstance(e, ast.UnaryOp) and isinstance(e.op, ast.USub):
            v = ev(e.operand)
            if isinstance(v, int) and not isinstance(v, bool):
                return -v
        return self.eval(e, rel, cls, None, depth + 1)

    def class_of(self, e: ast.AST, rel: str, cls: ast.ClassDef | None, extra_imports=None):
        """Class denoted by expression `e` (a class name, or cls/self inside class `cls`)."""
        if isinstance(e, ast.Name):
            if e.id in ("cls", "self") and cls is not None:
                return rel, cls
            g = self.src.lookup_global(rel, e.id, extra_imports)
            if g and g[0] == "class":
                return g[1], g[2]
        if isinstance(e, ast.Attribute):
            # a class nested in a class: `Outer.Inner`, `self.Inner`
            owner = self.class_of(e.value, rel, cls, extra_imports)
            if owner is not None:
                for st in owner[1].body:
                    if isinstance(st, ast.ClassDef) and st.name == e.attr:
                        return owner[0], st
        return None


# ------------------------------------------------------------------------------------------------
# types
# ------------------------------------------------------------------------------------------------

def is_tuple(t):
    return isinstance(t, tuple)


def parse_type(s):
    """'Int' | 'Bool' | 'Unit' | 'Str' | '<Struct>' | '(Int,Int)' -> internal type"""
    s = s.strip()
    if s.startswith("(") and s.endswith(")"):
        return tuple(parse_type(x) for x in s[1:-1].split(","))
    return s


# ------------------------------------------------------------------------------------------------
# the translator
# ------------------------------------------------------------------------------------------------

class Target:
    def __init__(self, d: dict, prop: str):
        self.d = d
        self.prop = prop
        self.file = d["file"]
        self.cls = d.get("class")
        self.function = d["function"]
        self.lean_name = d["lean_name"]
        self.params = [(p[0], parse_type(p[1])) for p in d.get("params", [])]
        self.ret = parse_type(d["ret"])
        self.absent = set(d.get("absent", []))
        # parameters the caller passes as an explicit `None` (whatever their default is); like "absent" they select a
        # specialisation, and `x is None` tests on them are decided statically
        self.none_params = set(d.get("none", []))
        self.self_attrs = d.get("self_attrs", {})
        self.binds = d.get("binds", {})
        self.cls_as = d.get("cls_as")  # specialise cls/self to a subclass (name resolved from `file`)
        # abstract callees passed as function parameters: [[lean param name, [arg types], ret type, dotted callee text], ...]
        #   a result type written "R T" makes the callee a raising one (Except PyExc T)
        self.fun_params = [(f[0], [parse_type(x) for x in f[1]], parse_type(f[2][2:] if f[2].startswith("R ") else f[2]), f[3]) for f in d.get("fun_params", [])]
        self.fun_raises = {f[3]: f[2].startswith("R ") for f in d.get("fun_params", [])}
        # optional fifth element: the Python parameter names of the abstract callee, so that it can be called with keywords
        self.fun_kwnames = {f[3]: f[4] for f in d.get("fun_params", []) if len(f) > 4}
        self.loop_fuel = d.get("loop_fuel")  # fuel of the fuel-recursive functions that `while` loops become (required when there is one)
        # Lean parameters that stand for instance attributes of an erased self (see self_attrs "param:<name>")
        self.extra_params = [(p[0], parse_type(p[1])) for p in d.get("extra_params", [])]
        # the function returns `lambda <these>: expr`; the generated definition is the uncurried f(args)(lambda args)
        self.lambda_params = [(p[0], parse_type(p[1])) for p in d.get("lambda_params", [])]
        # a dict attribute the function reads ("mode": "r") or also stores into ("rw"): {"attr": dotted text of the attribute,
        # "param": name of the Lean parameter that carries the dict, "type": its type, "elem": type of its values, "mode"}.
        # A "rw" function returns the pair (result, final dict).
        self.dstate = d.get("state")
        # the object's mutable attributes as an explicit state: {"param": name of the Lean parameter, "type": a key of "types"
        # whose "attrs" map the Python attributes to the fields of the state structure, "mode": "rw" (default; the function
        # returns the pair (result, final state)) | "r" (the state is only read)}.  See the module docstring.
        self.mstate = d.get("mstate")
        self.ms_writes: set = set()  # fields of the object state this function (or a callee) may assign; filled by translation
        # filled by translation
        self.node: ast.FunctionDef | None = None
        self.kind = None  # 'method' | 'class' | 'static' | 'property' | 'function'
        self.raises: bool | None = None
        self.body_ir = None
        self.consts: dict[str, object] = {}
        self.state = "new"

    @property
    def key(self):
        return (self.cls.split(".")[-1] if self.cls else self.cls, self.function)

    def lean_params(self):
        return [(n, t) for n, t in self.params if t != "Str"] + list(self.lambda_params)


class Gen:
    def __init__(self, prop: str, cfg: dict, src: Source):
        self.prop = prop
        self.cfg = cfg
        self.src = src
        self.ce = ConstEval(src)
        self.types = cfg.get("types", {})
        self.helpers = cfg.get("helpers", {})
        self.targets = [Target(d, prop) for d in cfg["functions"]]
        self.by_key: dict[tuple, list[Target]] = {}
        for t in self.targets:
            self.by_key.setdefault(t.key, []).append(t)
        self.class_of_type = {v.get("py_class", k): k for k, v in self.types.items()}
        self.errors: list[dict] = []

    # ---- helpers ------------------------------------------------------------------------------
    def lean_type(self, t) -> str:
        if is_tuple(t):
            return "(" + " × ".join(self.lean_type(x) for x in t) + ")"
        if t in ("Int", "Bool", "Unit"):
            return t
        if isinstance(t, str) and t.startswith("?"):  # `T | None` as a RESULT type
            return f"(Option {self.lean_type(t[1:])})"
        if t in self.types:
            return self.types[t]["lean"]
        raise KeyError(f"unknown type {t}")

    def locate(self, t: Target):
        cls = None
        if t.cls:
            cls = self.src.find_class(t.file, t.cls)
            if cls is None:
                raise Unsupported(t.file, None, f"class {t.cls} not found")
            m = self.src.class_member(t.file, cls, t.function)
            if not m or m[0] != "func":
                raise Unsupported(t.file, cls, f"function {t.cls}.{t.function} not found")
            if m[2] is not cls:
                raise Unsupported(t.file, cls, f"{t.cls}.{t.function} is inherited from {m[2].name}; name the defining class and use cls_as")
            funcs = m[3]
        else:
            funcs = [st for st in self.src.module(t.file).body if isinstance(st, ast.FunctionDef) and st.name == t.function]
            if not funcs:
                raise Unsupported(t.file, None, f"function {t.function} not found")
        # a property and its setter share the name: the target says which one it means ("setter": true), default the getter
        def is_setter(fn):
            return any(ast.unparse(d).endswith(".setter") for d in fn.decorator_list)
        want_setter = bool(t.d.get("setter"))
        chosen = [fn for fn in funcs if is_setter(fn) == want_setter]
        if not chosen:
            raise Unsupported(t.file, funcs[-1], "property setter" if not want_setter else f"{t.function} has no setter")
        node = chosen[-1]
        decos = [d for d in (ast.unparse(d) for d in node.decorator_list) if not d.endswith(".setter")]
        if "classmethod" in decos:
            kind = "class"
        elif "staticmethod" in decos:
            kind = "static"
        elif want_setter:
            kind = "method"   # `obj.name = value` is the call `name.fset(obj, value)`
        elif any(d == "property" or d.endswith("cached_property") for d in decos):
            kind = "property"
        elif t.cls:
            kind = "method"
        else:
            kind = "function"
        for d in decos:
            if d not in ("classmethod", "staticmethod", "property", "final", "override", "typing.final", "functools.cache",
                         "abc.abstractmethod", "abstractmethod"):
                raise Unsupported(t.file, node, f"decorator @{d}")
        t.node, t.kind = node, kind
        t.cls_node = cls
        return node

    def translate_all(self):
        for t in self.targets:
            self.ensure(t)

    def ensure(self, t: Target):
        if t.state == "done" or t.state == "failed":
            return
        if t.state == "busy":
            raise Unsupported(t.file, t.node, f"recursive call cycle through {t.lean_name}")
        t.state = "busy"
        try:
            self.locate(t)
            FnTranslator(self, t).run()
            t.state = "done"
        except Unsupported as e:
            t.state = "failed"
            t.error = str(e)
            self.errors.append({"function": t.lean_name, "python": f"{t.file}:{(t.cls + '.') if t.cls else ''}{t.function}", "error": str(e)})

    # ---- output -------------------------------------------------------------------------------
    def render(self) -> str:
        out = []
        out.append("/-")
        out.append(f"  GENERATED by tools/py2lean.py from the Python source of pyoda_time — DO NOT EDIT.")
        out.append(f"  Property {self.prop}; target list tools/py2lean_targets.py.  Regenerated on every check; an agreement")
        out.append(f"  theorem per definition lives in PyodaProofs/GenAgree{self.prop}.lean.")
        out.append("-/")
        for imp in self.cfg.get("imports", ["PyodaModel.Prelude"]):
            out.append(f"import {imp}")
        out.append("")
        out.append("set_option linter.unusedVariables false")
        out.append("")
        out.append(f"namespace Pyoda.Gen.{self.prop}")
        out.append("open Pyoda")
        out.append("")
        done = [t for t in self.targets if t.state == "done"]
        # dependency order: callee before caller
        order, seen = [], set()

        def visit(t):
            if id(t) in seen:
                return
            seen.add(id(t))
            for c in t.calls:
                visit(c)
            order.append(t)
        for t in done:
            visit(t)
        lock_info = bool(self.cfg.get("locks") or self.cfg.get("lock_info"))
        if lock_info:  # the lock discipline of every translated instance method, as data (PyodaGen/LockInfo.lean)
            k = out.index("set_option linter.unusedVariables false") - 1
            out.insert(k, "import PyodaGen.LockInfo")
        for t in order:
            out.extend(Emitter(self, t).emit())
            out.append("")
            if lock_info and getattr(t, "cls_node", None) is not None and t.node in _self_methods(t.cls_node):
                where = f"{t.file}: {t.cls}.{t.function}"
                out.extend(render_lock_info(t.lean_name, where, lock_discipline(t.cls_node, t.node, self.cfg.get("locks", []))))
                out.append("")
        out.append(f"end Pyoda.Gen.{self.prop}")
        return "\n".join(out) + "\n"


class Ctx:
    """Per-path translation state: local variable types; object under construction."""

    def __init__(self):
        self.vars: dict[str, object] = {}      # python local name -> type
        self.constructing: dict[str, str] = {}  # python name of object under construction -> struct type
        self.fields: dict[tuple, object] = {}   # (objname, field) -> type, when assigned
        self.defaults: dict[str, object] = {}   # undeclared parameter -> its constant default (until reassigned)
        # what this path knows about the Option-valued attributes of the state object: attr -> ("none",) | ("some", var, type)
        self.optknown: dict[str, tuple] = {}
        # locals bound to a fresh mutable builtin object (bytearray(), {}): they may only be used where no alias can arise
        self.mutables: set = set()
        # source text of an Optional-valued expression -> (lean variable, type) known on this path to be its (non-None) value
        self.known_exprs: dict[str, tuple] = {}

    def copy(self):
        c = Ctx()
        c.vars = dict(self.vars)
        c.constructing = dict(self.constructing)
        c.fields = dict(self.fields)
        c.defaults = dict(self.defaults)
        c.optknown = dict(self.optknown)
        c.mutables = set(self.mutables)
        c.known_exprs = dict(self.known_exprs)
        return c

    def bind(self, name: str, ty) -> None:
        """a (re)binding of a Python local on this path"""
        self.vars[name] = ty
        self.defaults.pop(name, None)
        self.mutables.discard(name)
        if self.known_exprs:
            import re as _re
            for k_ in [k_ for k_ in self.known_exprs if _re.search(r"(?<![\w.])" + _re.escape(name) + r"(?![\w])", k_)]:
                del self.known_exprs[k_]


def strip_parens(s: str) -> str:
    """Remove one pair of outer parentheses when they enclose the whole string."""
    if s.startswith("(") and s.endswith(")"):
        depth = 0
        for i, ch in enumerate(s):
            if ch == "(":
                depth += 1
            elif ch == ")":
                depth -= 1
                if depth == 0 and i != len(s) - 1:
                    return s
        return s[1:-1]
    return s


def lname(s: str) -> str:
    """Python identifier -> Lean identifier, injectively: the name itself, «quoted» when Lean reserves it.
    (Names the translator invents contain `'`, which no Python identifier does.)"""
    if s in LEAN_KEYWORDS or s == "_" or not s.isascii():
        return "«" + s + "»"
    return s


class _LoopContinue(ast.stmt):
    """synthetic statement: end of a while-loop body (recursive call of the loop function)"""
    _fields = ()


class FnTranslator:
    def __init__(self, gen: Gen, t: Target):
        self.g, self.t = gen, t
        self.src = gen.src
        self.node = t.node
        self.file = t.file
        self.nodes = 0
        self.tmp = 0
        t.calls = []
        t.loops = []
        # every name bound anywhere in the function is local to it (Python scoping)
        self.assigned_names = set()
        for n in ast.walk(self.node):
            if isinstance(n, ast.Name) and isinstance(n.ctx, (ast.Store, ast.Del)):
                self.assigned_names.add(n.id)
        a_ = self.node.args
        self.local_names = set(self.assigned_names) | {x.arg for x in a_.posonlyargs + a_.args + a_.kwonlyargs}
        clash = self.local_names & {"Int", "Nat", "Bool", "R", "Pyoda", "Except", "List", "String", "Unit", "Prod", "Decidable", "fuel"}
        if clash:
            raise Unsupported(self.file, self.node, f"local name(s) {sorted(clash)} clash with Lean namespaces used by the generated code")
        self.local_imports = {}
        for n in ast.walk(self.node):
            if isinstance(n, ast.ImportFrom):
                for a in n.names:
                    self.local_imports[a.asname or a.name] = (n.level, n.module, a.name)
        # class used for cls/self constant and call resolution
        self.cls_rel, self.cls_node = t.file, getattr(t, "cls_node", None)
        if t.cls_as:
            r = self.src.lookup_global(t.file, t.cls_as, self.local_imports) or (self.src.find_class(t.d.get("cls_as_file", t.file), t.cls_as) and ("class", t.d.get("cls_as_file", t.file), self.src.find_class(t.d.get("cls_as_file", t.file), t.cls_as)))
            if not r or r[0] != "class":
                raise Unsupported(t.file, self.node, f"cls_as class {t.cls_as} not found")
            self.cls_rel, self.cls_node = r[1], r[2]

    def bad(self, node, what):
        raise Unsupported(self.file, node, what)

    def ref(self, lean_name: str) -> str:
        """How this function refers to a generated definition: by its short name, or fully qualified when a Python
        local of this function has the same name as the first component (a `let` would shadow it)."""
        if lean_name.split(".")[0] in self.local_names:
            return f"Pyoda.Gen.{self.g.prop}.{lean_name}"
        return lean_name

    def fresh(self, base="t"):
        self.tmp += 1
        return f"{base}'{self.tmp}"

    # ---- the object's mutable attributes as an explicit state -----------------------------------------------
    def ms_rw(self) -> bool:
        return bool(self.t.mstate) and self.t.mstate.get("mode", "rw") == "rw"

    def ms_param(self) -> str:
        return lname(self.t.mstate["param"])

    def ms_field(self, e, ctx: Ctx):
        """`self.<attr>` where the target's state type maps <attr> to a field -> (field, type of the field), else None"""
        m = self.t.mstate
        if not m or not (isinstance(e, ast.Attribute) and isinstance(e.value, ast.Name) and e.value.id == self.receiver
                         and ctx.vars.get(e.value.id, "Erased") == "Erased" and e.value.id not in ctx.constructing):
            return None
        td = self.g.types[m["type"]]
        f = td.get("attrs", {}).get(e.attr)
        if f is None:
            return None
        return f, parse_type(td.get("field_types", {}).get(f, "Int"))

    def state_read(self, e, sf, ctx: Ctx, pre: list):
        """the current value of a state attribute.  It is bound to a fresh name at this point of the evaluation order, so a
        later state-changing call in the same expression cannot be seen by it."""
        field, fty = sf
        k = ctx.optknown.get(e.attr)
        if k is not None:
            if k[0] == "none":
                return "none", "None"
            return k[1], k[2]
        if getattr(self, "in_lambda", False):
            self.bad(e, "state attribute read inside a lambda")
        tv = self.fresh("s")
        pre.append(("let", tv, f"{self.ms_param()}.{field}", fty))
        return tv, fty

    def state_assign(self, node, target, sf, value, ctx: Ctx) -> list:
        """`self.<attr> = value`: the state with that field replaced.  value: an expression, or an evaluated (text, type)."""
        field, fty = sf
        if not self.ms_rw():
            self.bad(node, "assignment to an attribute of a state the target declares read-only")
        self.t.ms_writes.add(field)
        pre = []
        sp = self.ms_param()
        opt = isinstance(fty, str) and fty.startswith("?")
        if isinstance(value, ast.AST) and isinstance(value, ast.Constant) and value.value is None:
            if not opt:
                self.bad(node, f"None stored into the non-optional state field {field}")
            ctx.optknown[target.attr] = ("none",)
            return [("let", sp, f"{{ {sp} with {field} := none }}", self.t.mstate["type"])]
        if isinstance(value, ast.AST):
            kind, txt, ty = self.value_for_bind(value, ctx, pre)
            if kind == "raising":
                tv = self.fresh()
                pre.append(("bind", tv, txt, ty))
                txt = tv
        else:
            txt, ty = value
        if ty == "Prop" and fty in ("Bool", "?Bool"):
            txt, ty = f"decide ({strip_parens(txt)})", "Bool"
        if ty == "None":
            if not opt:
                self.bad(node, f"None stored into the non-optional state field {field}")
            ctx.optknown[target.attr] = ("none",)
            return pre + [("let", sp, f"{{ {sp} with {field} := none }}", self.t.mstate["type"])]
        if opt and ty == fty[1:]:
            tv = self.fresh("v")
            pre.append(("let", tv, txt, ty))
            ctx.optknown[target.attr] = ("some", tv, ty)
            return pre + [("let", sp, f"{{ {sp} with {field} := some {tv} }}", self.t.mstate["type"])]
        if ty != fty:
            self.bad(node, f"value of type {ty} stored into the state field {field} of type {fty}")
        ctx.optknown.pop(target.attr, None)
        return pre + [("let", sp, f"{{ {sp} with {field} := {self.paren(txt)} }}", self.t.mstate["type"])]

    def deliver_state(self, e, txt, ty, raises, ctx: Ctx, pre: list, cond, writes=None):
        """a call that returns (result, new state): always bound where it stands in the evaluation order.
        writes: the fields of the state the callee may assign (None = any); what this path knows about the others stays valid"""
        if cond:
            self.bad(e, "state-changing call in a conditionally evaluated position (short-circuit operand / conditional expression)")
        if getattr(self, "in_lambda", False):
            self.bad(e, "state-changing call inside a lambda")
        tv = self.fresh()
        pre.append(("bind" if raises else "let", f"({tv}, {self.ms_param()})", txt, ty))
        attrs_ = self.g.types[self.t.mstate["type"]].get("attrs", {})
        if writes is None:
            writes = set(attrs_.values())
        self.t.ms_writes |= set(writes)
        for a_ in [a_ for a_ in ctx.optknown if attrs_.get(a_) in writes]:
            del ctx.optknown[a_]
        self.state_calls.add(id(e))
        return "pure", tv, ty

    def option_test(self, test, ctx: Ctx):
        """`X is None` / `X is not None` on a run-time optional (a local of type ?T, or an Option-valued state attribute about
        which this path knows nothing yet) -> (X, the test is `is None`), else None"""
        if not (isinstance(test, ast.Compare) and len(test.ops) == 1 and isinstance(test.ops[0], (ast.Is, ast.IsNot))
                and isinstance(test.comparators[0], ast.Constant) and test.comparators[0].value is None):
            return None
        x = test.left
        if isinstance(x, ast.Name):
            ty = ctx.vars.get(x.id)
            if isinstance(ty, str) and ty.startswith("?") and x.id not in ctx.constructing:
                return x, isinstance(test.ops[0], ast.Is)
            return None
        sf = self.ms_field(x, ctx)
        if sf is not None and isinstance(sf[1], str) and sf[1].startswith("?") and x.attr not in ctx.optknown:
            return x, isinstance(test.ops[0], ast.Is)
        return None

    def type_cfg(self, ty):
        return self.g.types.get(ty) if isinstance(ty, str) else None

    # ---- entry -------------------------------------------------------------------------------
    def run(self):
        t, node = self.t, self.node
        a = node.args
        if a.vararg or a.kwarg:
            self.bad(node, "*args/**kwargs")
        pyparams = [x.arg for x in a.posonlyargs + a.args + a.kwonlyargs]
        defaults = {}
        pos = a.posonlyargs + a.args
        for x, d in zip(pos[len(pos) - len(a.defaults):], a.defaults):
            defaults[x.arg] = d
        for x, d in zip(a.kwonlyargs, a.kw_defaults):
            if d is not None:
                defaults[x.arg] = d
        self.pyparams, self.defaults = pyparams, defaults
        t.pyparams, t.pydefaults = pyparams, defaults
        ctx = Ctx()
        declared = dict(t.params)
        self.receiver = None
        if t.kind in ("method", "property", "class"):
            if not pyparams:
                self.bad(node, "method without receiver")
            self.receiver = pyparams[0]
        self.absent_params = {}
        ms_py = (t.mstate or {}).get("py_param")
        for p in pyparams:
            if ms_py is not None and p == ms_py:
                # the Python parameter that IS the state object (a stream handed to a classmethod): only its declared state
                # helpers (`<p>.read(…)`) may mention it
                if p in declared:
                    self.bad(node, f"parameter {p} is both the state object and a declared parameter")
                ctx.vars[p] = "Erased"
                continue
            if p in declared:
                if p in t.absent:
                    self.bad(node, f"parameter {p} both declared and absent")
                ctx.vars[p] = declared[p]
            elif p == self.receiver:
                ctx.vars[p] = "Erased"
            elif p in t.none_params:
                ctx.vars[p] = "None"
            elif p in t.absent:
                if p not in defaults or not (isinstance(defaults[p], ast.Constant) and defaults[p].value is None):
                    self.bad(node, f"absent parameter {p} has no None default")
                ctx.vars[p] = "None"
            elif p in defaults:
                d = defaults[p]
                if isinstance(d, ast.Constant) and d.value is None:
                    ctx.vars[p] = "None"
                else:
                    try:
                        v = self.g.ce.eval(d, self.file, self.cls_node, self.local_imports)
                    except ValueError as e:
                        self.bad(node, f"default of undeclared parameter {p}: {e}")
                    if isinstance(v, list):
                        self.bad(node, f"default of {p} is a table")
                    ctx.defaults[p] = v
                    ctx.vars[p] = "Bool" if isinstance(v, bool) else "Int"
            else:
                self.bad(node, f"parameter {p} is neither declared in the target nor defaulted")
        for p, _ in t.params:
            if p not in pyparams:
                self.bad(node, f"target declares parameter {p} which {t.function} does not have")
        if t.dstate:
            sp = t.dstate["param"]
            if sp in self.local_names or sp in pyparams:
                self.bad(node, f"state parameter {sp} clashes with a local name")
            if t.dstate.get("mode") not in ("r", "rw"):
                self.bad(node, "state mode must be r or rw")
            ctx.vars[sp] = parse_type(t.dstate["type"])
            self.local_names.add(sp)
        self.state_calls = set()
        if t.mstate:
            ms = t.mstate
            sp = ms["param"]
            if t.dstate:
                self.bad(node, "a function with both a dict attribute and an object state")
            if sp in self.local_names or sp in pyparams:
                self.bad(node, f"state parameter {sp} clashes with a local name")
            if ms.get("mode", "rw") not in ("r", "rw"):
                self.bad(node, "mstate mode must be r or rw")
            if ms["type"] not in self.g.types:
                self.bad(node, f"mstate type {ms['type']} is not declared")
            if (self.receiver is None and not ms.get("py_param")) or (self.receiver in declared and not ms.get("py_param")):
                # (when the state object is ANOTHER parameter — `def _write(self, writer)` — the receiver may be a structure:
                # its attributes are ordinary fields, the state is only handed to the callees that work on it)
                self.bad(node, "object state needs an erased receiver")
            if t.lambda_params:
                self.bad(node, "lambda factory with an object state")
            ctx.vars[sp] = ms["type"]
            self.local_names.add(sp)
        if t.function == "__init__":
            # `__init__` initialises the receiver: translated as the construction of the structure
            sty = self.own_struct()
            if sty is None or self.receiver is None:
                self.bad(node, "__init__ of a class without a declared struct type")
            ctx.vars.pop(self.receiver, None)
            ctx.constructing[self.receiver] = sty
            self.init_object = self.receiver
        body_stmts = list(node.body)
        if t.d.get("slice"):
            body_stmts = self.slice_body(body_stmts, t.d["slice"])
            self.scope = ast.Module(body=body_stmts, type_ignores=[])   # "after the loop" means: later in the slice
        if t.d.get("generator_step"):
            body_stmts = self.generator_step_body(body_stmts)
        body = self.block(body_stmts, ctx)
        t.body_ir = body
        t.raises = self.ir_raises(body)

    def slice_body(self, stmts: list, sl: dict) -> list:
        """A run of consecutive top-level statements of a procedure (a function that returns None and whose statements are
        independent checks): from the first statement whose source text starts with sl["from_text"] up to (not including)
        the first later one starting with sl["until_text"] (to the end when absent).  The slice is translated as a function
        of its own that returns None where it ends; the target declares "ret": "Unit".  A name the slice reads must be bound
        inside it (a read of a local bound before the slice is a read before assignment and is refused)."""
        if self.t.ret != "Unit":
            self.bad(self.node, "slice of a function whose declared result is not Unit")
        texts = [ast.unparse(st) for st in stmts]
        a = next((k for k, tx in enumerate(texts) if tx.startswith(sl["from_text"])), None) if sl.get("from_text") else 0
        if a is None:
            self.bad(self.node, f"slice: no top-level statement starts with {sl['from_text']!r}")
        b = len(stmts)
        if sl.get("until_text"):
            b = next((k for k in range(a + 1, len(stmts)) if texts[k].startswith(sl["until_text"])), None)
            if b is None:
                self.bad(self.node, f"slice: no later top-level statement starts with {sl['until_text']!r}")
        part = stmts[a:b]
        for st in part:
            for n in ast.walk(st):
                if isinstance(n, ast.Return) and n.value is not None:
                    self.bad(n, "slice containing a return with a value")
        # names bound before the slice are unbound inside it
        self.assigned_names |= {n.id for st in stmts[:a] for n in ast.walk(st) if isinstance(n, ast.Name) and isinstance(n.ctx, ast.Store)}
        return part

    def generator_step_body(self, stmts: list) -> list:
        """A generator of the shape `<docstring>? while True: BODY` where BODY ends with its only `yield v` and leaves the loop
        by `break`: ONE `next()` of it is BODY with `break` -> `return None` (StopIteration) and `yield v` -> `return v`.
        (Every later `next()` resumes at the loop head; a local that a later round reads before assigning it would carry a
        value over from the round before — in the step function such a read is a read before assignment and is refused.)
        The target's result type is `?T`."""
        core = [st for st in stmts if not (isinstance(st, ast.Expr) and isinstance(st.value, ast.Constant))]
        if len(core) != 1 or not isinstance(core[0], ast.While) or not (isinstance(core[0].test, ast.Constant) and core[0].test.value is True) or core[0].orelse:
            self.bad(self.node, "generator_step: the function body is not a single `while True:` loop")
        loop = core[0]
        ys = [n for n in ast.walk(loop) if isinstance(n, (ast.Yield, ast.YieldFrom))]
        last = loop.body[-1] if loop.body else None
        if len(ys) != 1 or not (isinstance(last, ast.Expr) and last.value is ys[0] and isinstance(ys[0], ast.Yield) and ys[0].value is not None):
            self.bad(loop, "generator_step: the loop body does not end with its only `yield <value>`")
        if not (isinstance(self.t.ret, str) and self.t.ret.startswith("?")):
            self.bad(loop, "generator_step: the declared result type is not optional")

        class Tr(ast.NodeTransformer):
            def visit_Break(tr, n):  # noqa: N805
                return ast.copy_location(ast.Return(value=None), n)

            def visit_While(tr, n):  # noqa: N805
                return n  # a `break` of an inner loop belongs to that loop

            def visit_For(tr, n):  # noqa: N805
                return n
        body = [Tr().visit(st) for st in loop.body[:-1]]
        body.append(ast.copy_location(ast.Return(value=ys[0].value), last))
        for st in body:
            ast.fix_missing_locations(st)
        return body

    def ir_raises(self, ir) -> bool:
        for n in ir:
            k = n[0]
            if k == "optmatch" and (self.ir_raises(n[3]) or self.ir_raises(n[4])):
                return True
            if k in ("raise", "bind", "tail", "optret", "try"):
                return True  # (a loop call is a "bind": running out of fuel is an error value)
            if k == "if" and (self.ir_raises(n[2]) or self.ir_raises(n[3])):
                return True
        return False

    # ---- statements --------------------------------------------------------------------------
    def block(self, stmts: list, ctx: Ctx) -> list:
        """Translate a statement list (the whole remaining continuation) into IR ending in a terminal."""
        self.nodes += 1
        if self.nodes > MAX_NODES:
            self.bad(self.node, "path explosion (tail duplication budget exceeded)")
        out = []
        i = 0
        while i < len(stmts):
            st = stmts[i]
            rest = stmts[i + 1:]
            if isinstance(st, ast.Expr) and isinstance(st.value, ast.Constant) and isinstance(st.value.value, str):
                i += 1
                continue
            if isinstance(st, (ast.Pass, ast.ImportFrom, ast.Import)):
                i += 1
                continue
            if isinstance(st, ast.AnnAssign) and st.value is None:
                i += 1
                continue
            if isinstance(st, (ast.Return, ast.Assign, ast.AnnAssign, ast.Expr)) and isinstance(getattr(st, "value", None), ast.Call):
                # `f(A if c else B, x)` with a raising call inside A or B:  `t = A if c else B; f(t, x)` — the same order of
                # evaluation provided everything evaluated before that argument (the callee expression, the earlier
                # arguments) is a plain name / attribute chain / literal
                call_ = st.value
                in_order = list(call_.args) + [k.value for k in call_.keywords]
                hoisted = False
                for j_, a_ in enumerate(in_order):
                    if isinstance(a_, ast.IfExp) and self.needs_statement_form(a_, ctx):
                        if not (all(self.is_pure_simple(x) for x in in_order[:j_]) and self.is_pure_simple(call_.func)):
                            self.bad(a_, "conditional argument with a raising call after an argument that is not a simple name/attribute")
                        self.ifexp_count = getattr(self, "ifexp_count", 0) + 1
                        tname = f"cond_arg_{self.ifexp_count}_"
                        if tname in self.local_names:
                            self.bad(a_, "name clash with the translator's temporary")
                        self.assigned_names.add(tname)
                        self.local_names.add(tname)
                        mk_ = lambda n_: ast.copy_location(n_, st)  # noqa: E731
                        assign_ = mk_(ast.Assign(targets=[mk_(ast.Name(id=tname, ctx=ast.Store()))], value=a_))
                        repl_ = mk_(ast.Name(id=tname, ctx=ast.Load()))
                        new_args = [repl_ if x is a_ else x for x in call_.args]
                        new_kws = [ast.keyword(arg=k.arg, value=(repl_ if k.value is a_ else k.value)) for k in call_.keywords]
                        new_call = mk_(ast.Call(func=call_.func, args=new_args, keywords=new_kws))
                        if isinstance(st, ast.Return):
                            st2 = mk_(ast.Return(value=new_call))
                        elif isinstance(st, ast.Expr):
                            st2 = mk_(ast.Expr(value=new_call))
                        elif isinstance(st, ast.AnnAssign):
                            st2 = mk_(ast.AnnAssign(target=st.target, annotation=st.annotation, value=new_call, simple=st.simple))
                        else:
                            st2 = mk_(ast.Assign(targets=st.targets, value=new_call))
                        for n_ in (assign_, st2):
                            ast.fix_missing_locations(n_)
                        stmts = [assign_, st2] + rest
                        i = 0
                        hoisted = True
                        break
                if hoisted:
                    continue
            if isinstance(st, (ast.Return, ast.Assign, ast.AnnAssign)) and isinstance(st.value, ast.IfExp) and self.needs_statement_form(st.value, ctx):
                # `return A if c else B`  ==  `if c: return A / else: return B` (same for a plain assignment)
                ie = st.value

                def clone(v, st=st):
                    if isinstance(st, ast.Return):
                        return ast.copy_location(ast.Return(value=v), st)
                    if isinstance(st, ast.AnnAssign):
                        return ast.copy_location(ast.AnnAssign(target=st.target, annotation=st.annotation, value=v, simple=st.simple), st)
                    return ast.copy_location(ast.Assign(targets=st.targets, value=v), st)
                stmts = [ast.copy_location(ast.If(test=ie.test, body=[clone(ie.body)], orelse=[clone(ie.orelse)]), st)] + rest
                i = 0
                continue
            if isinstance(st, (ast.Return, ast.Assign, ast.AnnAssign)) and isinstance(st.value, (ast.BoolOp, ast.Compare)) \
                    and self.needs_statement_form(st.value, ctx):
                # a raising call under `and` / `or` / the later links of a chained comparison:
                #   `return A and B`   ==  `if A: return B` / `else: return False`      (A is a bool: tests of other types are refused)
                #   `return A or B`    ==  `if A: return True` / `else: return B`
                #   `a < b <= c`       ==  `a < b and b <= c` when b is a name / attribute chain / literal (evaluated twice
                #                          without effect)
                v = st.value

                def clone2(val, st=st):
                    if isinstance(st, ast.Return):
                        return ast.copy_location(ast.Return(value=val), st)
                    if isinstance(st, ast.AnnAssign):
                        return ast.copy_location(ast.AnnAssign(target=st.target, annotation=st.annotation, value=val, simple=st.simple), st)
                    return ast.copy_location(ast.Assign(targets=st.targets, value=val), st)
                if isinstance(v, ast.Compare):
                    operands = [v.left] + list(v.comparators)
                    for mid in operands[1:-1]:
                        if not self.is_pure_simple(mid):
                            self.bad(v, "chained comparison with a raising call whose middle operand is not a simple name/attribute")
                    links = [ast.copy_location(ast.Compare(left=operands[i], ops=[v.ops[i]], comparators=[operands[i + 1]]), v) for i in range(len(v.ops))]
                    v = ast.copy_location(ast.BoolOp(op=ast.And(), values=links), v)
                    stmts = [clone2(v)] + rest
                    i = 0
                    continue
                first, others = v.values[0], v.values[1:]
                tail = others[0] if len(others) == 1 else ast.copy_location(ast.BoolOp(op=v.op, values=others), v)
                const = lambda b: ast.copy_location(ast.Constant(value=b), v)  # noqa: E731
                if isinstance(v.op, ast.And):
                    new = ast.If(test=first, body=[clone2(tail)], orelse=[clone2(const(False))])
                else:
                    new = ast.If(test=first, body=[clone2(const(True))], orelse=[clone2(tail)])
                stmts = [ast.copy_location(new, st)] + rest
                i = 0
                continue
            if isinstance(st, ast.Return):
                out.extend(self.do_return(st, ctx))
                return out
            if isinstance(st, ast.Raise):
                exc = self.exc_of(st)
                # the arguments of the exception constructor are evaluated first, in order: a call among them that raises
                # wins (e.g. `raise AmbiguousTimeError(build(early), build(late))`); their values are then discarded
                if isinstance(st.exc, ast.Call):
                    def can_raise_(e_):
                        return any(isinstance(n_, (ast.Call, ast.Subscript, ast.BinOp, ast.NamedExpr, ast.Await, ast.Yield))
                                   for n_ in ast.walk(e_))
                    for a_ in list(st.exc.args) + [k_.value for k_ in st.exc.keywords]:
                        parts_ = ([v_.value for v_ in a_.values if isinstance(v_, ast.FormattedValue)]
                                  if isinstance(a_, ast.JoinedStr) else [a_])
                        for e_ in parts_:
                            if can_raise_(e_):
                                pre_ = []
                                self.expr(e_, ctx, pre_)
                                out.extend(pre_)
                out.append(("raise", exc))
                return out
            nr = self.noreturn_helper(st)
            if nr is not None:
                # a helper that always raises (its arguments only feed the message): the path ends here
                for a in list(st.value.args) + [k.value for k in st.value.keywords]:
                    if any(isinstance(n, ast.Call) for n in ast.walk(a)):
                        self.bad(st, "call inside the arguments of a helper that always raises")
                if nr not in EXC_MAP.values():
                    self.bad(st, f"noreturn helper with unknown exception {nr}")
                out.append(("raise", nr))
                return out
            if isinstance(st, ast.If) and isinstance(st.test, ast.Compare) and len(st.test.ops) == 1 and isinstance(st.test.ops[0], (ast.Is, ast.IsNot)) \
                    and isinstance(st.test.left, ast.NamedExpr) and isinstance(st.test.comparators[0], ast.Constant) and st.test.comparators[0].value is None:
                # `if (x := f(…)) is None: A else: B` where f returns `T | None`: x is None in A and a T in B (and afterwards, per path)
                ne_ = st.test.left
                pre_ = []
                if isinstance(ne_.value, ast.Call):
                    kind_, txt_, ty_ = self.call(ne_.value, ctx, pre_, want_raw=True)
                else:
                    txt_, ty_ = self.expr(ne_.value, ctx, pre_)
                    kind_ = "pure"
                if not (isinstance(ty_, str) and ty_.startswith("?")):
                    self.bad(st, f"`(x := …) is None` on a value of type {ty_}")
                inner = ty_[1:]
                nm = ne_.target.id
                tv = self.fresh("o")
                out.extend(pre_)
                out.append(("bind" if kind_ == "raising" else "let", tv, txt_, ty_))
                c1, c2 = ctx.copy(), ctx.copy()
                c1.bind(nm, inner)
                c2.vars[nm] = "None"
                none_test = isinstance(st.test.ops[0], ast.Is)
                body_some, body_none = (st.orelse, st.body) if none_test else (st.body, st.orelse)
                b1 = self.block(list(body_some) + rest, c1)
                b2 = self.block(list(body_none) + rest, c2)
                out.append(("optmatch", tv, lname(nm), b1, b2))
                return out
            if isinstance(st, ast.If) and isinstance(st.test, ast.NamedExpr) and isinstance(st.test.value, ast.Call):
                # `if (x := f(...)):` where f returns `T | None` and T defines neither __bool__ nor __len__: the test is
                # `x is not None`; x is a T in the body and None afterwards on the other path
                pre_ = []
                kind_, txt_, ty_ = self.call(st.test.value, ctx, pre_, want_raw=True)
                if isinstance(ty_, str) and ty_.startswith("?") and ty_[1:] in self.g.types:
                    inner = ty_[1:]
                    self.require_plain_truthiness(st.test, inner)
                    nm = st.test.target.id
                    tv = self.fresh("o")
                    out.extend(pre_)
                    out.append(("bind" if kind_ == "raising" else "let", tv, txt_, ty_))
                    c1, c2 = ctx.copy(), ctx.copy()
                    c1.bind(nm, inner)
                    c2.vars[nm] = "None"
                    b1 = self.block(list(st.body) + rest, c1)
                    b2 = self.block(list(st.orelse) + rest, c2)
                    out.append(("optmatch", tv, lname(nm), b1, b2))
                    return out
            if isinstance(st, ast.If) and isinstance(st.test, ast.Compare) and len(st.test.ops) > 1 and self.needs_statement_form(st.test, ctx):
                # a raising call in a later link of a chained comparison: `a < b <= c` == `a < b and b <= c` (b simple)
                v = st.test
                operands = [v.left] + list(v.comparators)
                for mid in operands[1:-1]:
                    if not self.is_pure_simple(mid):
                        self.bad(v, "chained comparison with a raising call whose middle operand is not a simple name/attribute")
                links = [ast.copy_location(ast.Compare(left=operands[k], ops=[v.ops[k]], comparators=[operands[k + 1]]), v) for k in range(len(v.ops))]
                stmts = [ast.copy_location(ast.If(test=ast.copy_location(ast.BoolOp(op=ast.And(), values=links), v), body=st.body, orelse=st.orelse), st)] + rest
                i = 0
                continue
            if isinstance(st, ast.If) and isinstance(st.test, ast.BoolOp) and self.needs_statement_form(st.test, ctx):
                # a raising call in a later operand of the test:
                #   `if A and B: X else: Y`  ==  `if A: (if B: X else: Y) else: Y`
                #   `if A or B: X else: Y`   ==  `if A: X else: (if B: X else: Y)`
                v = st.test
                first, others = v.values[0], v.values[1:]
                tail = others[0] if len(others) == 1 else ast.copy_location(ast.BoolOp(op=v.op, values=others), v)
                inner = ast.copy_location(ast.If(test=tail, body=st.body, orelse=st.orelse), st)
                if isinstance(v.op, ast.And):
                    new = ast.If(test=first, body=[inner], orelse=st.orelse)
                else:
                    new = ast.If(test=first, body=st.body, orelse=[inner])
                stmts = [ast.copy_location(new, st)] + rest
                i = 0
                continue
            if isinstance(st, ast.If) and isinstance(st.test, ast.Call) and isinstance(st.test.func, ast.Name) and st.test.func.id == "isinstance" \
                    and len(st.test.args) == 2 and isinstance(st.test.args[0], ast.NamedExpr):
                # `if isinstance((a := b), T): …`  ==  `a = b` followed by `if isinstance(a, T): …` (the walrus is evaluated first)
                ne_ = st.test.args[0]
                asg_ = ast.copy_location(ast.Assign(targets=[ast.copy_location(ast.Name(id=ne_.target.id, ctx=ast.Store()), ne_)], value=ne_.value), st)
                test_ = ast.copy_location(ast.Call(func=st.test.func, args=[ast.copy_location(ast.Name(id=ne_.target.id, ctx=ast.Load()), ne_), st.test.args[1]], keywords=[]), st.test)
                new_ = ast.copy_location(ast.If(test=test_, body=st.body, orelse=st.orelse), st)
                for n_ in (asg_, new_):
                    ast.fix_missing_locations(n_)
                stmts = [asg_, new_] + rest
                i = 0
                continue
            if isinstance(st, ast.If) and isinstance(st.test, ast.BoolOp) and len(st.test.values) >= 2 and self.option_test(st.test.values[0], ctx) is not None \
                    and isinstance(st.test.values[0].left, ast.Name) \
                    and self.option_test(st.test.values[0], ctx)[1] == isinstance(st.test.op, ast.Or):
                # `if x is None or B: X else: Y`      ==  `if x is None: X else: (if B: X else: Y)`   (B sees x as a T)
                # `if x is not None and B: X else: Y`  ==  `if x is not None: (if B: X else: Y) else: Y`
                v = st.test
                others = v.values[1:]
                tail = others[0] if len(others) == 1 else ast.copy_location(ast.BoolOp(op=v.op, values=others), v)
                inner = ast.copy_location(ast.If(test=tail, body=st.body, orelse=st.orelse), st)
                if isinstance(v.op, ast.Or):
                    new = ast.If(test=v.values[0], body=st.body, orelse=[inner])
                else:
                    new = ast.If(test=v.values[0], body=[inner], orelse=st.orelse)
                stmts = [ast.copy_location(new, st)] + rest
                i = 0
                continue
            if isinstance(st, ast.If) and self.option_test(st.test, ctx) is not None:
                # a run-time optional: `match x with | some v => … | none => …`; on the `some` path x IS v, on the other None
                subj, none_test = self.option_test(st.test, ctx)
                pre_ = []
                txt_, ty_ = self.expr(subj, ctx, pre_)
                inner_ = ty_[1:]
                out.extend(pre_)
                c_some, c_none = ctx.copy(), ctx.copy()
                if isinstance(subj, ast.Name):
                    pv = lname(subj.id)
                    c_some.bind(subj.id, inner_)
                    c_none.vars[subj.id] = "None"
                else:
                    pv = self.fresh("v")
                    c_some.optknown[subj.attr] = ("some", pv, inner_)
                    c_none.optknown[subj.attr] = ("none",)
                body_some, body_none = (st.orelse, st.body) if none_test else (st.body, st.orelse)
                b1 = self.block(list(body_some) + rest, c_some)
                b2 = self.block(list(body_none) + rest, c_none)
                out.append(("optmatch", txt_, pv, b1, b2))
                return out
            if isinstance(st, ast.If):
                sv = self.static(st.test, ctx)
                if sv is True:
                    stmts = list(st.body) + rest
                    i = 0
                    continue
                if sv is False:
                    stmts = list(st.orelse) + rest
                    i = 0
                    continue
                pre = []
                cond = self.prop(st.test, ctx, pre)
                out.extend(pre)
                c1, c2 = ctx.copy(), ctx.copy()
                b1 = self.block(list(st.body) + rest, c1)
                b2 = self.block(list(st.orelse) + rest, c2)
                out.append(("if", cond, b1, b2))
                return out
            if isinstance(st, (ast.Assign, ast.AnnAssign)) and self.collected_generator(st) is not None:
                # `x = tuple(f(…) for _ in range(n))` (also list(…) / a list comprehension): the elements are produced in order, one
                # per round:  `x = []` ; `for _ in range(n): x.append(f(…))`  (a tuple and a list are the same value here).
                # The list type is the declared one whose elements have the type of f(…) (found by a trial translation).
                init_, loop_ = self.collected_generator(st)
                nm_ = init_.targets[0].id
                saved_ = (self.tmp, set(self.state_calls), set(self.t.ms_writes))
                try:
                    ety_ = self.expr(loop_.body[0].value.args[0], ctx.copy(), [])[1]
                finally:
                    self.tmp, self.state_calls = saved_[0], saved_[1]
                    self.t.ms_writes.clear(); self.t.ms_writes.update(saved_[2])
                cands_ = [ty for ty, cfg in self.g.types.items() if "[]" in cfg.get("fresh", {}) and parse_type(cfg.get("elem", "")) == ety_ and "append" in cfg.get("mutators", {})]
                if len(cands_) != 1:
                    self.bad(st, f"collected generator: {len(cands_)} declared list types hold elements of type {ety_}")
                if nm_ in ctx.constructing:
                    self.bad(st, "rebinding the object under construction")
                ctx.bind(nm_, cands_[0])
                ctx.mutables.add(nm_)
                out.append(("let", lname(nm_), self.g.types[cands_[0]]["fresh"]["[]"], cands_[0]))
                stmts = [loop_] + rest
                i = 0
                continue
            if isinstance(st, ast.Try):
                out.extend(self.do_try(st, rest, ctx))
                return out
            if isinstance(st, ast.Delete) and len(st.targets) == 1 and isinstance(st.targets[0], ast.Subscript) \
                    and self.ms_field(st.targets[0].value, ctx) is not None:
                # `del self.<attr>[k]` on a state attribute whose type declares "delitem" {"lean", "key", "raises"?}
                tg_ = st.targets[0]
                sf = self.ms_field(tg_.value, ctx)
                pre_ = []
                cur, cty = self.state_read(tg_.value, sf, ctx, pre_)
                di = (self.type_cfg(cty) or {}).get("delitem")
                if di is None:
                    self.bad(st, f"`del` of an item of the state attribute {tg_.value.attr} of type {cty}")
                k, kty = self.expr(tg_.slice, ctx, pre_)
                if kty != parse_type(di["key"]):
                    self.bad(st, f"`del` with a key of type {kty}")
                tv = self.fresh("m")
                pre_.append(("bind" if di.get("raises") else "let", tv, f"{di['lean']} {cur} {self.paren(k)}", cty))
                out.extend(pre_)
                out.extend(self.state_assign(st, tg_.value, sf, (tv, cty), ctx))
                i += 1
                continue
            if isinstance(st, ast.With):
                # `with self.__lock:` for a lock the group declares ("locks"): the body, under the stated assumption that the
                # object is used by one thread at a time (acquiring a free lock and releasing it have no other effect; the
                # interleavings of several threads are the subject of the property's own model, not of the translation)
                locks = self.g.cfg.get("locks", [])
                if len(st.items) != 1 or st.items[0].optional_vars is not None or ast.unparse(st.items[0].context_expr) not in locks:
                    self.bad(st, "statement With (only `with <declared lock>:`)")
                stmts = list(st.body) + rest
                i = 0
                continue
            if isinstance(st, (ast.Assign, ast.AnnAssign)) and self.g.cfg.get("locks") \
                    and ast.unparse(st.targets[0] if isinstance(st, ast.Assign) else st.target) in self.g.cfg["locks"] \
                    and isinstance(st.value, ast.Call) and ast.unparse(st.value.func) in ("threading.Lock", "threading.RLock", "Lock", "RLock"):
                i += 1   # the creation of a declared lock: not part of the translated state
                continue
            if isinstance(st, ast.Match):
                stmts = [self.match_as_if(st, ctx)] + rest
                i = 0
                continue
            if isinstance(st, _LoopContinue):
                out.extend(self.loop_continue(st, ctx))
                return out
            if isinstance(st, ast.Break) and getattr(self, "in_loop", False) and self.g.cfg.get("loop_break") and self.cur_loop.get("kind") != "forlist":
                # (T4) leave the loop: what the loop function returns when its test fails, with the values at this point
                lp = self.cur_loop
                for v, ty in lp["carried"]:
                    if ctx.vars.get(v) != ty:
                        self.bad(st, f"loop variable {v} changes its type inside the loop")
                names_ = [lname(v) for v, _ in lp["carried"]]
                tup_ = names_[0] if len(names_) == 1 else "(" + ", ".join(names_) + ")"
                out.append(("ret", f"(none, {tup_})" if lp["early"] else tup_, lp["type"]))
                return out
            if isinstance(st, ast.For) and not self.is_range_for(st):
                out.extend(self.for_over_list(st, ctx))
                i += 1
                continue
            if isinstance(st, ast.For):
                stmts = self.for_as_while(st, ctx) + rest
                i = 0
                continue
            if isinstance(st, ast.While):
                wir = self.do_while(st, ctx)
                if wir and wir[-1][0] == "early":
                    # the loop body can return: `match early with | some v => return v | none => <the rest>`
                    ev = wir[-1][1]
                    out.extend(wir[:-1])
                    # (`while True:` ends only by a return: the loop function never reports "no early return", and the code
                    #  after the loop is dead — that arm is the out-of-domain error)
                    after_ = [("raise", "decimalDomain")] if len(wir[-1]) > 2 and wir[-1][2] else self.block(rest, ctx)
                    out.append(("optret", ev, after_, f"(v', {self.ms_param()})" if self.ms_rw() else "v'"))
                    return out
                out.extend(wir)
                i += 1
                continue
            if isinstance(st, (ast.Assign, ast.AnnAssign, ast.AugAssign)):
                out.extend(self.do_assign(st, ctx))
                i += 1
                continue
            if isinstance(st, ast.Expr):
                out.extend(self.do_expr_stmt(st, ctx))
                i += 1
                continue
            self.bad(st, f"statement {type(st).__name__}")
        # fell off the end: returns None
        if getattr(self, "init_object", None) is not None:
            return out + self.do_return(ast.copy_location(ast.Return(value=ast.Name(id=self.init_object, ctx=ast.Load())), self.node), ctx)
        if self.t.ret == "Unit":
            if getattr(self, "in_loop", False):
                self.bad(self.node, "control reaches the end of the function inside a loop body")
            return out + self.do_return(ast.copy_location(ast.Return(value=None), self.node), ctx)
        self.bad(self.node, "control reaches the end of the function (returns None)")

    # ---- while loops -> fuel-recursive auxiliary functions -------------------------------------------------
    def do_while(self, st: ast.While, ctx: Ctx) -> list:
        t = self.t
        fuel_ = self.fuel_of(st)
        if st.orelse:
            self.bad(st, "while/else")
        if t.dstate:
            self.bad(st, "loop in a function that carries a dict attribute")
        if getattr(self, "in_loop", False):
            self.bad(st, "nested while loop")
        early = False
        for n in ast.walk(st):
            if isinstance(n, ast.Return):
                early = True  # the loop function then also reports whether (and what) the body returned
                continue
            if isinstance(n, ast.Break) and self.g.cfg.get("loop_break"):
                continue   # (T4) `break`: the loop function stops with the current values of the carried variables
            if isinstance(n, (ast.Break, ast.Continue, ast.While, ast.For)) and n is not st:
                self.bad(n, f"{type(n).__name__} inside a while loop")
            if isinstance(n, ast.Lambda) and early:
                self.bad(n, "lambda inside a loop with a return")
        if early and (t.lambda_params or t.dstate):
            self.bad(st, "return inside a loop of a lambda factory / dict-carrying function")
        carried = []
        order = {}
        for n in ast.walk(ast.Module(body=st.body, type_ignores=[])):
            if isinstance(n, ast.Name) and isinstance(n.ctx, ast.Store) and n.id not in carried:
                carried.append(n.id)
            if isinstance(n, ast.Attribute) and isinstance(n.ctx, ast.Store) and self.ms_field(n, ctx) is None:
                self.bad(n, "attribute assignment inside a while loop")
            mut_ = self.mutated_name(n, ctx)
            if mut_ is not None and mut_ not in carried:
                carried.append(mut_)          # `x.extend(…)` / `x[k] = v` on a mutable local: a rebinding of x
                order.setdefault(mut_, (n.lineno, n.col_offset))
        # order of first assignment in the source
        for n in ast.walk(ast.Module(body=st.body, type_ignores=[])):
            if isinstance(n, ast.Name) and isinstance(n.ctx, ast.Store):
                order.setdefault(n.id, (n.lineno, n.col_offset))
        carried.sort(key=lambda x: order[x])
        # a name first bound inside the body and never mentioned after the loop is local to one iteration (every path of
        # the body must assign it before reading it: a read before the assignment is refused as usual)
        body_ids = set(id(n) for n in ast.walk(st))
        def used_after(v):
            return any(isinstance(n, ast.Name) and n.id == v and id(n) not in body_ids
                       and (n.lineno, n.col_offset) > (st.end_lineno, st.end_col_offset) for n in ast.walk(getattr(self, 'scope', self.node)))
        carried = [v for v in carried if v in ctx.vars or v in ctx.constructing or used_after(v)]
        if self.ms_rw():
            carried.append(t.mstate["param"])   # the object's state is threaded through the iterations
        if not carried:
            self.bad(st, "while loop that assigns nothing")
        for v in carried:
            if v not in ctx.vars or ctx.vars[v] in ("None", "Erased", "Str") or v in ctx.constructing:
                self.bad(st, f"loop variable {v} is not defined (with a value type) before the loop")
            if v in ctx.defaults:
                ctx.bind(v, ctx.vars[v])
        read = []
        for n in ast.walk(ast.Module(body=[ast.Expr(value=st.test)] + st.body, type_ignores=[])):
            if isinstance(n, ast.Name) and isinstance(n.ctx, ast.Load) and n.id in ctx.vars and n.id not in carried and n.id not in read \
                    and ctx.vars[n.id] not in ("None", "Erased", "Str") and n.id not in ctx.defaults:
                read.append(n.id)
        if t.mstate and not self.ms_rw():
            read.append(t.mstate["param"])
        ctx.optknown.clear()  # what is known about the state before the loop need not hold at the head of a later iteration
        self.loop_count = getattr(self, "loop_count", 0) + 1
        lp = {"index": self.loop_count, "name": f"{t.lean_name}.loop{self.loop_count}", "line": st.lineno, "early": early,
              "free": [(v, ctx.vars[v]) for v in read], "carried": [(v, ctx.vars[v]) for v in carried]}
        lp["type"] = lp["carried"][0][1] if len(carried) == 1 else tuple(ty for _, ty in lp["carried"])
        # the loop function: if cond then body; recurse else return the carried variables
        lctx = ctx.copy()
        tup = lname(carried[0]) if len(carried) == 1 else "(" + ", ".join(lname(v) for v in carried) + ")"
        cty = lp["carried"][0][1] if len(carried) == 1 else tuple(ty for _, ty in lp["carried"])
        exit_ir = [("ret", f"(none, {tup})" if early else tup, cty)]
        always = isinstance(st.test, ast.Constant) and st.test.value is True
        opt_first = None
        tst = st.test
        if isinstance(tst, ast.BoolOp) and isinstance(tst.op, ast.And) and len(tst.values) >= 2:
            f0 = tst.values[0]
            if isinstance(f0, ast.Compare) and len(f0.ops) == 1 and isinstance(f0.ops[0], ast.IsNot) and isinstance(f0.comparators[0], ast.Constant) \
                    and f0.comparators[0].value is None and isinstance(f0.left, (ast.Attribute, ast.Call)):
                try:
                    saved_ = self.tmp
                    ty0 = self.expr(f0.left, lctx.copy(), [])[1]
                    self.tmp = saved_
                except Unsupported:
                    ty0 = None
                if isinstance(ty0, str) and ty0.startswith("?"):
                    opt_first = f0.left
        self.in_loop, self.cur_loop = True, lp
        try:
            pre = []
            if opt_first is not None:
                # `while A is not None and C: BODY` with A an Optional-valued expression:
                #   match A with | some a => (if C then BODY; again else stop) | none => stop      — C and BODY read A as a
                atxt, aty = self.expr(opt_first, lctx, pre)
                pv = self.fresh("v")
                cs = lctx.copy()
                cs.known_exprs[ast.unparse(opt_first)] = (pv, aty[1:])
                others = tst.values[1:]
                ctest = others[0] if len(others) == 1 else ast.copy_location(ast.BoolOp(op=tst.op, values=others), tst)
                pre2 = []
                cond = self.prop(ctest, cs, pre2)
                body = self.block(list(st.body) + [_LoopContinue()], cs.copy())
                lp["ir"] = pre + [("optmatch", atxt, pv, pre2 + [("if", cond, body, exit_ir)], exit_ir)]
            else:
                cond = self.prop(st.test, lctx, pre)
                body = self.block(list(st.body) + [_LoopContinue()], lctx.copy())
        finally:
            self.in_loop = False
        if always and not early:
            self.bad(st, "`while True` without a return in its body")
        if opt_first is None:
            lp["ir"] = body if always else pre + [("if", cond, body, exit_ir)]
        lp["type"] = cty
        t.loops.append(lp)
        call = " ".join([self.ref(lp["name"])] + [n for n, _, _, _ in t.fun_params] + [lname(n) for n, _ in t.extra_params]
                        + [lname(v) for v in read] + [fuel_] + [lname(v) for v in carried])
        muts_ = set(ctx.mutables)
        for v, ty in lp["carried"]:
            ctx.bind(v, ty)
        ctx.mutables |= muts_ & set(carried)
        ctx.optknown.clear()
        if early:
            ev = f"early'{lp['index']}"
            return [("bind", f"({ev}, {tup})", call, cty), ("early", ev, always)]
        return [("bind", tup, call, cty)]

    def fuel_of(self, st) -> str:
        """the fuel of the loop function a `while` becomes: the target's "loop_fuel" — a positive integer, or a Lean term of
        type Nat over the variables in scope where the loop starts (e.g. "(n.toNat + 1)"), or a list with one entry per loop
        in source order.  Out of fuel is the error `decimalDomain`, which the agreement theorem has to account for, so a
        wrong term cannot make a false theorem provable."""
        f = self.t.loop_fuel
        if isinstance(f, list):
            k = getattr(self, "loop_count", 0)
            f = f[k] if k < len(f) else None
        if isinstance(f, bool) or f is None or (isinstance(f, int) and f <= 0) or not isinstance(f, (int, str)):
            self.bad(st, "statement While (the target declares no loop_fuel)")
        return str(f) if isinstance(f, int) else f"({f})"

    def mutated_name(self, n, ctx: Ctx):
        """the local a statement-level node mutates in place (`x.extend(a)` with a declared mutator, `x[k] = v`), else None"""
        if isinstance(n, ast.Expr) and isinstance(n.value, ast.Call) and isinstance(n.value.func, ast.Attribute) \
                and isinstance(n.value.func.value, ast.Name):
            nm = n.value.func.value.id
            cfg = self.type_cfg(ctx.vars.get(nm))
            if cfg and n.value.func.attr in cfg.get("mutators", {}):
                return nm
        if isinstance(n, ast.Assign) and len(n.targets) == 1 and isinstance(n.targets[0], ast.Subscript) and isinstance(n.targets[0].value, ast.Name):
            nm = n.targets[0].value.id
            cfg = self.type_cfg(ctx.vars.get(nm))
            if cfg and cfg.get("setitem"):
                return nm
        return None

    @staticmethod
    def is_range_for(st: ast.For) -> bool:
        it = st.iter
        return isinstance(it, ast.Call) and isinstance(it.func, ast.Name) and it.func.id == "range"

    def for_over_list(self, st: ast.For, ctx: Ctx) -> list:
        """`for x in <list value>: body` (also `for a, b in …` over a list of pairs) -> a function recursive on the list,
        `loop [] c = c`, `loop (x :: rest) c = body; loop rest c'` (no fuel).  The iterated value is evaluated once and is an
        immutable Lean list, so the body must not mutate what the iterable expression names; x must not be used after the
        loop; no break/continue/return/else; the object's state and every local the body rebinds are carried."""
        t = self.t
        if st.orelse:
            self.bad(st, "for/else")
        if t.dstate or t.lambda_params:
            self.bad(st, "for loop in a lambda factory / dict-carrying function")
        outer_loop = (getattr(self, "in_loop", False), getattr(self, "cur_loop", None))
        for n in ast.walk(st):
            if isinstance(n, ast.For) and n is not st and self.is_range_for(n):
                self.bad(n, "for … in range(…) inside a for loop over a list")
            if isinstance(n, (ast.Break, ast.Continue, ast.While, ast.Return, ast.Lambda)) and n is not st:
                self.bad(n, f"{type(n).__name__} inside a for loop over a list")
        if isinstance(st.target, ast.Name):
            tnames = [st.target.id]
        elif isinstance(st.target, ast.Tuple) and all(isinstance(x, ast.Name) for x in st.target.elts):
            tnames = [x.id for x in st.target.elts]
        else:
            self.bad(st, "for target that is not a name or a tuple of names")
        pre = []
        try:
            itxt, ity = self.expr(st.iter, ctx, pre)
        except Unsupported as u:
            self.bad(st, f"statement For over something other than range(…) or a value of a list type ({u.what})")
        cfg = self.type_cfg(ity)
        if not cfg or "elem" not in cfg:
            self.bad(st, f"statement For over something other than range(…) or a value of a list type (type {ity})")
        ety = parse_type(cfg["elem"])
        if len(tnames) > 1 and not (is_tuple(ety) and len(ety) == len(tnames)):
            self.bad(st, "for target tuple does not fit the element type")
        iter_names = {n.id for n in ast.walk(st.iter) if isinstance(n, ast.Name)}
        body_nodes = set(id(n) for n in ast.walk(st))
        for v in tnames:
            for n in ast.walk(ast.Module(body=st.body, type_ignores=[])):
                if isinstance(n, ast.Name) and n.id == v and isinstance(n.ctx, ast.Store):
                    self.bad(n, "assignment to the loop variable of a for loop")
            for n in self.loads_after(v, st, body_nodes):
                self.bad(n, "use of a for-loop variable after its loop")
            if v in ctx.vars or v in ctx.constructing:
                self.bad(st, f"for-loop variable {v} shadows an existing local")
        carried, order = [], {}
        for n in ast.walk(ast.Module(body=st.body, type_ignores=[])):
            if isinstance(n, ast.Name) and isinstance(n.ctx, ast.Store) and n.id not in carried:
                carried.append(n.id)
                order.setdefault(n.id, (n.lineno, n.col_offset))
            if isinstance(n, ast.Attribute) and isinstance(n.ctx, ast.Store) and self.ms_field(n, ctx) is None:
                self.bad(n, "attribute assignment inside a for loop")
            mut_ = self.mutated_name(n, ctx)
            if mut_ is not None:
                if mut_ in iter_names:
                    self.bad(n, "the loop body mutates the value it iterates over")
                if mut_ not in carried:
                    carried.append(mut_)
                    order.setdefault(mut_, (n.lineno, n.col_offset))
        carried.sort(key=lambda x: order[x])

        def used_after(v):
            return any(isinstance(n, ast.Name) and n.id == v and id(n) not in body_nodes
                       and (n.lineno, n.col_offset) > (st.end_lineno, st.end_col_offset) for n in ast.walk(getattr(self, 'scope', self.node)))
        carried = [v for v in carried if v in ctx.vars or used_after(v)]
        if self.ms_rw():
            carried.append(t.mstate["param"])
        unit_pre = []
        if not carried:
            # a loop of checks (its body only raises or passes): it carries a unit value
            carried = ["unit'"]
            ctx.vars["unit'"] = "Unit"
            unit_pre = [("let", "unit'", "()", "Unit")]
        for v in carried:
            if v not in ctx.vars or ctx.vars[v] in ("None", "Erased", "Str") or v in ctx.constructing:
                self.bad(st, f"loop variable {v} is not defined (with a value type) before the loop")
            if v in ctx.defaults:
                ctx.bind(v, ctx.vars[v])
        read = []
        for n in ast.walk(ast.Module(body=st.body, type_ignores=[])):
            if isinstance(n, ast.Name) and isinstance(n.ctx, ast.Load) and n.id in ctx.vars and n.id not in carried and n.id not in read \
                    and ctx.vars[n.id] not in ("None", "Erased", "Str") and n.id not in ctx.defaults and n.id not in tnames:
                read.append(n.id)
        if t.mstate and not self.ms_rw():
            read.append(t.mstate["param"])
        ctx.optknown.clear()
        self.loop_count = getattr(self, "loop_count", 0) + 1
        lp = {"index": self.loop_count, "name": f"{t.lean_name}.loop{self.loop_count}", "line": st.lineno, "early": False, "kind": "forlist",
              "free": [(v, ctx.vars[v]) for v in read], "carried": [(v, ctx.vars[v]) for v in carried], "elem": ety,
              "pattern": lname(tnames[0]) if len(tnames) == 1 else "(" + ", ".join(lname(v) for v in tnames) + ")"}
        cty = lp["carried"][0][1] if len(carried) == 1 else tuple(ty for _, ty in lp["carried"])
        lp["type"] = cty
        lctx = ctx.copy()
        if len(tnames) == 1:
            lctx.vars[tnames[0]] = ety
        else:
            for v, ty in zip(tnames, ety):
                lctx.vars[v] = ty
        self.in_loop, self.cur_loop = True, lp
        try:
            body = self.block(list(st.body) + [_LoopContinue()], lctx)
        finally:
            self.in_loop, self.cur_loop = outer_loop   # (a list loop may stand inside the body of another list loop)
        lp["ir"] = body
        t.loops.append(lp)
        tup = lname(carried[0]) if len(carried) == 1 else "(" + ", ".join(lname(v) for v in carried) + ")"
        call = " ".join([self.ref(lp["name"])] + [n for n, _, _, _ in t.fun_params] + [lname(n) for n, _ in t.extra_params]
                        + [lname(v) for v in read] + [self.paren(itxt)] + [lname(v) for v in carried])
        muts_ = set(ctx.mutables)
        for v, ty in lp["carried"]:
            ctx.bind(v, ty)
        ctx.mutables |= muts_ & set(carried)
        ctx.optknown.clear()
        return pre + unit_pre + [("bind", tup, call, cty)]

    def collected_generator(self, st):
        tgt = st.targets[0] if isinstance(st, ast.Assign) and len(st.targets) == 1 else getattr(st, "target", None)
        v = getattr(st, "value", None)
        gen = None
        if isinstance(v, ast.Call) and isinstance(v.func, ast.Name) and v.func.id in ("tuple", "list") and len(v.args) == 1 and not v.keywords \
                and isinstance(v.args[0], ast.GeneratorExp) and v.func.id not in self.local_names:
            gen = v.args[0]
        elif isinstance(v, ast.ListComp):
            gen = v
        if gen is None or not isinstance(tgt, ast.Name) or len(gen.generators) != 1:
            return None
        c = gen.generators[0]
        if c.ifs or c.is_async or not isinstance(c.target, ast.Name) or not (isinstance(c.iter, ast.Call) and isinstance(c.iter.func, ast.Name) and c.iter.func.id == "range"):
            return None
        if any(isinstance(n, ast.Name) and n.id == tgt.id for n in ast.walk(gen)):
            return None
        mk = lambda n: ast.copy_location(n, st)  # noqa: E731
        init = mk(ast.Assign(targets=[mk(ast.Name(id=tgt.id, ctx=ast.Store()))], value=mk(ast.List(elts=[], ctx=ast.Load()))))
        app = mk(ast.Expr(value=mk(ast.Call(func=mk(ast.Attribute(value=mk(ast.Name(id=tgt.id, ctx=ast.Load())), attr="append", ctx=ast.Load())), args=[gen.elt], keywords=[]))))
        loop = mk(ast.For(target=mk(ast.Name(id=c.target.id, ctx=ast.Store())), iter=c.iter, body=[app], orelse=[]))
        for n in (init, loop):
            ast.fix_missing_locations(n)
        if hasattr(self, "_alias_free"):
            del self._alias_free
        self._extra_alias_free = getattr(self, "_extra_alias_free", set()) | {id(app.value.func.value)}
        return [init, loop]

    EXC_CLASSES = {
        "ValueError": ["valueError", "unicodeError"], "UnicodeDecodeError": ["unicodeError"], "OverflowError": ["overflowError"],
        "ZeroDivisionError": ["zeroDivision"], "ArithmeticError": ["overflowError", "zeroDivision"],
        "LookupError": ["keyError", "indexError"], "KeyError": ["keyError"], "IndexError": ["indexError"],
        "RuntimeError": ["runtimeError", "notImplemented"], "NotImplementedError": ["notImplemented"], "TypeError": ["typeError"],
        "InvalidPyodaDataError": ["invalidData"], "struct.error": ["structError"],
    }

    def do_try(self, st: ast.Try, rest: list, ctx: Ctx) -> list:
        """`try: BODY except A: raise X(...) [from e]` / `except B: raise` — BODY must end every path in return / raise (nothing
        runs after the try statement); the handlers only translate the exception: the FIRST handler whose classes contain the
        exception BODY raised decides (subclasses as in Python: UnicodeDecodeError is a ValueError, KeyError/IndexError are
        LookupErrors, NotImplementedError is a RuntimeError); an exception no handler names propagates unchanged, and so does
        the out-of-domain marker.  State changes BODY made before raising are lost with the exception, as in every raise."""
        if st.orelse or st.finalbody or not st.handlers:
            self.bad(st, "try with else / finally / without handlers")
        if getattr(self, "in_loop", False):
            self.bad(st, "try inside a loop body")
        handlers = []
        for h in st.handlers:
            if h.type is None:
                self.bad(h, "bare except")
            tnames = [ast.unparse(x) for x in (h.type.elts if isinstance(h.type, ast.Tuple) else [h.type])]
            classes = []
            for tn in tnames:
                if tn not in self.EXC_CLASSES:
                    self.bad(h, f"except {tn}")
                classes += self.EXC_CLASSES[tn]
            if len(h.body) != 1 or not isinstance(h.body[0], ast.Raise):
                self.bad(h, "exception handler that is not a single raise")
            r = h.body[0]
            if r.exc is None:
                target = None
            else:
                if r.cause is not None and not (isinstance(r.cause, ast.Name) and r.cause.id == h.name):
                    self.bad(r, "raise … from something other than the caught exception")
                e = r.exc
                name = e.func.id if isinstance(e, ast.Call) and isinstance(e.func, ast.Name) else (e.id if isinstance(e, ast.Name) else None)
                if name not in EXC_MAP:
                    self.bad(r, f"raise of {ast.unparse(e)[:40]}")
                if isinstance(e, ast.Call):
                    for a_ in list(e.args) + [k_.value for k_ in e.keywords]:
                        parts_ = [v_.value for v_ in a_.values if isinstance(v_, ast.FormattedValue)] if isinstance(a_, ast.JoinedStr) else [a_]
                        for p_ in parts_:
                            if any(isinstance(n_, (ast.Call, ast.Subscript, ast.BinOp, ast.NamedExpr)) for n_ in ast.walk(p_)):
                                self.bad(r, "argument of the exception raised by a handler that could itself raise")
                target = EXC_MAP[name]
            handlers.append((classes, target))
        body = self.block(list(st.body), ctx.copy())
        if not self.ir_always_ends(body):
            self.bad(st, "try whose body can fall through to the statements after it")
        return [("try", body, handlers)]

    def ir_always_ends(self, ir) -> bool:
        if not ir:
            return False
        last = ir[-1]
        k = last[0]
        if k in ("ret", "tail", "raise", "try"):
            return True
        if k == "if":
            return self.ir_always_ends(last[2]) and self.ir_always_ends(last[3])
        if k == "optmatch":
            return self.ir_always_ends(last[3]) and self.ir_always_ends(last[4])
        if k == "optret":
            return self.ir_always_ends(last[2])
        return False

    def match_as_if(self, st: ast.Match, ctx: Ctx):
        """`match subject:` over integer literal patterns (`case 1:`, `case 2 | 4 | 6:`, `case _:`) is the chain
        `if subject == 1: … elif subject == 2 or subject == 4 or subject == 6: … else: …` (no case matching = fall
        through).  The subject must be a name / attribute chain (evaluated once, without effect)."""
        if not self.is_pure_simple(st.subject) or isinstance(st.subject, ast.Constant):
            self.bad(st, "match on a subject that is not a simple name/attribute")
        def lits(pat):
            if isinstance(pat, ast.MatchValue) and isinstance(pat.value, ast.Constant) and isinstance(pat.value.value, int) and not isinstance(pat.value.value, bool):
                return [pat.value]
            if isinstance(pat, ast.MatchValue) and isinstance(pat.value, ast.UnaryOp) and isinstance(pat.value.op, ast.USub) and isinstance(pat.value.operand, ast.Constant) \
                    and isinstance(pat.value.operand.value, int):
                return [pat.value]
            if isinstance(pat, ast.MatchValue) and isinstance(pat.value, ast.Attribute):
                cv = self.const_of(pat.value, ctx)   # `case Cls.Inner.NAME:` — a class-level integer constant
                if cv is not None and not isinstance(cv, bool):
                    return [ast.copy_location(ast.Constant(value=cv), pat.value)]
            if isinstance(pat, ast.MatchOr):
                r = []
                for q in pat.patterns:
                    r += lits(q)
                return r
            self.bad(pat, f"match pattern {type(pat).__name__} (only integer literals, `|` of them and `_`)")
        chain = []   # [(test or None, body)]
        for k, case in enumerate(st.cases):
            if case.guard is not None:
                self.bad(case.pattern, "match case with a guard")
            if isinstance(case.pattern, ast.MatchAs) and case.pattern.pattern is None and case.pattern.name is None:
                if k != len(st.cases) - 1:
                    self.bad(case.pattern, "wildcard case that is not the last one")
                chain.append((None, case.body))
                continue
            tests = [ast.copy_location(ast.Compare(left=st.subject, ops=[ast.Eq()], comparators=[v]), case.pattern) for v in lits(case.pattern)]
            test = tests[0] if len(tests) == 1 else ast.copy_location(ast.BoolOp(op=ast.Or(), values=tests), case.pattern)
            chain.append((test, case.body))
        node = None
        for test, body in reversed(chain):
            if test is None:
                node = list(body)
            else:
                node = [ast.copy_location(ast.If(test=test, body=list(body), orelse=node if node is not None else []), st)]
        if node is None or not isinstance(node[0], ast.If):
            # only a wildcard: its body runs unconditionally
            return ast.copy_location(ast.If(test=ast.copy_location(ast.Constant(value=True), st), body=node or [ast.Pass()], orelse=[]), st)
        return node[0]

    def for_as_while(self, st: ast.For, ctx: Ctx) -> list:
        """`for i in range([lo,] hi): body`  ==  `i = lo; hi' = hi; while i < hi': body; i += 1`
        (valid because the body may not assign i, and range() evaluates its arguments once).  After the loop Python
        leaves i at the last value taken; the rewritten loop leaves it one further, so i must not be read afterwards:
        the translator renames it to a name no Python code can mention."""
        if st.orelse or not isinstance(st.target, ast.Name):
            self.bad(st, "for/else or a tuple target")
        it = st.iter
        if not (isinstance(it, ast.Call) and isinstance(it.func, ast.Name) and it.func.id == "range" and not it.keywords and 1 <= len(it.args) <= 2):
            self.bad(st, "statement For over something other than range(hi) / range(lo, hi)")
        var = st.target.id
        for n in ast.walk(ast.Module(body=st.body, type_ignores=[])):
            if isinstance(n, ast.Name) and n.id == var and isinstance(n.ctx, ast.Store):
                self.bad(n, "assignment to the loop variable of a for loop")
        # uses of the loop variable after the loop would see a different value: forbid them
        body_nodes = set(id(n) for n in ast.walk(st))
        for n in self.loads_after(var, st, body_nodes):
            self.bad(n, "use of a for-loop variable after its loop")
        lo = it.args[0] if len(it.args) == 2 else ast.Constant(value=0)
        hi = it.args[-1]
        self.for_count = getattr(self, "for_count", 0) + 1
        hi_name = f"range_hi_{self.for_count}_"
        if hi_name in self.local_names:
            self.bad(st, "name clash with the translator's range bound")
        self.assigned_names.add(hi_name)
        mk = lambda n: ast.copy_location(n, st)  # noqa: E731
        init = [mk(ast.Assign(targets=[mk(ast.Name(id=var, ctx=ast.Store()))], value=lo)),
                mk(ast.Assign(targets=[mk(ast.Name(id=hi_name, ctx=ast.Store()))], value=hi))]
        test = mk(ast.Compare(left=mk(ast.Name(id=var, ctx=ast.Load())), ops=[ast.Lt()], comparators=[mk(ast.Name(id=hi_name, ctx=ast.Load()))]))
        step = mk(ast.AugAssign(target=mk(ast.Name(id=var, ctx=ast.Store())), op=ast.Add(), value=mk(ast.Constant(value=1))))
        loop = mk(ast.While(test=test, body=list(st.body) + [step], orelse=[]))
        for n in init + [loop]:
            ast.fix_missing_locations(n)
        return init + [loop]

    def loads_after(self, var: str, loop, body_nodes: set) -> list:
        """reads of `var` that come after `loop` in the translated statements and could see the value the loop left in it: not
        those inside a LATER loop / comprehension that binds `var` itself as its target (they read that binding)"""
        found = []

        def visit(n):
            if isinstance(n, (ast.For, ast.comprehension)) and n is not loop and id(n) not in body_nodes \
                    and any(isinstance(m, ast.Name) and m.id == var for m in ast.walk(n.target)):
                visit(n.iter)   # the iterable is evaluated before the rebinding
                return
            if isinstance(n, (ast.ListComp, ast.SetComp, ast.DictComp, ast.GeneratorExp)) \
                    and any(isinstance(m, ast.Name) and m.id == var for g in n.generators for m in ast.walk(g.target)):
                for g in n.generators[:1]:
                    visit(g.iter)
                return
            if isinstance(n, ast.Name) and n.id == var and isinstance(n.ctx, ast.Load) and id(n) not in body_nodes \
                    and (n.lineno, n.col_offset) > (loop.end_lineno, loop.end_col_offset):
                found.append(n)
            for c in ast.iter_child_nodes(n):
                visit(c)
        visit(getattr(self, "scope", self.node))
        return found

    def loop_continue(self, st, ctx: Ctx) -> list:
        lp = self.cur_loop
        for v, ty in lp["carried"]:
            if ctx.vars.get(v) != ty:
                self.bad(self.node, f"loop variable {v} changes its type inside the loop")
        t = self.t
        call = " ".join([self.ref(lp["name"])] + [n for n, _, _, _ in t.fun_params] + [lname(n) for n, _ in t.extra_params]
                        + [lname(v) for v, _ in lp["free"]] + ["rest'" if lp.get("kind") == "forlist" else "fuel'"] + [lname(v) for v, _ in lp["carried"]])
        return [("tail", call, lp["type"])]

    def require_plain_truthiness(self, node, ty: str):
        """an object of the class behind type `ty` is truthy (its class defines neither __bool__ nor __len__)"""
        pyc = self.g.types[ty].get("py_class", ty)
        r = self.src.lookup_global(self.file, pyc, self.local_imports)
        if not r or r[0] != "class":
            self.bad(node, f"truthiness of a {pyc}: its class cannot be found from this file")
        todo, seen = [(r[1], r[2])], set()
        while todo:
            rel, cls = todo.pop()
            if (rel, cls.name) in seen:
                continue
            seen.add((rel, cls.name))
            for st_ in cls.body:
                if isinstance(st_, ast.FunctionDef) and st_.name in ("__bool__", "__len__"):
                    self.bad(node, f"truthiness of a {pyc}, whose class defines {st_.name}")
            todo.extend(self.src.class_bases(rel, cls))

    def alias_free_uses(self) -> set:
        """ids of the Name nodes of this function in positions that cannot create an alias of a mutable object: receiver of
        a method call, argument of len(), subscripted value, the value of a `return`"""
        if not hasattr(self, "_alias_free"):
            ok = set()
            for n in ast.walk(self.node):
                if isinstance(n, ast.Call) and isinstance(n.func, ast.Attribute) and isinstance(n.func.value, ast.Name):
                    ok.add(id(n.func.value))
                if isinstance(n, ast.Call) and isinstance(n.func, ast.Name) and n.func.id == "len" and len(n.args) == 1 and isinstance(n.args[0], ast.Name):
                    ok.add(id(n.args[0]))
                if isinstance(n, ast.Subscript) and isinstance(n.value, ast.Name):
                    ok.add(id(n.value))
                if isinstance(n, ast.Compare):
                    for op_, c_ in zip(n.ops, n.comparators):
                        if isinstance(op_, (ast.In, ast.NotIn)) and isinstance(c_, ast.Name):
                            ok.add(id(c_))   # `x in s`: a membership test of the current value
                if isinstance(n, ast.For) and isinstance(n.iter, ast.Name):
                    ok.add(id(n.iter))   # iterated over as the value it has when the loop starts (the body may not mutate it)
                if isinstance(n, (ast.Return, ast.Yield)) and n.value is not None and (isinstance(n, ast.Return) or self.t.d.get("generator_step")):
                    for m_ in ast.walk(n.value):   # the function (one step of the generator) ends here: nothing can be mutated afterwards
                        if isinstance(m_, ast.Name):
                            ok.add(id(m_))
            self._alias_free = ok
        return self._alias_free | getattr(self, "_extra_alias_free", set())

    def is_pure_simple(self, e) -> bool:
        """a name, literal or attribute chain on a name: evaluating it twice is evaluating it once"""
        while isinstance(e, ast.Attribute):
            e = e.value
        return isinstance(e, (ast.Name, ast.Constant))

    def needs_statement_form(self, ie, ctx: Ctx) -> bool:
        """Does a branch of this conditional expression (or a later operand of this and/or/chained comparison) contain
        something that must be hoisted (a raising call, a table lookup)?  Decided by a trial translation on a copy of
        the state."""
        if isinstance(ie, ast.IfExp) and self.static(ie.test, ctx) is not None:
            return False
        if not isinstance(ie, ast.IfExp) and self.static(ie, ctx) is not None:
            return False
        saved = self.tmp
        try:
            self.expr(ie, ctx.copy(), [], cond=False)
            self.tmp = saved
            return False
        except Unsupported as u:
            self.tmp = saved
            return "conditionally evaluated position" in u.what

    def exc_of(self, st: ast.Raise) -> str:
        e = st.exc
        if e is None or st.cause is not None:
            self.bad(st, "re-raise / raise from")
        name = None
        if isinstance(e, ast.Call) and isinstance(e.func, ast.Name):
            name = e.func.id
        elif isinstance(e, ast.Name):
            name = e.id
        if name not in EXC_MAP:
            self.bad(st, f"raise of {ast.unparse(e)[:40]}")
        return EXC_MAP[name]

    def do_return(self, st: ast.Return, ctx: Ctx) -> list:
        ir = self.do_return_plain(st, ctx)
        t = self.t
        if getattr(self, "in_loop", False):
            # a return inside a loop body: the loop function stops and reports the value
            lp = self.cur_loop
            names = [lname(v) for v, _ in lp["carried"]]
            tup = names[0] if len(names) == 1 else "(" + ", ".join(names) + ")"
            last = ir[-1]
            if last[0] == "ret":
                return ir[:-1] + [("ret", f"(some {self.paren(last[1])}, {tup})", lp["type"])]
            if last[0] == "tail":
                tv = self.fresh("r")
                return ir[:-1] + [("bind", tv, last[1], last[2]), ("ret", f"(some {tv}, {tup})", lp["type"])]
            return ir
        if (t.dstate and t.dstate["mode"] == "rw" and not getattr(self, "in_lambda", False)) or self.ms_rw():
            # the function also returns the dict it may have stored into / the final state of the object
            sp = lname(t.dstate["param"]) if t.dstate else self.ms_param()
            last = ir[-1]
            if last[0] == "ret":
                ir = ir[:-1] + [("ret", f"({last[1]}, {sp})", (last[2], "state"))]
            elif last[0] == "tail":
                tv = self.fresh("r")
                ir = ir[:-1] + [("bind", tv, last[1], last[2]), ("ret", f"({tv}, {sp})", (last[2], "state"))]
            elif last[0] != "raise":
                self.bad(st, "return form not supported in a function with a stored-into dict")
        return ir

    def do_return_plain(self, st: ast.Return, ctx: Ctx) -> list:
        t = self.t
        if st.value is None or (isinstance(st.value, ast.Constant) and st.value.value is None):
            if getattr(self, "init_object", None) is not None:
                return self.do_return(ast.copy_location(ast.Return(value=ast.Name(id=self.init_object, ctx=ast.Load())), st), ctx)
            if t.ret == "Unit":
                return [("ret", "()", "Unit")]
            if isinstance(t.ret, str) and t.ret.startswith("?"):
                return [("ret", "none", t.ret)]
            self.bad(st, "return None")
        v = st.value
        if isinstance(v, ast.Name) and v.id == "NotImplemented":
            self.bad(st, "reachable `return NotImplemented`")
        if isinstance(v, ast.Lambda) and t.lambda_params and not getattr(self, "in_lambda", False):
            # `return lambda p: e` of a target that declares lambda_params: the generated definition is the uncurried
            # function, f(args)(p) = f' args p.  Everything before this statement runs when the factory is called,
            # e when the lambda is called; both are pure up to exceptions, and an exception of the factory part
            # precedes any of the lambda part in both readings.
            la = v.args
            if la.vararg or la.kwarg or la.kwonlyargs or la.defaults or la.kw_defaults or la.posonlyargs:
                self.bad(st, "lambda with defaults / *args / keyword-only parameters")
            names = [a.arg for a in la.args]
            if names != [n for n, _ in t.lambda_params]:
                self.bad(st, f"lambda parameters {names} differ from the declared lambda_params {[n for n, _ in t.lambda_params]}")
            for n in names:
                if n in self.local_names or n in ctx.constructing:
                    self.bad(st, f"lambda parameter {n} shadows a local name of the enclosing function")
            if getattr(self, "in_loop", False):
                self.bad(st, "lambda inside a loop")
            c2 = ctx.copy()
            for n, ty in t.lambda_params:
                c2.vars[n] = ty
            self.in_lambda = True
            try:
                return self.block([ast.copy_location(ast.Return(value=v.body), st)], c2)
            finally:
                self.in_lambda = False
        # object under construction
        if isinstance(v, ast.Name) and v.id in ctx.constructing:
            ty = ctx.constructing[v.id]
            fields = self.g.types[ty]["fields"]
            missing = [f for f in fields if (v.id, f) not in ctx.fields]
            if missing:
                self.bad(st, f"object returned with unassigned field(s) {missing}")
            self.check_ret(st, ty)
            return [("ret", "⟨" + ", ".join(self.field_var(v.id, f) for f in fields) + "⟩", ty)]
        pre = []
        # tail call of a raising function
        opt = isinstance(t.ret, str) and t.ret.startswith("?")
        if isinstance(v, ast.Call):
            call = self.call(v, ctx, pre, want_raw=True)
            if call[0] == "raising":
                _, txt, ty = call
                if opt and ty == t.ret[1:]:
                    tv = self.fresh("r")
                    return pre + [("bind", tv, txt, ty), ("ret", f"some {tv}", t.ret)]
                self.check_ret(st, ty)
                return pre + [("tail", txt, ty)]
            _, txt, ty = call
        else:
            txt, ty = self.expr(v, ctx, pre)
            if pre and pre[-1][0] == "bind" and pre[-1][1] == txt and not (opt and pre[-1][3] == t.ret[1:]):
                # the value is exactly the result of the last raising call: return the call itself
                _, _, calltxt, cty = pre.pop()
                self.check_ret(st, cty)
                return pre + [("tail", calltxt, cty)]
        if t.ret == "Bool" and ty == "Prop":
            txt, ty = f"decide ({strip_parens(txt)})", "Bool"
        if opt and ty == t.ret[1:]:
            return pre + [("ret", f"some {self.paren(txt)}", t.ret)]
        self.check_ret(st, ty)
        return pre + [("ret", txt, ty)]

    def check_ret(self, node, ty):
        if ty != self.t.ret:
            self.bad(node, f"return type {ty} differs from the declared {self.t.ret}")

    def field_var(self, obj: str, field: str) -> str:
        return f"{obj}'{field}"

    def noreturn_helper(self, st):
        """`helper(...)` as a statement where the target list says the helper always raises -> the exception name"""
        v = getattr(st, "value", None)
        if isinstance(st, ast.Expr) and isinstance(v, ast.Call):
            h = self.g.helpers.get(ast.unparse(v.func))
            if isinstance(h, dict) and h.get("noreturn"):
                return h["noreturn"]
        return None

    def do_expr_stmt(self, st: ast.Expr, ctx: Ctx) -> list:
        v = st.value
        if not isinstance(v, ast.Call):
            self.bad(st, "expression statement that is not a call")
        pre = []
        h_ = self.g.helpers.get(ast.unparse(v.func))
        if isinstance(h_, dict) and h_.get("noop"):
            # a call the target list declares to have no effect for the declared argument types (`_check_not_null(x, "x")`
            # of an object that is never None here); its arguments must be plain names / literals
            for a_ in list(v.args) + [k_.value for k_ in v.keywords]:
                if not (self.is_pure_simple(a_) or isinstance(a_, ast.JoinedStr)):
                    self.bad(st, "argument of a no-op helper that is not a plain name / literal")
            return []
        mut = self.mutator_stmt(st, ctx, pre)
        if mut is not None:
            return mut
        kind, txt, ty = self.call(v, ctx, pre, want_raw=True)
        if id(v) in self.state_calls:
            return pre   # (result, state) was bound where the call stands; the result of a statement is dropped
        if kind != "raising":
            if id(v) in getattr(self, "pure_translated_calls", ()):
                # a translated function has no side effects; one that cannot raise either has no effect as a statement
                # (e.g. `_Preconditions._check_not_null(x, "x")` with x of a declared, non-None type)
                return pre
            self.bad(st, "call statement of a function that cannot raise (no effect)")
        if ty != "Unit":
            self.bad(st, f"discarded result of type {ty}")
        return pre + [("bind", None, txt, ty)]

    def mutator_stmt(self, st: ast.Expr, ctx: Ctx, pre: list):
        """`x.extend(a)` on a fresh mutable local / `self.<attr>.append(a)` on a state attribute, where the type declares the
        method as a mutator {"lean": f, "arg_types": [...]}: x (the state field) becomes `f x a`"""
        v = st.value
        if not (isinstance(v.func, ast.Attribute) and not v.keywords):
            return None
        recv = v.func.value
        if isinstance(recv, ast.Name) and recv.id in ctx.vars:
            ty = ctx.vars[recv.id]
            mu = (self.type_cfg(ty) or {}).get("mutators", {}).get(v.func.attr)
            if mu is None:
                return None
            if recv.id not in ctx.mutables:
                self.bad(st, f"{recv.id}.{v.func.attr}(…): {recv.id} is not a fresh local object of this function (the caller would see the change)")
            args = self.mutator_args(st, mu, v, ctx, pre)
            ctx.bind(recv.id, ty)
            ctx.mutables.add(recv.id)
            return pre + [("let", lname(recv.id), " ".join([mu["lean"], lname(recv.id)] + args), ty)]
        sf = self.ms_field(recv, ctx)
        if sf is not None:
            k_ = ctx.optknown.get(recv.attr)
            cty_ = k_[2] if k_ is not None and k_[0] == "some" else sf[1]
            mu = (self.type_cfg(cty_) or {}).get("mutators", {}).get(v.func.attr)
            if mu is None:
                return None
            cur, cty = self.state_read(recv, sf, ctx, pre)
            args = self.mutator_args(st, mu, v, ctx, pre)
            tv = self.fresh("m")
            pre.append(("let", tv, " ".join([mu["lean"], cur] + args), cty))
            return pre + self.state_assign(st, recv, sf, (tv, cty), ctx)
        return None

    def mutator_args(self, st, mu, v, ctx, pre):
        want = [parse_type(x) for x in mu.get("arg_types", [])]
        if len(v.args) != len(want):
            self.bad(st, f"mutator {v.func.attr}: arity")
        args = []
        for a, w in zip(v.args, want):
            txt, ty = self.expr(a, ctx, pre)
            if ty != w:
                self.bad(st, f"mutator {v.func.attr}: argument of type {ty}, expected {w}")
            args.append(self.paren(txt))
        return args

    def do_assign(self, st, ctx: Ctx) -> list:
        pre = []
        if isinstance(st, ast.AugAssign):
            target = st.target
            load = ast.copy_location(ast.BinOp(left=self.as_load(target), op=st.op, right=st.value), st)
            value = load
        elif isinstance(st, ast.AnnAssign):
            target, value = st.target, st.value
        else:
            if len(st.targets) != 1:
                self.bad(st, "chained assignment")
            target, value = st.targets[0], st.value
        # constructor idiom
        if isinstance(target, ast.Name) and self.is_new_object(value):
            ty = self.own_struct()
            if ty is None:
                self.bad(st, "object construction in a class without a declared struct type")
            ctx.constructing[target.id] = ty
            ctx.vars.pop(target.id, None)
            return []
        if isinstance(target, ast.Tuple) and isinstance(value, ast.Tuple) and len(value.elts) == len(target.elts) \
                and any(self.ms_field(e, ctx) is not None for e in target.elts) and not isinstance(st, ast.AugAssign):
            # `a, self.x = (v1, v2)`: every value is evaluated first (left to right), then the targets are assigned left to right
            vals = []
            out = []
            for x in value.elts:
                if isinstance(x, ast.Constant) and x.value is None:
                    vals.append(("none", "None"))
                    continue
                pre_ = []
                txt, ty = self.expr(x, ctx, pre_)
                out.extend(pre_)
                tv = self.fresh("tup")
                out.append(("let", tv, txt, ty))
                vals.append((tv, ty))
            for tg_, (tv, ty) in zip(target.elts, vals):
                sf = self.ms_field(tg_, ctx)
                if sf is not None:
                    out.extend(self.state_assign(st, tg_, sf, (tv, ty), ctx))
                elif isinstance(tg_, ast.Name) and tg_.id not in ctx.constructing:
                    if ty in ("None", "Erased", "Str"):
                        self.bad(st, f"assignment of a value of type {ty}")
                    if ty == "Prop":
                        tv, ty = f"decide ({strip_parens(tv)})", "Bool"
                    out.append(("let", lname(tg_.id), tv, ty))
                    ctx.bind(tg_.id, ty)
                else:
                    self.bad(st, "tuple target element that is neither a name nor a state attribute")
            return out
        if isinstance(target, ast.Tuple):
            names = []
            for e in target.elts:
                if not isinstance(e, ast.Name):
                    self.bad(st, "tuple target element that is not a name")
                names.append(e.id)
            if isinstance(value, ast.Call) and isinstance(value.func, ast.Name) and value.func.id == "divmod" and len(names) == 2:
                a, d = self.divmod_args(value, ctx, pre)
                out = pre + [("let", lname(names[0]), f"Int.fdiv {a} {d}", "Int"), ("let", lname(names[1]), f"Int.fmod {a} {d}", "Int")]
                ctx.bind(names[0], "Int"); ctx.bind(names[1], "Int")
                return out
            if isinstance(value, ast.Call):
                kind, txt, ty = self.call(value, ctx, pre, want_raw=True)
                if not is_tuple(ty) or len(ty) != len(names):
                    self.bad(st, "tuple assignment from a non-tuple or wrong arity")
                pat = "(" + ", ".join(lname(n) for n in names) + ")"
                for n, tt in zip(names, ty):
                    ctx.bind(n, tt)
                return pre + [("bind" if kind == "raising" else "let", pat, txt, ty)]
            if isinstance(value, ast.Tuple) and len(value.elts) == len(names):
                vals = [self.expr(e, ctx, pre) for e in value.elts]
                out = list(pre)
                tmps = []
                for (txt, ty) in vals:  # simultaneous assignment: evaluate all, then bind
                    tv = self.fresh("tup")
                    tmps.append((tv, ty))
                    out.append(("let", tv, txt, ty))
                for n, (tv, ty) in zip(names, tmps):
                    out.append(("let", lname(n), tv, ty))
                    ctx.bind(n, ty)
                return out
            self.bad(st, "tuple assignment")
        if isinstance(target, ast.Attribute):
            if isinstance(target.value, ast.Name) and target.value.id in ctx.constructing:
                obj = target.value.id
                sty = ctx.constructing[obj]
                field = self.g.types[sty].get("attrs", {}).get(target.attr)
                if field is None and target.attr in self.g.types[sty].get("ignore_attrs", []):
                    # an attribute the state structure leaves out (a callable handed to the constructor: it is an abstract
                    # callee of the methods); its value must be a plain name
                    if not self.is_pure_simple(value):
                        self.bad(st, f"value of the ignored attribute {target.attr} is not a plain name")
                    return []
                if field is None:
                    self.bad(st, f"assignment to unknown field {target.attr} of {sty}")
                fr_ = self.fresh_object(value)
                if fr_ is not None:
                    # a fresh builtin container (`deque()`, `{}`) stored in a field of the new object
                    ctx.fields[(obj, field)] = fr_[1]
                    return [("let", self.field_var(obj, field), fr_[0], fr_[1])]
                fty_ = parse_type(self.g.types[sty].get("field_types", {}).get(field, "Int"))
                if isinstance(fty_, str) and fty_.startswith("?"):
                    # an optional field: None -> none, a value of the inner type -> some
                    if isinstance(value, ast.Constant) and value.value is None:
                        kind, txt, ty = "pure", "none", fty_
                    else:
                        kind, txt, ty = self.value_for_bind(value, ctx, pre)
                        if kind == "raising":
                            tv_ = self.fresh()
                            pre.append(("bind", tv_, txt, ty))
                            kind, txt = "pure", tv_
                        if ty == fty_[1:]:
                            txt, ty = f"some {self.paren(txt)}", fty_
                        elif ty == "None":
                            txt, ty = "none", fty_
                        elif ty != fty_:
                            self.bad(st, f"value of type {ty} stored into the optional field {field}")
                    ctx.fields[(obj, field)] = ty
                    return pre + [("let", self.field_var(obj, field), f"({txt} : {self.g.lean_type(fty_)})", ty)]
                kind, txt, ty = self.value_for_bind(value, ctx, pre)
                ctx.fields[(obj, field)] = ty
                return pre + [("bind" if kind == "raising" else "let", self.field_var(obj, field), txt, ty)]
            sf = self.ms_field(target, ctx)
            if sf is not None:
                return self.state_assign(st, target, sf, value, ctx)
            ms_py_ = (self.t.mstate or {}).get("py_param")
            if isinstance(target, ast.Attribute) and ms_py_ is not None and isinstance(target.value, ast.Name) and target.value.id == ms_py_ \
                    and ctx.vars.get(ms_py_) == "Erased" and f"{ms_py_}.{target.attr}.setter" in self.g.helpers:
                # (T4) `buffer.length = v` / `buffer.length -= 1` on the state object handed in as a parameter: the declared property
                # setter (a state helper); for the augmented form the getter is evaluated first, as Python does
                v, vty = self.expr(value, ctx, pre)
                kind, txt, ty = self.helper_call(st, self.g.helpers[f"{ms_py_}.{target.attr}.setter"], [(v, vty)], {}, ctx, pre, False, True)
                if id(st) in self.state_calls:
                    return pre
                self.bad(st, "property setter helper that does not change the state")
            self.bad(st, f"assignment to attribute {ast.unparse(target)}")
        st_ = self.t.dstate
        if isinstance(target, ast.Subscript) and st_ and ast.unparse(target.value) == st_["attr"] and not isinstance(st, ast.AugAssign):
            if st_["mode"] != "rw":
                self.bad(st, "store into a dict the target declares read-only")
            if getattr(self, "in_loop", False):
                self.bad(st, "dict store inside a loop")
            idx, ity = self.expr(target.slice, ctx, pre)
            val, vty = self.expr(value, ctx, pre)
            if ity != "Int" or vty != parse_type(st_["elem"]):
                self.bad(st, f"dict store of a {vty} under a key of type {ity}")
            sp = lname(st_["param"])
            return pre + [("let", sp, f"Pyoda.Gen.PyDict.set {sp} {self.paren(idx)} {self.paren(val)}", parse_type(st_["type"]))]
        if isinstance(target, ast.Subscript) and not isinstance(st, ast.AugAssign) and self.ms_field(target.value, ctx) is not None:
            # `self.<attr>[k] = v` on a state attribute whose type declares "setitem": the field becomes the updated value
            sf = self.ms_field(target.value, ctx)
            cur, cty = self.state_read(target.value, sf, ctx, pre)
            si = (self.type_cfg(cty) or {}).get("setitem")
            if si is None:
                self.bad(st, f"item store into the state attribute {target.value.attr} of type {cty}")
            k, kty = self.expr(target.slice, ctx, pre)
            v, vty = self.expr(value, ctx, pre)
            if kty != parse_type(si["key"]) or vty != parse_type(si["val"]):
                self.bad(st, f"item store of a {vty} under a key of type {kty}")
            tv = self.fresh("m")
            pre.append(("let", tv, f"{si['lean']} {cur} {self.paren(k)} {self.paren(v)}", cty))
            return pre + self.state_assign(st, target.value, sf, (tv, cty), ctx)
        if isinstance(target, ast.Name) and isinstance(value, ast.Call) and isinstance(value.func, ast.Attribute) and not value.keywords \
                and not isinstance(st, ast.AugAssign) and self.ms_field(value.func.value, ctx) is not None:
            # `x = self.<attr>.popleft()`: a declared mutator WITH a result ("returns"): `(x, new value) ← f current args`
            sf = self.ms_field(value.func.value, ctx)
            k_ = ctx.optknown.get(value.func.value.attr)
            cty_ = k_[2] if k_ is not None and k_[0] == "some" else sf[1]
            mu = (self.type_cfg(cty_) or {}).get("mutators", {}).get(value.func.attr)
            if mu is not None and mu.get("returns"):
                cur, cty = self.state_read(value.func.value, sf, ctx, pre)
                args = self.mutator_args(st, mu, value, ctx, pre)
                rty = parse_type(mu["returns"])
                tv = self.fresh("m")
                if target.id in ctx.constructing:
                    self.bad(st, "rebinding the object under construction")
                pre.append(("bind" if mu.get("raises") else "let", f"({lname(target.id)}, {tv})", " ".join([mu["lean"], cur] + args), (rty, cty)))
                ctx.bind(target.id, rty)
                return pre + self.state_assign(st, value.func.value, sf, (tv, cty), ctx)
        if isinstance(target, ast.Subscript) and isinstance(target.value, ast.Name) and not isinstance(st, ast.AugAssign) \
                and (self.type_cfg(ctx.vars.get(target.value.id)) or {}).get("setitem"):
            # `x[k] = v` on a mutable local created in this function: x is rebound to the updated value
            nm = target.value.id
            si = self.type_cfg(ctx.vars[nm])["setitem"]
            if nm not in ctx.mutables:
                self.bad(st, f"item store into {nm}, which is not a fresh local object of this function")
            k, kty = self.expr(target.slice, ctx, pre)
            v, vty = self.expr(value, ctx, pre)
            if kty != parse_type(si["key"]) or vty != parse_type(si["val"]):
                self.bad(st, f"item store of a {vty} under a key of type {kty}")
            ty = ctx.vars[nm]
            ctx.bind(nm, ty)
            ctx.mutables.add(nm)
            return pre + [("let", lname(nm), f"{si['lean']} {lname(nm)} {self.paren(k)} {self.paren(v)}", ty)]
        if not isinstance(target, ast.Name):
            self.bad(st, f"assignment target {type(target).__name__}")
        if target.id in ctx.constructing:
            self.bad(st, "rebinding the object under construction")
        if isinstance(value, ast.Constant) and value.value is None and not isinstance(st, ast.AugAssign) and target.id not in self.loop_carried_names():
            # `x = None` on a straight-line path (paths are never joined: tail duplication): x is statically None from here
            # on — `x is None` is decided, passing x selects the None specialisation / the `none` of an optional parameter,
            # any use as a value is refused
            ctx.bind(target.id, "None")
            ctx.mutables.discard(target.id)
            return []
        fr = self.fresh_object(value, getattr(st, "annotation", None))
        if fr is not None and not isinstance(st, ast.AugAssign):
            ctx.bind(target.id, fr[1])
            ctx.mutables.add(target.id)
            return [("let", lname(target.id), fr[0], fr[1])]
        kind, txt, ty = self.value_for_bind(value, ctx, pre)
        if ty in ("None", "Erased", "Str"):
            self.bad(st, f"assignment of a value of type {ty}")
        if ty == "Prop":
            txt, ty = f"decide ({strip_parens(txt)})", "Bool"
        ctx.bind(target.id, ty)
        return pre + [("bind" if kind == "raising" else "let", lname(target.id), txt, ty)]

    def value_for_bind(self, value, ctx, pre):
        if isinstance(value, ast.Call):
            return self.call(value, ctx, pre, want_raw=True)
        txt, ty = self.expr(value, ctx, pre)
        if pre and pre[-1][0] == "bind" and pre[-1][1] == txt:
            _, _, calltxt, cty = pre.pop()
            return ("raising", calltxt, cty)
        return ("pure", txt, ty)

    def as_load(self, target):
        if isinstance(target, ast.Name):
            return ast.copy_location(ast.Name(id=target.id, ctx=ast.Load()), target)
        if isinstance(target, ast.Attribute):
            return ast.copy_location(ast.Attribute(value=target.value, attr=target.attr, ctx=ast.Load()), target)
        self.bad(target, "augmented assignment target")

    def loop_carried_names(self):
        """names assigned inside a loop of the function being translated (their static type must not change there)"""
        if getattr(self, "_loop_assigned", None) is None:
            names = set()
            for n in ast.walk(getattr(self, "scope", self.node)):
                if isinstance(n, (ast.While, ast.For)):
                    for m in ast.walk(n):
                        if isinstance(m, ast.Name) and isinstance(m.ctx, ast.Store):
                            names.add(m.id)
            self._loop_assigned = names
        return self._loop_assigned

    def fresh_object(self, v, ann=None):
        """`bytearray()`, `{}`, `[]` …: a declared type whose "fresh" table lists this expression text -> (lean text, type).
        When several declared types have the same fresh text (`[]` for lists of different element types) the annotation of
        the assignment (`periods: list[ZoneInterval] = []`) picks the one whose elements are of the annotated class."""
        if isinstance(v, (ast.Call, ast.Dict, ast.List)):
            txt = ast.unparse(v)
            cands = [(ty, cfg) for ty, cfg in self.g.types.items() if txt in cfg.get("fresh", {})]
            if len(cands) > 1 and isinstance(ann, ast.Subscript) and isinstance(ann.value, ast.Name) and ann.value.id == "list" \
                    and isinstance(ann.slice, (ast.Name, ast.Attribute)):
                want = ast.unparse(ann.slice).split(".")[-1]
                by_elem = [(ty, cfg) for ty, cfg in cands if isinstance(cfg.get("elem"), str) and cfg["elem"] in self.g.types
                           and self.g.types[cfg["elem"]].get("py_class", cfg["elem"]) == want]
                if len(by_elem) == 1:
                    cands = by_elem
            if cands:
                return cands[0][1]["fresh"][txt], cands[0][0]
        return None

    def is_new_object(self, v) -> bool:
        return isinstance(v, ast.Call) and ast.unparse(v) in ("super().__new__(cls)", "object.__new__(cls)", "cls.__new__(cls)")

    def own_struct(self):
        name = self.t.cls.split(".")[-1] if self.t.cls else None
        if name and name in self.g.class_of_type:
            return self.g.class_of_type[name]
        return None

    # ---- static decisions --------------------------------------------------------------------
    def py_type_matches(self, ty, pyname: str):
        """Is a value of (translator) type `ty` an instance of Python class `pyname`? -> True/False/None"""
        if ty == "Int":
            return pyname == "int"
        if ty == "Bool":
            return pyname in ("bool", "int")
        if ty == "None":
            return False
        if ty in self.g.types:
            return self.g.types[ty].get("py_class", ty) == pyname
        return None

    def type_names(self, e):
        if isinstance(e, ast.Name):
            return [e.id]
        if isinstance(e, ast.Attribute):
            return [e.attr]
        if isinstance(e, ast.BinOp) and isinstance(e.op, ast.BitOr):
            return self.type_names(e.left) + self.type_names(e.right)
        if isinstance(e, ast.Tuple):
            r = []
            for x in e.elts:
                r += self.type_names(x)
            return r
        self.bad(e, "type expression in isinstance")

    def static(self, e, ctx: Ctx):
        """True / False when the test is decided by the declared types, else None."""
        if isinstance(e, ast.Constant) and isinstance(e.value, bool):
            return e.value
        if isinstance(e, ast.Call) and isinstance(e.func, ast.Name) and e.func.id == "isinstance" and len(e.args) == 2:
            x = e.args[0]
            if isinstance(x, ast.NamedExpr):
                self.bad(e, "walrus inside isinstance")
            ty = self.type_of_simple(x, ctx)
            if ty is None:
                self.bad(e, "isinstance of an expression whose type is not declared")
            res = [self.py_type_matches(ty, n) for n in self.type_names(e.args[1])]
            if any(r is None for r in res):
                self.bad(e, "isinstance undecidable from the declared types")
            return any(res)
        if isinstance(e, ast.Compare) and len(e.ops) == 1 and isinstance(e.ops[0], (ast.Is, ast.IsNot)):
            l, r = e.left, e.comparators[0]
            if isinstance(r, ast.Constant) and r.value is None:
                ty = self.type_of_simple(l, ctx)
                if ty is None and isinstance(l, ast.Attribute) and isinstance(l.value, ast.Name) and l.value.id in ctx.vars:
                    # `x.attr is None` where the declared type of x fixes the attribute ("static_attrs": attr -> "none" | "object"),
                    # e.g. a naive / an aware datetime
                    sa = (self.type_cfg(ctx.vars[l.value.id]) or {}).get("static_attrs", {}).get(l.attr)
                    if sa in ("none", "object"):
                        ty = "None" if sa == "none" else "Object"
                if ty is None:
                    try:
                        saved_ = self.tmp
                        ty = self.expr(l, ctx.copy(), [], cond=True)[1]
                        self.tmp = saved_
                    except Unsupported:
                        ty = None
                    if not (isinstance(ty, str) and ty.startswith("?")):
                        ty = None
                if ty is None:
                    self.bad(e, "`is None` test of an expression whose type is not declared")
                if isinstance(ty, str) and ty.startswith("?"):
                    return None  # a run-time optional
                isnone = ty == "None"
                return isnone if isinstance(e.ops[0], ast.Is) else not isnone
            if self.enum_identity(l, r):
                return None  # decided at run time: identity of enum members is equality of their values
            self.bad(e, "`is` comparison")
        if isinstance(e, ast.Attribute) and self.type_of_simple(e, ctx) == "None":
            return False   # an attribute this specialisation fixes to None (self_attrs "none"): falsy
        if isinstance(e, ast.Name) and e.id in ctx.vars and e.id not in ctx.defaults:
            # truthiness of a parameter `x: T | None` in a specialisation: None is falsy; an object whose class defines neither
            # __bool__ nor __len__ is truthy
            ty = ctx.vars[e.id]
            if ty == "None":
                return False
            cfg = self.type_cfg(ty)
            if cfg is not None and not cfg.get("truthy") and not cfg.get("list_of") and cfg.get("fields"):
                self.require_plain_truthiness(e, ty)
                return True
            return None
        if isinstance(e, ast.UnaryOp) and isinstance(e.op, ast.Not):
            s = self.static(e.operand, ctx)
            return None if s is None else (not s)
        if isinstance(e, ast.BoolOp):
            vals = [self.static(v, ctx) for v in e.values]
            if isinstance(e.op, ast.And):
                for v, x in zip(vals, e.values):
                    if v is False:
                        return False
                    if v is None:
                        break
                if all(v is True for v in vals):
                    return True
            else:
                for v, x in zip(vals, e.values):
                    if v is True:
                        return True
                    if v is None:
                        break
                if all(v is False for v in vals):
                    return False
        return None

    def enum_identity(self, l, r) -> bool:
        """`x is Cls.MEMBER` where the target declares x (a parameter, or a self attribute mapped to one) as always
        holding a member of an Enum class and Cls is an Enum class: members are singletons, so identity is equality."""
        members = set(self.t.d.get("enum_members", []))
        def declared(x):
            if isinstance(x, ast.Name):
                return x.id in members
            if isinstance(x, ast.Attribute) and isinstance(x.value, ast.Name) and x.value.id in ("self", "cls"):
                v = self.t.self_attrs.get(x.attr)
                return isinstance(v, str) and v.startswith("param:") and v[6:] in members
            return False
        def enum_const(x):
            if not (isinstance(x, ast.Attribute) and isinstance(x.value, ast.Name)):
                return False
            g = self.src.lookup_global(self.file, x.value.id, self.local_imports)
            if not g or g[0] != "class":
                return False
            return any(ast.unparse(b).split(".")[-1] in ("Enum", "IntEnum", "IntFlag", "Flag") for b in g[2].bases)
        return (declared(l) and enum_const(r)) or (declared(r) and enum_const(l))

    def type_of_simple(self, e, ctx: Ctx):
        sf = self.ms_field(e, ctx)
        if sf is not None:
            k = ctx.optknown.get(e.attr)
            if k is not None:
                return "None" if k[0] == "none" else k[2]
            return sf[1]
        if isinstance(e, ast.Attribute) and isinstance(e.value, ast.Name) and e.value.id in ("self", "cls") \
                and ctx.vars.get(e.value.id, "Erased") == "Erased":
            v = self.t.self_attrs.get(e.attr)
            if v == "none":
                return "None"       # the target specialises this attribute to None
            if v == "object":
                return "Object"     # … or to "some object" (only `is None` tests and abstract callees may touch it)
            if isinstance(v, str) and v.startswith("param:"):
                return dict(self.t.params + self.t.extra_params).get(v[6:])
        if isinstance(e, ast.Name):
            if e.id in ctx.vars:
                return ctx.vars[e.id]
            if e.id in ctx.constructing:
                return ctx.constructing[e.id]
        return None

    # ---- expressions -------------------------------------------------------------------------
    def prop(self, e, ctx: Ctx, pre: list, cond=False) -> str:
        """Translate a test to a Lean Prop."""
        txt, ty = self.expr(e, ctx, pre, cond=cond)
        if ty == "Prop":
            return txt
        if ty == "Bool":
            return f"{txt} = true"
        cfg = self.type_cfg(ty)
        if cfg is not None and cfg.get("truthy") == "nonempty":
            return f"{self.paren(txt)} ≠ []"   # bytes / list / dict: empty is falsy
        self.bad(e, f"test of a value of type {ty} (truthiness of non-bool)")

    def boolv(self, e, ctx, pre, cond=False) -> str:
        txt, ty = self.expr(e, ctx, pre, cond=cond)
        if ty == "Bool":
            return txt
        if ty == "Prop":
            return f"decide ({strip_parens(txt)})"
        self.bad(e, f"boolean use of a value of type {ty}")

    def const_of(self, e, ctx: Ctx):
        """int value if `e` is a compile-time constant (no locals/params involved), else None."""
        self.g.ce.private_owner = (self.file, self.t.cls_node) if getattr(self.t, "cls_node", None) is not None else None
        for n in ast.walk(e):
            if isinstance(n, ast.Name) and (n.id in ctx.vars or n.id in ctx.constructing or n.id in self.assigned_names) and n.id not in ("cls", "self"):
                return None
            if isinstance(n, ast.Name) and n.id in ("self", "cls") and ctx.vars.get(n.id) not in (None, "Erased"):
                # attribute of a struct-typed receiver is not a constant unless it is a class constant; decided in eval
                pass
            if isinstance(n, (ast.Call, ast.Subscript)):
                return None
        try:
            v = self.g.ce.eval(e, self.cls_rel if self.uses_cls(e) else self.file, self.cls_node, self.local_imports)
        except (ValueError, RecursionError, ZeroDivisionError):
            return None
        if isinstance(v, (list, str, dict)):
            return None
        return v

    def uses_cls(self, e) -> bool:
        return any(isinstance(n, ast.Name) and n.id in ("cls", "self") for n in ast.walk(e))

    def lit(self, v) -> str:
        if isinstance(v, bool):
            return "true" if v else "false"
        return f"({v})" if v < 0 else str(v)

    def record_const(self, e, v):
        self.t.consts[ast.unparse(e)] = v

    # ---- (T4) str values as lists of characters -----------------------------------------------------------
    def text_cfg(self):
        """the group's "text" entry {"str": <type of a str value>, "chr": <type of the one-character result of s[i]>}, else None
        (then string literals are what they always were: erased message arguments)"""
        return self.g.cfg.get("text")

    @staticmethod
    def char_literal(c: str) -> str:
        if 32 <= ord(c) < 127 and c not in "'\\":
            return f"'{c}'"
        return f"(Char.ofNat {ord(c)})"

    def text_literal(self, v: str) -> str:
        return "([" + ", ".join(self.char_literal(c) for c in v) + "] : List Char)"

    def text_const_of(self, e):
        """(T4) `self.NAME` / `cls.NAME` where NAME is a class-level str constant (`_NUL: str = "\\x00"`), never assigned to
        elsewhere in its class: a one-character constant is a character (the type of `s[i]`), any other a str value"""
        if self.text_cfg() is None or self.cls_node is None:
            return None
        m = self.g.src.class_member(self.cls_rel, self.cls_node, e.attr)
        if not m or m[0] != "assign" or not (isinstance(m[3], ast.Constant) and isinstance(m[3].value, str)):
            return None
        for n in ast.walk(m[2]):
            if isinstance(n, ast.Attribute) and n.attr == e.attr and isinstance(n.ctx, (ast.Store, ast.Del)):
                return None
        v = m[3].value
        tc = self.text_cfg()
        if len(v) == 1:
            return self.char_literal(v), tc["chr"]
        return self.text_literal(v), tc["str"]

    def fstring(self, e: ast.JoinedStr, ctx: Ctx, pre: list, cond):
        """f-strings of exactly one replacement field over an int, with one of the format specifications
             f"{v:0N}" / f"{v:0Nd}"   (N a literal width ≥ 1)  -> Pyoda.Gen.pyZeroPad v N            (cannot raise)
             f"{v:0{n}d}"             (n an int expression)     -> Pyoda.Gen.pyFmtZeroPad v n          (ValueError for n < 0)
             f"{v:0>{n}}"             (n an int expression)     -> Pyoda.Gen.pyFmtFillRight v n
           everything else (literal text around the field, conversions, other specifications, non-int values) is refused."""
        tc = self.text_cfg()
        if len(e.values) != 1 or not isinstance(e.values[0], ast.FormattedValue):
            self.bad(e, "f-string that is not a single replacement field")
        fv = e.values[0]
        if fv.conversion != -1 or fv.format_spec is None:
            self.bad(e, "f-string field with a conversion / without a format specification")
        parts = fv.format_spec.values
        shape = []
        for p_ in parts:
            if isinstance(p_, ast.Constant) and isinstance(p_.value, str):
                if p_.value != "":
                    shape.append(p_.value)
            elif isinstance(p_, ast.FormattedValue) and p_.conversion == -1 and p_.format_spec is None:
                shape.append(p_)
            else:
                self.bad(e, "format specification with a nested conversion / specification")
        v, tv = self.expr(fv.value, ctx, pre, cond)
        if tv != "Int":
            self.bad(e, f"f-string field of type {tv} (only ints are formatted)")
        if len(shape) == 1 and isinstance(shape[0], str):
            sp = shape[0]
            body = sp[:-1] if sp.endswith("d") else sp
            if len(body) >= 2 and body[0] == "0" and body[1:].isdigit() and body[1] != "0" and body.isascii() and int(body[1:]) <= 2147483647:
                return f"(Pyoda.Gen.pyZeroPad {self.paren(v)} {int(body[1:])})", tc["str"]
            self.bad(e, f"format specification {sp!r} (only 0N / 0Nd with a literal width)")
        if len(shape) == 3 and shape[0] == "0" and shape[2] == "d" and not isinstance(shape[1], str):
            n, tn = self.expr(shape[1].value, ctx, pre, cond)
            if tn != "Int":
                self.bad(e, "format width that is not an int")
            r = self.deliver(e, f"Pyoda.Gen.pyFmtZeroPad {self.paren(v)} {self.paren(n)}", tc["str"], True, pre, cond, False)
            return r[1], r[2]
        if len(shape) == 2 and shape[0] == "0>" and not isinstance(shape[1], str):
            n, tn = self.expr(shape[1].value, ctx, pre, cond)
            if tn != "Int":
                self.bad(e, "format width that is not an int")
            r = self.deliver(e, f"Pyoda.Gen.pyFmtFillRight {self.paren(v)} {self.paren(n)}", tc["str"], True, pre, cond, False)
            return r[1], r[2]
        self.bad(e, "format specification that is not one of 0N, 0Nd, 0{n}d, 0>{n}")

    def expr(self, e, ctx: Ctx, pre: list, cond=False):
        """-> (lean text, type).  `cond`: inside a conditionally evaluated position (no hoisting allowed)."""
        g = self.g
        if ctx.known_exprs and isinstance(e, (ast.Attribute, ast.Call, ast.Subscript)):
            k_ = ctx.known_exprs.get(ast.unparse(e))
            if k_ is not None:
                return k_   # an Optional-valued expression this path has already matched: its (non-None) value
        if isinstance(e, ast.Constant):
            if isinstance(e.value, bool):
                return ("true" if e.value else "false"), "Bool"
            if isinstance(e.value, int):
                return self.lit(e.value), "Int"
            if isinstance(e.value, str) and self.text_cfg() is not None:
                return self.text_literal(e.value), self.text_cfg()["str"]   # (T4) a str value: the list of its characters
            self.bad(e, f"literal {e.value!r}")
        if isinstance(e, ast.JoinedStr) and self.text_cfg() is not None:
            return self.fstring(e, ctx, pre, cond)
        if isinstance(e, ast.NamedExpr):
            if cond:
                self.bad(e, "walrus in a conditionally evaluated position")
            txt, ty = self.expr(e.value, ctx, pre)
            if ty == "Prop":
                txt, ty = f"decide ({strip_parens(txt)})", "Bool"
            pre.append(("let", lname(e.target.id), txt, ty))
            ctx.bind(e.target.id, ty)
            return lname(e.target.id), ty
        if isinstance(e, ast.Name):
            if e.id in ctx.constructing:
                self.bad(e, "use of the object under construction as a value")
            if e.id in ctx.defaults:
                v = ctx.defaults[e.id]
                return self.lit(v), ("Bool" if isinstance(v, bool) else "Int")
            if e.id in ctx.vars:
                ty = ctx.vars[e.id]
                if ty in ("None", "Erased", "Str"):
                    self.bad(e, f"use of {e.id} (type {ty}) as a value")
                if e.id in ctx.mutables and id(e) not in self.alias_free_uses():
                    self.bad(e, f"use of the mutable object {e.id} where an alias could arise (only x.method(…), len(x), x[k], `return x`)")
                return lname(e.id), ty
            if e.id in self.assigned_names:
                self.bad(e, f"read of local {e.id} before any assignment on this path")
            v = self.const_of(e, ctx)
            if v is not None:
                self.record_const(e, v)
                return self.lit(v), ("Bool" if isinstance(v, bool) else "Int")
            self.bad(e, f"unknown name {e.id}")
        if isinstance(e, ast.Attribute):
            return self.attribute(e, ctx, pre, cond)
        if isinstance(e, ast.UnaryOp):
            if isinstance(e.op, ast.Not):
                s = self.static(e.operand, ctx)
                if s is not None:
                    return ("False" if s else "True"), "Prop"
                return f"¬ ({self.prop(e.operand, ctx, pre, cond)})", "Prop"
            v = self.const_of(e, ctx)
            if v is not None and isinstance(e.operand, ast.Constant):
                return self.lit(v), "Int"
            txt, ty = self.expr(e.operand, ctx, pre, cond)
            if isinstance(e.op, ast.USub):
                if ty == "Int":
                    return f"(-{txt})", "Int"
                if ty in g.types:
                    return self.operator_call(e, ty, "__neg__", [(txt, ty)], ctx, pre, cond)
            if isinstance(e.op, ast.UAdd) and ty == "Int":
                return txt, "Int"
            if isinstance(e.op, ast.Invert) and ty == "Int":
                return f"(-{txt} - 1)", "Int"
            self.bad(e, f"unary {type(e.op).__name__} on {ty}")
        if isinstance(e, ast.BinOp):
            return self.binop(e, ctx, pre, cond)
        if isinstance(e, ast.BoolOp):
            s = self.static(e, ctx)
            if s is not None:
                return ("True" if s else "False"), "Prop"
            parts = []
            for i, v in enumerate(e.values):
                sv = self.static(v, ctx)
                if sv is not None:
                    # neutral element: drop; absorbing element cannot occur here unless preceded by undecided operands
                    if (sv is True and isinstance(e.op, ast.And)) or (sv is False and isinstance(e.op, ast.Or)):
                        continue
                    parts.append("False" if sv is False else "True")
                    continue
                parts.append(self.prop(v, ctx, pre, cond or i > 0 or bool(parts)))
            op = " ∧ " if isinstance(e.op, ast.And) else " ∨ "
            if len(parts) == 1:
                return parts[0], "Prop"
            return "(" + op.join(f"({p})" if (" ∧ " in p or " ∨ " in p or "¬" in p) and not p.startswith("(") else p for p in parts) + ")", "Prop"
        if isinstance(e, ast.Compare):
            return self.compare(e, ctx, pre, cond)
        if isinstance(e, ast.IfExp):
            s = self.static(e.test, ctx)
            if s is True:
                return self.expr(e.body, ctx, pre, cond)
            if s is False:
                return self.expr(e.orelse, ctx, pre, cond)
            c = self.prop(e.test, ctx, pre, cond)
            a, ta = self.expr(e.body, ctx, pre, True)
            b, tb = self.expr(e.orelse, ctx, pre, True)
            if ta == "Prop" and tb in ("Prop", "Bool"):
                a, ta = f"decide ({strip_parens(a)})", "Bool"
            if tb == "Prop" and ta == "Bool":
                b, tb = f"decide ({strip_parens(b)})", "Bool"
            if ta != tb:
                self.bad(e, f"conditional expression with branches of types {ta} / {tb}")
            return f"(if {c} then {a} else {b})", ta
        if isinstance(e, ast.Tuple):
            parts = [self.expr(x, ctx, pre, cond) for x in e.elts]
            return "(" + ", ".join(p[0] for p in parts) + ")", tuple(p[1] for p in parts)
        if isinstance(e, ast.Call):
            kind, txt, ty = self.call(e, ctx, pre, want_raw=False, cond=cond)
            return txt, ty
        if isinstance(e, ast.Subscript):
            return self.subscript(e, ctx, pre, cond)
        self.bad(e, f"expression {type(e).__name__}")

    def subscript(self, e: ast.Subscript, ctx, pre, cond):
        """constant int table indexed by an int expression -> bounds-checked lookup (raises IndexError)."""
        vt = None
        ms_py_ = (self.t.mstate or {}).get("py_param")
        if ms_py_ is not None and isinstance(e.value, ast.Name) and e.value.id == ms_py_ and ctx.vars.get(ms_py_) == "Erased" \
                and not isinstance(e.slice, ast.Slice) and f"{ms_py_}.__getitem__" in self.g.helpers:
            # (T4) `buffer[i]` on the state object handed in as a parameter: its declared `__getitem__` (a state helper)
            idx = self.expr(e.slice, ctx, pre, cond)
            r = self.helper_call(e, self.g.helpers[f"{ms_py_}.__getitem__"], [idx], {}, ctx, pre, cond, False)
            return r[1], r[2]
        if isinstance(e.slice, ast.Slice) and self.text_cfg() is not None:
            # (T4) `s[a:b]` / `s[a:]` / `s[:b]` on a str value: Python's slice (negative bounds from the end, clamped); no step
            if e.slice.step is not None:
                self.bad(e, "slice with a step")
            stxt, sty = self.expr(e.value, ctx, pre, cond)
            if sty != self.text_cfg()["str"]:
                self.bad(e, f"slice of a value of type {sty}")
            bounds = []
            for b_ in (e.slice.lower, e.slice.upper):
                if b_ is None:
                    bounds.append("none")
                    continue
                btxt, bty = self.expr(b_, ctx, pre, cond)
                if bty != "Int":
                    self.bad(e, f"slice bound of type {bty}")
                bounds.append(f"(some {self.paren(btxt)})")
            return f"(Pyoda.Gen.pySlice {self.paren(stxt)} {bounds[0]} {bounds[1]})", sty
        if isinstance(e.slice, ast.Slice):
            self.bad(e, "slice")
        if isinstance(e.value, (ast.Name, ast.Attribute)) or (self.text_cfg() is not None and isinstance(e.value, ast.Constant)):
            try:
                saved_ = self.tmp
                vtxt, vt = self.expr(e.value, ctx.copy(), [], cond=True)
                self.tmp = saved_
            except Unsupported:
                vt = None
        if vt in self.g.types and self.g.types[vt].get("list_of"):
            # a Python list of objects carried as an array: IndexError outside, a negative index counts from the end
            if cond:
                self.bad(e, "list lookup in a conditionally evaluated position")
            idx, ty = self.expr(e.slice, ctx, pre, cond)
            if ty != "Int":
                self.bad(e, "list index that is not an int")
            tv = self.fresh("e")
            pre.append(("bind", tv, f"Pyoda.Gen.pyListIndex {self.paren(vtxt)} {self.paren(idx)}", self.g.types[vt]["list_of"]))
            return tv, self.g.types[vt]["list_of"]
        if vt in self.g.types and self.g.types[vt].get("getitem"):
            # `x[i]` on a bytes / list value: the declared lookup (IndexError outside, negative indices from the end)
            gi = self.g.types[vt]["getitem"]
            pre2 = []
            vtxt, vt = self.expr(e.value, ctx, pre2, cond)
            pre.extend(pre2)
            idx, ty = self.expr(e.slice, ctx, pre, cond)
            if ty != "Int":
                self.bad(e, "index that is not an int")
            r = self.deliver(e, f"{gi['lean']} {self.paren(vtxt)} {self.paren(idx)}", parse_type(gi["ret"]), bool(gi.get("raises", True)), pre, cond, False)
            return r[1], r[2]
        st_ = self.t.dstate
        if st_ and ast.unparse(e.value) == st_["attr"]:
            # a lookup in the dict attribute carried as a parameter: KeyError for a missing key
            if cond:
                self.bad(e, "dict lookup in a conditionally evaluated position")
            idx, ty = self.expr(e.slice, ctx, pre, cond)
            if ty != "Int":
                self.bad(e, "dict key that is not an int")
            tv = self.fresh("e")
            pre.append(("bind", tv, f"Pyoda.Gen.PyDict.get {lname(st_['param'])} {self.paren(idx)}", parse_type(st_["elem"])))
            return tv, parse_type(st_["elem"])
        tbl = None
        self.g.ce.private_owner = (self.file, self.t.cls_node) if getattr(self.t, "cls_node", None) is not None else None
        try:
            tbl = self.g.ce.eval(e.value, self.cls_rel if self.uses_cls(e.value) else self.file, self.cls_node, self.local_imports)
        except (ValueError, RecursionError):
            tbl = None
        if not isinstance(tbl, list):
            self.bad(e, f"subscript of {ast.unparse(e.value)[:40]} (not a constant int table)")
        if isinstance(e.value, ast.Attribute) and self.table_is_mutated(e.value.attr):
            self.bad(e, f"table {e.value.attr} is assigned to after its definition (not a constant)")
        if cond:
            self.bad(e, "table lookup in a conditionally evaluated position")
        idx, ty = self.expr(e.slice, ctx, pre, cond)
        if ty != "Int":
            self.bad(e, "table index that is not an int")
        self.t.consts[ast.unparse(e.value)] = tbl
        tv = self.fresh("e")
        fn = "Pyoda.Gen.pyDictIndex" if isinstance(tbl, DictTable) else "Pyoda.Gen.pyIndex"
        lit = f"[{', '.join(str(x) for x in tbl)}]"
        if len(tbl) > 64:
            # a long table becomes a named definition next to the function (the agreement proofs refer to it by name)
            tabs = self.t.__dict__.setdefault("tables", [])
            name = next((n for n, l in tabs if l == lit), None)
            if name is None:
                name = f"{self.t.lean_name}.tbl{len(tabs) + 1}"
                tabs.append((name, lit))
            lit = self.ref(name)
        pre.append(("bind", tv, f"{fn} {lit} {idx}", "Int"))
        return tv, "Int"

    def table_is_mutated(self, attr: str) -> bool:
        """Is `<something>.<attr>[...] = ...` / `.append(` / `del` written anywhere in the files read so far?"""
        for rel in list(self.src._mods):
            for n in ast.walk(self.src._mods[rel]):
                tgts = []
                if isinstance(n, ast.Assign):
                    tgts = n.targets
                elif isinstance(n, (ast.AugAssign, ast.AnnAssign)):
                    tgts = [n.target]
                elif isinstance(n, ast.Delete):
                    tgts = n.targets
                for t in tgts:
                    if isinstance(t, ast.Subscript) and isinstance(t.value, ast.Attribute) and t.value.attr == attr:
                        return True
                if isinstance(n, ast.Call) and isinstance(n.func, ast.Attribute) and n.func.attr in ("append", "extend", "insert", "pop", "clear", "sort", "reverse", "remove") \
                        and isinstance(n.func.value, ast.Attribute) and n.func.value.attr == attr:
                    return True
        return False

    def attribute(self, e: ast.Attribute, ctx: Ctx, pre, cond):
        g = self.g
        base = e.value
        sf = self.ms_field(e, ctx)
        if sf is not None:
            return self.state_read(e, sf, ctx, pre)
        if ast.unparse(e) in self.t.binds and isinstance(base, ast.Name) and ctx.vars.get(base.id) == "Erased" and base.id not in ("self", "cls"):
            # a property of the state object handed in as a parameter (`reader.has_more_data`), bound by the target list
            return self.bound_property(e, ast.unparse(e), ctx, pre, cond)
        hv0 = g.helpers.get(ast.unparse(e))
        if isinstance(hv0, dict) and not hv0.get("py_params") and not hv0.get("noreturn"):
            root = e
            while isinstance(root, ast.Attribute):
                root = root.value
            if isinstance(root, ast.Name) and (root.id not in ctx.vars or ctx.vars[root.id] == "Erased") and root.id not in ctx.constructing:
                # a hand-mapped class-level value written as a dotted path (`Cls.Inner.NAME`, `self.Inner.NAME`)
                return self.helper_call(e, hv0, [], {}, ctx, pre, cond, want_raw=False)[1:]
        if isinstance(base, ast.Attribute):
            root = base
            while isinstance(root, ast.Attribute):
                root = root.value
            if isinstance(root, ast.Name) and root.id not in ctx.constructing and (root.id not in ctx.vars or (root.id in ("self", "cls") and ctx.vars[root.id] == "Erased")):
                v = self.const_of(e, ctx)   # `Outer.Inner.NAME`: a constant of a nested class
                if v is not None:
                    self.record_const(e, v)
                    return self.lit(v), ("Bool" if isinstance(v, bool) else "Int")
        # field of the object under construction
        if isinstance(base, ast.Name) and base.id in ctx.constructing:
            sty = ctx.constructing[base.id]
            field = g.types[sty].get("attrs", {}).get(e.attr)
            if field is None:
                v = self.const_of(e, ctx)  # a class-level constant read through the new object
                if v is not None:
                    self.record_const(e, v)
                    return self.lit(v), ("Bool" if isinstance(v, bool) else "Int")
            if field is None or (base.id, field) not in ctx.fields:
                self.bad(e, f"read of unassigned/unknown field {e.attr} of the object under construction")
            return self.field_var(base.id, field), ctx.fields[(base.id, field)]
        # erased receiver: per-target attribute bindings, then class constants
        if isinstance(base, ast.Name) and base.id in ("self", "cls") and ctx.vars.get(base.id, "Erased") == "Erased" and base.id not in ctx.constructing:
            key = e.attr
            if key in self.t.self_attrs:
                v = self.t.self_attrs[key]
                if isinstance(v, str) and v.startswith("param:"):
                    p = v[6:]
                    return lname(p), dict(self.t.params + self.t.extra_params)[p]
                if isinstance(v, int):
                    return self.lit(v), "Int"
                self.bad(e, f"self_attrs entry for {key}")
            full = f"{base.id}.{e.attr}"
            if full in self.t.binds:
                return self.bound_property(e, full, ctx, pre, cond)
            tg = self.find_targets(self.cls_node.name if self.cls_node else None, e.attr)
            for c_ in tg or []:
                self.g.ensure(c_)
            if tg and tg[0].kind == "property":
                return self.finish_call(e, tg, [], {}, ctx, pre, cond, want_raw=False)[1:]
            v = self.const_of(e, ctx)
            if v is not None:
                self.record_const(e, v)
                return self.lit(v), ("Bool" if isinstance(v, bool) else "Int")
            tcv = self.text_const_of(e)
            if tcv is not None:
                return tcv
            self.bad(e, f"attribute {ast.unparse(e)} is neither a bound attribute nor a class-level int constant")
        # a hand-mapped class-level value (e.g. `Duration.epsilon`): a helper without parameters
        if isinstance(base, ast.Name) and base.id not in ctx.vars and base.id not in ctx.constructing:
            hv = g.helpers.get(ast.unparse(e))
            if isinstance(hv, dict) and not hv["py_params"]:
                return self.helper_call(e, hv, [], {}, ctx, pre, cond, want_raw=False)[1:]
        # class constant via a class name
        if isinstance(base, ast.Name) and base.id not in ctx.vars:
            v = self.const_of(e, ctx)
            if v is not None:
                self.record_const(e, v)
                return self.lit(v), ("Bool" if isinstance(v, bool) else "Int")
        # attribute of a struct-typed value
        obj, oty = self.expr(base, ctx, pre, cond)
        if oty in g.types:
            td = g.types[oty]
            if e.attr in td.get("attrs", {}):
                f = td["attrs"][e.attr]
                fty = td.get("field_types", {}).get(f, "Int")
                return f"{obj}.{f}", fty
            tg = self.find_targets(td.get("py_class", oty), e.attr)
            for c_ in tg or []:
                self.g.ensure(c_)
            if tg:
                if tg[0].kind != "property":
                    self.bad(e, f"{e.attr} is not a property")
                return self.finish_call(e, tg, [(obj, oty)], {}, ctx, pre, cond, want_raw=False, receiver_done=True)[1:]
            hk = f"{td.get('py_class', oty)}.{e.attr}"
            if hk in g.helpers:
                return self.helper_call(e, g.helpers[hk], [(obj, oty)], {}, ctx, pre, cond, want_raw=False)[1:]
            # class-level constant read through an instance
            r = g.src.lookup_global(self.file, td.get("py_class", oty), self.local_imports)
            if r and r[0] == "class":
                m = g.src.class_member(r[1], r[2], e.attr)
                if m and m[0] == "assign":
                    try:
                        v = g.ce.eval(m[3], m[1], m[2])
                        if not isinstance(v, list):
                            self.record_const(e, v)
                            return self.lit(v), ("Bool" if isinstance(v, bool) else "Int")
                    except ValueError:
                        pass
            self.bad(e, f"attribute {e.attr} of a {oty} is not a mapped field, translated property, helper or constant")
        self.bad(e, f"attribute {ast.unparse(e)[:50]} of a value of type {oty}")

    def bound_property(self, e, full, ctx, pre, cond):
        name = self.t.binds[full]
        tg = [t for t in self.g.targets if t.lean_name == name]
        if not tg:
            self.bad(e, f"binds entry {full} -> {name}: no such target")
        return self.finish_call(e, tg, [], {}, ctx, pre, cond, want_raw=False)[1:]

    def binop(self, e: ast.BinOp, ctx, pre, cond):
        op = e.op
        a, ta = self.expr(e.left, ctx, pre, cond)
        if ta in self.g.types:
            b, tb = self.expr(e.right, ctx, pre, cond)
            meth = {ast.Add: "__add__", ast.Sub: "__sub__", ast.Mult: "__mul__", ast.Div: "__truediv__", ast.FloorDiv: "__floordiv__",
                    ast.BitAnd: "__and__", ast.BitOr: "__or__"}.get(type(op))
            if meth is None:
                self.bad(e, f"operator {type(op).__name__} on {ta}")
            return self.operator_call(e, ta, meth, [(a, ta), (b, tb)], ctx, pre, cond)
        if isinstance(op, (ast.FloorDiv, ast.Mod)):
            d = self.const_of(e.right, ctx)
            if d is None and not isinstance(d, bool):
                # run-time divisor: ZeroDivisionError is possible, so the operation is a raising call
                b, tb = self.expr(e.right, ctx, pre, cond)
                if ta != "Int" or tb != "Int":
                    self.bad(e, f"// or % on {ta}, {tb}")
                fn = "Pyoda.Gen.pyFloorDiv" if isinstance(op, ast.FloorDiv) else "Pyoda.Gen.pyFloorMod"
                r = self.deliver(e, f"{fn} {self.paren(a)} {self.paren(b)}", "Int", True, pre, cond, False)
                return r[1], r[2]
            if d is None or isinstance(d, bool):
                self.bad(e, "// or % with a divisor that is not an int")
            if d == 0:
                self.bad(e, "// or % by constant zero")
            b, tb = self.expr(e.right, ctx, pre, cond)
            if ta != "Int" or tb != "Int":
                self.bad(e, f"// or % on {ta}, {tb}")
            fn = "Int.fdiv" if isinstance(op, ast.FloorDiv) else "Int.fmod"
            return f"({fn} {a} {b})", "Int"
        if isinstance(op, ast.Pow):
            n = self.const_of(e.right, ctx)
            if n is None or isinstance(n, bool) or n < 0 or ta != "Int":
                self.bad(e, "** with a non-literal or negative exponent")
            return f"({a} ^ {n})", "Int"
        if isinstance(op, (ast.RShift, ast.LShift)):
            n = self.const_of(e.right, ctx)
            if n is None and ta == "Int":
                # run-time shift count: ValueError for a negative count, so the operation is a raising call
                b, tb = self.expr(e.right, ctx, pre, cond)
                if tb != "Int":
                    self.bad(e, f"shift by a value of type {tb}")
                fn = "Pyoda.Gen.pyShr" if isinstance(op, ast.RShift) else "Pyoda.Gen.pyShl"
                r = self.deliver(e, f"{fn} {self.paren(a)} {self.paren(b)}", "Int", True, pre, cond, False)
                return r[1], r[2]
            if n is None or isinstance(n, bool) or n < 0 or ta != "Int":
                self.bad(e, "shift by a negative constant / of a non-int")
            if isinstance(op, ast.RShift):
                return f"({a} >>> {n})", "Int"
            return f"({a} * 2 ^ {n})", "Int"
        if isinstance(op, ast.BitAnd):
            # x & (2^k - 1) == x mod 2^k for every Python int x (two's complement); other masks are not supported
            m = self.const_of(e.right, ctx)
            if not (m is None or isinstance(m, bool) or m < 0 or (m & (m + 1)) != 0 or ta != "Int"):
                k = m.bit_length()
                return f"(Int.fmod {a} {2 ** k})", "Int"
        b, tb = self.expr(e.right, ctx, pre, cond)
        if tb in self.g.types and isinstance(op, ast.Mult) and ta == "Int":
            return self.operator_call(e, tb, "__rmul__", [(b, tb), (a, ta)], ctx, pre, cond)
        if ta != "Int" or tb != "Int":
            self.bad(e, f"operator {type(op).__name__} on {ta}, {tb}")
        sym = {ast.Add: "+", ast.Sub: "-", ast.Mult: "*"}.get(type(op))
        if sym:
            return f"({a} {sym} {b})", "Int"
        fn = {ast.BitAnd: "Pyoda.Gen.pyAnd", ast.BitOr: "Pyoda.Gen.pyOr", ast.BitXor: "Pyoda.Gen.pyXor"}.get(type(op))
        if fn:  # two's-complement operations on unbounded ints (PyodaGen/Support.lean)
            return f"({fn} {self.paren(a)} {self.paren(b)})", "Int"
        self.bad(e, f"operator {type(op).__name__}")

    def compare(self, e: ast.Compare, ctx, pre, cond):
        s = self.static(e, ctx)
        if s is not None:
            return ("True" if s else "False"), "Prop"
        if len(e.ops) == 1 and isinstance(e.ops[0], (ast.Is, ast.IsNot)) and isinstance(e.comparators[0], ast.Constant) and e.comparators[0].value is None:
            a, ta = self.expr(e.left, ctx, pre, cond)
            if not (isinstance(ta, str) and ta.startswith("?")):
                self.bad(e, f"`is None` on a value of type {ta}")
            return f"{self.paren(a)}.{'isNone' if isinstance(e.ops[0], ast.Is) else 'isSome'} = true", "Prop"
        operands = [e.left] + list(e.comparators)
        vals = []
        for i, x in enumerate(operands):
            if i >= 1 and isinstance(e.ops[i - 1], (ast.In, ast.NotIn)) and isinstance(x, (ast.Tuple, ast.List)):
                vals.append((None, None))  # a literal collection on the right of `in`: handled element-wise below
                continue
            vals.append(self.expr(x, ctx, pre, cond or i >= 2))
        if self.text_cfg() is not None:
            # (T4) `c == "-"`, `"0" <= c <= "9"` with c the one-character result of an index: the literal is that character
            tc_ = self.text_cfg()
            for i in range(len(vals)):
                x = operands[i]
                if vals[i][1] == tc_["str"] and isinstance(x, ast.Constant) and isinstance(x.value, str) \
                        and any(0 <= j < len(vals) and vals[j][1] == tc_["chr"] for j in (i - 1, i + 1)):
                    if len(x.value) != 1:
                        self.bad(e, "comparison of a character with a literal that is not one character long")
                    vals[i] = (self.char_literal(x.value), tc_["chr"])
        parts = []
        for i, op in enumerate(e.ops):
            (a, ta), (b, tb) = vals[i], vals[i + 1]
            if isinstance(op, (ast.In, ast.NotIn)) and b is None:
                # `a in (x, y, z)`: equality with one of the elements (all ints; a evaluated once: it is a text here)
                elts = operands[i + 1].elts
                alts = []
                for x in elts:
                    xt, xty = self.expr(x, ctx, pre, True)
                    if xty != "Int" or ta != "Int":
                        self.bad(e, "`in` over a tuple of non-ints")
                    alts.append(f"{a} = {xt}")
                txt = "(" + " ∨ ".join(alts) + ")" if alts else "False"
                parts.append(f"¬ {txt}" if isinstance(op, ast.NotIn) else txt)
                continue
            if isinstance(op, (ast.In, ast.NotIn)):
                # `a in b`  ==  `b.__contains__(a)` (bool result); both operands are already evaluated, left first
                if tb not in self.g.types:
                    self.bad(e, f"`in` on a value of type {tb}")
                txt, ty = self.operator_call(e, tb, "__contains__", [(b, tb), (a, ta)], ctx, pre, cond or i >= 1)
                if ty != "Bool":
                    self.bad(e, "__contains__ does not return Bool")
                if isinstance(op, ast.NotIn):
                    txt = f"(!{txt})"
                if len(e.ops) == 1:
                    return txt, "Bool"
                parts.append(f"{txt} = true")
                continue
            if ta in self.g.types and self.g.types[ta].get("eq_only"):
                # an opaque scalar (e.g. the identity of a calendar): only == and != exist
                sym = {ast.Eq: "=", ast.NotEq: "≠"}.get(type(op))
                if sym is None or tb != ta:
                    self.bad(e, f"comparison {type(op).__name__} on the opaque type {ta} / with {tb}")
                parts.append(f"{a} {sym} {b}")
                continue
            if ta in self.g.types:
                meth = {ast.Eq: "__eq__", ast.NotEq: "__ne__", ast.Lt: "__lt__", ast.LtE: "__le__", ast.Gt: "__gt__", ast.GtE: "__ge__"}.get(type(op))
                if meth is None:
                    self.bad(e, f"comparison {type(op).__name__} on {ta}")
                txt, ty = self.operator_call(e, ta, meth, [(a, ta), (b, tb)], ctx, pre, cond or i >= 1)
                if ty != "Bool":
                    self.bad(e, f"{meth} does not return Bool")
                if len(e.ops) == 1:
                    return txt, "Bool"
                parts.append(f"{txt} = true")
                continue
            if ta == "Prop":
                a, ta = f"decide ({strip_parens(a)})", "Bool"
            if tb == "Prop":
                b, tb = f"decide ({strip_parens(b)})", "Bool"
            if ta != tb or ta not in ("Int", "Bool"):
                self.bad(e, f"comparison of {ta} with {tb}")
            sym = {ast.Eq: "=", ast.NotEq: "≠", ast.Lt: "<", ast.LtE: "≤", ast.Gt: ">", ast.GtE: "≥"}.get(type(op))
            if isinstance(op, (ast.Is, ast.IsNot)) and ta == "Int" and self.enum_identity(operands[i], operands[i + 1]):
                sym = "=" if isinstance(op, ast.Is) else "≠"
            if sym is None or (ta == "Bool" and sym not in ("=", "≠")):
                self.bad(e, f"comparison {type(op).__name__} on {ta}")
            parts.append(f"{a} {sym} {b}")
        if len(parts) == 1:
            return parts[0], "Prop"
        return "(" + " ∧ ".join(parts) + ")", "Prop"

    # ---- calls -------------------------------------------------------------------------------
    def find_targets(self, clsname, fname, search_bases=True):
        g = self.g
        tg = g.by_key.get((clsname, fname))
        if tg:
            return tg
        if clsname and search_bases:
            r = g.src.lookup_global(self.file, clsname, self.local_imports)
            if r and r[0] == "class":
                todo, seen = list(g.src.class_bases(r[1], r[2])), set()
                while todo:  # the base classes, nearest first
                    brel, bcls = todo.pop(0)
                    if (brel, bcls.name) in seen:
                        continue
                    seen.add((brel, bcls.name))
                    tg = g.by_key.get((bcls.name, fname))
                    if tg:
                        return tg
                    todo.extend(g.src.class_bases(brel, bcls))
        return None

    def divmod_args(self, call, ctx, pre):
        if len(call.args) != 2 or call.keywords:
            self.bad(call, "divmod arity")
        d = self.const_of(call.args[1], ctx)
        if d is None or d == 0 or isinstance(d, bool):
            self.bad(call, "divmod with a divisor that is not a non-zero compile-time constant")
        a, ta = self.expr(call.args[0], ctx, pre)
        b, tb = self.expr(call.args[1], ctx, pre)
        if ta != "Int" or tb != "Int":
            self.bad(call, "divmod on non-ints")
        return a, b

    def call(self, e: ast.Call, ctx: Ctx, pre: list, want_raw: bool, cond=False):
        """-> (kind, text, type); kind 'raising' only when want_raw (caller binds), else hoisted into pre."""
        g = self.g
        f = e.func
        for a in e.args:
            if isinstance(a, ast.Starred):
                self.bad(e, "*args in a call")
        for k in e.keywords:
            if k.arg is None:
                self.bad(e, "**kwargs in a call")
        dotted = ast.unparse(f)
        for fname, ats, rt, fd in self.t.fun_params:
            if fd == dotted:
                call_args = list(e.args)
                if e.keywords:
                    names = self.t.fun_kwnames.get(fd)
                    if not names or len(names) != len(ats):
                        self.bad(e, f"call of the abstract callee {dotted} with keywords (the target gives no parameter names)")
                    given = dict(zip(names, e.args))
                    for k in e.keywords:
                        if k.arg not in names or k.arg in given:
                            self.bad(e, f"keyword {k.arg} of the abstract callee {dotted}")
                        given[k.arg] = k.value
                    if len(given) != len(names):
                        self.bad(e, f"call of the abstract callee {dotted}: missing argument")
                    # evaluation order is the order of writing: positional arguments, then keywords as written
                    order = list(e.args) + [k.value for k in e.keywords]
                    if order != [given[n] for n in names]:
                        for a in order:
                            if not self.is_pure_simple(a) and any(isinstance(n, ast.Call) for n in ast.walk(a)):
                                self.bad(e, f"keywords of {dotted} out of parameter order with a call among the arguments")
                    call_args = [given[n] for n in names]
                if len(call_args) != len(ats):
                    self.bad(e, f"call of the abstract callee {dotted}: arity/keywords")
                parts = []
                for a, want in zip(call_args, ats):
                    txt, ty = self.expr(a, ctx, pre, cond)
                    if ty != want:
                        self.bad(e, f"argument of {dotted} has type {ty}, expected {want}")
                    parts.append(self.paren(txt))
                if self.t.fun_raises.get(fd):
                    return self.deliver(e, f"{fname} {' '.join(parts)}", rt, True, pre, cond, want_raw)
                return "pure", f"({fname} {' '.join(parts)})", rt
        # per-target binding (virtual dispatch resolved by the target list)
        if dotted in self.t.binds:
            name = self.t.binds[dotted]
            if isinstance(name, list):
                # several specialisations of the bound member (e.g. one per None / not-None argument): the call picks
                # the one its arguments fit, as a direct call would
                tg = [t for t in g.targets if t.lean_name in name]
                if len(tg) != len(name):
                    self.bad(e, f"binds entry {dotted} -> {name}: no such target")
                return self.finish_call(e, tg, e.args, e.keywords, ctx, pre, cond, want_raw)
            if name in g.helpers:
                return self.helper_call(e, g.helpers[name], [self.expr(a, ctx, pre, cond) for a in e.args], {k.arg: self.expr(k.value, ctx, pre, cond) for k in e.keywords}, ctx, pre, cond, want_raw)
            tg = [t for t in g.targets if t.lean_name == name]
            if not tg:
                self.bad(e, f"binds entry {dotted} -> {name}: no such target")
            return self.finish_call(e, tg, e.args, e.keywords, ctx, pre, cond, want_raw)
        if isinstance(f, ast.Name) and f.id == "hash" and len(e.args) == 1 and not e.keywords and "hash" not in self.local_names \
                and g.cfg.get("object_hash") and not isinstance(e.args[0], ast.Starred):
            # builtin `hash(obj)` of an object of a translated class: the integer its `__hash__` returns, then the
            # builtin's own reduction of that integer (the group's "object_hash": Py_ssize_t range, -1 becomes -2)
            pre2: list = []
            a_, ta_ = self.expr(e.args[0], ctx, pre2, cond)
            tc_ = g.types.get(ta_) if isinstance(ta_, str) else None
            if tc_ is not None and not tc_.get("eq_only") and not tc_.get("len"):
                pre.extend(pre2)
                txt_, ty_ = self.operator_call(e, ta_, "__hash__", [(a_, ta_)], ctx, pre, cond)
                if ty_ != "Int":
                    self.bad(e, "__hash__ does not return Int")
                return "pure", f"({g.cfg['object_hash']} {self.paren(txt_)})", "Int"
        if dotted in g.helpers:
            args, kw = self.helper_args(e, g.helpers[dotted], 0, ctx, pre, cond)
            return self.helper_call(e, g.helpers[dotted], args, kw, ctx, pre, cond, want_raw)
        if isinstance(f, ast.Name):
            if f.id == "bytes" and len(e.args) == 1 and not e.keywords and isinstance(e.args[0], ast.List) and len(e.args[0].elts) == 1 \
                    and not isinstance(e.args[0].elts[0], ast.Starred) and "bytes([x])" in g.helpers and "bytes" not in self.local_names:
                # `bytes([x])`: the one-byte value (ValueError outside range(256)) — the declared helper "bytes([x])"
                return self.helper_call(e, g.helpers["bytes([x])"], [self.expr(e.args[0].elts[0], ctx, pre, cond)], {}, ctx, pre, cond, want_raw)
            if f.id in ("min", "max") and len(e.args) == 2 and not e.keywords:
                (a, ta), (b, tb) = self.expr(e.args[0], ctx, pre, cond), self.expr(e.args[1], ctx, pre, cond)
                if ta != "Int" or tb != "Int":
                    self.bad(e, f"{f.id} on non-ints")
                return "pure", f"({f.id} {a} {b})", "Int"
            if f.id == "abs" and len(e.args) == 1:
                a, ta = self.expr(e.args[0], ctx, pre, cond)
                if ta != "Int":
                    self.bad(e, "abs on non-int")
                return "pure", f"(if {a} < 0 then -{a} else {a})", "Int"
            if f.id == "len" and len(e.args) == 1 and not e.keywords:
                a, ta = self.expr(e.args[0], ctx, pre, cond)
                if ta in g.types and g.types[ta].get("list_of"):
                    return "pure", f"(({self.paren(a)}.size : Nat) : Int)", "Int"   # a Python list: its length
                if ta in g.types and g.types[ta].get("len"):
                    return "pure", f"({g.types[ta]['len']} {self.paren(a)})", "Int"  # bytes / list / dict: the builtin length
                if ta not in g.types:
                    self.bad(e, f"len() of a value of type {ta}")
                txt, ty = self.operator_call(e, ta, "__len__", [(a, ta)], ctx, pre, cond)
                if ty != "Int":
                    self.bad(e, "__len__ does not return Int")
                # the builtin checks the value __len__ returned: ValueError if negative, OverflowError above sys.maxsize
                return self.deliver(e, f"Pyoda.Gen.pyLen {self.paren(txt)}", "Int", True, pre, cond, want_raw)
            if f.id == "cast" and len(e.args) == 2 and not e.keywords:
                g_ = g.src.lookup_global(self.file, "cast", self.local_imports)
                imps_ = g.src.imports_of(g.src.module(self.file).body)
                if g_ is None and imps_.get("cast", (0, None, None))[1] == "typing":
                    return ("pure",) + self.expr(e.args[1], ctx, pre, cond)   # typing.cast returns its second argument
                self.bad(e, "call of cast (not typing.cast)")
            if f.id == "int" and len(e.args) == 1 and not e.keywords and self.text_cfg() is not None and "int" not in self.local_names:
                # (T4) `int(a * math.pow(10.0, k))` with ints a, k — the ONLY float expression translated: the exact integer
                # a * 10^k inside the range where the double computation is exact, "outside the modelled domain" elsewhere
                a0 = e.args[0]
                if isinstance(a0, ast.BinOp) and isinstance(a0.op, ast.Mult) and isinstance(a0.right, ast.Call) \
                        and ast.unparse(a0.right.func) == "math.pow" and len(a0.right.args) == 2 and not a0.right.keywords \
                        and isinstance(a0.right.args[0], ast.Constant) and type(a0.right.args[0].value) is float and a0.right.args[0].value == 10.0 \
                        and any(isinstance(st_, ast.Import) and any(a_.name == "math" and a_.asname is None for a_ in st_.names) for st_ in self.g.src.module(self.file).body) \
                        and "math" not in self.local_names:
                    for x_ in (a0.left, a0.right.args[1]):
                        if any(isinstance(n_, ast.Constant) and isinstance(n_.value, float) for n_ in ast.walk(x_)) or "math." in ast.unparse(x_) \
                                or any(isinstance(n_, ast.BinOp) and isinstance(n_.op, ast.Div) for n_ in ast.walk(x_)):
                            self.bad(e, "float arithmetic (only int(a * math.pow(10.0, k)) with ints a, k is translated)")
                    a, ta = self.expr(a0.left, ctx, pre, cond)
                    k, tk = self.expr(a0.right.args[1], ctx, pre, cond)
                    if ta != "Int" or tk != "Int":
                        self.bad(e, "int(a * math.pow(10.0, k)) with a or k not an int")
                    return self.deliver(e, f"Pyoda.Gen.pyIntMulPow10 {self.paren(a)} {self.paren(k)}", "Int", True, pre, cond, want_raw)
                if any(isinstance(n_, ast.Constant) and isinstance(n_.value, float) for n_ in ast.walk(a0)) or "math." in ast.unparse(a0):
                    self.bad(e, "float arithmetic (only int(a * math.pow(10.0, k)) with ints a, k is translated)")
                a, ta = self.expr(a0, ctx, pre, cond)
                if ta == self.text_cfg()["chr"]:
                    return self.deliver(e, f"Pyoda.Gen.pyIntChr {self.paren(a)}", "Int", True, pre, cond, want_raw)
                if ta != "Int":
                    self.bad(e, f"int() of a value of type {ta}")
                return "pure", a, "Int"
            if f.id == "str" and len(e.args) == 1 and not e.keywords and self.text_cfg() is not None and "str" not in self.local_names:
                a, ta = self.expr(e.args[0], ctx, pre, cond)   # (T4) str(int): its decimal rendering
                if ta != "Int":
                    self.bad(e, f"str() of a value of type {ta}")
                return "pure", f"(Pyoda.Gen.pyStrInt {self.paren(a)})", self.text_cfg()["str"]
            if f.id == "int" and len(e.args) == 1 and not e.keywords:
                a, ta = self.expr(e.args[0], ctx, pre, cond)
                if ta != "Int":
                    self.bad(e, "int() of a non-int")
                return "pure", a, "Int"
            if f.id == "divmod":
                a, d = self.divmod_args(e, ctx, pre)
                return "pure", f"(Int.fdiv {a} {d}, Int.fmod {a} {d})", ("Int", "Int")
            tg = self.find_targets(None, f.id)
            if tg:
                return self.finish_call(e, tg, e.args, e.keywords, ctx, pre, cond, want_raw)
            r = g.src.lookup_global(self.file, f.id, self.local_imports)
            if r and r[0] == "class" and len(e.args) == 1 and not e.keywords and f.id not in self.local_names \
                    and any(ast.unparse(b_).split(".")[-1] == "IntEnum" for b_ in r[2].bases):
                # `SomeIntEnum(x)`: the member whose value is x (as an int it IS x); ValueError when no member has that value
                vals = []
                for st_ in r[2].body:
                    if isinstance(st_, (ast.Assign, ast.AnnAssign)) and getattr(st_, "value", None) is not None:
                        tg_ = st_.targets[0] if isinstance(st_, ast.Assign) else st_.target
                        if isinstance(tg_, ast.Name) and not tg_.id.startswith("_"):
                            try:
                                v_ = g.ce.eval(st_.value, r[1], r[2])
                            except ValueError:
                                self.bad(e, f"member {tg_.id} of the IntEnum {f.id} is not an integer constant")
                            if isinstance(v_, bool) or not isinstance(v_, int):
                                self.bad(e, f"member {tg_.id} of the IntEnum {f.id} is not an integer constant")
                            vals.append(v_)
                    elif isinstance(st_, (ast.FunctionDef, ast.ClassDef)):
                        self.bad(e, f"IntEnum {f.id} with methods / nested classes")
                a_, ta_ = self.expr(e.args[0], ctx, pre, cond)
                if ta_ != "Int":
                    self.bad(e, f"{f.id}(…) of a value of type {ta_}")
                lit_ = "[" + ", ".join(str(v_) for v_ in vals) + "]"
                return self.deliver(e, f"Pyoda.Gen.pyEnumLookup {lit_} {self.paren(a_)}", "Int", True, pre, cond, want_raw)
            if r and r[0] == "class":
                tg = self.find_targets(r[2].name, "__init__", search_bases=False)
                if tg:  # ClassName(args): the translated __init__ builds the structure
                    return self.finish_call(e, tg, e.args, e.keywords, ctx, pre, cond, want_raw, constructing=True)
            self.bad(e, f"call of {f.id} (not a whitelisted helper or translated function)")
        if isinstance(f, ast.Attribute):
            base = f.value
            # class-level call: cls.f / ClassName.f / self.f with erased or struct self
            clsname = None
            recv = None
            if isinstance(base, ast.Name) and base.id in ("cls",) and base.id not in ctx.constructing:
                clsname = self.cls_node.name if self.cls_node is not None else None
            elif isinstance(base, ast.Name) and base.id == "self" and ctx.vars.get("self") == "Erased":
                clsname = self.cls_node.name if self.cls_node is not None else None
                recv = "erased"
            elif isinstance(base, ast.Name) and base.id in ctx.constructing and base.id == self.receiver:
                # a classmethod / staticmethod called through the object being initialised
                clsname = self.cls_node.name if self.cls_node is not None else None
                tgc = self.find_targets(clsname, f.attr) if clsname else None
                for c_ in tgc or []:
                    self.g.ensure(c_)
                if not tgc or any(c_.state == "done" and c_.kind not in ("class", "static") for c_ in tgc):
                    self.bad(e, f"call of {dotted} through the object under construction (only class/static methods)")
            elif isinstance(base, ast.Name) and base.id not in ctx.vars and base.id not in ctx.constructing:
                r = g.src.lookup_global(self.file, base.id, self.local_imports)
                if r and r[0] == "class":
                    clsname = r[2].name
            if clsname is not None:
                hk = f"{clsname}.{f.attr}"
                if hk in g.helpers:
                    args, kw = self.helper_args(e, g.helpers[hk], 0, ctx, pre, cond)
                    return self.helper_call(e, g.helpers[hk], args, kw, ctx, pre, cond, want_raw)
                tg = self.find_targets(clsname, f.attr)
                if not tg:
                    self.bad(e, f"call of {dotted}: {clsname}.{f.attr} is not in the target list")
                return self.finish_call(e, tg, e.args, e.keywords, ctx, pre, cond, want_raw)
            # method call on a struct-typed value
            obj, oty = self.expr(base, ctx, pre, cond)
            if oty in g.types:
                pyc = g.types[oty].get("py_class", oty)
                hk = f"{pyc}.{f.attr}"
                if hk in g.helpers:
                    args = [(obj, oty)] + [self.arg_or_str(a, ctx, pre, cond) for a in e.args]
                    kw = {k.arg: self.arg_or_str(k.value, ctx, pre, cond) for k in e.keywords}
                    return self.helper_call(e, g.helpers[hk], args, kw, ctx, pre, cond, want_raw)
                meth = g.types[oty].get("methods", {}).get(f.attr)
                if isinstance(meth, list):
                    # overloads of one virtual member (e.g. `_get_year_month_day(year=, day_of_year=)` and
                    # `_get_year_month_day(days_since_epoch=)`): the one whose parameter names fit the call
                    kws = [k.arg for k in e.keywords]
                    fits = [m_ for m_ in meth if len(e.args) + len(kws) == len(m_["py_params"]) and all(k in m_["py_params"][len(e.args):] for k in kws)]
                    if len(fits) != 1:
                        self.bad(e, f"call of the overloaded method {f.attr}: {len(fits)} overloads fit")
                    meth = fits[0]
                if meth is not None:
                    return self.method_field_call(e, obj, oty, f.attr, meth, ctx, pre, cond, want_raw)
                tg = self.find_targets(pyc, f.attr)
                if not tg:
                    self.bad(e, f"call of {dotted}: {pyc}.{f.attr} is not in the target list")
                return self.finish_call(e, tg, e.args, e.keywords, ctx, pre, cond, want_raw, receiver=(obj, oty))
            self.bad(e, f"method call on a value of type {oty}")
        self.bad(e, f"call of {dotted[:40]}")

    def method_field_call(self, e, obj, oty, name, m: dict, ctx, pre, cond, want_raw):
        """Virtual method of an object type = function-valued field of its structure (dynamic dispatch is the record
        of closures): `obj.m(a, k=b)`  ->  `obj.field a b`.
        m: {'field', 'py_params': [...], 'arg_types': [...], 'ret', 'raises'}; every parameter must be given."""
        pyp, ats = list(m["py_params"]), [parse_type(x) for x in m["arg_types"]]
        if len(pyp) != len(ats):
            self.bad(e, f"methods entry {name}: py_params / arg_types length")
        if len(e.args) > len(pyp):
            self.bad(e, f"too many arguments for method {name}")
        vals = {}
        for pn, a in zip(pyp, e.args):
            vals[pn] = self.expr(a, ctx, pre, cond)
        for k in e.keywords:
            if k.arg not in pyp or k.arg in vals:
                self.bad(e, f"keyword {k.arg} of method {name}")
            vals[k.arg] = self.expr(k.value, ctx, pre, cond)
        parts = []
        for pn, want in zip(pyp, ats):
            if pn not in vals:
                self.bad(e, f"argument {pn} of method {name} missing")
            txt, ty = vals[pn]
            if ty == "Prop" and want == "Bool":
                txt, ty = f"decide ({strip_parens(txt)})", "Bool"
            if ty != want:
                self.bad(e, f"argument {pn} of method {name} has type {ty}, expected {want}")
            parts.append(self.paren(txt))
        txt = " ".join([f"{self.paren(obj)}.{m['field']}"] + parts)
        return self.deliver(e, txt, parse_type(m["ret"]), bool(m.get("raises")), pre, cond, want_raw)

    def helper_args(self, e, h, skip: int, ctx, pre, cond):
        """Evaluate the arguments of a helper call.  A parameter the helper does not pass on to Lean (a name for an error
        message, the zone and date-time a mapping merely stores, …) is not evaluated; it must be effect-free."""
        if isinstance(h, list):
            return ([self.arg_or_str(a, ctx, pre, cond) for a in e.args],
                    {k.arg: self.arg_or_str(k.value, ctx, pre, cond) for k in e.keywords})
        pyp = h["py_params"][skip:]
        passed = set(h["pass"])
        def ev(name, a):
            if name is not None and name not in passed:
                if not (self.is_pure_simple(a) or isinstance(a, ast.JoinedStr)):
                    self.bad(e, f"argument {name} (not passed to the model) is not a plain name / literal")
                return ("", "Str")
            return self.arg_or_str(a, ctx, pre, cond)
        args = [ev(pyp[k] if k < len(pyp) else None, a) for k, a in enumerate(e.args)]
        kw = {k.arg: ev(k.arg, k.value) for k in e.keywords}
        return args, kw

    def arg_or_str(self, a, ctx, pre, cond):
        if self.text_cfg() is not None and ((isinstance(a, ast.Constant) and isinstance(a.value, str)) or isinstance(a, ast.JoinedStr)):
            return self.expr(a, ctx, pre, cond)   # (T4) in a text group a string argument is a value
        if isinstance(a, ast.Constant) and isinstance(a.value, str):
            return ("", "Str")
        if isinstance(a, ast.Constant) and a.value is None:
            return ("none", "None")   # an explicit None argument (`dt.replace(tzinfo=None)`): selects the helper alternative
        if isinstance(a, ast.JoinedStr):
            return ("", "Str")
        if isinstance(a, ast.Name) and ctx.vars.get(a.id) == "Str":
            return ("", "Str")
        if isinstance(a, ast.Name) and ctx.vars.get(a.id) == "None" and a.id not in ctx.constructing:
            return ("none", "None")   # a name that is statically None on this path
        return self.expr(a, ctx, pre, cond)

    def helper_call(self, e, h, args: list, kw: dict, ctx, pre, cond, want_raw):
        """h: {'lean','py_params':[...],'pass':[...],'ret','raises','arg_types'?}, or a list of such alternatives
        (overloads of a hand-mapped operator, e.g. Instant - Duration and Instant - Instant): the one whose declared
        argument types fit the evaluated arguments"""
        if isinstance(h, list):
            fits = []
            for alt in h:
                bound_ = dict(zip(alt["py_params"], args))
                bound_.update(kw)
                wt = alt.get("arg_types", {})
                if len(args) <= len(alt["py_params"]) and all(k_ in alt["py_params"] for k_ in kw) \
                        and all(n_ in alt["pass"] or bound_[n_][1] == "Str" or n_ in alt.get("ignore", []) for n_ in bound_) \
                        and all(r_ in bound_ for r_ in alt.get("require", [])) \
                        and all(bound_[n_][1] == parse_type(wt[n_]) for n_ in alt.get("ignore", []) if n_ in bound_ and n_ in wt) \
                        and all(p_ in bound_ and (bound_[p_][1] == parse_type(wt.get(p_, "Int"))
                                                                                 or (bound_[p_][1] == "Prop" and wt.get(p_) == "Bool")) for p_ in alt["pass"]):
                    fits.append(alt)
            if len(fits) != 1:
                self.bad(e, f"{len(fits)} alternatives of an overloaded helper fit the argument types")
            h = fits[0]
        pyp = h["py_params"]
        if len(args) > len(pyp):
            self.bad(e, "too many arguments for helper")
        bound = dict(zip(pyp, args))
        for k, v in kw.items():
            if k not in pyp or k in bound:
                self.bad(e, f"helper keyword {k}")
            bound[k] = v
        passed = []
        want_types = h.get("arg_types", {})
        for p in h["pass"]:
            if p not in bound:
                self.bad(e, f"helper argument {p} missing")
            txt, ty = bound[p]
            wt = parse_type(want_types.get(p, "Int"))
            if ty == "Prop" and wt == "Bool":
                txt, ty = f"decide ({strip_parens(txt)})", "Bool"
            if isinstance(wt, str) and wt.startswith("?") and ty != wt:
                # an optional parameter of the helper: a value of the inner type is `some`, a (statically) None value `none`
                if ty == wt[1:]:
                    txt, ty = f"(some {self.paren(txt)})", wt
                elif ty == "None":
                    txt, ty = "none", wt
            if ty != wt:
                self.bad(e, f"helper argument {p} has type {ty}, expected {wt}")
            passed.append(txt)
        ty = parse_type(h["ret"])
        if h.get("state"):
            # a hand-mapped operation on the object state (a stream read/write): `f st args`, returning (result, state) when "rw"
            if not self.t.mstate:
                self.bad(e, "state helper called from a function without an object state")
            txt = " ".join([h["lean"], self.ms_param()] + [self.paren(p) for p in passed])
            if h["state"] == "rw":
                if not self.ms_rw():
                    self.bad(e, "state-changing helper called from a function that only reads the state")
                return self.deliver_state(e, txt, ty, bool(h.get("raises")), ctx, pre, cond, writes=(set(h["writes"]) if "writes" in h else None))
            return self.deliver(e, txt, ty, bool(h.get("raises")), pre, cond, want_raw)
        txt = " ".join([h["lean"]] + [self.paren(p) for p in passed])
        return self.deliver(e, txt, ty, bool(h.get("raises")), pre, cond, want_raw)

    def paren(self, s: str) -> str:
        if s.startswith("(") or s.startswith("⟨") or s.startswith("«") or s.replace("_", "").replace(".", "").replace("'", "").isalnum():
            return s
        return f"({s})"

    def deliver(self, e, txt, ty, raises, pre, cond, want_raw):
        if not raises:
            return "pure", (f"({txt})" if " " in txt else txt), ty
        if want_raw:
            return "raising", txt, ty
        if cond:
            self.bad(e, "call that can raise in a conditionally evaluated position (short-circuit operand / conditional expression)")
        tv = self.fresh()
        pre.append(("bind", tv, txt, ty))
        return "pure", tv, ty

    def operator_call(self, e, sty, meth, args, ctx, pre, cond):
        pyc = self.g.types[sty].get("py_class", sty)
        hk = f"{pyc}.{meth}"
        if hk in self.g.helpers:  # an operator of a hand-mapped class
            r = self.helper_call(e, self.g.helpers[hk], list(args), {}, ctx, pre, cond, False)
            return r[1], r[2]
        tg = self.find_targets(pyc, meth)
        if not tg:
            self.bad(e, f"operator {meth} of {pyc} is not in the target list")
        r = self.finish_call(e, tg, [], {}, ctx, pre, cond, want_raw=False, receiver=args[0], extra=args[1:])
        return r[1], r[2]

    def finish_call(self, e, cands: list, args, keywords, ctx, pre, cond, want_raw, receiver=None, receiver_done=False, extra=None, constructing=False):
        """Bind the call's arguments to one of the candidate targets and emit the application."""
        if receiver_done:
            receiver = args[0]
            args = []
        provided_kw = [k.arg for k in keywords] if keywords else []
        mine_py = (self.t.mstate or {}).get("py_param")
        state_arg_pos = None
        for j_, a_ in enumerate(args):
            if isinstance(a_, ast.Name) and mine_py is not None and a_.id == mine_py:
                state_arg_pos = j_   # the state object itself, handed on to a callee that works on the same object
        if state_arg_pos is not None:
            args = [a_ for j_, a_ in enumerate(args) if j_ != state_arg_pos]
        # evaluate the arguments once, in source order (this may hoist raising calls), then pick the overload
        pos_vals = [self.arg_or_str(a, ctx, pre, cond) for a in args] + (list(extra) if extra else [])
        kw_vals = {k.arg: self.arg_or_str(k.value, ctx, pre, cond) for k in (keywords or [])}
        fits, why = [], []
        for c in cands:
            self.g.ensure(c)
            if c.state != "done":
                why.append(f"{c.lean_name}: {getattr(c, 'error', 'not translated')}")
                continue
            pyp = list(c.pyparams)
            if c.kind in ("method", "property", "class"):
                pyp = pyp[1:]
            c_py = (c.mstate or {}).get("py_param")
            c_pos = pyp.index(c_py) if c_py is not None and c_py in pyp else None
            if c_pos != state_arg_pos:
                why.append(f"{c.lean_name}: the state object is not passed where this specialisation expects it")
                continue
            if c_pos is not None:
                pyp = [x for x in pyp if x != c_py]
            npos = len(pos_vals)
            if npos > len(pyp):
                why.append(f"{c.lean_name}: too many positional arguments")
                continue
            bound = set(pyp[:npos])
            if any(k not in pyp or k in bound for k in provided_kw):
                why.append(f"{c.lean_name}: keyword mismatch")
                continue
            bound |= set(provided_kw)
            declared = dict(c.params)
            given_all = dict(zip(pyp, pos_vals))
            given_all.update(kw_vals)
            # a literal `None` argument selects the specialisation that was translated for `<parameter> is None`
            none_given = {n for n, (_, vty) in given_all.items() if vty == "None"
                          and not (isinstance(declared.get(n), str) and declared[n].startswith("?"))}
            if any(p not in c.none_params for p in none_given):
                why.append(f"{c.lean_name}: None passed for a parameter this specialisation does not take as None")
                continue
            if any(p in c.absent or p in c.none_params or (p not in declared) for p in bound if p not in none_given):
                why.append(f"{c.lean_name}: passes a parameter this specialisation treats as absent/defaulted")
                continue
            need = {n for n, _ in c.params if n != c.pyparams[0] or c.kind in ("static", "function")}
            need = {n for n in need if n in pyp}
            if any(n not in bound and n not in c.pydefaults for n in need):
                why.append(f"{c.lean_name}: missing argument")
                continue
            given = dict(zip(pyp, pos_vals))
            given.update(kw_vals)
            mism = [n for n, (_, vty) in given.items() if n not in none_given
                    and not (vty == declared[n] or (vty == "Prop" and declared[n] == "Bool") or (vty == "Str" and declared[n] == "Str")
                             or (isinstance(declared[n], str) and declared[n].startswith("?") and vty in ("None", declared[n][1:])))]
            if mism:
                why.append(f"{c.lean_name}: argument type mismatch for {mism}")
                continue
            if receiver is not None and not constructing and c.kind in ("method", "property") and c.pyparams[0] in declared \
                    and declared[c.pyparams[0]] != receiver[1]:
                why.append(f"{c.lean_name}: receiver type mismatch")
                continue
            if not constructing and c.kind in ("method", "property"):
                # a specialisation with a structure receiver serves calls on a value, one with an erased receiver calls on the erased self
                has_recv = c.pyparams[0] in declared
                if receiver is not None and not has_recv:
                    why.append(f"{c.lean_name}: erased receiver, called on a value")
                    continue
                if receiver is None and has_recv and ctx.vars.get("self") != declared[c.pyparams[0]]:
                    why.append(f"{c.lean_name}: needs a receiver value")
                    continue
            fits.append(c)
        if not fits:
            self.bad(e, "no translated specialisation accepts this call: " + "; ".join(why))
        if len(fits) > 1:
            self.bad(e, "ambiguous call: several translated specialisations accept it: " + ", ".join(c.lean_name for c in fits))
        c = fits[0]
        if c.lambda_params:
            self.bad(e, f"call of {c.lean_name}, which returns a lambda (only the uncurried definition exists)")
        if c not in self.t.calls:
            self.t.calls.append(c)
        pyp = list(c.pyparams)
        recv_name = None
        if c.kind in ("method", "property", "class"):
            recv_name = pyp[0]
            pyp = pyp[1:]
        if (c.mstate or {}).get("py_param") in pyp:
            pyp = [x for x in pyp if x != c.mstate["py_param"]]
        vals = dict(zip(pyp, pos_vals))
        vals.update(kw_vals)
        out = []
        for n, ty in c.params:
            if ty == "Str":
                continue
            if n == recv_name:
                if constructing:
                    continue
                if c.kind == "class":
                    self.bad(e, "classmethod target with a declared receiver")
                if receiver is None:
                    # self.f(...) inside a method of the same struct type
                    if "self" in ctx.vars and ctx.vars["self"] == ty:
                        receiver = ("self", ty)
                    else:
                        self.bad(e, f"call of {c.lean_name} needs a receiver of type {ty}")
                if receiver[1] != ty:
                    self.bad(e, f"receiver of type {receiver[1]}, expected {ty}")
                out.append(receiver[0])
                continue
            if n in vals:
                txt, vty = vals[n]
                if vty == "Prop" and ty == "Bool":
                    txt, vty = f"decide ({strip_parens(txt)})", "Bool"
                if isinstance(ty, str) and ty.startswith("?") and vty != ty:
                    # a run-time optional parameter: a value of the inner type is `some`, a (statically) None argument `none`
                    if vty == ty[1:]:
                        txt, vty = f"(some {self.paren(txt)})", ty
                    elif vty == "None":
                        txt, vty = "none", ty
                if vty != ty:
                    self.bad(e, f"argument {n} of {c.lean_name} has type {vty}, expected {ty}")
                out.append(txt)
            else:
                d = c.pydefaults.get(n)
                try:
                    self.g.ce.private_owner = (c.file, c.cls_node) if getattr(c, "cls_node", None) is not None else None
                    v = self.g.ce.eval(d, c.file, getattr(c, "cls_node", None))
                except (ValueError, TypeError):
                    self.bad(e, f"argument {n} of {c.lean_name} omitted and its default is not a constant")
                out.append(self.lit(v))
        fargs = []
        for fname, ats, rt, fd in c.fun_params:
            mine = [x for x in self.t.fun_params if x[3] == fd]
            if mine:
                if (mine[0][1], mine[0][2], self.t.fun_raises.get(fd)) != (ats, rt, c.fun_raises.get(fd)):
                    self.bad(e, f"abstract callee {fd}: signature differs between {self.t.lean_name} and {c.lean_name}")
                fargs.append(mine[0][0])
            elif fd in self.t.binds:
                bt = [t for t in self.g.targets if t.lean_name == self.t.binds[fd]]
                if not bt:
                    self.bad(e, f"binds entry {fd}: no such target")
                self.g.ensure(bt[0])
                if bt[0].state != "done" or bool(bt[0].raises) != bool(c.fun_raises.get(fd)) or bt[0].fun_params or [ty for _, ty in bt[0].lean_params()] != ats or bt[0].ret != rt:
                    self.bad(e, f"{bt[0].lean_name} cannot be passed for the abstract callee {fd} of {c.lean_name}")
                if bt[0] not in self.t.calls:
                    self.t.calls.append(bt[0])
                fargs.append(self.ref(bt[0].lean_name))
            else:
                self.bad(e, f"{c.lean_name} needs the abstract callee {fd}, which {self.t.lean_name} neither has nor binds")
        for n, ty in c.extra_params:
            if (n, ty) not in self.t.extra_params:
                self.bad(e, f"{c.lean_name} needs the instance attribute parameter {n}, which {self.t.lean_name} does not have")
            fargs.append(lname(n))
        if c.dstate:
            mine = self.t.dstate
            if not mine or mine["attr"] != c.dstate["attr"] or mine["type"] != c.dstate["type"]:
                self.bad(e, f"{c.lean_name} reads the dict {c.dstate['attr']}, which {self.t.lean_name} does not carry")
            if c.dstate["mode"] == "rw":
                self.bad(e, f"call of {c.lean_name}, which stores into {c.dstate['attr']} (threading a stored-into dict through a call is not supported)")
            fargs.append(lname(mine["param"]))
        c_rw = False
        if c.mstate:
            mine = self.t.mstate
            if not mine or mine["type"] != c.mstate["type"]:
                self.bad(e, f"{c.lean_name} works on an object state of type {c.mstate['type']}, which {self.t.lean_name} does not carry")
            if receiver is not None and not c.mstate.get("py_param"):
                self.bad(e, f"call of {c.lean_name} (object state) on a value")
            c_rw = c.mstate.get("mode", "rw") == "rw"
            if c_rw and not self.ms_rw():
                self.bad(e, f"call of {c.lean_name}, which changes the object state, from a function that only reads it")
            fargs.append(self.ms_param())
        txt = " ".join([self.ref(c.lean_name)] + fargs + [self.paren(x) for x in out])
        if c_rw:
            return self.deliver_state(e, txt, c.ret, c.raises, ctx, pre, cond, writes=set(c.ms_writes))
        if not c.raises:
            if not hasattr(self, "pure_translated_calls"):
                self.pure_translated_calls = set()
            self.pure_translated_calls.add(id(e))
        r = self.deliver(e, txt, c.ret, c.raises, pre, cond, want_raw)
        return r


# ------------------------------------------------------------------------------------------------
# lock discipline (builder B10): what `with self.__lock:` = "its body" leaves out, as data for the atomicity theorems
# ------------------------------------------------------------------------------------------------

LOCK_MUTATORS = frozenset("append appendleft extend extendleft insert pop popleft popitem remove clear update setdefault add "
                          "discard sort reverse rotate move_to_end".split())
LOCK_READERS = frozenset("keys values items get copy index count".split())
LOCK_FACTORIES = ("threading.Lock", "threading.RLock", "Lock", "RLock")


def _self_methods(cls: ast.ClassDef) -> list:
    """The instance methods of a class body (first parameter `self`; class and static methods have no object state of
    their own: a `self` built inside a factory classmethod is under construction, not shared yet)."""
    out = []
    for st in cls.body:
        if isinstance(st, ast.FunctionDef) and st.args.args and st.args.args[0].arg == "self":
            decos = [ast.unparse(d) for d in st.decorator_list]
            if "classmethod" not in decos and "staticmethod" not in decos:
                out.append(st)
    return out


def _lock_scan(cls: ast.ClassDef, fn: ast.FunctionDef, locks: list) -> dict:
    """Direct record of one method: every use of `self.<attr>` with its kind and whether it lies inside `with self.<lock>:`."""
    members = {}
    for m in _self_methods(cls):
        decos = [ast.unparse(d) for d in m.decorator_list]
        kind = "setter" if any(d.endswith(".setter") for d in decos) else \
            "property" if any(d == "property" or d.endswith("cached_property") for d in decos) else "method"
        members.setdefault(m.name, set()).add(kind)
    consts = set()
    for st in cls.body:  # class-level constants and nested classes read through `self`: not object state
        if isinstance(st, ast.ClassDef):
            consts.add(st.name)
        elif isinstance(st, ast.Assign):
            consts.update(t.id for t in st.targets if isinstance(t, ast.Name))
        elif isinstance(st, ast.AnnAssign) and st.value is not None and isinstance(st.target, ast.Name):
            consts.add(st.target.id)
    rec = {"acc": [], "selfcalls": [], "outer": [], "sections": 0, "manual": False}

    def is_self(n):
        return isinstance(n, ast.Attribute) and isinstance(n.value, ast.Name) and n.value.id == "self"

    def visit(n, held, parent=None, grand=None):
        if isinstance(n, ast.With):
            inner = held
            for it in n.items:
                ce = it.context_expr
                if is_self(ce) and ce.attr in locks and it.optional_vars is None:
                    rec["sections"] += 1
                    inner = True
                else:
                    visit(ce, held, n)
                    if it.optional_vars is not None:
                        visit(it.optional_vars, held, n)
            for b in n.body:
                visit(b, inner, n)
            return
        if isinstance(n, ast.AugAssign):
            tg = n.target
            base = tg.value if isinstance(tg, ast.Subscript) else tg
            if is_self(base) and base.attr not in locks:
                rec["acc"].append(("r", base.attr, held, "load " + ast.unparse(tg)))
        if is_self(n):
            a = n.attr
            if a in locks:
                made_here = isinstance(parent, (ast.Assign, ast.AnnAssign)) and isinstance(parent.value, ast.Call) \
                    and ast.unparse(parent.value.func) in LOCK_FACTORIES
                if not made_here:
                    rec["manual"] = True   # the lock used otherwise than as `with self.<lock>:`
                return
            pos = (n.lineno, n.col_offset)
            call_of = isinstance(parent, ast.Call) and parent.func is n
            via = isinstance(parent, ast.Attribute) and parent.value is n and isinstance(grand, ast.Call) and grand.func is parent
            sub = isinstance(parent, ast.Subscript) and parent.value is n
            store = isinstance(n.ctx, (ast.Store, ast.Del))
            if a in members and not (store and "setter" not in members[a]):
                # a method call, a bound method, a property read, a property store
                rec["selfcalls"].append((a + (".setter" if store else ""), held, pos))
                if via and parent.attr not in LOCK_READERS:
                    rec["outer"].append((f"{a}.{parent.attr}", held, pos))
            elif a in consts:
                if via:
                    rec["outer"].append((f"{a}.{parent.attr}", held, pos))
            elif call_of:
                rec["acc"].append(("r", a, held, "load " + a))
                rec["outer"].append((a, held, pos))                  # a callable held in an attribute
            elif via and parent.attr in LOCK_MUTATORS:
                rec["acc"].append(("w", a, held, f"call {a}.{parent.attr}"))
            elif via and parent.attr not in LOCK_READERS:
                rec["acc"].append(("r", a, held, "load " + a))
                rec["outer"].append((f"{a}.{parent.attr}", held, pos))  # a step of another object
            elif sub and isinstance(parent.ctx, (ast.Store, ast.Del)):
                rec["acc"].append(("w", a, held, ("store " if isinstance(parent.ctx, ast.Store) else "del ") + f"{a}[·]"))
            elif store:
                rec["acc"].append(("w", a, held, ("store " if isinstance(n.ctx, ast.Store) else "del ") + a))
            else:
                rec["acc"].append(("r", a, held, "load " + (f"{a}[·]" if sub else a)))
            return
        for c in ast.iter_child_nodes(n):
            visit(c, held, n, parent)

    for st in fn.body:
        visit(st, False, fn)
    return rec


def lock_discipline(cls: ast.ClassDef, fn: ast.FunctionDef, declared: list) -> dict:
    """The LockInfo record (lean/PyodaGen/LockInfo.lean) of method `fn` of class `cls`.  declared: lock attributes named by the
    target group ("locks": ["self.__lock"]); without a declaration the attributes assigned a threading lock in the class."""
    methods = _self_methods(cls)
    locks = [x.split(".", 1)[1] for x in declared if x.startswith("self.")]
    made = [t.attr for m in methods for st in ast.walk(m) if isinstance(st, (ast.Assign, ast.AnnAssign))
            and isinstance(st.value, ast.Call) and ast.unparse(st.value.func) in LOCK_FACTORIES
            for t in (st.targets if isinstance(st, ast.Assign) else [st.target])
            if isinstance(t, ast.Attribute) and isinstance(t.value, ast.Name) and t.value.id == "self"]
    locks = [a for a in locks if a in made] or made
    locks = locks[:1]   # one and the same lock for the class: a `with` on any other attribute guards nothing
    recs = {id(m): _lock_scan(cls, m, locks) for m in methods}
    if id(fn) not in recs:
        recs[id(fn)] = _lock_scan(cls, fn, locks)
    shared = {a for m in methods if m.name != "__init__" for k, a, _, _ in recs[id(m)]["acc"] if k == "w"}

    def targets_of(name):
        want = "setter" if name.endswith(".setter") else None
        base = name[:-7] if want else name
        return [m for m in methods if m.name == base and
                (any(ast.unparse(d).endswith(".setter") for d in m.decorator_list) == bool(want))]
    touches = {id(m): bool(recs[id(m)]["outer"]) or any(a in shared for _, a, _, _ in recs[id(m)]["acc"]) for m in methods}
    changed = True
    while changed:  # a member that uses a touching member touches
        changed = False
        for m in methods:
            if not touches[id(m)] and any(touches[id(c)] for nm, _, _ in recs[id(m)]["selfcalls"] for c in targets_of(nm)):
                touches[id(m)] = changed = True
    r = recs[id(fn)]
    mine = [x for x in r["acc"] if x[1] in shared]
    steps = [(nm, h, pos) for nm, h, pos in r["selfcalls"] if any(touches[id(c)] for c in targets_of(nm))]
    outside = sorted([(pos, nm) for nm, h, pos in steps if not h] + [(pos, nm) for nm, h, pos in r["outer"] if not h])
    info = {
        "lock": locks[0] if locks else "",
        "reads": sorted({a for k, a, _, _ in r["acc"] if k == "r"}),
        "writes": sorted({a for k, a, _, _ in r["acc"] if k == "w"}),
        "shared": sorted({a for _, a, _, _ in mine}),
        "allGuarded": all(h for _, _, h, _ in mine) and not r["manual"],
        "sections": r["sections"],
        "selfCallsInside": [nm for nm, h, _ in r["selfcalls"] if h],
        "callbacksInside": [nm for nm, h, _ in r["outer"] if h],
        "stepsOutside": [nm for _, nm in outside],   # source order
        "gilOnly": bool(mine) and not locks,
        "gilOps": [d for _, _, _, d in mine] if (mine and not locks) else [],
    }
    return info


def render_lock_info(lean_name: str, where: str, info: dict) -> list:
    def lst(xs):
        return "[" + ", ".join(json.dumps(x, ensure_ascii=False) for x in xs) + "]"
    fields = []
    for k, v in info.items():
        if k in ("callbacksInside", "stepsOutside", "gilOnly", "gilOps") and not v:
            continue  # the structure's default
        fields.append(f"{k} := " + (lst(v) if isinstance(v, list) else json.dumps(v, ensure_ascii=False) if isinstance(v, str)
                                   else ("true" if v else "false") if isinstance(v, bool) else str(v)))
    return [f"/-- lock discipline of `{where}` (computed from the AST; see PyodaGen/LockInfo.lean) -/",
            f"def {lean_name}.lockInfo : Pyoda.Gen.LockInfo :=",
            "  { " + ", ".join(fields[:4]) + ",\n    " + ", ".join(fields[4:]) + " }"]


# ------------------------------------------------------------------------------------------------
# emission
# ------------------------------------------------------------------------------------------------

class Emitter:
    def __init__(self, gen: Gen, t: Target):
        self.g, self.t = gen, t

    def emit(self) -> list[str]:
        t = self.t
        where = f"{t.file}: {(t.cls + '.') if t.cls else ''}{t.function}"
        spec = []
        if t.absent:
            spec.append("absent: " + ", ".join(sorted(t.absent)))
        if t.none_params:
            spec.append("passed as None: " + ", ".join(sorted(t.none_params)))
        if t.cls_as:
            spec.append(f"cls = {t.cls_as}")
        if t.self_attrs:
            spec.append("self attributes: " + ", ".join(f"{k} = {v}" for k, v in sorted(t.self_attrs.items())))
        if t.binds:
            spec.append("calls bound: " + ", ".join(f"{k} = {v}" for k, v in sorted(t.binds.items())))
        if t.fun_params:
            spec.append("abstract callees: " + ", ".join(f"{n} = {d}" for n, _, _, d in t.fun_params))
        if t.mstate:
            spec.append(f"object state = parameter {t.mstate['param']} ({'returned with the result' if t.mstate.get('mode', 'rw') == 'rw' else 'read only'})")
        if t.dstate:
            spec.append(f"dict attribute {t.dstate['attr']} = parameter {t.dstate['param']} ({'read and stored into; returned with the result' if t.dstate['mode'] == 'rw' else 'read only'})")
        doc = [f"/-- `{where}`" + (f" ({'; '.join(spec)})" if spec else "")]
        consts = {k: v for k, v in t.consts.items() if not isinstance(v, list)}
        if consts:
            doc.append("    constants: " + ", ".join(f"{k} = {v}" for k, v in sorted(consts.items())))
        doc[-1] += " -/"
        fps = self.fun_param_sig()
        eps = " ".join(f"({lname(n)} : {self.g.lean_type(ty)})" for n, ty in t.extra_params)
        if t.dstate:
            eps = (eps + " " if eps else "") + f"({lname(t.dstate['param'])} : {self.g.lean_type(parse_type(t.dstate['type']))})"
        if t.mstate:
            eps = (eps + " " if eps else "") + f"({lname(t.mstate['param'])} : {self.g.lean_type(t.mstate['type'])})"
        params = (fps + " " if fps else "") + (eps + " " if eps else "") + " ".join(f"({lname(n)} : {self.g.lean_type(ty)})" for n, ty in t.lean_params())
        rty = self.g.lean_type(t.ret)
        if t.dstate and t.dstate["mode"] == "rw":
            rty = f"({rty} × {self.g.lean_type(parse_type(t.dstate['type']))})"
        if t.mstate and t.mstate.get("mode", "rw") == "rw":
            rty = f"({rty} × {self.g.lean_type(t.mstate['type'])})"
        if t.raises:
            head = f"def {t.lean_name} {params} : R {rty} := do".replace("  ", " ")
        else:
            head = f"def {t.lean_name} {params} : {rty} :=".replace("  ", " ")
        tabs = []
        for name, lit in getattr(t, "tables", []):
            tabs += [f"/-- a table of `{where}`, evaluated from the source -/", f"def {name} : List Int := {lit}", ""]
        lines = tabs + self.emit_loops() + doc + [head]
        lines += self.block(t.body_ir, 1, t.raises)
        return lines

    def fun_param_sig(self) -> str:
        t = self.t
        return " ".join("(" + n + " : " + " → ".join([self.g.lean_type(x) for x in ats] + [("R " if t.fun_raises.get(fd) else "") + self.g.lean_type(rt)]) + ")"
                        for n, ats, rt, fd in t.fun_params)

    def emit_loops(self) -> list[str]:
        """The fuel-recursive functions of the target's `while` loops (structural recursion on the fuel)."""
        t = self.t
        out = []
        for lp in t.loops:
            fps = self.fun_param_sig()
            eps = " ".join(f"({lname(n)} : {self.g.lean_type(ty)})" for n, ty in t.extra_params)
            frees = " ".join(f"({lname(n)} : {self.g.lean_type(ty)})" for n, ty in lp["free"])
            head = " ".join(x for x in [f"def {lp['name']}", fps, eps, frees] if x)
            cty = [self.g.lean_type(ty) for _, ty in lp["carried"]]
            rty = cty[0] if len(cty) == 1 else "(" + " × ".join(cty) + ")"
            if lp.get("early"):  # (what the body returned, if it did) × (the loop variables)
                rty = f"(Option {self.g.lean_type(t.ret)} × {rty})"
            if lp.get("kind") == "forlist":
                out.append(f"/-- loop {lp['index']} of `{t.file}: {(t.cls + '.') if t.cls else ''}{t.function}`: `for … in <list>` as recursion on the list -/")
                out.append(f"{head} : List {self.g.lean_type(lp['elem'])} → {' → '.join(cty)} → R {rty}")
                out.append(f"  | [], {', '.join(lname(n) for n, _ in lp['carried'])} => .ok {lname(lp['carried'][0][0]) if len(cty) == 1 else '(' + ', '.join(lname(n) for n, _ in lp['carried']) + ')'}")
                out.append(f"  | {lp['pattern']} :: rest', {', '.join(lname(n) for n, _ in lp['carried'])} => do")
                out += self.block(lp["ir"], 2, True)
                out.append("")
                continue
            out.append(f"/-- loop {lp['index']} of `{t.file}: {(t.cls + '.') if t.cls else ''}{t.function}`: `while` as recursion on the fuel;")
            out.append("    out of fuel = outside the modelled domain (`decimalDomain`, reply `!dom`) -/")
            out.append(f"{head} : Nat → {' → '.join(cty)} → R {rty}")
            out.append(f"  | 0, {', '.join('_' for _ in cty)} => .error .decimalDomain")
            out.append(f"  | fuel'+1, {', '.join(lname(n) for n, _ in lp['carried'])} => do")
            out += self.block(lp["ir"], 2, True)
            out.append("")
        return out

    def block(self, ir: list, ind: int, monadic: bool) -> list[str]:
        pad = "  " * ind
        out = []
        for n in ir:
            k = n[0]
            if k == "let":
                out.append(f"{pad}let {n[1]} := {n[2]}")
            elif k == "bind":
                if n[1] is None:
                    out.append(f"{pad}{n[2]}")
                else:
                    out.append(f"{pad}let {n[1]} ← {n[2]}")
            elif k == "if":
                cur = n
                kw = "if"
                while True:
                    out.append(f"{pad}{kw} {strip_parens(cur[1])} then")
                    out += self.block(cur[2], ind + 1, monadic)
                    if len(cur[3]) == 1 and cur[3][0][0] == "if":
                        cur, kw = cur[3][0], "else if"
                        continue
                    out.append(f"{pad}else")
                    out += self.block(cur[3], ind + 1, monadic)
                    break
            elif k == "optmatch":
                out.append(f"{pad}match {n[1]} with")
                out.append(f"{pad}| some {n[2]} =>")
                out += self.block(n[3], ind + 1, monadic)
                out.append(f"{pad}| none =>")
                out += self.block(n[4], ind + 1, monadic)
            elif k == "optret":
                out.append(f"{pad}match {n[1]} with")
                okv = n[3] if len(n) > 3 else "v'"
                out.append(f"{pad}| some v' => .ok {okv}")
                out.append(f"{pad}| none =>")
                out += self.block(n[2], ind + 1, monadic)
            elif k == "try":
                hs = ", ".join("([" + ", ".join("." + c for c in cl) + "], " + ("some ." + tg if tg else "none") + ")" for cl, tg in n[2])
                out.append(f"{pad}Pyoda.Gen.pyTry [{hs}] (do")
                out += self.block(n[1], ind + 2, True)
                out.append(f"{pad}  )")
            elif k == "ret":
                out.append(f"{pad}.ok {self.paren(n[1])}" if monadic else f"{pad}{n[1]}")
            elif k == "tail":
                out.append(f"{pad}{n[1]}")
            elif k == "raise":
                out.append(f"{pad}.error .{n[1]}")
            else:
                raise AssertionError(k)
        return out

    @staticmethod
    def paren(s: str) -> str:
        if s.startswith("(") and s.endswith(")") or s.startswith("⟨") or " " not in s:
            return s
        return f"({s})"


# ------------------------------------------------------------------------------------------------
# driver
# ------------------------------------------------------------------------------------------------

def load_targets(path: Path = TARGETS_FILE) -> dict:
    tree = ast.parse(path.read_text())
    for st in tree.body:
        if isinstance(st, ast.Assign) and isinstance(st.targets[0], ast.Name) and st.targets[0].id == "TARGETS":
            return ast.literal_eval(st.value)
    raise SystemExit(f"{path}: no literal TARGETS assignment")


def write_if_changed(path: Path, content: str) -> bool:
    if path.exists() and path.read_text() == content:
        return False
    path.parent.mkdir(parents=True, exist_ok=True)
    fd, tmp = tempfile.mkstemp(dir=str(path.parent), prefix=".py2lean.", suffix=".tmp")
    with os.fdopen(fd, "w") as f:
        f.write(content)
    os.replace(tmp, path)
    return True


def generate(prop: str, cfg: dict, repo: Path, out_dir: Path | None, to_stdout=False) -> dict:
    src = Source(repo)
    res = {"property": prop, "functions": [], "errors": [], "written": False, "out": None, "source_files": {}}
    try:
        gen = Gen(prop, cfg, src)
        gen.translate_all()
    except Unsupported as e:
        res["errors"].append({"function": "*", "error": str(e)})
        return res
    except (OSError, SyntaxError) as e:
        res["errors"].append({"function": "*", "error": f"cannot read/parse the source: {e}"})
        return res
    res["errors"] = gen.errors
    res["functions"] = [{"lean": f"Pyoda.Gen.{prop}.{t.lean_name}", "python": f"{t.file}:{(t.cls + '.') if t.cls else ''}{t.function}",
                         "raises": t.raises, "line": t.node.lineno} for t in gen.targets if t.state == "done"]
    res["source_files"] = dict(sorted(src.read.items()))
    text = gen.render()
    if to_stdout:
        sys.stdout.write(text)
    if out_dir is not None and not gen.errors:
        p = out_dir / f"{prop}.lean"
        res["written"] = write_if_changed(p, text)
        res["out"] = str(p)
    res["sha256"] = hashlib.sha256(text.encode()).hexdigest()
    return res


def main() -> int:
    ap = argparse.ArgumentParser(description=__doc__.split("\n\n")[0])
    ap.add_argument("--repo", default=os.environ.get("PYODA_REPO", "/repo"))
    ap.add_argument("--out", default=str(VERIF / "lean" / "PyodaGen"))
    ap.add_argument("--prop", action="append")
    ap.add_argument("--json", action="store_true", help="print a machine-readable summary")
    ap.add_argument("--stdout", action="store_true", help="print the generated Lean instead of writing it")
    ap.add_argument("--targets", default=str(TARGETS_FILE))
    a = ap.parse_args()
    targets = load_targets(Path(a.targets))
    props = [p if p in targets else p.upper() for p in (a.prop or sorted(targets))]
    results = []
    rc = 0
    done = set()
    for p in props:
        if p not in targets:
            results.append({"property": p, "functions": [], "errors": [], "skipped": "no targets"})
            continue
        q = targets[p].get("same_as", p)  # a property may share the generated file of another one
        if q in done:
            continue
        done.add(q)
        r = generate(q, targets[q], Path(a.repo), None if a.stdout else Path(a.out), a.stdout)
        r["requested_as"] = p
        results.append(r)
        if r["errors"]:
            rc = 3
    if a.json:
        print(json.dumps(results, indent=1))
    elif not a.stdout:
        for r in results:
            print(f"{r['property']}: {len(r['functions'])} functions" + (", written" if r.get("written") else ", unchanged") + (f", {len(r['errors'])} ERROR(S)" if r["errors"] else ""))
            for e in r["errors"]:
                print("  ", e.get("function"), "—", e["error"])
    else:
        for r in results:
            for e in r["errors"]:
                print("-- ", e.get("function"), "—", e["error"], file=sys.stderr)
    return rc


if __name__ == "__main__":
    sys.exit(main())
