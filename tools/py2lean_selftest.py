#!/usr/bin/env python3
"""
Differential self-test of the translator tools/py2lean.py (run with /venv/bin/python).

The corpus tools/py2lean_selftest/corpus/sample.py holds small functions that together use every construct of the
translated subset (floor division and modulo with negative operands and divisors, shifts and masks of negative
numbers, chained comparisons, and/or/not, conditional expressions, walrus, tuple assignment, augmented
assignment, if/elif/else with fall-through and early return, the order in which raising calls raise, constant
tables incl. negative and out-of-range indices, run-time divisors, defaults, overload specialisation,
object construction, properties, operators, class constants with inheritance, abstract callees).
This script
  1. translates the corpus with py2lean (target list tools/py2lean_selftest/targets.py),
  2. compiles the generated Lean in a scratch root and evaluates every definition on a grid of inputs (`#eval`),
  3. imports the corpus as ordinary Python, calls the same functions on the same inputs,
  4. reports every input where the two disagree.
It validates the translator's semantics choices (its trusted base) against CPython itself.

usage: py2lean_selftest.py [--json] [--keep]      exit 0 = all agree, 1 = disagreement, 2 = infrastructure
"""
from __future__ import annotations

import argparse
import importlib
import itertools
import json
import os
import random
import shutil
import subprocess
import sys
import tempfile
from pathlib import Path

HERE = Path(__file__).resolve().parent
VERIF = HERE.parent
LEAN = VERIF / "lean"
ROOT = HERE / "py2lean_selftest"
sys.path.insert(0, str(HERE))
import py2lean  # noqa: E402

INTS = [-(10 ** 12) - 7, -(2 ** 31) - 1, -1001, -501, -130, -101, -100, -65, -51, -50, -14, -13, -7, -5, -4, -3, -2, -1, 0, 1, 2, 3,
        4, 5, 6, 7, 12, 13, 14, 19, 20, 21, 30, 31, 58, 59, 64, 89, 90, 99, 100, 101, 255, 500, 501, 1000, 1001, 2 ** 31, 10 ** 12 + 7]
SMALL = [-101, -100, -7, -3, -1, 0, 1, 2, 3, 7, 13, 50, 99, 100, 499, 600, 1001]
INT_LISTS = [[], [4], [-3, 0, 9], [1, 2, 3, 5, 8], [7, 7], [2, -1, 100]]
LIST_LISTS = [[], [[]], [[1, 2], [3]], [[1, 2], [], [2, 5]], [[9], [0, -4, 8]], [[3, 4, 5, 6, 7]]]
PAIR_LISTS = [[], [(2, 3)], [(-1, 4), (5, -6), (0, 7)], [(1, 1), (2, 2), (3, 3), (4, 4), (100, -100)]]
NODE_LISTS = [[], [(3, 30)], [(-5, 7), (1, 10), (5, 50)], [(-9, 1), (-4, 2), (-3, 3), (0, 4), (2, 5), (4, 6), (9, 8), (100, 9)]]
EXC = {"SkippedTimeError": "skippedTime", "AmbiguousTimeError": "ambiguousTime", "ValueError": "valueError", "OverflowError": "overflowError", "ZeroDivisionError": "zeroDivision", "IndexError": "indexError",
       "KeyError": "keyError", "RuntimeError": "runtimeError", "TypeError": "typeError", "NotImplementedError": "notImplemented",
       "InvalidPyodaDataError": "invalidData"}


def atoms(ty):
    """number of integer/bool atoms a parameter of type `ty` is built from"""
    return 2 if ty in ("Vec", "Holder", "Span", "RdSeed", "?Int") else 1


def grid(types, rng, custom=None):
    """custom: per-parameter-position list of ints replacing the default pool (functions whose cost grows with the value)"""
    pools = []
    for k, t in enumerate(types):
        if custom and custom[k] is not None:
            pools.append([(a,) for a in custom[k]])
        elif t == "Bool":
            pools.append([(False,), (True,)])
        elif t == "Vec":
            pools.append([(a, b) for a in SMALL for b in (-500, -3, 0, 2, 99, 500)])
        elif t == "Span":
            pools.append([(a, b) for a in (-700, -101, -7, 0, 3, 50, 99) for b in (-650, -8, -7, 0, 2, 5, 60, 120, 1001)])
        elif t == "RdSeed":  # the Reader state built by Reader.make(a, b) / mkRd a b
            pools.append([(a, b) for a in (-7, 0, 1, 2, 5, 77, 130, 255) for b in range(0, 13)])
        elif t == "?Int":  # (present?, value)
            pools.append([(0, 0)] + [(1, v) for v in (-9, 0, 4, 1000)])
        elif t == "Pairs":
            pools.append([(i,) for i in range(len(PAIR_LISTS))])
        elif t == "IntList":
            pools.append([(i,) for i in range(len(INT_LISTS))])
        elif t == "IntLists":
            pools.append([(i,) for i in range(len(LIST_LISTS))])
        elif t == "Nodes":  # one of the fixed sorted lists of nodes
            pools.append([(i,) for i in range(len(NODE_LISTS))])
        elif t == "StoreSeed":  # the dict {i: seed * i + (i & 1) for i in range(8)}
            pools.append([(a,) for a in (-2, 0, 3, 7)])
        elif t == "Holder":  # (multiplier of its LinearScaler, bias)
            pools.append([(a, b) for a in (-3, 0, 1, 2, 7, 60) for b in (-1, 0, 5, 50, 1000)])
        else:
            pools.append([(a,) for a in INTS])
    total = 1
    for p in pools:
        total *= len(p)
    if total <= 3000:
        combos = list(itertools.product(*pools))
    else:
        combos = [tuple(rng.choice(p) for p in pools) for _ in range(3000)]
        combos += [tuple(p[i % len(p)] for p in pools) for i in range(60)]
    return combos


def lean_lit(v):
    if isinstance(v, bool):
        return "true" if v else "false"
    return f"({v})" if v < 0 else str(v)


def lean_show(ty, e):
    """Lean expression of type String rendering `e : ty` canonically."""
    if isinstance(ty, tuple):
        names = [f"p{i}" for i in range(len(ty))]
        pat = "(" + ", ".join(names) + ")"
        return "(match " + e + " with | " + pat + " => \"(\" ++ " + " ++ \", \" ++ ".join(lean_show(t, n) for t, n in zip(ty, names)) + " ++ \")\")"
    if ty == "Int":
        return f"toString ({e} : Int)"
    if ty == "Bool":
        return f"(if ({e} : Bool) then \"True\" else \"False\")"
    if ty == "Unit":
        return f"(let _u : Unit := {e}; \"None\")"
    if ty == "Vec":
        return f"(\"Vec(\" ++ toString ({e}).x ++ \", \" ++ toString ({e}).y ++ \")\")"
    if ty == "Span":
        return f"(\"Span(\" ++ toString ({e}).lo ++ \", \" ++ toString ({e}).hi ++ \")\")"
    if isinstance(ty, str) and ty.startswith("?"):
        inner = lean_show(ty[1:], "o'")
        return "(match " + e + " with | none => \"None\" | some o' => " + inner + ")"
    raise ValueError(ty)


def py_show(v):
    if v is None:
        return "None"
    if isinstance(v, bool):
        return "True" if v else "False"
    if isinstance(v, int):
        return str(v)
    if isinstance(v, tuple):
        return "(" + ", ".join(py_show(x) for x in v) + ")"
    if type(v).__name__ == "Vec":
        return f"Vec({v._Vec__x}, {v._Vec__y})"
    if type(v).__name__ == "Span":
        return f"Span({v._Span__lo}, {v._Span__hi})"
    raise ValueError(repr(v))


def run(keep=False) -> dict:
    res = {"ok": True, "functions": 0, "evaluations": 0, "disagreements": [], "errors": [], "per_function": {}, "refused": {}}
    all_targets = py2lean.load_targets(ROOT / "targets.py")
    # negative part: every function of corpus/unsupported.py must be refused, with the expected reason
    refuse = all_targets["SelftestRefuse"]
    rgen = py2lean.Gen("SelftestRefuse", refuse, py2lean.Source(ROOT))
    rgen.translate_all()
    for t in rgen.targets:
        if t.function not in refuse["expect"]:
            continue  # an auxiliary target of the must-refuse corpus (translated, called by a refused one)
        want = refuse["expect"][t.function]
        err = getattr(t, "error", "")
        ok = t.state == "failed" and err.startswith("UNSUPPORTED: ") and want in err
        res["refused"][t.function] = {"ok": ok, "error": err or "(translated!)", "expected_fragment": want}
        if not ok:
            res["ok"] = False
            res["disagreements"].append({"function": t.function, "input": None, "python": f"must be refused ({want})", "lean": err or "was translated"})
    lock_selftest(res)
    text_selftest(res)
    targets = all_targets["Selftest"]
    tmp = Path(tempfile.mkdtemp(prefix="py2lean_selftest_"))
    try:
        out_dir = tmp / "PyodaGen"
        g = py2lean.generate("Selftest", targets, ROOT, out_dir)
        if g["errors"]:
            res["ok"] = False
            res["errors"] = g["errors"]
            return res
        src = py2lean.Source(ROOT)
        gen = py2lean.Gen("Selftest", targets, src)
        gen.translate_all()
        rng = random.Random(20261002)
        plan = []
        ev = ["import PyodaGen.Selftest", "open Pyoda Pyoda.Gen.Selftest Pyoda.Gen.SelftestSupport", "",
              "/-- one input per line, integer atoms separated by blanks (booleans as 0/1) -/",
              "def runRows (name file : String) (f : List Int → String) : IO Unit := do",
              "  let s ← IO.FS.readFile file",
              "  IO.println (\"## \" ++ name)",
              "  for ln in s.splitOn \"\\n\" do",
              "    if ln ≠ \"\" then",
              "      let xs := (ln.splitOn \" \").filterMap String.toInt?",
              "      IO.println (f xs)", ""]
        for idx, t in enumerate(gen.targets):
            if t.d.get("selftest_skip"):
                continue  # result type cannot be rendered (an object); exercised through its callers
            # Lean argument order: abstract callees, instance-attribute parameters, the dict attribute, the parameters
            allp = list(t.extra_params) + ([("store'", "StoreSeed")] if t.dstate else []) + ([("st'", "RdSeed")] if t.mstate else []) + list(t.lean_params())
            types = [ty for _, ty in allp]
            cg = t.d.get("selftest_grid")  # e.g. {"b": [..]}: inputs for parameters whose size drives the running time
            custom = [cg.get(n) if cg else None for n, _ in allp]
            combos = grid(types, rng, custom)
            plan.append((t, types, combos))
            n_atoms = sum(atoms(ty) for ty in types)
            rows = []
            for c in combos:
                flat = [x for part in c for x in part]
                rows.append(" ".join(str(int(x)) for x in flat) if flat else "0")
            (tmp / f"in_{idx}.txt").write_text("\n".join(rows) + "\n")
            names, args = [], []
            k = 0
            for ty in types:
                if ty == "Vec":
                    names += [f"a{k}", f"a{k+1}"]
                    args.append(f"(⟨a{k}, a{k+1}⟩ : Vec)")
                    k += 2
                elif ty == "Span":
                    names += [f"a{k}", f"a{k+1}"]
                    args.append(f"(⟨a{k}, a{k+1}⟩ : Span)")
                    k += 2
                elif ty == "Holder":
                    names += [f"a{k}", f"a{k+1}"]
                    args.append(f"(⟨⟨fun x => a{k} * x + 1, fun v l => ckv v (-l) l⟩, a{k+1}⟩ : Holder)")
                    k += 2
                elif ty == "RdSeed":
                    names += [f"a{k}", f"a{k+1}"]
                    args.append(f"({(t.d.get('selftest_state') or {}).get('lean_mk', 'mkRd')} a{k} a{k+1})")
                    k += 2
                elif ty == "?Int":
                    names += [f"a{k}", f"a{k+1}"]
                    args.append(f"(if a{k} = 0 then (none : Option Int) else some a{k+1})")
                    k += 2
                elif ty == "Pairs":
                    names.append(f"a{k}")
                    alts = " ".join(f"| {i} => [{', '.join(f'({lean_lit(a)}, {lean_lit(b)})' for a, b in l)}]" for i, l in enumerate(PAIR_LISTS))
                    args.append(f"((match a{k} with {alts} | _ => []) : List (Int × Int))")
                    k += 1
                elif ty == "IntList":
                    names.append(f"a{k}")
                    alts = " ".join(f"| {i} => [{', '.join(lean_lit(a) for a in l)}]" for i, l in enumerate(INT_LISTS))
                    args.append(f"((match a{k} with {alts} | _ => []) : List Int)")
                    k += 1
                elif ty == "IntLists":
                    names.append(f"a{k}")
                    alts = " ".join(f"| {i} => [{', '.join('[' + ', '.join(lean_lit(a) for a in l) + ']' for l in ll)}]" for i, ll in enumerate(LIST_LISTS))
                    args.append(f"((match a{k} with {alts} | _ => []) : List (List Int))")
                    k += 1
                elif ty == "Nodes":
                    names.append(f"a{k}")
                    alts = " ".join(f"| {i} => #[{', '.join(f'⟨{lean_lit(a)}, {lean_lit(b)}⟩' for a, b in l)}]" for i, l in enumerate(NODE_LISTS))
                    args.append(f"((match a{k} with {alts} | _ => #[]) : Array Node)")
                    k += 1
                elif ty == "StoreSeed":
                    names.append(f"a{k}")
                    args.append(f"(fun i => if 0 ≤ i ∧ i < 8 then some (a{k} * i + Int.fmod i 2) else none)")
                    k += 1
                elif ty == "Bool":
                    names.append(f"a{k}")
                    args.append(f"(a{k} != 0)")
                    k += 1
                else:
                    names.append(f"a{k}")
                    args.append(f"a{k}")
                    k += 1
            fargs = t.d.get("selftest_fargs") or ["(fun x => 3 * x - 2)" for _ in t.fun_params]   # abstract callee of the self-test: w x = 3*x - 2
            call = " ".join([t.lean_name] + fargs + args) if (args or fargs) else t.lean_name
            if t.d.get("selftest_then"):   # slices of one procedure: this one, then the next, is the whole function
                nxt = " ".join([t.d["selftest_then"]] + fargs + args)
                call = f"(do let _ ← ({call} : R Unit); ({nxt} : R Unit))"
            if t.dstate and t.dstate["mode"] == "rw":  # (result, final dict): the result and the values under the keys 0 … 8
                inner = lean_show(t.ret, "v.1") + ' ++ " " ++ toString ((List.range 9).map (fun (i : Nat) => (v.2 (i : Int)).getD (-999)))'
                shown = f"Pyoda.showR (fun v => {inner}) ({call})"
            elif t.mstate and t.mstate.get("mode", "rw") == "rw":  # (result, final state of the object)
                inner = lean_show(t.ret, "v.1") + ' ++ " | " ++ ' + (t.d.get("selftest_state") or {}).get("lean_show", "showRd") + ' v.2'
                shown = f"Pyoda.showR (fun v => {inner}) ({call})" if t.raises else f"(let v := {call}; {inner})"
            else:
                shown = f"Pyoda.showR (fun v => {lean_show(t.ret, 'v')}) ({call})" if t.raises else lean_show(t.ret, f"({call})")
            pat = "[" + ", ".join(names) + "]" if names else "_"
            ev.append(f"#eval runRows \"{t.lean_name}\" \"{tmp}/in_{idx}.txt\" fun r => match r with | {pat} => {shown}" + (" | _ => \"?arity\"" if names else ""))
        (tmp / "Eval.lean").write_text("\n".join(ev) + "\n")
        # compile + evaluate in the scratch root
        lp = subprocess.run(["lake", "env", "printenv", "LEAN_PATH"], cwd=LEAN, capture_output=True, text=True, timeout=600)
        if lp.returncode != 0:
            raise RuntimeError("lake env failed: " + lp.stderr[-300:])
        built = LEAN / ".lake" / "build" / "lib" / "lean" / "PyodaGen"
        b = subprocess.run(["lake", "build", "PyodaGen.Support"], cwd=LEAN, capture_output=True, text=True, timeout=3600)
        if b.returncode != 0:
            raise RuntimeError("lake build PyodaGen.Support failed: " + (b.stdout + b.stderr)[-400:])
        for f in built.iterdir():
            if f.stem.split(".")[0] != "Selftest" and f.suffix in (".olean", ".ilean"):
                os.symlink(f, out_dir / f.name)
        env = dict(os.environ)
        env["LEAN_PATH"] = lp.stdout.strip()
        pin = ["taskset", "-c", str(os.getpid() % (os.cpu_count() or 1))] if Path("/usr/bin/taskset").exists() else []
        c = subprocess.run(pin + ["lean", "--root=" + str(tmp), "-o", str(out_dir / "Selftest.olean"), str(out_dir / "Selftest.lean")],
                           cwd=tmp, env=env, capture_output=True, text=True, timeout=1800)
        if c.returncode != 0:
            res["ok"] = False
            res["errors"].append({"function": "*", "error": "generated Lean does not compile: " + (c.stdout + c.stderr)[-1500:]})
            return res
        env["LEAN_PATH"] = str(tmp) + ":" + lp.stdout.strip()
        c = subprocess.run(pin + ["lean", "--root=" + str(tmp), str(tmp / "Eval.lean")], cwd=tmp, env=env, capture_output=True, text=True, timeout=1800)
        if c.returncode != 0:
            res["ok"] = False
            res["errors"].append({"function": "*", "error": "evaluation file failed: " + (c.stdout + c.stderr)[-1500:]})
            return res
        lean_out: dict[str, list[str]] = {}
        cur = None
        for ln in c.stdout.split("\n"):
            if ln.startswith("## "):
                cur = ln[3:].strip()
                lean_out[cur] = []
            elif cur is not None and ln != "":
                lean_out[cur].append(ln)
        # the Python side
        sys.path.insert(0, str(ROOT))
        mods = {"corpus/sample.py": importlib.import_module("corpus.sample"), "corpus/stateful.py": importlib.import_module("corpus.stateful")}
        Vec = mods["corpus/sample.py"].Vec
        for t, types, combos in plan:
            got = lean_out.get(t.lean_name, [])
            if len(got) != len(combos):
                res["ok"] = False
                res["errors"].append({"function": t.lean_name, "error": f"{len(got)} Lean results for {len(combos)} inputs"})
                continue
            bad = 0
            mod = mods[t.file]
            for c_in, l_res in zip(combos, got):
                args = [list(INT_LISTS[p[0]]) if ty == "IntList" else [list(x) for x in LIST_LISTS[p[0]]] if ty == "IntLists" else PAIR_LISTS[p[0]] if ty == "Pairs" else (None if p[0] == 0 else p[1]) if ty == "?Int" else getattr(mod, (t.d.get("selftest_state") or {}).get("py_class", "Reader")).make(p[0], p[1]) if ty == "RdSeed" else [mod.Node(a, b) for a, b in NODE_LISTS[p[0]]] if ty == "Nodes" else Vec._ctor(x=p[0], y=p[1]) if ty == "Vec" else mod.Span._ctor(lo=p[0], hi=p[1]) if ty == "Span" else mod.Holder(mod.LinearScaler(p[0]), p[1]) if ty == "Holder" else p[0]
                        for ty, p in zip(types, c_in)]
                pnames = [n for n, _ in t.lean_params()]
                nextra = len(t.extra_params) + (1 if t.dstate else 0) + (1 if t.mstate else 0)
                extra_vals, args = args[:nextra], args[nextra:]
                store = None
                if t.dstate:
                    seed = extra_vals[len(t.extra_params)]
                    store = {i: seed * i + (i & 1) for i in range(8)}
                    setattr(getattr(mod, t.cls), f"_{t.cls}{t.dstate['attr'].split('.')[-1]}", store)
                try:
                    if t.mstate:  # a method of an object with mutable state: call it on the object built from the seed
                        obj = extra_vals[-1]
                        if t.mstate.get("py_param"):   # the state object is a parameter of a classmethod / function
                            fn_ = getattr(getattr(mod, t.cls), t.function) if t.cls else getattr(mod, t.function)
                            r = fn_(**{t.mstate["py_param"]: obj}, **dict(zip(pnames, args)))
                        else:
                            r = getattr(obj, t.function) if t.kind == "property" else getattr(obj, t.function)(**dict(zip(pnames, args)))
                    elif t.lambda_params:  # a factory returning a lambda: f(args)(lambda args)
                        nf = len(pnames) - len(t.lambda_params)
                        r = getattr(mod, t.function)(*args[:nf])(*args[nf:])
                    elif t.cls is None:
                        fn = getattr(mod, t.function)
                        r = fn(**dict(zip(pnames, args)), **{p: None for p in t.none_params})
                    else:
                        cls = getattr(mod, t.cls_as or t.cls)
                        if t.function == "__init__":
                            r = cls(**dict(zip(pnames, args)))
                        elif t.kind == "property":
                            r = getattr(args[0], t.function)
                        elif t.kind in ("class", "static"):
                            r = getattr(cls, t.function if not t.function.startswith("__") or t.function.endswith("__") else f"_{t.cls}{t.function}")(**dict(zip(pnames, args)))
                        elif pnames and pnames[0] == "self":
                            r = getattr(args[0], t.function)(*args[1:])
                        else:  # erased receiver
                            if t.fun_params and not t.extra_params:
                                obj = type("Probe", (getattr(mod, t.cls),), {"_weight": lambda self, x: 3 * x - 2})()
                            elif t.extra_params:
                                # instance attributes carried as parameters: set them on a bare instance
                                obj = object.__new__(cls)
                                inv = {v[6:]: a for a, v in t.self_attrs.items() if isinstance(v, str) and v.startswith("param:")}
                                for (n, _), val in zip(t.extra_params, extra_vals):
                                    en = (t.d.get("selftest_enum") or {}).get(n)
                                    if en:
                                        val = getattr(mod, en)(val)
                                    a = inv[n]
                                    setattr(obj, f"_{t.cls}{a}" if a.startswith("__") and not a.endswith("__") else a, val)
                                for a, val in (t.d.get("selftest_attrs") or {}).items():
                                    if val == "scaler3":   # an object whose scale(x) = 3*x - 2, the self-test's abstract callee
                                        val = type("S3", (mod.Scaler,), {"scale": lambda self, x: 3 * x - 2})()
                                    setattr(obj, f"_{t.cls}{a}" if a.startswith("__") and not a.endswith("__") else a, val)
                            else:
                                obj = cls()
                            r = getattr(obj, t.function)(**dict(zip(pnames, args)))
                    p_res = py_show(r)
                    if t.mstate and t.mstate.get("mode", "rw") == "rw":
                        p_res += " | " + obj.show()
                    if t.dstate and t.dstate["mode"] == "rw":
                        p_res += " [" + ", ".join(str(store.get(i, -999)) for i in range(9)) + "]"
                except Exception as e:  # noqa: BLE001
                    p_res = "!" + EXC.get(type(e).__name__, "other:" + type(e).__name__)
                res["evaluations"] += 1
                if l_res == "!dom" and t.loops:
                    res["out_of_fuel"] = res.get("out_of_fuel", 0) + 1  # loop ran out of fuel: outside the modelled domain
                    continue
                if p_res != l_res:
                    bad += 1
                    if len(res["disagreements"]) < 40:
                        res["disagreements"].append({"function": t.lean_name, "input": [list(p) for p in c_in], "python": p_res, "lean": l_res})
            res["per_function"][t.lean_name] = {"inputs": len(combos), "disagree": bad}
            res["functions"] += 1
            if bad:
                res["ok"] = False
        return res
    finally:
        if keep:
            print("scratch root kept:", tmp, file=sys.stderr)
        else:
            shutil.rmtree(tmp, ignore_errors=True)


# ---- lock discipline records (builder B10) -----------------------------------------------------------------------
# expected `lock_discipline` record of every method of corpus/locked.py (fields at their default are left out) and whether
# `LockInfo.Atomic` (lean/PyodaGen/LockInfo.lean) must hold for it
_G = {"lock": "__lock", "allGuarded": True, "sections": 1}
LOCK_EXPECT = {
    "Guarded.__init__": ({"lock": "__lock", "writes": ["__label", "__n", "__step"], "shared": ["__n", "__step"], "allGuarded": False}, False),
    "Guarded.bump": ({**_G, "reads": ["__n", "__step"], "writes": ["__n"], "shared": ["__n", "__step"]}, True),
    "Guarded.peek": ({**_G, "reads": ["__n"], "shared": ["__n"]}, True),
    "Guarded.set_step": ({**_G, "writes": ["__step"], "shared": ["__step"]}, True),
    "Guarded.label": ({"lock": "__lock", "reads": ["__label"]}, True),
    "Guarded.bump_by_label": ({"lock": "__lock", "stepsOutside": ["bump"]}, True),
    "Guarded.renamed": ({**_G, "reads": ["__n", "__step"], "writes": ["__n"], "shared": ["__n", "__step"]}, True),
    "Sloppy.__init__": ({"lock": "__lock", "writes": ["__cb", "__items", "__n", "__other"], "shared": ["__items", "__n"], "allGuarded": False}, False),
    "Sloppy.ok": ({**_G, "reads": ["__n"], "writes": ["__n"], "shared": ["__n"]}, True),
    "Sloppy.leak": ({**_G, "writes": ["__n"], "shared": ["__n"], "allGuarded": False}, False),
    "Sloppy.early_read": ({**_G, "reads": ["__n"], "writes": ["__n"], "shared": ["__n"], "allGuarded": False}, False),
    "Sloppy.split": ({**_G, "reads": ["__n"], "writes": ["__n"], "shared": ["__n"], "sections": 2}, False),
    "Sloppy.reenter": ({**_G, "selfCallsInside": ["ok"]}, False),
    "Sloppy.twice": ({"lock": "__lock", "stepsOutside": ["ok", "ok"]}, False),
    "Sloppy.wrong_lock": ({"lock": "__lock", "reads": ["__other"], "writes": ["__n"], "shared": ["__n"], "allGuarded": False}, False),
    "Sloppy.manual": ({"lock": "__lock", "writes": ["__n"], "shared": ["__n"], "allGuarded": False}, False),
    "Sloppy.in_place": ({"lock": "__lock", "writes": ["__items"], "shared": ["__items"], "allGuarded": False}, False),
    "Sloppy.call_back": ({**_G, "reads": ["__cb", "__n"], "writes": ["__n"], "shared": ["__n"], "callbacksInside": ["__cb"]}, True),
    "Bare.__init__": ({"writes": ["__base", "__slots"], "shared": ["__slots"], "allGuarded": False, "gilOnly": True, "gilOps": ["store __slots"]}, False),
    "Bare.get": ({"reads": ["__base", "__slots"], "writes": ["__slots"], "shared": ["__slots"], "allGuarded": False, "gilOnly": True,
                  "gilOps": ["load __slots[·]", "store __slots[·]"]}, False),
    "Wrapper.__init__": ({"writes": ["__inner", "__tag"]}, True),
    "Wrapper.tag": ({"reads": ["__tag"]}, True),
    "Wrapper.read": ({"reads": ["__inner"], "stepsOutside": ["__inner.bump"]}, True),
    "Wrapper.tagged": ({"stepsOutside": ["read"]}, True),
    "Wrapper.both": ({"reads": ["__inner"], "stepsOutside": ["read", "__inner.peek"]}, False),
}
LOCK_DEFAULT = {"lock": "", "reads": [], "writes": [], "shared": [], "allGuarded": True, "sections": 0, "selfCallsInside": [],
                "callbacksInside": [], "stepsOutside": [], "gilOnly": False, "gilOps": []}


def lock_selftest(res: dict) -> None:
    """The lock discipline records: (1) `lock_discipline` on every method of corpus/locked.py against LOCK_EXPECT, with and
    without the lock being declared by the target group; (2) the records are emitted with the definitions of a group that
    declares "locks" (and not otherwise); (3) Lean decides `LockInfo.Atomic` on the rendered records as expected."""
    import ast

    def fail(fn, want, got):
        res["ok"] = False
        res["disagreements"].append({"function": "lock." + fn, "input": None, "python": want, "lean": got})
    tree = ast.parse((ROOT / "corpus" / "locked.py").read_text())
    seen, lean = set(), ["import PyodaGen.LockInfo", "open Pyoda.Gen", ""]
    order = []
    for cls in [c for c in tree.body if isinstance(c, ast.ClassDef)]:
        for fn in py2lean._self_methods(cls):
            name = f"{cls.name}.{fn.name}"
            seen.add(name)
            if name not in LOCK_EXPECT:
                fail(name, "an entry of LOCK_EXPECT", "missing")
                continue
            want = {**LOCK_DEFAULT, **LOCK_EXPECT[name][0]}
            for declared in (["self.__lock"], []):
                got = py2lean.lock_discipline(cls, fn, declared)
                if got != want:
                    fail(name, json.dumps(want, ensure_ascii=False), json.dumps(got, ensure_ascii=False))
            ident = "r" + str(len(order))
            order.append(name)
            lean += py2lean.render_lock_info(ident, name, py2lean.lock_discipline(cls, fn, ["self.__lock"]))
            lean.append(f'#eval IO.println ("{name} " ++ toString (decide {ident}.lockInfo.Atomic))')
    for name in LOCK_EXPECT:
        if name not in seen:
            fail(name, "a method of corpus/locked.py", "not found")
    # (2) emission
    tg = py2lean.load_targets(ROOT / "targets.py")["SelftestLock"]
    for with_locks in (True, False):
        cfg = dict(tg)
        if not with_locks:
            cfg.pop("locks")
        gen = py2lean.Gen("SelftestLock", cfg, py2lean.Source(ROOT))
        gen.translate_all()
        text = gen.render() if not gen.errors else ""
        if with_locks:
            if gen.errors:
                fail("emission", "SelftestLock translates", str(gen.errors)[:300])
            for t in gen.targets:
                cls = next(c for c in tree.body if isinstance(c, ast.ClassDef) and c.name == t.cls)
                fn = next(f for f in cls.body if isinstance(f, ast.FunctionDef) and f.name == t.function)
                block = "\n".join(py2lean.render_lock_info(t.lean_name, f"{t.file}: {t.cls}.{t.function}", py2lean.lock_discipline(cls, fn, ["self.__lock"])))
                if block not in text:
                    fail("emission." + t.lean_name, block, "not in the generated file")
            if "import PyodaGen.LockInfo" not in text:
                fail("emission", "import PyodaGen.LockInfo", "missing")
        elif "lockInfo" in text or not gen.errors:
            # without "locks" the `with` statements are refused: nothing is emitted for a group that does not ask for it
            fail("emission", "no records (and `with` refused) without \"locks\"", text[-200:])
    # (3) Lean's verdicts
    tmp = Path(tempfile.mkdtemp(prefix="py2lean_locktest_"))
    try:
        (tmp / "LockEval.lean").write_text("\n".join(lean) + "\n")
        b = subprocess.run(["lake", "build", "PyodaGen.LockInfo"], cwd=LEAN, capture_output=True, text=True, timeout=3600)
        if b.returncode != 0:
            raise RuntimeError("lake build PyodaGen.LockInfo failed: " + (b.stdout + b.stderr)[-400:])
        pin = ["taskset", "-c", str(os.getpid() % (os.cpu_count() or 1))] if Path("/usr/bin/taskset").exists() else []
        c = subprocess.run(pin + ["lake", "env", "lean", str(tmp / "LockEval.lean")], cwd=LEAN, capture_output=True, text=True, timeout=1800)
        if c.returncode != 0:
            res["ok"] = False
            res["errors"].append({"function": "lock.*", "error": "the rendered records do not compile: " + (c.stdout + c.stderr)[-800:]})
            return
        verdicts = dict(ln.rsplit(" ", 1) for ln in c.stdout.split("\n") if ln.strip())
        for name in order:
            want = "true" if LOCK_EXPECT[name][1] else "false"
            if verdicts.get(name) != want:
                fail(name + ".Atomic", want, str(verdicts.get(name)))
        res["lock_records"] = len(order)
        res["functions"] += 0
    finally:
        shutil.rmtree(tmp, ignore_errors=True)


# ---- str values, format specifications, cursor / StringBuilder state (builder T4) -------------------------------------------
def text_selftest(res: dict) -> None:
    """The text part of the translated subset: (1) every function of corpus/text_unsupported.py must be refused with the expected
    reason; (2) corpus/text.py is translated (group "SelftestText"), evaluated in Lean on grids and compared with CPython running
    the same functions — a str parameter ranges over corpus.text.TEXTS, a str result is compared as its list of code points, a
    Lean reply "outside the modelled domain" (`!dom`: `int(c)` of a non-ASCII character, `int(a * math.pow(10.0, k))` outside
    the range where the float computation is exact, a format width above INT_MAX) is counted and skipped; (3) the table behind
    `c.isdigit()` (PyodaGen/TextSupport.lean `pyDigitRanges`) is compared with `chr(cp).isdigit()` for every code point."""
    all_targets = py2lean.load_targets(ROOT / "targets.py")
    refuse = all_targets["SelftestTextRefuse"]
    rgen = py2lean.Gen("SelftestTextRefuse", refuse, py2lean.Source(ROOT))
    rgen.translate_all()
    for t in rgen.targets:
        want = refuse["expect"][t.function]
        err = getattr(t, "error", "")
        ok = t.state == "failed" and err.startswith("UNSUPPORTED: ") and want in err
        res["refused"]["text." + t.function] = {"ok": ok, "error": err or "(translated!)", "expected_fragment": want}
        if not ok:
            res["ok"] = False
            res["disagreements"].append({"function": "text." + t.function, "input": None, "python": f"must be refused ({want})", "lean": err or "was translated"})
    targets = all_targets["SelftestText"]
    sys.path.insert(0, str(ROOT))
    mod = importlib.import_module("corpus.text")
    TEXTS = mod.TEXTS
    tmp = Path(tempfile.mkdtemp(prefix="py2lean_texttest_"))
    try:
        out_dir = tmp / "PyodaGen"
        g = py2lean.generate("SelftestText", targets, ROOT, out_dir)
        if g["errors"]:
            res["ok"] = False
            res["errors"] += [{"function": "text." + str(e.get("function")), "error": e.get("error")} for e in g["errors"]]
            return
        gen = py2lean.Gen("SelftestText", targets, py2lean.Source(ROOT))
        gen.translate_all()
        rng = random.Random(20261003)

        def chars(sv):
            return "([" + ", ".join(f"Char.ofNat {ord(c)}" for c in sv) + "] : List Char)"
        texts_alts = " ".join(f"| {i} => {chars(sv)}" for i, sv in enumerate(TEXTS))
        ev = ["import PyodaGen.SelftestText", "open Pyoda Pyoda.Gen Pyoda.Gen.Text Pyoda.Gen.SelftestText", "",
              f"def textOf (i : Int) : List Char := match i with {texts_alts} | _ => []",
              "def showText (l : List Char) : String := toString (l.map Char.toNat)",
              f"def mkSB (ti _u : Int) : SB := ⟨textOf (Int.fmod ti {len(TEXTS)})⟩",
              "def showSB (b : SB) : String := showText b.s",
              f"def mkCur (ti idx : Int) : VC := let v := textOf (Int.fmod ti {len(TEXTS)}); let t := idx - 3",
              "  if 0 ≤ t ∧ t < (v.length : Int) then ⟨v, v.length, v.getD t.toNat (Char.ofNat 0), t⟩",
              "  else if t ≥ (v.length : Int) then ⟨v, v.length, Char.ofNat 0, v.length⟩ else ⟨v, v.length, Char.ofNat 0, -1⟩",
              "def showCur (c : VC) : String := toString c.index ++ \" \" ++ toString c.current.toNat",
              "def runRows (name file : String) (f : List Int → String) : IO Unit := do",
              "  let s ← IO.FS.readFile file",
              "  IO.println (\"## \" ++ name)",
              "  for ln in s.splitOn \"\\n\" do",
              "    if ln ≠ \"\" then",
              "      let xs := (ln.splitOn \" \").filterMap String.toInt?",
              "      IO.println (f xs)", ""]

        def show(ty, e):
            if isinstance(ty, tuple):
                names = [f"p{i}" for i in range(len(ty))]
                return "(match " + e + " with | (" + ", ".join(names) + ") => \"(\" ++ " + " ++ \", \" ++ ".join(show(t_, n_) for t_, n_ in zip(ty, names)) + " ++ \")\")"
            if ty == "Text":
                return f"showText ({e})"
            if ty == "Chr":
                return f"(\"[\" ++ toString ({e} : Char).toNat ++ \"]\")"
            return lean_show(ty, e)

        def pshow(v):
            if isinstance(v, str):
                return str([ord(c) for c in v])
            if isinstance(v, tuple):
                return "(" + ", ".join(pshow(x) for x in v) + ")"
            return py_show(v)
        plan = []
        for idx, t in enumerate(gen.targets):
            allp = ([("st'", "Seed")] if t.mstate else []) + list(t.lean_params())
            cg = t.d.get("selftest_grid") or {}
            pools = []
            for n, ty in allp:
                if ty == "Seed":
                    pools.append([(a, b) for a in range(len(TEXTS)) for b in (0, 2, 3, 4, 5, 7, 9, 14, 30)])
                elif ty == "Text":
                    pools.append([(i,) for i in range(len(TEXTS))])
                elif n in cg:
                    pools.append([(a,) for a in cg[n]])
                else:
                    pools.append([(a,) for a in INTS + [2 ** 31 - 1, -(2 ** 31), 10 ** 27, -(10 ** 27)]])
            total = 1
            for p_ in pools:
                total *= len(p_)
            combos = list(itertools.product(*pools)) if total <= 4000 else [tuple(rng.choice(p_) for p_ in pools) for _ in range(4000)]
            plan.append((t, allp, combos))
            (tmp / f"in_{idx}.txt").write_text("\n".join(" ".join(str(int(x)) for part in c for x in part) or "0" for c in combos) + "\n")
            names, args, k = [], [], 0
            for n, ty in allp:
                if ty == "Seed":
                    names += [f"a{k}", f"a{k+1}"]
                    args.append(f"({t.d['selftest_state']['lean_mk']} a{k} a{k+1})")
                    k += 2
                elif ty == "Text":
                    names.append(f"a{k}")
                    args.append(f"(textOf a{k})")
                    k += 1
                else:
                    names.append(f"a{k}")
                    args.append(f"a{k}")
                    k += 1
            call = " ".join([t.lean_name] + args)
            if t.mstate and t.mstate.get("mode", "rw") == "rw":
                inner = show(t.ret, "v.1") + ' ++ " | " ++ ' + t.d["selftest_state"]["lean_show"] + " v.2"
                shown = f"Pyoda.showR (fun v => {inner}) ({call})" if t.raises else f"(let v := {call}; {inner})"
            else:
                shown = f"Pyoda.showR (fun v => {show(t.ret, 'v')}) ({call})" if t.raises else show(t.ret, f"({call})")
            pat = "[" + ", ".join(names) + "]"
            ev.append(f"#eval runRows \"{t.lean_name}\" \"{tmp}/in_{idx}.txt\" fun r => match r with | {pat} => {shown} | _ => \"?arity\"")
        ev.append("#eval IO.println (\"## isdigit\\n\" ++ toString ((List.range 1114112).filter (fun n => pyChrIsDigit (Char.ofNat n))))")
        (tmp / "Eval.lean").write_text("\n".join(ev) + "\n")
        lp = subprocess.run(["lake", "env", "printenv", "LEAN_PATH"], cwd=LEAN, capture_output=True, text=True, timeout=600)
        if lp.returncode != 0:
            raise RuntimeError("lake env failed: " + lp.stderr[-300:])
        b = subprocess.run(["lake", "build", "PyodaGen.TextSupport", "PyodaGen.GlueC07N"], cwd=LEAN, capture_output=True, text=True, timeout=3600)
        if b.returncode != 0:
            raise RuntimeError("lake build PyodaGen.TextSupport failed: " + (b.stdout + b.stderr)[-400:])
        built = LEAN / ".lake" / "build" / "lib" / "lean" / "PyodaGen"
        for f in built.iterdir():
            if f.stem.split(".")[0] != "SelftestText" and f.suffix in (".olean", ".ilean"):
                os.symlink(f, out_dir / f.name)
        env = dict(os.environ)
        env["LEAN_PATH"] = lp.stdout.strip()
        pin = ["taskset", "-c", str(os.getpid() % (os.cpu_count() or 1))] if Path("/usr/bin/taskset").exists() else []
        c = subprocess.run(pin + ["lean", "--root=" + str(tmp), "-o", str(out_dir / "SelftestText.olean"), str(out_dir / "SelftestText.lean")],
                           cwd=tmp, env=env, capture_output=True, text=True, timeout=1800)
        if c.returncode != 0:
            res["ok"] = False
            res["errors"].append({"function": "text.*", "error": "generated Lean does not compile: " + (c.stdout + c.stderr)[-1500:]})
            return
        env["LEAN_PATH"] = str(tmp) + ":" + lp.stdout.strip()
        c = subprocess.run(pin + ["lean", "--root=" + str(tmp), str(tmp / "Eval.lean")], cwd=tmp, env=env, capture_output=True, text=True, timeout=1800)
        if c.returncode != 0:
            res["ok"] = False
            res["errors"].append({"function": "text.*", "error": "evaluation file failed: " + (c.stdout + c.stderr)[-1500:]})
            return
        lean_out, cur = {}, None
        for ln in c.stdout.split("\n"):
            if ln.startswith("## "):
                cur = ln[3:].strip()
                lean_out[cur] = []
            elif cur is not None and ln != "":
                lean_out[cur].append(ln)
        for t, allp, combos in plan:
            got = lean_out.get(t.lean_name, [])
            if len(got) != len(combos):
                res["ok"] = False
                res["errors"].append({"function": "text." + t.lean_name, "error": f"{len(got)} Lean results for {len(combos)} inputs"})
                continue
            bad = 0
            pnames = [n for n, _ in t.lean_params()]
            for c_in, l_res in zip(combos, got):
                vals = [TEXTS[p_[0]] if ty == "Text" else p_ for (n, ty), p_ in zip(allp, c_in)]
                obj = None
                try:
                    if t.mstate:
                        seed = vals[0]
                        obj = getattr(mod, t.d["selftest_state"]["py_class"]).make(seed[0], seed[1])
                        args = [v if isinstance(v, str) else v[0] for v in vals[1:]]
                        if t.mstate.get("py_param"):
                            r = getattr(mod, t.function)(**{t.mstate["py_param"]: obj}, **dict(zip(pnames, args)))
                        else:
                            r = getattr(obj, t.function) if t.kind == "property" else getattr(obj, t.function)(**dict(zip(pnames, args)))
                    else:
                        args = [v if isinstance(v, str) else v[0] for v in vals]
                        r = getattr(mod, t.function)(**dict(zip(pnames, args)))
                    p_res = pshow(r)
                    if t.mstate and t.mstate.get("mode", "rw") == "rw":
                        p_res += " | " + obj.show()
                except Exception as e:  # noqa: BLE001
                    p_res = "!" + ("other" if isinstance(e, AssertionError) else EXC.get(type(e).__name__, "other:" + type(e).__name__))
                res["evaluations"] += 1
                if l_res == "!dom":
                    res["text_outside_domain"] = res.get("text_outside_domain", 0) + 1
                    continue
                if p_res != l_res:
                    bad += 1
                    if len(res["disagreements"]) < 40:
                        res["disagreements"].append({"function": "text." + t.lean_name, "input": [list(p_) for p_ in c_in], "python": p_res, "lean": l_res})
            res["per_function"]["text." + t.lean_name] = {"inputs": len(combos), "disagree": bad}
            res["functions"] += 1
            if bad:
                res["ok"] = False
        want = str([cp for cp in range(0x110000) if chr(cp).isdigit()])
        got = (lean_out.get("isdigit") or ["?"])[0]
        res["evaluations"] += 0x110000
        if want != got:
            res["ok"] = False
            res["disagreements"].append({"function": "text.isdigit-table", "input": None, "python": want[:200], "lean": got[:200]})
    finally:
        shutil.rmtree(tmp, ignore_errors=True)


def main() -> int:
    ap = argparse.ArgumentParser()
    ap.add_argument("--json", action="store_true")
    ap.add_argument("--keep", action="store_true")
    a = ap.parse_args()
    try:
        r = run(a.keep)
    except Exception as e:  # noqa: BLE001
        print(f"py2lean selftest: infrastructure error: {type(e).__name__}: {e}", file=sys.stderr)
        return 2
    if a.json:
        print(json.dumps(r, indent=1))
    else:
        print(f"py2lean selftest: {r['functions']} functions, {r['evaluations']} evaluations, {sum(1 for v in r['refused'].values() if v['ok'])}/{len(r['refused'])} unsupported constructs refused, {r.get('lock_records', 0)} lock records, {len(r['disagreements'])} disagreement(s) shown, "
              f"{len(r['errors'])} error(s) -> {'OK' if r['ok'] else 'FAILED'}")
        for e in r["errors"]:
            print("  error:", e)
        for d in r["disagreements"][:20]:
            print("  DISAGREE:", d)
    return 0 if r["ok"] else 1


if __name__ == "__main__":
    sys.exit(main())
