/-
  PyodaGen.GlueC14Z — hand-written definitions the zone-piece readers of the GENERATED codec file (PyodaGen/C14.lean:
  `_ZoneYearOffset.read`, `_ZoneRecurrence.read`, `MapZone._read`, `TzdbZoneLocation._read`, `_FixedDateTimeZone.read`,
  `_StandardDaylightAlternatingMap._read`, `_PrecalculatedDateTimeZone._read`) refer to: the constructors
  they end with, on the model's structures.  Not generated.
-/
import PyodaModel.Codec.Windows
import PyodaModel.Codec.Locations
import PyodaGen.GlueC14

namespace Pyoda.Gen.Codec
open Pyoda Pyoda.Codec

/-- `_ZoneYearOffset._ctor(mode, month_of_year, day_of_month, day_of_week, advance, time_of_day, add_day)` with the mode as the
    integer value of its `_TransitionMode` member (0 utc, 1 wall, 2 standard) -/
def yearOffsetCtorI (mode month dom dow : Int) (advance : Bool) (tod : Int) (addDay : Bool) : R ZoneYearOffset :=
  match TransitionMode.ofNat? mode.toNat with
  | some m => yearOffsetCtor m month dom dow advance tod addDay
  | none => .error .valueError

/-- `_ZoneRecurrence(name, savings, year_offset, from_year, to_year)` -/
def mkRecurrence (name : Str) (savings : Offset) (yo : ZoneYearOffset) (fromYear toYear : Int) : R ZoneRecurrence :=
  recurrenceCtor ⟨name, savings, yo, fromYear, toYear⟩

/-- `TzdbZoneLocation(latitude_seconds, longitude_seconds, country_name, country_code, zone_id, comment)`: the two range checks
    and the two string checks of `__init__`, each a `ValueError` (`len(str)` counts code points) -/
def mkZoneLocation (lat long : Int) (countryName countryCode zoneId comment : Str) : R ZoneLocation := do
  checkRange lat (-90 * 3600) (90 * 3600)
  checkRange long (-180 * 3600) (180 * 3600)
  if ¬ (strLen countryName > 0) then .error .valueError
  else if ¬ (strLen countryCode = 2) then .error .valueError
  else .ok ⟨lat, long, countryName, countryCode, zoneId, comment⟩

/-- `_FixedDateTimeZone(id_=…, offset=…, name=…)`: nothing in that constructor can fail for an id that is given -/
def mkFixedZone (id : Str) (offset : Offset) (name : Str) : FixedZone := ⟨id, offset, name⟩

/-- `_PrecalculatedDateTimeZone(id_=…, intervals=…, tail_zone=…)`: the checks of `__init__` (`Codec/Tail.lean`) -/
def mkPrecalculated (id : Str) (periods : List ZoneInterval) (tail : Option AlternatingMap) : R PrecalculatedZone :=
  precalculatedCtor ⟨id, periods, tail⟩

/-- `Offset.zero` -/
def offsetZero : Offset := ⟨0⟩

/-- `len(s)` of a `str` carried as its UTF-8 bytes: the number of code points -/
def pyStrLen (s : Str) : Int := (strLen s : Int)

end Pyoda.Gen.Codec
