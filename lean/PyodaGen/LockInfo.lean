/-
  LockInfo — the lock discipline of a translated method, as DATA computed by tools/py2lean.py from the AST of the Python
  source on every run (`def <Class>.<method>.lockInfo : LockInfo := { … }` in the generated files of the groups that declare
  "locks" or "lock_info" in tools/py2lean_targets.py).  Mathlib-free; imported only by those generated files.

  The translator reads `with self.__lock:` as its body (one thread).  The interleaving theorems of C19 / C13 model every public
  operation as ONE atomic step; in the code that holds only because the whole read-modify-write of the operation sits inside one
  `with <lock>:` block.  `Atomic` states that condition on the record, and `gen_<op>_atomic : Atomic <op>.lockInfo`
  (PyodaProofs/GenAgreeC19.lean, GenAgreeC13.lean) ties it to the current source: remove the `with`, split it in two, write an
  attribute outside it, or call another locking method while holding the lock, and the theorem of that operation stops checking.

  What the translator fixes (trusted, exercised by tools/py2lean_selftest.py `lock.*`):
  * attributes are the names written after `self.` (name-mangled privates as written); the lock attribute itself is not listed;
  * a WRITE is an assignment / augmented assignment / `del` of `self.a`, an item store or delete `self.a[k] = v`, or a call of a
    known in-place mutator (`append`, `popleft`, `clear`, `update`, …) on `self.a`; everything else that mentions `self.a` is a READ;
  * `shared` = the attributes the method touches that some method of the class other than `__init__` writes (mutable after
    construction); attributes only assigned by the constructor are frozen and need no lock;
  * guarded = lexically inside `with self.<lock>:` for the one lock attribute of the class (any other use of the lock attribute,
    e.g. `acquire()`, makes `allGuarded` false);
  * a use of a same-class method or property is a self call; a call of a method of an object held in an attribute
    (`self.__clock.get_current_instant()`) or of a callable held in an attribute (`self.__value_factory(k)`) is a step of / a
    call-back into something outside the object.
-/

namespace Pyoda.Gen

structure LockInfo where
  /-- the lock attribute of the class (`""`: the class has none) -/
  lock : String := ""
  /-- attributes of `self` the method reads / writes (sorted, the lock excluded) -/
  reads : List String := []
  writes : List String := []
  /-- those of them that are mutable after construction (written by some method other than `__init__`) -/
  shared : List String := []
  /-- every read and write of a `shared` attribute lies inside `with self.<lock>:` -/
  allGuarded : Bool := true
  /-- number of `with self.<lock>:` blocks of the method (two critical sections are two steps) -/
  sections : Nat := 0
  /-- same-class methods / properties used while holding the lock (`threading.Lock` is not re-entrant) -/
  selfCallsInside : List String := []
  /-- callables held in attributes and methods of attribute objects called while holding the lock (recorded, not judged: the
      models take them as abstract pure functions) -/
  callbacksInside : List String := []
  /-- outside the lock, in source order: uses of same-class members that themselves (transitively) touch shared state or another
      object, and calls on attribute objects — each one is a step of its own -/
  stepsOutside : List String := []
  /-- the class has no lock although the method touches shared state: atomicity rests on the GIL, for exactly `gilOps` -/
  gilOnly : Bool := false
  /-- the single operations on shared attributes assumed atomic under the GIL (source order) -/
  gilOps : List String := []
  deriving Repr, DecidableEq

/-- The method is one atomic step of the object.
    * It touches shared state itself: everything it touches is inside ONE critical section of the class lock, it uses no other
      member of the class while holding the lock (no re-entry), and it takes no further step outside the section.
    * It touches none (`advance_seconds`, the ZonedClock getters): it is at most ONE step of another operation
      (frozen attributes and pure computation around it cannot be observed by other threads). -/
def LockInfo.Atomic (i : LockInfo) : Prop :=
  i.selfCallsInside = [] ∧
  (if i.shared = [] then i.stepsOutside.length ≤ 1
   else i.allGuarded = true ∧ i.sections ≤ 1 ∧ i.stepsOutside = [] ∧ i.gilOnly = false)

instance (i : LockInfo) : Decidable i.Atomic := by unfold LockInfo.Atomic; infer_instance

end Pyoda.Gen
