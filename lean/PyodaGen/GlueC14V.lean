/-
  PyodaGen.GlueC14V — what `TzdbDateTimeZoneSource.validate()` looks at, for the GENERATED validation slices
  (PyodaGen/C14V.lean): the canonical id map, the Windows mapping (map zones + the primary mapping its constructor derives),
  the zone ids of the locations.  Not generated.
-/
import PyodaModel.Codec.Validate

namespace Pyoda.Gen.Codec
open Pyoda Pyoda.Codec

/-- `windows_mapping.primary_mapping` (built by the `WindowsZones` constructor from the map zones) -/
def primaryMappingOf (w : WindowsZones) : List (Str × Str) := primaryMapping w.mapZones

/-- `self.__source.windows_mapping` / `self.windows_mapping`: the same object -/
def sourceWindows (w : WindowsZones) : WindowsZones := w

/-- `d.get(k)` -/
def strDictGet (d : List (Str × Str)) (k : Str) : Option Str := dictGet? d k

/-- `k in d` -/
def strDictContains (d : List (Str × Str)) (k : Str) : Bool := (dictGet? d k).isSome

/-- a `set[str]` as the list of its elements in insertion order -/
def strSetAdd (s : List Str) (x : Str) : List Str := if x ∈ s then s else s ++ [x]
def strSetContains (s : List Str) (x : Str) : Bool := decide (x ∈ s)

/-- a `TzdbZoneLocation` / `TzdbZone1970Location` as far as `validate()` reads it -/
structure LocView where
  zoneId : Str
  countryName : Str
  deriving DecidableEq, Repr

/-- a `TzdbZone1970Location.Country` as far as `validate()` reads it -/
structure CName where
  name : Str
  deriving DecidableEq, Repr

structure Loc70View where
  zoneId : Str
  countries : List CName
  deriving DecidableEq, Repr

/-- `l[i]` on a tuple / list: negative indices count from the end, `IndexError` outside -/
def pyListGet {α} (l : List α) (i : Int) : R α :=
  let n : Int := l.length
  let j := if i < 0 then i + n else i
  if 0 ≤ j ∧ j < n then (match l[j.toNat]? with | some v => .ok v | none => .error .indexError) else .error .indexError

end Pyoda.Gen.Codec
