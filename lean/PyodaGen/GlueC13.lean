/-
  PyodaGen.GlueC13 — the `_Cache` object as the GENERATED file (PyodaGen/C13.lean, from `utility/_cache.py`) sees it:
  `__size`, `__key_list` (a deque), `__dictionary` (an insertion-ordered dict).  Keys and values are integers, as in
  the model (`PyodaModel/Cache/Lru.lean`).  Not generated.
-/
import PyodaModel.Cache.Lru
import PyodaGen.Support

namespace Pyoda.Gen.Cache

structure CacheSt where
  size : Int
  keys : List Int
  dict : List (Int × Int)
  deriving DecidableEq, Repr

/-- `deque.clear()` / `dict.clear()` -/
def clearList (_ : List Int) : List Int := []
def clearDict (_ : List (Int × Int)) : List (Int × Int) := []

end Pyoda.Gen.Cache
