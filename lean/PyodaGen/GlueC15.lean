/-
  PyodaGen.GlueC15 — the standard library's `datetime` objects as the GENERATED bridge file (PyodaGen/C15.lean) sees them:
  the structures of the model (`PyodaModel/Bridge.lean`: a date is its proleptic Gregorian ordinal, a time its microsecond
  of day, `PyDateTime`, `PyTimedelta`) with the constructors, accessors and operators the translated code calls.
  Hand-written; what each one does is what CPython does (C15's correspondence `bridge.ops` compares every conversion
  with CPython itself).  Not generated.
-/
import PyodaModel.Bridge
import PyodaModel.TimeOfDay

namespace Pyoda.Gen.Bridge
open Pyoda Pyoda.Bridge

/-- `_days_before_year(y) + _days_before_month(y, m) + d` of CPython's `datetime.py`, `ValueError` for an invalid date -/
def isLeap (y : Int) : Bool := (y % 4 == 0) && ((y % 100 != 0) || (y % 400 == 0))
def daysBeforeMonth (y m : Int) : Int :=
  let cum : List Int := [0, 31, 59, 90, 120, 151, 181, 212, 243, 273, 304, 334]
  cum.getD (m - 1).toNat 0 + (if m > 2 ∧ isLeap y then 1 else 0)
def daysInMonth (y m : Int) : Int :=
  if m = 2 then (if isLeap y then 29 else 28) else if m = 4 ∨ m = 6 ∨ m = 9 ∨ m = 11 then 30 else 31
/-- `datetime.date(y, m, d)` as its ordinal -/
def mkDate (y m d : Int) : R Int :=
  if y < 1 ∨ y > 9999 ∨ m < 1 ∨ m > 12 ∨ d < 1 ∨ d > daysInMonth y m then .error .valueError
  else .ok ((y - 1) * 365 + (y - 1) / 4 - (y - 1) / 100 + (y - 1) / 400 + daysBeforeMonth y m + d)

/-- `datetime.timedelta(days=d, seconds=s, microseconds=us)`: normalised from the exact total -/
def mkTd (d s us : Int) : R PyTimedelta := PyTimedelta.ofUs (d * UsPD + s * UsPS + us)
def mkTdDays (d : Int) : R PyTimedelta := mkTd d 0 0
def mkTdSeconds (s : Int) : R PyTimedelta := mkTd 0 s 0
def mkTdDaysUs (d us : Int) : R PyTimedelta := mkTd d 0 us

/-- `date - date` -/
def dateSub (a b : Int) : PyTimedelta := ⟨a - b, 0, 0⟩

/-- `datetime.time(hour=, minute=, second=, microsecond=)` as its microsecond of day (field validation: `ValueError`) -/
def mkTime (h m s us : Int) : R Int := do
  let x ← PyDateTime.ofFields 1 h m s us
  .ok x.us
def timeHour (us : Int) : Int := us / UsPH
def timeMinute (us : Int) : Int := us % UsPH / UsPMin
def timeSecond (us : Int) : Int := us % UsPMin / UsPS
def timeMicrosecond (us : Int) : Int := us % UsPS

/-- `datetime.datetime(y, m, d)` (naive, midnight) -/
def mkDateTime3 (y m d : Int) : R PyDateTime := do
  let o ← mkDate y m d
  .ok ⟨o, 0⟩

/-- an aware `datetime`: its naive value and what `dt.tzinfo.utcoffset(dt)` answers -/
structure AwareDt where
  naive : PyDateTime
  utcoffset : PyTimedelta
  deriving DecidableEq, Repr

/-- `aware.replace(tzinfo=None)` / `naive.replace(tzinfo=None)` -/
def awareDropTz (x : AwareDt) : PyDateTime := x.naive
def naiveDropTz (x : PyDateTime) : PyDateTime := x

/-- `dt.tzinfo` of a naive datetime is `None`; `None.utcoffset(dt)` is an `AttributeError` (never reached: the callers check
    `tzinfo is not None` first) -/
def naiveTzinfo (_ : PyDateTime) : Unit := ()
def noTzUtcoffset (_ : Unit) (_ : PyDateTime) : R PyTimedelta := .error .other
/-- `dt.tzinfo` of an aware datetime, and its `utcoffset(dt)` -/
def awareTzinfo (x : AwareDt) : PyTimedelta := x.utcoffset
def tzUtcoffset (t : PyTimedelta) (_ : AwareDt) : PyTimedelta := t

/-- `PyodaConstants.BCL_EPOCH` -/
def bclEpoch : Instant := Pyoda.Bridge.bclEpoch

/-- pyoda_time members the bridges call; each is tied to the source elsewhere (GenAgreeC10: LocalTime accessors and
    `from_ticks_since_midnight`; GenAgreeC03: Instant comparison; GenAgreeC11: `LocalDate._ctor`) -/
def ltHour (t : LocalTime) : R Int := Pyoda.Bridge.ltHour t.nod
def ltMinute (t : LocalTime) : R Int := Pyoda.Bridge.ltMinute t.nod
def ltSecond (t : LocalTime) : R Int := Pyoda.Bridge.ltSecond t.nod
def ltNanoOfSecond (t : LocalTime) : Int := Pyoda.Bridge.ltNanoOfSecond t.nod
def fromTicksSinceMidnight (ticks : Int) : R LocalTime := do
  checkRange ticks 0 (TPD - 1)
  .ok ⟨int64Overflow (ticks * NPT)⟩
def dateFromDays (days : Int) : R Date := Date.ofDays isoCal days
def dateOfDays (days : Int) (c : Cal) : R Date := Date.ofDays c days
/-- `LocalDateTime._ctor(local_date=, local_time=)`: the model's pair (date, nanosecond of day) -/
def ldtPair (d : Date) (t : LocalTime) : Date × Int := (d, t.nod)
def instLt (a b : Instant) : Bool := Duration.lt a.dur b.dur

end Pyoda.Gen.Bridge
