/-
  PyodaGen.GlueC12 — the structures the GENERATED comparison file (PyodaGen/C12.lean) builds: the packed integers of
  `_YearMonthDay` / `_YearMonthDayCalendar` (one attribute `__value` each) and a `LocalDate` (one attribute, its
  `_YearMonthDayCalendar`).  Not generated.
-/
import PyodaModel.Compare

namespace Pyoda.Gen.Compare

structure YMD where
  value : Int
  deriving DecidableEq, Repr, Inhabited

structure YMDC where
  value : Int
  deriving DecidableEq, Repr, Inhabited

structure LDate where
  ymdc : YMDC
  deriving DecidableEq, Repr, Inhabited

end Pyoda.Gen.Compare
