/-
  PyodaGen.GlueC12 — the structures the GENERATED comparison file (PyodaGen/C12.lean) builds: the packed integers of
  `_YearMonthDay` / `_YearMonthDayCalendar` (one attribute `__value` each) and a `LocalDate` (one attribute, its
  `_YearMonthDayCalendar`), a `LocalDateTime`, a `YearMonth`, an `AnnualDate`, and the identity of a calendar.  Not generated.
-/
import PyodaModel.Compare

namespace Pyoda.Gen.Compare

structure YMD where
  value : Int
  deriving DecidableEq, Repr, Inhabited

structure YMDC where
  value : Int
  deriving DecidableEq, Repr, Inhabited

structure LDate where
  ymdc : YMDC
  deriving DecidableEq, Repr, Inhabited

/-- a `CalendarSystem` object.  `CalendarSystem._for_ordinal` hands out ONE object per ordinal (the class keeps them in
    `__CALENDAR_BY_ORDINAL`), and calendars are compared by identity, so a calendar is carried as its ordinal — the same
    identification the comparison model makes (`a.date.ordinal = b.date.ordinal`). -/
structure CalRef where
  ord : Int
  deriving DecidableEq, Repr, Inhabited

/-- `CalendarSystem._for_ordinal(ordinal)` -/
def calendarOfOrdinal (ordinal : Int) : CalRef := ⟨ordinal⟩

/-- a `LocalDateTime`: its `__date` and `__time` -/
structure LDT where
  date : LDate
  time : Pyoda.Compare.LocalTime
  deriving DecidableEq, Repr, Inhabited

/-- a `YearMonth`: its `__start_of_month` -/
structure YM where
  som : YMDC
  deriving DecidableEq, Repr, Inhabited

/-- an `AnnualDate`: its `__value` (a `_YearMonthDay` in year 1) -/
structure ADate where
  value : YMD
  deriving DecidableEq, Repr, Inhabited

end Pyoda.Gen.Compare
