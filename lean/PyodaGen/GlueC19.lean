/-
  PyodaGen.GlueC19 — hand-written definitions the GENERATED clock file (PyodaGen/C19.lean, from
  `testing/_fake_clock.py` and `_zoned_clock.py`) refers to.  Not generated.
-/
import PyodaModel.Clock

namespace Pyoda.Gen.Clock

/-- an object the `ZonedClock` only hands on (its zone, its calendar, the ZonedDateTime and the values projected from it):
    an opaque identity; what is done with it is an abstract function parameter of the generated definitions -/
abbrev Obj := Int

end Pyoda.Gen.Clock
