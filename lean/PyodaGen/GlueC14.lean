/-
  PyodaGen.GlueC14 — hand-written definitions the GENERATED codec file (PyodaGen/C14.lean, written by
  tools/py2lean.py from `_date_time_zone_reader.py` / `_date_time_zone_writer.py`) refers to.  Not generated.

  * the reader / writer OBJECTS as explicit states (`RS`, `WS`): every translated method takes the state and returns
    (result, final state);
  * the binary stream the reader wraps (`InStream`): the bytes it still holds and a POLICY saying how many bytes one
    `read(n)` call hands out — `io.RawIOBase.read(n)` may return fewer than `n` bytes (a short read); it returns no
    bytes only at the end of the stream.  The agreement theorems hold for every policy that keeps this contract
    (`InStream.PolicyOk`), `io.BytesIO` (always `min n avail`) being one of them;
  * the builtin operations on `bytes` / `bytearray` / `list[str]` / `dict[str, str]` values the translated code uses
    (validated against CPython by tools/py2lean_selftest.py through their corpus twins).
  Strings are carried as their UTF-8 bytes (`Pyoda.Str`), as in the model: `str.encode()` is the identity and
  `bytes.decode()` the strict-UTF-8 check of `Pyoda.Codec.validUtf8`.
-/
import PyodaModel.Codec.Prim
import PyodaGen.Support

namespace Pyoda.Gen

/-- `l[i]` on a list of strings -/
def pyStrListIndex (l : List Str) (i : Int) : R Str :=
  let n : Int := l.length
  let j := if i < 0 then i + n else i
  if 0 ≤ j ∧ j < n then (match l[j.toNat]? with | some v => .ok v | none => .error .indexError) else .error .indexError

/-- `x in l` for a list of strings -/
def pyStrListContains (l : List Str) (x : Str) : Bool := l.contains x

/-- `l.index(x)`: the first position of x, `ValueError` when absent -/
def pyStrListIndexOf (l : List Str) (x : Str) : R Int :=
  let i := l.findIdx (· = x)
  if i < l.length then .ok (i : Int) else .error .valueError

/-- `d.items()` of an insertion-ordered `dict[str, str]` carried as its list of pairs -/
def pyItems (d : List (Str × Str)) : List (Str × Str) := d

namespace Codec
open Pyoda.Codec

/-- `data.decode()` (strict UTF-8): `UnicodeDecodeError` for invalid data -/
def decodeUtf8 (b : Bytes) : R Str := if validUtf8 b then .ok b else .error .unicodeError

/-- `value.encode()` -/
def encodeUtf8 (s : Str) : Bytes := s

/-- a binary input stream -/
structure InStream where
  /-- the bytes not yet handed out -/
  rest : Bytes
  /-- `policy n avail`: how many bytes a `read(n)` returns when `avail` bytes remain (n, avail > 0) -/
  policy : Nat → Nat → Nat

/-- the contract of `read(n)`: at least one byte unless the stream is at its end, never more than asked or available -/
def PolicyOk (p : Nat → Nat → Nat) : Prop := ∀ n avail, 0 < n → 0 < avail → 1 ≤ p n avail ∧ p n avail ≤ n ∧ p n avail ≤ avail

/-- `io.BytesIO`: as many as asked, if there are that many -/
def fullPolicy : Nat → Nat → Nat := fun n avail => min n avail

theorem fullPolicy_ok : PolicyOk fullPolicy := by
  intro n a hn ha; unfold fullPolicy; omega

/-- `stream.read(n)`: `n < 0` reads everything, `n = 0` nothing -/
def InStream.read (s : InStream) (n : Int) : Bytes × InStream :=
  if n < 0 then (s.rest, { s with rest := [] })
  else if n = 0 ∨ s.rest = [] then ([], s)
  else
    let k := s.policy n.toNat s.rest.length
    (s.rest.take k, { s with rest := s.rest.drop k })

/-- the `_DateTimeZoneReader` object: `__input`, `__buffered_byte`, `__string_pool` -/
structure RS where
  input : InStream
  buffered : Option Int
  pool : Option (List Str)

/-- `self.__input.read(n)` -/
def RS.read (st : RS) (n : Int) : Bytes × RS :=
  let (b, s) := st.input.read n
  (b, { st with input := s })

/-- fuel of the `__read_varint` loop: every iteration takes one byte (the buffered one or one from the stream), so one more
    than the bytes at hand is never used up -/
def RS.fuel (st : RS) : Nat := st.input.rest.length + (match st.buffered with | some _ => 1 | none => 0) + 1

/-- `_DateTimeZoneReader._ctor(input_, string_pool)` -/
def RS.new (input : InStream) (pool : Option (List Str)) : RS := ⟨input, none, pool⟩

/-- the `_DateTimeZoneWriter` object: what `__output` has received so far, and `__string_pool` (a list shared with the caller) -/
structure WS where
  out : Bytes
  pool : Option (List Str)

/-- `self.__output.write(data)` (the whole of `data` is accepted, as `io.BytesIO` does; the count returned is dropped) -/
def WS.write (st : WS) (data : Bytes) : Unit × WS := ((), { st with out := st.out ++ data })

/-- fuel of the `__write_varint` loop (`while value > 127: …; value >>= 7`): one round per 7 bits and the final test -/
def varintFuel (v : Int) : Nat := v.toNat.log2 + 2

/-- `Instant` comparisons (`_instant.py`: comparison of the durations; tied to the source by GenAgreeC03 gen_Instant_ge_eq …) -/
def instGe (a b : Instant) : Bool := Duration.ge a.dur b.dur
def instEq (a b : Instant) : Bool := decide (a = b)
def instNe (a b : Instant) : Bool := !decide (a = b)

/-- `LocalTime.tick_of_day` of a time of day carried as its nanosecond of day (`_local_time.py`:
    `_towards_zero_division(self.__nanoseconds, NANOSECONDS_PER_TICK)`) -/
def ltTickOfDay (nod : Int) : R Int := pyTdiv nod NPT

end Codec
end Pyoda.Gen

/-- a `_TransitionMode` member as the integer it is (an `IntEnum`: UTC = 0, WALL = 1, STANDARD = 2) -/
def Pyoda.TransitionMode.toInt (m : Pyoda.TransitionMode) : Int := (m.toNat : Int)
