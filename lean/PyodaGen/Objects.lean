/-
  PyodaGen.Objects — hand-written structures standing for the Python OBJECTS that translated functions receive
  (tools/py2lean.py, "types" with "methods").  Not generated.  Mathlib-free.

  An object whose class has virtual members is a record of functions (dynamic dispatch = the record of closures);
  every member may raise (`R`).  Attributes that are `Final`/never reassigned are plain fields.
-/
import PyodaGen.Support

namespace Pyoda.Gen

/-- `_YearMonthDayCalculator` as its callers see it: the virtual members every calendar implements. -/
structure CalcObj where
  /-- `_get_start_of_year_in_days(year)` -/
  startOfYear : Int → R Int
  /-- `_get_days_in_year(year)` -/
  daysInYear : Int → R Int
  /-- `_get_days_since_epoch(year_month_day)` -/
  daysSinceEpoch : YMD → R Int
  /-- `_get_year_month_day(days_since_epoch=…)` -/
  ymdOfDays : Int → R YMD
  /-- `_get_days_in_month(year, month)` -/
  daysInMonth : Int → Int → R Int
  /-- `_get_months_in_year(year)` -/
  monthsInYear : Int → R Int
  /-- `_validate_year_month_day(year, month, day)` -/
  validate : Int → Int → Int → R Unit
  /-- `_get_day_of_year(year_month_day)` -/
  dayOfYear : YMD → R Int := fun _ => .error .notImplemented
  /-- `_get_year_month_day(year=…, day_of_year=…)` -/
  ymdOfYearDay : Int → Int → R YMD := fun _ _ => .error .notImplemented
  /-- `_min_year`, `_max_year` (properties returning the two `Final` attributes) -/
  minYear : Int := 0
  maxYear : Int := 0
  /-- `_set_year(year_month_day, year)` -/
  setYear : YMD → Int → R YMD := fun _ _ => .error .notImplemented
  /-- `_add_months(year_month_day, months)` -/
  addMonths : YMD → Int → R YMD := fun _ _ => .error .notImplemented
  /-- `_months_between(start, end)` -/
  monthsBetween : YMD → YMD → R Int := fun _ _ => .error .notImplemented

/-- `CalendarSystem`: its calculator and the four `Final` range attributes. -/
structure CalSys where
  calculator : CalcObj
  minYear : Int
  maxYear : Int
  minDays : Int
  maxDays : Int

/-- `_YearMonthDayCalendar`: the packed (year, month, day, calendar ordinal).  The ordinal is represented by the
    calendar it denotes: `CalendarSystem._for_ordinal(ordinal)` returns the one calendar with that ordinal
    (packing/unpacking is lossless: C12 `unpack_pack`, `packCal_injective`; one object per ordinal: C13). -/
structure YMDC where
  ymd : YMD
  calendar : CalSys

/-- `LocalDate`: its only attribute is the `_YearMonthDayCalendar`. -/
structure LDate where
  ymdc : YMDC

/-- `CalendarSystem._for_ordinal` on an ordinal represented by its calendar -/
def forOrdinal (c : CalSys) : CalSys := c

/-- `CalendarSystem._ordinal`: the ordinal, represented by the calendar it denotes -/
def ordinalOf (c : CalSys) : CalSys := c

/-- `_YearMonthDayCalendar._ctor(year=, month=, day=, calendar_ordinal=)` -/
def YMDC.ofFields (y m d : Int) (c : CalSys) : YMDC := ⟨⟨y, m, d⟩, c⟩

end Pyoda.Gen
