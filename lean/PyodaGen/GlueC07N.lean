/-
  PyodaGen.GlueC07N — the two objects the GENERATED numeric core of the text engine (PyodaGen/C07N.lean) works on, as explicit
  state (builder T4).  Hand-written, not generated.
  * `SB`: pyoda_time/_compatibility/_string_builder.py `StringBuilder` — its one attribute `__string`; `append` is
    `self.__string += string`, `length` is `len(self.__string)`, the `length` setter is `assert 0 <= value <= self.length;
    self.__string = self.__string[:value]`, `__getitem__` is `str.__getitem__`.
  * `VC`: pyoda_time/text/_text_cursor.py `_TextCursor` (base of `_ValueCursor`) — the four attributes `__value`, `__length`,
    `__current`, `__index`; its methods are TRANSLATED (PyodaGen/C07N.lean), not written here.
-/
import PyodaGen.TextSupport

namespace Pyoda.Gen.Text
open Pyoda Pyoda.Gen

/-- `StringBuilder`: the text built so far -/
structure SB where
  s : PyText
  deriving DecidableEq, Repr, Inhabited

/-- `output_buffer.append(string)` (the returned `self` is discarded by every translated caller) -/
def SB.append (b : SB) (x : PyText) : Unit × SB := ((), ⟨b.s ++ x⟩)
/-- `output_buffer.length` -/
def SB.length (b : SB) : Int := (b.s.length : Int)
/-- `output_buffer[i]` -/
def SB.getitem (b : SB) (i : Int) : R Char := pyStrIndex b.s i
/-- `output_buffer.length = value`: `AssertionError` (`other`) outside `0 ≤ value ≤ length`, else the first `value` characters -/
def SB.setLength (b : SB) (v : Int) : R (Unit × SB) :=
  if 0 ≤ v ∧ v ≤ (b.s.length : Int) then .ok ((), ⟨pySlice b.s none (some v)⟩) else .error .other

/-- `_TextCursor` / `_ValueCursor`: the text, its length, the current character (`'\0'` outside the text) and the index -/
structure VC where
  value : PyText
  length : Int
  current : Char
  index : Int
  deriving DecidableEq, Repr, Inhabited

end Pyoda.Gen.Text
