/-
  PyodaGen.TextSupport — Python `str` semantics the GENERATED text files (PyodaGen/C07N.lean, written by tools/py2lean.py)
  refer to.  Hand-written, not generated, Mathlib-free.  A `str` is the list of its code points (`List Char`); the result of
  `s[i]` (always a one-character `str`) is a `Char`.  Every definition here is a semantic choice of the translator and is
  compared with CPython itself by tools/py2lean_selftest.py on every run of the C03 check (builder T4).
-/
import PyodaModel.Prelude

namespace Pyoda.Gen

abbrev PyText := List Char

/-- the decimal digits of `n`, most significant first, in front of `acc` (fuel `f`; with `f ≥ n` the fuel never runs out) -/
def pyDigitsAux : Nat → Nat → List Char → List Char
  | 0, n, acc => Char.ofNat (48 + n % 10) :: acc
  | f + 1, n, acc => if n < 10 then Char.ofNat (48 + n) :: acc else pyDigitsAux f (n / 10) (Char.ofNat (48 + n % 10) :: acc)

/-- `str(n)` for `n ≥ 0` -/
def pyStrNat (n : Nat) : PyText := pyDigitsAux n n []

/-- `str(v)` of an int -/
def pyStrInt (v : Int) : PyText := if v < 0 then '-' :: pyStrNat (-v).toNat else pyStrNat v.toNat

/-- widths of a format specification the translation covers (`INT_MAX`; CPython itself accepts more and then fails with
    `MemoryError` or "Too many decimal digits" depending on the machine): beyond it the generated code answers `decimalDomain`,
    i.e. "outside the modelled domain" -/
def pyMaxWidth : Int := 2147483647

/-- `format(v, "0N")` / `format(v, "0Nd")` for a width `n`: sign-aware zero padding (the sign counts towards the width) -/
def pyZeroPad (v : Int) (n : Nat) : PyText :=
  if v < 0 then
    let d := pyStrNat (-v).toNat
    '-' :: (List.replicate (n - 1 - d.length) '0' ++ d)
  else
    let d := pyStrNat v.toNat
    List.replicate (n - d.length) '0' ++ d

/-- `f"{v:0{n}d}"`: the specification is the text `"0" + str(n) + "d"`; a negative `n` makes it `"0-…d"`, which CPython
    rejects with `ValueError` (a sign may not follow the zero flag) -/
def pyFmtZeroPad (v n : Int) : R PyText :=
  if n < 0 then .error .valueError
  else if n > pyMaxWidth then .error .decimalDomain
  else .ok (pyZeroPad v n.toNat)

/-- `f"{v:0>{n}}"`: fill `0`, right-aligned, width `n`; the specification is the text `"0>" + str(n)`, so a negative
    `n = -k` reads as fill `0`, align `>`, sign option `-` (the default), width `k` -/
def pyFmtFillRight (v n : Int) : R PyText :=
  if n.natAbs > pyMaxWidth then .error .decimalDomain
  else
    let s := pyStrInt v
    .ok (List.replicate (n.natAbs - s.length) '0' ++ s)

/-- `s[i]` on a str: the character; negative indices count from the end, `IndexError` outside -/
def pyStrIndex (s : PyText) (i : Int) : R Char :=
  let n : Int := s.length
  let j := if i < 0 then i + n else i
  if 0 ≤ j ∧ j < n then (match s[j.toNat]? with | some c => .ok c | none => .error .indexError) else .error .indexError

/-- a slice bound: negative counts from the end, then clamped to `[0, len]` -/
def pySliceBound (len : Nat) (i : Int) : Nat :=
  let j := if i < 0 then i + (len : Int) else i
  if j < 0 then 0 else if j > (len : Int) then len else j.toNat

/-- `s[a:b]`, `s[a:]` (`b = none`), `s[:b]` (`a = none`) -/
def pySlice (s : PyText) (a b : Option Int) : PyText :=
  let lo := match a with | some i => pySliceBound s.length i | none => 0
  let hi := match b with | some i => pySliceBound s.length i | none => s.length
  (s.take hi).drop lo

/-- the code points for which `str.isdigit()` is true in the CPython the check runs on (Unicode `Numeric_Type` Digit or
    Decimal), as closed ranges; compared with `chr(cp).isdigit()` for every code point by the self-test -/
def pyDigitRanges : List (Nat × Nat) := [(48, 57), (178, 179), (185, 185), (1632, 1641), (1776, 1785), (1984, 1993), (2406, 2415), (2534, 2543), (2662, 2671), (2790, 2799), (2918, 2927), (3046, 3055), (3174, 3183), (3302, 3311), (3430, 3439), (3558, 3567), (3664, 3673), (3792, 3801), (3872, 3881), (4160, 4169), (4240, 4249), (4969, 4977), (6112, 6121), (6160, 6169), (6470, 6479), (6608, 6618), (6784, 6793), (6800, 6809), (6992, 7001), (7088, 7097), (7232, 7241), (7248, 7257), (8304, 8304), (8308, 8313), (8320, 8329), (9312, 9320), (9332, 9340), (9352, 9360), (9450, 9450), (9461, 9469), (9471, 9471), (10102, 10110), (10112, 10120), (10122, 10130), (42528, 42537), (43216, 43225), (43264, 43273), (43472, 43481), (43504, 43513), (43600, 43609), (44016, 44025), (65296, 65305), (66720, 66729), (68160, 68163), (68912, 68921), (69216, 69224), (69714, 69722), (69734, 69743), (69872, 69881), (69942, 69951), (70096, 70105), (70384, 70393), (70736, 70745), (70864, 70873), (71248, 71257), (71360, 71369), (71472, 71481), (71904, 71913), (72016, 72025), (72784, 72793), (73040, 73049), (73120, 73129), (73552, 73561), (92768, 92777), (92864, 92873), (93008, 93017), (120782, 120831), (123200, 123209), (123632, 123641), (124144, 124153), (125264, 125273), (127232, 127242), (130032, 130041)]

/-- `c.isdigit()` of a one-character str -/
def pyChrIsDigit (c : Char) : Bool := pyDigitRanges.any (fun r => decide (r.1 ≤ c.toNat) && decide (c.toNat ≤ r.2))

/-- `int(c)` of a one-character str: translated only for `'0'…'9'` (other decimal digits of Unicode also convert, everything
    else raises `ValueError`): outside it the generated code answers "outside the modelled domain" -/
def pyIntChr (c : Char) : R Int :=
  if 48 ≤ c.toNat ∧ c.toNat ≤ 57 then .ok ((c.toNat : Int) - 48) else .error .decimalDomain

/-- `int(a * math.pow(10.0, k))` for ints `a`, `k`: translated as the exact integer `a * 10^k` where the float computation is
    exact — `0 ≤ k ≤ 22` (10^k is a double), `0 ≤ a` and `a * 10^k < 2^53` (conversion and product are exact) — and
    "outside the modelled domain" elsewhere -/
def pyIntMulPow10 (a k : Int) : R Int :=
  if 0 ≤ k ∧ k ≤ 22 ∧ 0 ≤ a ∧ a * 10 ^ k.toNat < 9007199254740992 then .ok (a * 10 ^ k.toNat) else .error .decimalDomain

def pyChrLe (a b : Char) : Bool := decide (a.toNat ≤ b.toNat)
def pyChrLt (a b : Char) : Bool := decide (a.toNat < b.toNat)
def pyChrEq (a b : Char) : Bool := decide (a = b)
def pyChrNe (a b : Char) : Bool := decide (a ≠ b)
def pyTextEq (a b : PyText) : Bool := decide (a = b)
def pyTextNe (a b : PyText) : Bool := decide (a ≠ b)
def pyTextAdd (a b : PyText) : PyText := a ++ b

end Pyoda.Gen
