/-
  PyodaGen.GlueC14S — hand-written definitions the GENERATED container file (PyodaGen/C14S.lean, from
  `_tzdb_stream_field.py`) refers to.  Not generated.
-/
import PyodaGen.C14

namespace Pyoda.Gen.Codec

/-- `_TzdbStreamField`: `__id`, `__data` -/
structure Field where
  id : Int
  data : Bytes
  deriving DecidableEq, Repr

/-- `_DateTimeZoneReader._ctor(stream, None).read_count()`: a temporary reader object over the stream (no pool, empty
    look-ahead buffer) reads one count with the GENERATED `read_count`; the reader object is dropped afterwards (with
    whatever its buffer holds — `read_count` leaves it empty), the stream lives on -/
def streamReadCount (s : InStream) : R (Int × InStream) := do
  let (v, st) ← Pyoda.Gen.C14.Reader.readCount (Pyoda.Gen.C14.Reader.ctor s none)
  .ok (v, st.input)

end Pyoda.Gen.Codec
