/-
  PyodaGen.GlueC11 — hand-written names for the equality operators of other classes that the translated code of
  pyoda_time/_offset_date_time.py and _offset_time.py calls (helpers of the C11 target list).  Not generated.
  `Offset.__eq__`, `LocalTime.__eq__` compare the single attribute (GenAgreeC03 `gen_Offset_beq_eq`, GenAgreeC10
  `gen_LocalTime_beq_eq`); `LocalDate.__eq__` compares the packed (year, month, day, calendar ordinal), i.e. the calendar
  and — the day number being a bijection of the fields (C01) — the day number.
-/
import PyodaModel.OffsetTypes
import PyodaModel.TimeOfDay

namespace Pyoda.Gen.C11Glue
open Pyoda

def offsetEq (a b : Offset) : Bool := decide (a.seconds = b.seconds)
def timeEq (a b : LocalTime) : Bool := decide (a.nod = b.nod)
def dateEq (a b : Date) : Bool := decide (a.cal.ord = b.cal.ord) && decide (a.days = b.days)

end Pyoda.Gen.C11Glue
