/-
  PyodaGen.Support — the few hand-written definitions the GENERATED files (PyodaGen/C*.lean, written by
  tools/py2lean.py) refer to.  Not generated.  Mathlib-free.
-/
import PyodaModel.Prelude

namespace Pyoda.Gen

/-- Python `l[i]` on a constant list of ints: negative indices count from the end, `IndexError` outside. -/
def pyIndex (l : List Int) (i : Int) : R Int :=
  let n : Int := l.length
  if 0 ≤ i ∧ i < n then .ok (l.getD i.toNat 0)
  else if -n ≤ i ∧ i < 0 then .ok (l.getD (i + n).toNat 0)
  else .error .indexError

/-- Python `l[i]` on a list of objects (an array): negative indices count from the end, `IndexError` outside. -/
def pyListIndex {α} (l : Array α) (i : Int) : R α :=
  let n : Int := l.size
  let j := if i < 0 then i + n else i
  if 0 ≤ j ∧ j < n then (match l[j.toNat]? with | some v => .ok v | none => .error .indexError) else .error .indexError

/-- Python `d[i]` on a constant dict whose keys are exactly 0 … n-1 (given as the list of its values): `KeyError`
    for every other key (no negative-index wrap-around, unlike a list). -/
def pyDictIndex (l : List Int) (i : Int) : R Int :=
  if 0 ≤ i ∧ i < (l.length : Int) then .ok (l.getD i.toNat 0) else .error .keyError

/-- a Python dict with int keys: the function from keys to optional values (`d[k]` raises KeyError for a missing key,
    `d[k] = v` replaces or adds one entry) -/
def PyDict (α : Type) : Type := Int → Option α
def PyDict.get {α} (d : PyDict α) (k : Int) : R α :=
  match d k with
  | some v => .ok v
  | none => .error .keyError
def PyDict.set {α} (d : PyDict α) (k : Int) (v : α) : PyDict α := fun j => if j = k then some v else d j

/-- a `LocalDateTime` of which only `_to_local_instant()` (its nanoseconds on the local timeline) is read -/
structure LdtObj where
  localInstant : Int
  deriving DecidableEq, Repr, Inhabited

/-- an ISO `LocalDate` of which only the day number (`_days_since_epoch`) is read -/
structure IsoDate where
  days : Int
  deriving DecidableEq, Repr, Inhabited

/-- `_YearStartCacheEntry`: its one attribute, the packed `days << 7 | validator` -/
structure CacheEntry where
  value : Int
  deriving DecidableEq, Repr, Inhabited

/-- `_YearMonthDay._ctor(year=, month=, day=)` as a plain triple (the bit packing of `_YearMonthDay` is modelled
    and proved lossless separately: `Calendar.packYmdc`, C12 `unpack_pack`). -/
structure YMD where
  year : Int
  month : Int
  day : Int
  deriving DecidableEq, Repr, Inhabited

/-- the raw value of a `_YearMonthDay` built from fields in range: `(year-1) << 11 | (month-1) << 6 | (day-1)` has
    disjoint bit fields, so it is this sum (C12 `unpack_pack`); the comparison operators of `_YearMonthDay` compare it -/
def YMD.packed (a : YMD) : Int := (a.year - 1) * 2048 + (a.month - 1) * 64 + (a.day - 1)
def YMD.lt (a b : YMD) : Bool := decide (a.packed < b.packed)
def YMD.le (a b : YMD) : Bool := decide (a.packed ≤ b.packed)
def YMD.gt (a b : YMD) : Bool := decide (a.packed > b.packed)
def YMD.ge (a b : YMD) : Bool := decide (a.packed ≥ b.packed)
def YMD.compareTo (a b : YMD) : Int := a.packed - b.packed

/-- `IsoDayOfWeek(n)`: the IntEnum lookup succeeds for 0 … 7 (NONE, MONDAY … SUNDAY) and raises ValueError otherwise -/
def isoDayOfWeek (n : Int) : R Int := if 0 ≤ n ∧ n ≤ 7 then .ok n else .error .valueError

/-- Python `1 << s` / `x >> s` with a run-time shift count: `ValueError` for a negative count. -/
def pyShiftCount (s : Int) : R Nat := if s < 0 then .error .valueError else .ok s.toNat

/-- Python `a & b` on unbounded two's-complement integers (`-[n+1]` is `~n`). -/
def pyAnd : Int → Int → Int
  | .ofNat m, .ofNat n => Int.ofNat (m &&& n)
  | .ofNat m, .negSucc n => Int.ofNat (m - (m &&& n))
  | .negSucc m, .ofNat n => Int.ofNat (n - (n &&& m))
  | .negSucc m, .negSucc n => .negSucc (m ||| n)

/-- Python `a | b` -/
def pyOr : Int → Int → Int
  | .ofNat m, .ofNat n => Int.ofNat (m ||| n)
  | .ofNat m, .negSucc n => .negSucc (n - (n &&& m))
  | .negSucc m, .ofNat n => .negSucc (m - (m &&& n))
  | .negSucc m, .negSucc n => .negSucc (m &&& n)

/-- Python `a ^ b` -/
def pyXor : Int → Int → Int
  | .ofNat m, .ofNat n => Int.ofNat (m ^^^ n)
  | .ofNat m, .negSucc n => .negSucc (m ^^^ n)
  | .negSucc m, .ofNat n => .negSucc (m ^^^ n)
  | .negSucc m, .negSucc n => Int.ofNat (m ^^^ n)

/-- Python `a << s` with a run-time shift count (`ValueError: negative shift count`) -/
def pyShl (a s : Int) : R Int := if s < 0 then .error .valueError else .ok (a * 2 ^ s.toNat)
/-- Python `a >> s` with a run-time shift count -/
def pyShr (a s : Int) : R Int := if s < 0 then .error .valueError else .ok (a >>> s.toNat)

/-- Python `a // b` with a run-time divisor -/
def pyFloorDiv (a b : Int) : R Int := if b = 0 then .error .zeroDivision else .ok (Int.fdiv a b)
/-- Python `a % b` with a run-time divisor -/
def pyFloorMod (a b : Int) : R Int := if b = 0 then .error .zeroDivision else .ok (Int.fmod a b)

/-- the builtin `len(x)` applied to the value `x.__len__()` returned: CPython raises ValueError for a negative
    result and OverflowError for one above `sys.maxsize` (2^63 - 1 on the supported 64-bit builds) -/
def pyLen (n : Int) : R Int :=
  if n < 0 then .error .valueError else if n > 9223372036854775807 then .error .overflowError else .ok n

/-- `_Preconditions._check_argument(expression, parameter, message)`: ValueError when the expression is false -/
def checkArgument (b : Bool) : R Unit := if b then .ok () else .error .valueError
/-- `_Preconditions._check_state(expression, message)`: RuntimeError when the expression is false -/
def checkState (b : Bool) : R Unit := if b then .ok () else .error .runtimeError

/-! ### builtin containers (bytes / bytearray as `List Nat`, lists, dicts as association lists) -/

/-- `len(x)` of a bytes / list / dict value (pure: the builtin containers never report a negative or oversize length) -/
def pyLenList {α} (l : List α) : Int := (l.length : Int)

/-- `b[i]` on a bytes value: an int; negative indices count from the end, `IndexError` outside -/
def pyBytesIndex (b : List Nat) (i : Int) : R Int :=
  let n : Int := b.length
  let j := if i < 0 then i + n else i
  if 0 ≤ j ∧ j < n then (match b[j.toNat]? with | some v => .ok (v : Int) | none => .error .indexError) else .error .indexError

/-- `bytearray.extend(chunk)` -/
def pyBytesExtend (a b : List Nat) : List Nat := a ++ b

/-- `list.append(x)` -/
def pyListAppend {α} (l : List α) (x : α) : List α := l ++ [x]

/-- `bytes([v])`: one byte; `ValueError` outside `range(256)` -/
def pyBytes1 (v : Int) : R (List Nat) := if 0 ≤ v ∧ v ≤ 255 then .ok [v.toNat] else .error .valueError

/-- `SomeIntEnum(x)`: x when a member has that value, `ValueError` otherwise -/
def pyEnumLookup (l : List Int) (x : Int) : R Int := if l.contains x then .ok x else .error .valueError

/-- `x in l` for a list of ints -/
def pyIntListContains (l : List Int) (x : Int) : Bool := l.contains x

/-- `l.index(x)` for a list of ints: the first position of x, `ValueError` when absent -/
def pyIntListIndexOf (l : List Int) (x : Int) : R Int :=
  let i := l.findIdx (· = x)
  if i < l.length then .ok (i : Int) else .error .valueError

/-- `d[k] = v` on an insertion-ordered dict with int keys and values (an association list) -/
def pyIntDictSet (d : List (Int × Int)) (k v : Int) : List (Int × Int) :=
  if d.any (·.1 = k) then d.map (fun e => if e.1 = k then (k, v) else e) else d ++ [(k, v)]

/-- `d[k]`: `KeyError` for a missing key -/
def pyIntDictGet (d : List (Int × Int)) (k : Int) : R Int :=
  match d.find? (·.1 = k) with
  | some e => .ok e.2
  | none => .error .keyError

/-- `try: BODY except A: raise X from e / except B: raise`: the exception BODY raised is translated by the FIRST handler whose
    classes contain it (`some X`: to X; `none`: a bare `raise`, the same exception); no handler: it propagates.  The
    out-of-domain marker `decimalDomain` is never caught. -/
def pyTry {α} (handlers : List (List PyExc × Option PyExc)) (body : R α) : R α :=
  match body with
  | .ok v => .ok v
  | .error e =>
    if e = .decimalDomain then .error e
    else match handlers.find? (fun h => h.1.contains e) with
      | some (_, some x) => .error x
      | _ => .error e

/-- `k in d` -/
def pyIntDictContains (d : List (Int × Int)) (k : Int) : Bool := d.any (·.1 = k)

/-- `del d[k]`: `KeyError` for a missing key; the other entries keep their order -/
def pyIntDictDel (d : List (Int × Int)) (k : Int) : R (List (Int × Int)) :=
  if d.any (·.1 = k) then .ok (d.filter (fun e => e.1 ≠ k)) else .error .keyError

/-- `deque.popleft()`: the leftmost element and the rest, `IndexError` on an empty deque -/
def pyIntListPopleft (l : List Int) : R (Int × List Int) :=
  match l with
  | [] => .error .indexError
  | x :: r => .ok (x, r)

end Pyoda.Gen

/-! Counterparts of the helper functions and the class `Vec` of the translator's self-test corpus
    (tools/py2lean_selftest/corpus/sample.py); used only by tools/py2lean_selftest.py. -/
namespace Pyoda.Gen.SelftestSupport

structure Vec where
  x : Int
  y : Int
  deriving DecidableEq, Repr, Inhabited

/-- `_ckv(value, lo, hi)`: the value, ValueError outside [lo, hi] -/
def ckv (v lo hi : Int) : R Int := if v < lo ∨ v > hi then .error .valueError else .ok v
/-- `_ovf(value)`: the value, OverflowError above 1000 -/
def ovf (v : Int) : R Int := if v > 1000 then .error .overflowError else .ok v

structure Span where
  lo : Int
  hi : Int
  deriving DecidableEq, Repr, Inhabited

structure Node where
  key : Int
  nxt : Int
  deriving DecidableEq, Repr, Inhabited

/-- `_mk2(tag, a, b)`: the tag is not passed to the model -/
def mk2 (a b : Int) : Int := a * 2 + b

/-- the interface `Scaler` of the corpus: a record of its virtual members -/
structure Scaler where
  scale : Int → Int
  check : Int → Int → R Int

structure Holder where
  scaler : Scaler
  bias : Int

/-- must-refuse corpus: an object type with one virtual member -/
structure Obj where
  virt : Int → Int → Int

/-! the stateful part of the corpus (tools/py2lean_selftest/corpus/stateful.py) -/

/-- `Source`: a stream that hands out at most `chunk` bytes per read -/
structure Src where
  data : List Nat
  chunk : Nat

/-- the `Reader` object of the corpus -/
structure RdState where
  src : Src
  peeked : Option Int
  total : Int
  log : Option (List Int)

/-- `self.__src.read(n)` -/
def RdState.read (st : RdState) (n : Int) : List Nat × RdState :=
  let k := if n < 0 then st.src.data.length else min (min n.toNat st.src.chunk) st.src.data.length
  (st.src.data.take k, { st with src := { st.src with data := st.src.data.drop k } })

/-- `Reader.make(a, b)` -/
def mkRd (a b : Int) : RdState :=
  let n := (Int.fmod b 7).toNat
  ⟨⟨(List.range n).map (fun (i : Nat) => (Int.fmod (a * ((i : Int) + 3) + (i : Int) * (i : Int)) 256).toNat), 1 + (Int.fmod b 3).toNat⟩,
   if Int.fmod a 2 = 0 then none else some (Int.fmod a 256), Int.fmod a 11,
   if Int.fmod b 2 = 0 then none else some [Int.fmod a 5]⟩

def showOptInt : Option Int → String
  | none => "None"
  | some v => toString v

def showIntList (l : List Int) : String := "[" ++ ", ".intercalate (l.map toString) ++ "]"

/-- `Reader.show()` -/
def showRd (st : RdState) : String :=
  showIntList (st.src.data.map Int.ofNat) ++ " " ++ showOptInt st.peeked ++ " " ++ toString st.total ++ " " ++
    (match st.log with | none => "None" | some l => showIntList l)

/-- `_lookup(v)`: KeyError for 13, IndexError for 17, RuntimeError for 19, else 2v -/
def lookup (v : Int) : R Int :=
  if v = 13 then .error .keyError else if v = 17 then .error .indexError else if v = 19 then .error .runtimeError else .ok (v * 2)

/-- `s.add(x)` on a set carried as the list of its elements in insertion order -/
def setAdd (s : List Int) (x : Int) : List Int := if s.contains x then s else s ++ [x]
/-- `d.get(k)` -/
def mapGet (d : List (Int × Int)) (k : Int) : Option Int := (d.find? (·.1 = k)).map (·.2)

/-- `_opt_or(x, d)` of the corpus: `d if x is None else x` -/
def optOr (x : Option Int) (d : Int) : Int := match x with | some v => v | none => d

/-- the `Lru` object of the corpus: `__limit`, `__order` (a deque), `__table` (a dict) -/
structure LruState where
  limit : Int
  order : List Int
  table : List (Int × Int)

/-- `Lru.make(a, b)` -/
def mkLru (a b : Int) : LruState :=
  let n := (Int.fmod b 5).toNat
  let ks := (List.range n).map (fun (i : Nat) => Int.fmod (a + 2 * (i : Int)) 7)
  ⟨Int.fmod a 4, ks, ks.foldl (fun d k => pyIntDictSet d k (k * k + 1)) []⟩

def showLru (st : LruState) : String :=
  toString st.limit ++ " " ++ showIntList st.order ++ " " ++
    "{" ++ ", ".intercalate (st.table.map (fun e => toString e.1 ++ ": " ++ toString e.2)) ++ "}"

end Pyoda.Gen.SelftestSupport
