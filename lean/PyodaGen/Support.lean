/-
  PyodaGen.Support — the few hand-written definitions the GENERATED files (PyodaGen/C*.lean, written by
  tools/py2lean.py) refer to.  Not generated.  Mathlib-free.
-/
import PyodaModel.Prelude

namespace Pyoda.Gen

/-- Python `l[i]` on a constant list of ints: negative indices count from the end, `IndexError` outside. -/
def pyIndex (l : List Int) (i : Int) : R Int :=
  let n : Int := l.length
  if 0 ≤ i ∧ i < n then .ok (l.getD i.toNat 0)
  else if -n ≤ i ∧ i < 0 then .ok (l.getD (i + n).toNat 0)
  else .error .indexError

/-- Python `l[i]` on a list of objects (an array): negative indices count from the end, `IndexError` outside. -/
def pyListIndex {α} (l : Array α) (i : Int) : R α :=
  let n : Int := l.size
  let j := if i < 0 then i + n else i
  if 0 ≤ j ∧ j < n then (match l[j.toNat]? with | some v => .ok v | none => .error .indexError) else .error .indexError

/-- Python `d[i]` on a constant dict whose keys are exactly 0 … n-1 (given as the list of its values): `KeyError`
    for every other key (no negative-index wrap-around, unlike a list). -/
def pyDictIndex (l : List Int) (i : Int) : R Int :=
  if 0 ≤ i ∧ i < (l.length : Int) then .ok (l.getD i.toNat 0) else .error .keyError

/-- a Python dict with int keys: the function from keys to optional values (`d[k]` raises KeyError for a missing key,
    `d[k] = v` replaces or adds one entry) -/
def PyDict (α : Type) : Type := Int → Option α
def PyDict.get {α} (d : PyDict α) (k : Int) : R α :=
  match d k with
  | some v => .ok v
  | none => .error .keyError
def PyDict.set {α} (d : PyDict α) (k : Int) (v : α) : PyDict α := fun j => if j = k then some v else d j

/-- a `LocalDateTime` of which only `_to_local_instant()` (its nanoseconds on the local timeline) is read -/
structure LdtObj where
  localInstant : Int
  deriving DecidableEq, Repr, Inhabited

/-- an ISO `LocalDate` of which only the day number (`_days_since_epoch`) is read -/
structure IsoDate where
  days : Int
  deriving DecidableEq, Repr, Inhabited

/-- `_YearStartCacheEntry`: its one attribute, the packed `days << 7 | validator` -/
structure CacheEntry where
  value : Int
  deriving DecidableEq, Repr, Inhabited

/-- `_YearMonthDay._ctor(year=, month=, day=)` as a plain triple (the bit packing of `_YearMonthDay` is modelled
    and proved lossless separately: `Calendar.packYmdc`, C12 `unpack_pack`). -/
structure YMD where
  year : Int
  month : Int
  day : Int
  deriving DecidableEq, Repr, Inhabited

/-- the raw value of a `_YearMonthDay` built from fields in range: `(year-1) << 11 | (month-1) << 6 | (day-1)` has
    disjoint bit fields, so it is this sum (C12 `unpack_pack`); the comparison operators of `_YearMonthDay` compare it -/
def YMD.packed (a : YMD) : Int := (a.year - 1) * 2048 + (a.month - 1) * 64 + (a.day - 1)
def YMD.lt (a b : YMD) : Bool := decide (a.packed < b.packed)
def YMD.le (a b : YMD) : Bool := decide (a.packed ≤ b.packed)
def YMD.gt (a b : YMD) : Bool := decide (a.packed > b.packed)
def YMD.ge (a b : YMD) : Bool := decide (a.packed ≥ b.packed)
def YMD.compareTo (a b : YMD) : Int := a.packed - b.packed

/-- `IsoDayOfWeek(n)`: the IntEnum lookup succeeds for 0 … 7 (NONE, MONDAY … SUNDAY) and raises ValueError otherwise -/
def isoDayOfWeek (n : Int) : R Int := if 0 ≤ n ∧ n ≤ 7 then .ok n else .error .valueError

/-- Python `1 << s` / `x >> s` with a run-time shift count: `ValueError` for a negative count. -/
def pyShiftCount (s : Int) : R Nat := if s < 0 then .error .valueError else .ok s.toNat

/-- Python `a & b` on unbounded two's-complement integers (`-[n+1]` is `~n`). -/
def pyAnd : Int → Int → Int
  | .ofNat m, .ofNat n => Int.ofNat (m &&& n)
  | .ofNat m, .negSucc n => Int.ofNat (m - (m &&& n))
  | .negSucc m, .ofNat n => Int.ofNat (n - (n &&& m))
  | .negSucc m, .negSucc n => .negSucc (m ||| n)

/-- Python `a | b` -/
def pyOr : Int → Int → Int
  | .ofNat m, .ofNat n => Int.ofNat (m ||| n)
  | .ofNat m, .negSucc n => .negSucc (n - (n &&& m))
  | .negSucc m, .ofNat n => .negSucc (m - (m &&& n))
  | .negSucc m, .negSucc n => .negSucc (m &&& n)

/-- Python `a ^ b` -/
def pyXor : Int → Int → Int
  | .ofNat m, .ofNat n => Int.ofNat (m ^^^ n)
  | .ofNat m, .negSucc n => .negSucc (m ^^^ n)
  | .negSucc m, .ofNat n => .negSucc (m ^^^ n)
  | .negSucc m, .negSucc n => Int.ofNat (m ^^^ n)

/-- Python `a << s` with a run-time shift count (`ValueError: negative shift count`) -/
def pyShl (a s : Int) : R Int := if s < 0 then .error .valueError else .ok (a * 2 ^ s.toNat)
/-- Python `a >> s` with a run-time shift count -/
def pyShr (a s : Int) : R Int := if s < 0 then .error .valueError else .ok (a >>> s.toNat)

/-- Python `a // b` with a run-time divisor -/
def pyFloorDiv (a b : Int) : R Int := if b = 0 then .error .zeroDivision else .ok (Int.fdiv a b)
/-- Python `a % b` with a run-time divisor -/
def pyFloorMod (a b : Int) : R Int := if b = 0 then .error .zeroDivision else .ok (Int.fmod a b)

/-- the builtin `len(x)` applied to the value `x.__len__()` returned: CPython raises ValueError for a negative
    result and OverflowError for one above `sys.maxsize` (2^63 - 1 on the supported 64-bit builds) -/
def pyLen (n : Int) : R Int :=
  if n < 0 then .error .valueError else if n > 9223372036854775807 then .error .overflowError else .ok n

/-- `_Preconditions._check_argument(expression, parameter, message)`: ValueError when the expression is false -/
def checkArgument (b : Bool) : R Unit := if b then .ok () else .error .valueError
/-- `_Preconditions._check_state(expression, message)`: RuntimeError when the expression is false -/
def checkState (b : Bool) : R Unit := if b then .ok () else .error .runtimeError

end Pyoda.Gen

/-! Counterparts of the helper functions and the class `Vec` of the translator's self-test corpus
    (tools/py2lean_selftest/corpus/sample.py); used only by tools/py2lean_selftest.py. -/
namespace Pyoda.Gen.SelftestSupport

structure Vec where
  x : Int
  y : Int
  deriving DecidableEq, Repr, Inhabited

/-- `_ckv(value, lo, hi)`: the value, ValueError outside [lo, hi] -/
def ckv (v lo hi : Int) : R Int := if v < lo ∨ v > hi then .error .valueError else .ok v
/-- `_ovf(value)`: the value, OverflowError above 1000 -/
def ovf (v : Int) : R Int := if v > 1000 then .error .overflowError else .ok v

structure Span where
  lo : Int
  hi : Int
  deriving DecidableEq, Repr, Inhabited

structure Node where
  key : Int
  nxt : Int
  deriving DecidableEq, Repr, Inhabited

/-- `_mk2(tag, a, b)`: the tag is not passed to the model -/
def mk2 (a b : Int) : Int := a * 2 + b

/-- the interface `Scaler` of the corpus: a record of its virtual members -/
structure Scaler where
  scale : Int → Int
  check : Int → Int → R Int

structure Holder where
  scaler : Scaler
  bias : Int

/-- must-refuse corpus: an object type with one virtual member -/
structure Obj where
  virt : Int → Int → Int

end Pyoda.Gen.SelftestSupport
