/-
  PyodaGen.GlueC13Z — `_CachingZoneIntervalMap.__HashArrayCache` as the GENERATED file (PyodaGen/C13Z.lean) sees it, on the
  structures of the model (`PyodaModel/Cache/ZoneHashCache.lean`): an Instant is its nanosecond count, a ZoneInterval its two
  raw bounds, a `_HashCacheNode` chain (`__previous` links) the latest interval with the list of the earlier ones, the
  `__instant_cache` list of 512 slots a function from slot numbers.  Not generated.
-/
import PyodaModel.Cache.ZoneHashCache

namespace Pyoda.Gen.ZCache
open Pyoda Pyoda.Cache.ZoneHashCache

/-- `Duration._ctor(days=, nano_of_day=)` followed by `Instant._from_untrusted_duration`: the instant as nanoseconds; the latter
    raises `OverflowError` for days outside `Instant._MIN_DAYS … _MAX_DAYS` -/
def durNanos (days nod : Int) : Int × Int := (days, nod)
def instantOfDuration (d : Int × Int) : R Int :=
  if d.1 < -4371222 ∨ d.1 > 2932896 then .error .overflowError else .ok (d.1 * NPD + d.2)

/-- `instant._days_since_epoch` -/
def daysOf (t : Int) : Int := t / NPD

/-- `_HashCacheNode.__ctor(interval, period, previous)` -/
def nodeFirst (iv : Interval) (period : Int) : Node := ⟨period, iv, []⟩
def nodePush (iv : Interval) (period : Int) (previous : Node) : Node := ⟨period, iv, previous.cur :: previous.prev⟩
/-- `node._previous` -/
def nodePrevious (n : Node) : Option Node :=
  match n.prev with
  | [] => none
  | p :: ps => some ⟨n.period, p, ps⟩

/-- `a > b` on Instants -/
def instGt (a b : Int) : Bool := decide (a > b)

/-- fuel of the walk over `_previous`: one round per earlier interval and the final test -/
def chainFuel (n : Node) : Nat := n.prev.length + 1

/-- the object: `__instant_cache` (the wrapped map is an abstract callee of the methods) -/
structure CacheSt where
  slots : State

/-- `self.__instant_cache[index]` / `self.__instant_cache[index] = node` for an index in 0 … 511 (`period & 511`) -/
def slotGet (s : State) (i : Int) : Option Node := s i.toNat
def slotSet (s : State) (i : Int) (n : Node) : State := update s i.toNat (some n)

end Pyoda.Gen.ZCache
