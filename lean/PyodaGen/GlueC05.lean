/-
  PyodaGen.GlueC05 — hand-written names for what the translated code of pyoda_time/_date_time_zone.py,
  time_zones/_zone_interval.py, _zone_local_mapping.py and _precalculated_date_time_zone.py calls on OTHER classes.
  Not generated.

  The Zone model (PyodaModel/Zone.lean) keeps the timeline as integers: an `Instant` / `_LocalInstant` is its count of
  nanoseconds since the (local) epoch, an `Offset` its seconds, a `Duration` its nanoseconds; the two sentinels are `BMIN`,
  `AMAX`.  The helpers below are that identification for the members the translated code uses (the object-level
  arithmetic of `Instant`, `_LocalInstant`, `Offset` is tied to its own model by GenAgreeC03; that the integer timeline
  describes it is what the C04/C05 correspondence suites check on every run).
-/
import PyodaModel.Zone

namespace Pyoda.Gen.C05Glue
open Pyoda Pyoda.Zone

def instLt (a b : Int) : Bool := decide (a < b)
def instLe (a b : Int) : Bool := decide (a ≤ b)
def instGt (a b : Int) : Bool := decide (a > b)
def instGe (a b : Int) : Bool := decide (a ≥ b)
/-- `instant - duration` (validated: `_from_untrusted_duration`) -/
def instMinusDur (t d : Int) : R Int := untrusted (t - d)
/-- `Duration.epsilon`: one nanosecond -/
def epsilon : Int := 1
/-- `_LocalInstant._minus_zero_offset()`: the same count read as an instant (trusted, no range check) -/
def minusZeroOffset (l : Int) : Int := l
/-- `_LocalInstant._minus(offset)`: validated -/
def localMinus (l w : Int) : R Int := untrusted (l - w * NPS)
/-- `ZoneLocalMapping._ctor(zone, local_date_time, early, late, count)`: what the model keeps of it -/
def mkMapping (early late : ZI) (count : Int) : Mapping := ⟨count.toNat, early, late⟩
def mappingCount (m : Mapping) : Int := m.count

end Pyoda.Gen.C05Glue
