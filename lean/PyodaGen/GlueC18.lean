/-
  PyodaGen.GlueC18 — hand-written names for the operations of OTHER classes that the translated code of
  pyoda_time/_date_interval.py and _interval.py calls (helpers of the C18 target list).  Not generated.

  * `LocalDate` is the model's `Intervals.LDate` (calendar ordinal, day number); its comparisons, `LocalDate.min/max`
    and `Period.days_between` are the model functions of PyodaModel/Intervals.lean (tied to the code by the C18
    correspondence and, for the order of dates, by C12 `*_cmp_iff_days`).
  * `Instant` is the model's `Instant`; its comparisons, `_is_valid`, subtraction and the two sentinels are the model
    functions that PyodaProofs/GenAgreeC03.lean proves equal to the definitions generated from _instant.py
    (`gen_Instant_lt_eq`, `gen_Instant_le_eq`, `gen_Instant_beq_eq`, `gen_Instant_isValid_eq`, `gen_Instant_minus_eq`,
    `gen_Instant_beforeMinValue_eq`, `gen_Instant_afterMaxValue_eq`).
-/
import PyodaModel.Intervals
import PyodaGen.Support

namespace Pyoda.Gen.C18Glue
open Pyoda Pyoda.Intervals

/-- `Period._internal_days_between(start, end)` (same calendar assumed by the caller) -/
def internalDaysBetween (a b : LDate) : Int := b.day - a.day

/-- `Instant.__lt__`, `__le__`, `__eq__` -/
def instLt (a b : Instant) : Bool := Duration.lt a.dur b.dur
def instLe (a b : Instant) : Bool := Duration.le a.dur b.dur
def instEq (a b : Instant) : Bool := Duration.beq a.dur b.dur

end Pyoda.Gen.C18Glue
