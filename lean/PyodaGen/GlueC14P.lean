/-
  PyodaGen.GlueC14P — constructors the payload readers of the GENERATED codec file end with (`WindowsZones.__ctor`,
  `TzdbZone1970Location.Country`, `TzdbZone1970Location`), on the model's structures.  Not generated.
-/
import PyodaModel.Codec.Windows
import PyodaModel.Codec.Locations

namespace Pyoda.Gen.Codec
open Pyoda Pyoda.Codec

/-- `WindowsZones.__ctor(version, tzdb_version, windows_version, map_zones)`: building `primary_mapping` indexes `tzdb_ids[0]` of
    every primary-territory zone (`IndexError` when it has none) -/
def mkWindowsZones (v tv wv : Str) (zones : List MapZone) : R WindowsZones :=
  if zones.any (fun z => z.isPrimary && z.tzdbIds.isEmpty) then .error .indexError else .ok ⟨v, tv, wv, zones⟩

/-- `TzdbZone1970Location.Country(name, code)`: `ValueError` for an empty name / a code that is not two characters -/
def mkCountry (name code : Str) : R Country :=
  if ¬ (strLen name > 0) then .error .valueError
  else if ¬ (strLen code = 2) then .error .valueError
  else .ok ⟨name, code⟩

/-- `TzdbZone1970Location(latitude_seconds, longitude_seconds, countries, zone_id, comment)`: range checks, at least one country -/
def mkZone1970Location (lat long : Int) (countries : List Country) (zoneId comment : Str) : R Zone1970Location := do
  checkRange lat (-90 * 3600) (90 * 3600)
  checkRange long (-180 * 3600) (180 * 3600)
  if ¬ (countries.length > 0) then .error .valueError
  else .ok ⟨lat, long, countries, zoneId, comment⟩

end Pyoda.Gen.Codec
