import PyodaModel.DriverLoop
import PyodaModel.Cache

def main : IO Unit := Pyoda.runDriver [Pyoda.Cache.handle]
