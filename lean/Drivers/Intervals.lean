import PyodaModel.DriverLoop
import PyodaModel.Intervals

def main : IO Unit := Pyoda.runDriver [Pyoda.Intervals.handle]
