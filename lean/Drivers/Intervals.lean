import PyodaModel.DriverLoop
import PyodaModel.Intervals

-- `Calendar.handle` serves `cal.wf c` (evaluated hypothesis of the YearMonth theorems of C18)
def main : IO Unit := Pyoda.runDriver [Pyoda.Intervals.handle, Pyoda.Calendar.handle]
