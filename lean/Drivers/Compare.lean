import PyodaModel.DriverLoop
import PyodaModel.Compare

def main : IO Unit := Pyoda.runDriver [Pyoda.Compare.handle]
