import PyodaModel.DriverLoop
import PyodaModel.Calendar

def main : IO Unit := Pyoda.runDriver [Pyoda.Calendar.handle]
