import PyodaModel.DriverLoop
import PyodaModel.Zone

def main : IO Unit := Pyoda.runDriver [Pyoda.Zone.handle]
