import PyodaModel.DriverLoop
import PyodaModel.ZoneCheck

def main : IO Unit := Pyoda.runDriverS (∅ : Pyoda.Zone.Registry) Pyoda.Zone.stepC
