import PyodaModel.DriverLoop
import PyodaModel.ZoneOps

def main : IO Unit := Pyoda.runDriverS (∅ : Pyoda.Zone.Registry) Pyoda.Zone.step
