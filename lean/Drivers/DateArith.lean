import PyodaModel.DriverLoop
import PyodaModel.Calendar
import PyodaModel.DateArith

def main : IO Unit := Pyoda.runDriver [Pyoda.Calendar.handle, Pyoda.DateArith.handle]
