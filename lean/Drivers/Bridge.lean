import PyodaModel.DriverLoop
import PyodaModel.Bridge

def main : IO Unit := Pyoda.runDriver [Pyoda.Bridge.handle]
