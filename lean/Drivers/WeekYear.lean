import PyodaModel.DriverLoop
import PyodaModel.WeekYear

def main : IO Unit := Pyoda.runDriver [Pyoda.WeekYear.handle]
