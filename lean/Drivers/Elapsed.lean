import PyodaModel.DriverLoop
import PyodaModel.Elapsed
import PyodaModel.Decimal

def main : IO Unit := Pyoda.runDriver [Pyoda.Elapsed.handle, Pyoda.Decimal.handle]
