import PyodaModel.DriverLoop
import PyodaModel.Elapsed

def main : IO Unit := Pyoda.runDriver [Pyoda.Elapsed.handle]
