import PyodaModel.DriverLoop
import PyodaModel.Codec
import PyodaModel.Codec.Session

def main : IO Unit := Pyoda.runDriver [Pyoda.Codec.handle, Pyoda.Codec.Session.handle]
