import PyodaModel.DriverLoop
import PyodaModel.Codec

def main : IO Unit := Pyoda.runDriver [Pyoda.Codec.handle]
