import PyodaModel.DriverLoop
import PyodaModel.Clock

def main : IO Unit := Pyoda.runDriver [Pyoda.Clock.handle]
