import PyodaModel.DriverLoop
import PyodaModel.SourceBridge

def main : IO Unit := Pyoda.runDriverS ({} : Pyoda.Bridge6X.St) Pyoda.Bridge6X.step
