import PyodaModel.DriverLoop
import PyodaModel.ZoneBridge

def main : IO Unit := Pyoda.runDriverS (∅ : Pyoda.Zone.Registry) Pyoda.Bridge6.step
