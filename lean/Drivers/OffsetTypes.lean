import PyodaModel.DriverLoop
import PyodaModel.OffsetTypes

def main : IO Unit := Pyoda.runDriver [Pyoda.OffsetTypes.handle]
