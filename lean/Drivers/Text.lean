import PyodaModel.DriverLoop
import PyodaModel.Text

def main : IO Unit := Pyoda.runDriver [Pyoda.Text.handle]
