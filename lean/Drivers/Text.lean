import PyodaModel.DriverLoop
import PyodaModel.Text
import PyodaModel.Text.PyIsoParse

def main : IO Unit := Pyoda.runDriver [Pyoda.Text.handle, Pyoda.Text.PyIsoParse.handle]
