import PyodaModel.DriverLoop
import PyodaModel.TimeOfDay
import PyodaModel.TimeOfDay.Full
import PyodaModel.Calendar
import PyodaModel.DateArith

-- `Calendar.handle` / `DateArith.handle` serve `cal.wf c` and `date.wf c` (evaluated hypotheses `C09.Evaluated` of
-- the full-period theorems of C10)
def main : IO Unit := Pyoda.runDriver
  [Pyoda.TimeOfDay.handle, Pyoda.TimeOfDay.handleFull, Pyoda.Calendar.handle, Pyoda.DateArith.handle]
