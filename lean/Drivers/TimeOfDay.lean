import PyodaModel.DriverLoop
import PyodaModel.TimeOfDay

def main : IO Unit := Pyoda.runDriver [Pyoda.TimeOfDay.handle]
