import PyodaModel.Prelude
import PyodaModel.Elapsed
