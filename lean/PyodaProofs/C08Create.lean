/-
  C08 (creation) — creating a pattern from ANY pattern text either succeeds or fails with InvalidPatternError.
  Theorems over the generic compile model (PyodaModel/Text/PatternCursor, Stepped, Compile): LocalTime, LocalDate
  (ISO template) and Offset patterns, custom texts and standard single letters, every culture record.
-/
import PyodaModel.Text.Compile
import PyodaProofs.Basic

namespace Pyoda.C08
open Pyoda Pyoda.Text

/-- the only exception a result can carry is `InvalidPatternError` -/
def OnlyInvalid {α : Type} (r : R α) : Prop := ∀ e, r = .error e → e = .invalidPattern

theorem onlyInvalid_ok {α : Type} (a : α) : OnlyInvalid (Except.ok a : R α) := by
  intro e h; cases h

theorem onlyInvalid_err {α : Type} : OnlyInvalid (Except.error .invalidPattern : R α) := by
  intro e h; injection h with h; exact h.symm

theorem onlyInvalid_iff {α : Type} (r : R α) : OnlyInvalid r ↔ (∃ a, r = .ok a) ∨ r = .error .invalidPattern := by
  constructor
  · intro h
    cases r with
    | ok a => left; exact ⟨a, rfl⟩
    | error e => right; rw [h e rfl]
  · rintro (⟨a, rfl⟩ | rfl)
    · exact onlyInvalid_ok a
    · exact onlyInvalid_err

/-! ## the pattern cursor -/

theorem repeatCount_onlyInvalid (c : Char) (rest : Text) (max : Nat) : OnlyInvalid (repeatCount c rest max) := by
  unfold repeatCount; dsimp only
  split
  · exact onlyInvalid_err
  · exact onlyInvalid_ok _

/-- `get_repeat_count` returns at least 1 and at most the maximum -/
theorem repeatCount_bounds (c : Char) (rest : Text) (max n : Nat) (h : repeatCount c rest max = .ok n) :
    1 ≤ n ∧ n ≤ max ∧ n = countLeading c rest + 1 := by
  unfold repeatCount at h; dsimp only at h
  split at h
  · cases h
  · injection h with h; omega

theorem quotedAux_onlyInvalid (close : Char) : ∀ (n : Nat) (l acc : Text) (k : Nat), l.length ≤ n →
    OnlyInvalid (quotedAux close l acc k) := by
  intro n
  induction n with
  | zero =>
    intro l acc k h
    cases l with
    | nil => unfold quotedAux; exact onlyInvalid_err
    | cons c r => simp at h
  | succ n ih =>
    intro l acc k h
    cases l with
    | nil => unfold quotedAux; exact onlyInvalid_err
    | cons c r =>
      unfold quotedAux
      by_cases h1 : c = close
      · rw [if_pos h1]; exact onlyInvalid_ok _
      · rw [if_neg h1]
        by_cases h2 : c = '\\'
        · rw [if_pos h2]
          cases r with
          | nil => exact onlyInvalid_err
          | cons d r' => exact ih r' _ _ (by simp at h; omega)
        · rw [if_neg h2]; exact ih r _ _ (by simp at h; omega)

theorem quotedString_onlyInvalid (close : Char) (rest : Text) : OnlyInvalid (quotedString close rest) :=
  quotedAux_onlyInvalid close rest.length rest [] 0 (Nat.le_refl _)

theorem embScan_onlyInvalid : ∀ (n : Nat) (l : Text) (d : Nat) (q : Option Char) (k : Nat), l.length ≤ n →
    OnlyInvalid (embScan d q l k) := by
  intro n
  induction n with
  | zero =>
    intro l d q k h
    cases l with
    | nil => cases q <;> (unfold embScan; exact onlyInvalid_err)
    | cons c r => simp at h
  | succ n ih =>
    intro l d q k h
    cases l with
    | nil => cases q <;> (unfold embScan; exact onlyInvalid_err)
    | cons c r =>
      have hr : r.length ≤ n := by simp at h; omega
      cases q with
      | none =>
        unfold embScan
        by_cases c1 : c = '>'
        · rw [if_pos c1]
          split
          · exact onlyInvalid_ok _
          · exact ih r _ _ _ hr
        · rw [if_neg c1]
          by_cases c2 : c = '<'
          · rw [if_pos c2]; exact ih r _ _ _ hr
          · rw [if_neg c2]
            by_cases c3 : c = '\\'
            · rw [if_pos c3]
              cases r with
              | nil => exact onlyInvalid_err
              | cons x r' => exact ih r' _ _ _ (by simp at hr; omega)
            · rw [if_neg c3]
              split <;> exact ih r _ _ _ hr
      | some q =>
        unfold embScan
        by_cases c1 : c = q
        · rw [if_pos c1]; exact ih r _ _ _ hr
        · rw [if_neg c1]
          by_cases c3 : c = '\\'
          · rw [if_pos c3]
            cases r with
            | nil => exact onlyInvalid_err
            | cons x r' => exact ih r' _ _ _ (by simp at hr; omega)
          · rw [if_neg c3]; exact ih r _ _ _ hr

theorem embeddedPattern_onlyInvalid (rest : Text) : OnlyInvalid (embeddedPattern rest) := by
  unfold embeddedPattern
  split
  · rename_i r
    have := embScan_onlyInvalid r.length r 1 none 0 (Nat.le_refl _)
    cases h : embScan 1 none r 0 with
    | error e => rw [h] at this; have := this e rfl; subst this; exact onlyInvalid_err
    | ok k => exact onlyInvalid_ok _
  · exact onlyInvalid_err

/-! ## the character handlers -/

theorem addField_onlyInvalid (st : CSt) (bit : Nat) : OnlyInvalid (addField st bit) := by
  unfold addField; split
  · exact onlyInvalid_err
  · exact onlyInvalid_ok _

/-- error of a sub-step known to be `invalidPattern` -/
theorem err_of (α β : Type) (x : R α) (hx : OnlyInvalid x) (e : PyExc) (h : x = .error e) :
    OnlyInvalid (Except.error e : R β) := by
  have := hx e h; subst this; exact onlyInvalid_err

theorem handlePadded_onlyInvalid (c : Char) (rest : Text) (st : CSt) (maxCount bit : Nat) (minV maxV : Int)
    (slot : Slot) : OnlyInvalid (handlePadded c rest st maxCount bit minV maxV slot) := by
  unfold handlePadded
  cases h1 : repeatCount c rest maxCount with
  | error e => exact err_of _ _ _ (repeatCount_onlyInvalid c rest maxCount) e h1
  | ok n =>
    dsimp only
    cases h2 : addField st bit with
    | error e => exact err_of _ _ _ (addField_onlyInvalid st bit) e h2
    | ok st' => exact onlyInvalid_ok _

theorem handleDot_onlyInvalid (comma : Bool) (rest : Text) (st : CSt) : OnlyInvalid (handleDot comma rest st) := by
  unfold handleDot
  split
  · rename_i r
    cases h1 : repeatCount 'F' r 9 with
    | error e => exact err_of _ _ _ (repeatCount_onlyInvalid _ _ _) e h1
    | ok n =>
      dsimp only
      cases h2 : addField st F.fraction with
      | error e => exact err_of _ _ _ (addField_onlyInvalid _ _) e h2
      | ok st' => exact onlyInvalid_ok _
  · exact onlyInvalid_ok _

theorem handleFraction_onlyInvalid (c : Char) (rest : Text) (st : CSt) : OnlyInvalid (handleFraction c rest st) := by
  unfold handleFraction
  cases h1 : repeatCount c rest 9 with
  | error e => exact err_of _ _ _ (repeatCount_onlyInvalid _ _ _) e h1
  | ok n =>
    dsimp only
    cases h2 : addField st F.fraction with
    | error e => exact err_of _ _ _ (addField_onlyInvalid _ _) e h2
    | ok st' => exact onlyInvalid_ok _

theorem handleQuote_onlyInvalid (c : Char) (rest : Text) (st : CSt) : OnlyInvalid (handleQuote c rest st) := by
  unfold handleQuote
  cases h1 : quotedString c rest with
  | error e => exact err_of _ _ _ (quotedString_onlyInvalid _ _) e h1
  | ok p => exact onlyInvalid_ok _

theorem handleBackslash_onlyInvalid (rest : Text) (st : CSt) : OnlyInvalid (handleBackslash rest st) := by
  unfold handleBackslash; split
  · exact onlyInvalid_err
  · exact onlyInvalid_ok _

theorem handlePercent_onlyInvalid (rest : Text) (st : CSt) : OnlyInvalid (handlePercent rest st) := by
  unfold handlePercent; split
  · exact onlyInvalid_err
  · split
    · exact onlyInvalid_err
    · exact onlyInvalid_ok _

theorem handleDefault_onlyInvalid (c : Char) (st : CSt) : OnlyInvalid (handleDefault c st) := by
  unfold handleDefault; split
  · exact onlyInvalid_err
  · exact onlyInvalid_ok _

theorem handleCommon_onlyInvalid (c : Char) (rest : Text) (st : CSt) (r : R (CSt × Nat))
    (h : handleCommon c rest st = some r) : OnlyInvalid r := by
  unfold handleCommon at h
  split at h
  · injection h with h; rw [← h]; exact handlePercent_onlyInvalid _ _
  · split at h
    · injection h with h; rw [← h]; exact handleQuote_onlyInvalid _ _ _
    · split at h
      · injection h with h; rw [← h]; exact handleBackslash_onlyInvalid _ _
      · cases h

theorem handleYearOfEra_onlyInvalid (c : Char) (rest : Text) (st : CSt) : OnlyInvalid (handleYearOfEra c rest st) := by
  unfold handleYearOfEra
  cases h1 : repeatCount c rest 4 with
  | error e => exact err_of _ _ _ (repeatCount_onlyInvalid _ _ _) e h1
  | ok n =>
    dsimp only
    cases h2 : addField st F.yearOfEra with
    | error e => exact err_of _ _ _ (addField_onlyInvalid _ _) e h2
    | ok st' =>
      dsimp only
      split
      · cases h3 : addField (addStep st' (.num .yearOfEra2 .yearOfEra 2 2 0 99)) F.yearTwoDigits with
        | error e => exact err_of _ _ _ (addField_onlyInvalid _ _) e h3
        | ok st'' => exact onlyInvalid_ok _
      · split
        · exact onlyInvalid_ok _
        · exact onlyInvalid_err

theorem handleMonthOrDay_onlyInvalid (month : Bool) (c : Char) (rest : Text) (st : CSt) :
    OnlyInvalid (handleMonthOrDay month c rest st) := by
  unfold handleMonthOrDay
  cases h1 : repeatCount c rest 4 with
  | error e => exact err_of _ _ _ (repeatCount_onlyInvalid _ _ _) e h1
  | ok n =>
    dsimp only
    generalize hst : addStep st _ = st1
    generalize hb : (if decide (n ≤ 2) = true then if month = true then F.monthNum else F.dayOfMonth
      else if month = true then F.monthText else F.dayOfWeek) = bit
    cases h2 : addField st1 bit with
    | error e => exact err_of _ _ _ (addField_onlyInvalid _ _) e h2
    | ok st' => exact onlyInvalid_ok _

theorem handleCounted_onlyInvalid (c : Char) (rest : Text) (st : CSt) (maxCount bit : Nat) (mk : Nat → Step) :
    OnlyInvalid (handleCounted c rest st maxCount bit mk) := by
  unfold handleCounted
  cases h1 : repeatCount c rest maxCount with
  | error e => exact err_of _ _ _ (repeatCount_onlyInvalid _ _ _) e h1
  | ok n =>
    dsimp only
    cases h2 : addField st bit with
    | error e => exact err_of _ _ _ (addField_onlyInvalid _ _) e h2
    | ok st' => exact onlyInvalid_ok _

theorem handleSingle_onlyInvalid (st : CSt) (bit : Nat) (step : Step) : OnlyInvalid (handleSingle st bit step) := by
  unfold handleSingle
  cases h2 : addField st bit with
  | error e => exact err_of _ _ _ (addField_onlyInvalid _ _) e h2
  | ok st' => exact onlyInvalid_ok _

macro "handler_cases" : tactic => `(tactic|
  repeat' (first
    | exact handleDot_onlyInvalid _ _ _
    | exact handlePadded_onlyInvalid _ _ _ _ _ _ _ _
    | exact handleFraction_onlyInvalid _ _ _
    | exact handleCounted_onlyInvalid _ _ _ _ _ _
    | exact handleSingle_onlyInvalid _ _ _
    | exact handleYearOfEra_onlyInvalid _ _ _
    | exact handleMonthOrDay_onlyInvalid _ _ _ _
    | exact handleDefault_onlyInvalid _ _
    | exact onlyInvalid_ok _
    | exact onlyInvalid_err
    | split))

theorem handleTime_onlyInvalid (cu : Culture) (c : Char) (rest : Text) (st : CSt) :
    OnlyInvalid (handleTime cu c rest st) := by
  unfold handleTime
  cases hc : handleCommon c rest st with
  | some r => exact handleCommon_onlyInvalid c rest st r hc
  | none => dsimp only; handler_cases

theorem handleDate_onlyInvalid (cu : Culture) (c : Char) (rest : Text) (st : CSt) :
    OnlyInvalid (handleDate cu c rest st) := by
  unfold handleDate
  cases hc : handleCommon c rest st with
  | some r => exact handleCommon_onlyInvalid c rest st r hc
  | none => dsimp only; handler_cases

theorem handleOffset_onlyInvalid (cu : Culture) (c : Char) (rest : Text) (st : CSt) :
    OnlyInvalid (handleOffset cu c rest st) := by
  unfold handleOffset
  cases hc : handleCommon c rest st with
  | some r => exact handleCommon_onlyInvalid c rest st r hc
  | none => dsimp only; handler_cases

/-- LocalDateTime table: every character except `l` (embedded patterns, outside the modelled subset) -/
theorem handleDateTime_onlyInvalid (cu : Culture) (c : Char) (rest : Text) (st : CSt) (hl : c ≠ 'l') :
    OnlyInvalid (handleDateTime cu c rest st) := by
  unfold handleDateTime
  cases hc : handleCommon c rest st with
  | some r => exact handleCommon_onlyInvalid c rest st r hc
  | none =>
    dsimp only
    by_cases c0 : c = '/'
    · rw [if_pos c0]; exact onlyInvalid_ok _
    rw [if_neg c0]
    by_cases c1 : c = 'T'
    · rw [if_pos c1]; exact onlyInvalid_ok _
    rw [if_neg c1]
    by_cases c2 : c = 'y'
    · rw [if_pos c2]; exact handleYearOfEra_onlyInvalid _ _ _
    rw [if_neg c2]
    by_cases c3 : c = 'u'
    · rw [if_pos c3]; exact handlePadded_onlyInvalid _ _ _ _ _ _ _ _
    rw [if_neg c3]
    by_cases c4 : c = 'M'
    · rw [if_pos c4]; exact handleMonthOrDay_onlyInvalid _ _ _ _
    rw [if_neg c4]
    by_cases c5 : c = 'd'
    · rw [if_pos c5]; exact handleMonthOrDay_onlyInvalid _ _ _ _
    rw [if_neg c5]
    by_cases c6 : c = '.'
    · rw [if_pos c6]; exact handleDot_onlyInvalid _ _ _
    rw [if_neg c6]
    by_cases c7 : c = ';'
    · rw [if_pos c7]; exact handleDot_onlyInvalid _ _ _
    rw [if_neg c7]
    by_cases c8 : c = ':'
    · rw [if_pos c8]; exact onlyInvalid_ok _
    rw [if_neg c8]
    by_cases c9 : c = 'h'
    · rw [if_pos c9]; exact handlePadded_onlyInvalid _ _ _ _ _ _ _ _
    rw [if_neg c9]
    by_cases c10 : c = 'H'
    · rw [if_pos c10]; exact handlePadded_onlyInvalid _ _ _ _ _ _ _ _
    rw [if_neg c10]
    by_cases c11 : c = 'm'
    · rw [if_pos c11]; exact handlePadded_onlyInvalid _ _ _ _ _ _ _ _
    rw [if_neg c11]
    by_cases c12 : c = 's'
    · rw [if_pos c12]; exact handlePadded_onlyInvalid _ _ _ _ _ _ _ _
    rw [if_neg c12]
    by_cases c13 : c = 'f' ∨ c = 'F'
    · rw [if_pos c13]; exact handleFraction_onlyInvalid _ _ _
    rw [if_neg c13]
    by_cases c14 : c = 't'
    · rw [if_pos c14]; exact handleCounted_onlyInvalid _ _ _ _ _ _
    rw [if_neg c14]
    by_cases c15 : c = 'c'
    · rw [if_pos c15]; exact handleSingle_onlyInvalid _ _ _
    rw [if_neg c15]
    by_cases c16 : c = 'g'
    · rw [if_pos c16]; exact handleCounted_onlyInvalid _ _ _ _ _ _
    rw [if_neg c16]
    rw [if_neg hl]
    exact handleDefault_onlyInvalid _ _

theorem handleAnnualDay_onlyInvalid (c : Char) (rest : Text) (st : CSt) : OnlyInvalid (handleAnnualDay c rest st) := by
  unfold handleAnnualDay
  cases h1 : repeatCount c rest 2 with
  | error e => exact err_of _ _ _ (repeatCount_onlyInvalid _ _ _) e h1
  | ok n =>
    dsimp only
    cases h2 : addField (addStep st (.num .dayOfMonth .dayOfMonth n 2 1 99)) F.dayOfMonth with
    | error e => exact err_of _ _ _ (addField_onlyInvalid _ _) e h2
    | ok st' => exact onlyInvalid_ok _

theorem handleAnnual_onlyInvalid (cu : Culture) (c : Char) (rest : Text) (st : CSt) :
    OnlyInvalid (handleAnnual cu c rest st) := by
  unfold handleAnnual
  cases hc : handleCommon c rest st with
  | some r => exact handleCommon_onlyInvalid c rest st r hc
  | none =>
    dsimp only
    repeat' (first
      | exact handleMonthOrDay_onlyInvalid _ _ _ _
      | exact handleAnnualDay_onlyInvalid _ _ _
      | exact handleDefault_onlyInvalid _ _
      | exact onlyInvalid_ok _
      | split)

theorem handleTotal_onlyInvalid (c : Char) (rest : Text) (st : CSt) (maxCount bit : Nat) (maxV : Int) (g s : Slot) :
    OnlyInvalid (handleTotal c rest st maxCount bit maxV g s) := by
  unfold handleTotal
  cases h1 : repeatCount c rest maxCount with
  | error e => exact err_of _ _ _ (repeatCount_onlyInvalid _ _ _) e h1
  | ok n =>
    dsimp only
    split
    · exact onlyInvalid_err
    · cases h2 : addField st bit with
      | error e => exact err_of _ _ _ (addField_onlyInvalid _ _) e h2
      | ok st1 =>
        dsimp only
        cases h3 : addField st1 F.totalDuration with
        | error e => exact err_of _ _ _ (addField_onlyInvalid _ _) e h3
        | ok st2 => exact onlyInvalid_ok _

theorem handleDuration_onlyInvalid (cu : Culture) (c : Char) (rest : Text) (st : CSt) :
    OnlyInvalid (handleDuration cu c rest st) := by
  unfold handleDuration
  cases hc : handleCommon c rest st with
  | some r => exact handleCommon_onlyInvalid c rest st r hc
  | none =>
    dsimp only
    by_cases c0 : c = '.'
    · rw [if_pos c0]; exact handleDot_onlyInvalid _ _ _
    rw [if_neg c0]
    by_cases c1 : c = ':'
    · rw [if_pos c1]; exact onlyInvalid_ok _
    rw [if_neg c1]
    by_cases c2 : c = 'D'
    · rw [if_pos c2]; exact handleTotal_onlyInvalid _ _ _ _ _ _ _ _
    rw [if_neg c2]
    by_cases c3 : c = 'H'
    · rw [if_pos c3]; exact handleTotal_onlyInvalid _ _ _ _ _ _ _ _
    rw [if_neg c3]
    by_cases c4 : c = 'h'
    · rw [if_pos c4]; exact handlePadded_onlyInvalid _ _ _ _ _ _ _ _
    rw [if_neg c4]
    by_cases c5 : c = 'M'
    · rw [if_pos c5]; exact handleTotal_onlyInvalid _ _ _ _ _ _ _ _
    rw [if_neg c5]
    by_cases c6 : c = 'm'
    · rw [if_pos c6]; exact handlePadded_onlyInvalid _ _ _ _ _ _ _ _
    rw [if_neg c6]
    by_cases c7 : c = 'S'
    · rw [if_pos c7]; exact handleTotal_onlyInvalid _ _ _ _ _ _ _ _
    rw [if_neg c7]
    by_cases c8 : c = 's'
    · rw [if_pos c8]; exact handlePadded_onlyInvalid _ _ _ _ _ _ _ _
    rw [if_neg c8]
    by_cases c9 : c = 'f' ∨ c = 'F'
    · rw [if_pos c9]; exact handleFraction_onlyInvalid _ _ _
    rw [if_neg c9]
    by_cases c10 : c = '+'
    · rw [if_pos c10]; exact handleSingle_onlyInvalid _ _ _
    rw [if_neg c10]
    by_cases c11 : c = '-'
    · rw [if_pos c11]; exact handleSingle_onlyInvalid _ _ _
    rw [if_neg c11]
    exact handleDefault_onlyInvalid _ _

/-- the pattern text stays inside the modelled subset: a LocalDateTime pattern text without the letter `l`
    (embedded `ld<…>` / `lt<…>` patterns are not modelled; the model answers `!dom` for them) -/
def NoL (ty : PType) (text : Text) : Prop :=
  match ty with
  | .datetime _ => 'l' ∉ text
  | .datetimeC _ => 'l' ∉ text
  | _ => True

theorem handleChar_onlyInvalid (ty : PType) (cu : Culture) (c : Char) (rest : Text) (st : CSt)
    (hl : NoL ty (c :: rest)) : OnlyInvalid (handleChar ty cu c rest st) := by
  unfold handleChar
  cases ty
  · exact handleTime_onlyInvalid _ _ _ _
  · exact handleDate_onlyInvalid _ _ _ _
  · exact handleOffset_onlyInvalid _ _ _ _
  · exact handleDateTime_onlyInvalid _ _ _ _ (by simp only [NoL, List.mem_cons, not_or] at hl; exact fun h => hl.1 h.symm)
  · exact handleAnnual_onlyInvalid _ _ _ _
  · exact handleDuration_onlyInvalid _ _ _ _
  · exact handleDate_onlyInvalid _ _ _ _
  · exact handleDateTime_onlyInvalid _ _ _ _ (by simp only [NoL, List.mem_cons, not_or] at hl; exact fun h => hl.1 h.symm)

theorem noL_drop (ty : PType) (c : Char) (rest : Text) (k : Nat) (h : NoL ty (c :: rest)) : NoL ty (rest.drop k) := by
  cases ty <;> simp only [NoL] at h ⊢
  · intro hm
    exact h (List.mem_cons_of_mem _ (List.mem_of_mem_drop hm))
  · intro hm
    exact h (List.mem_cons_of_mem _ (List.mem_of_mem_drop hm))

/-! ## the builder loop: the fuel suffices and only `InvalidPatternError` can come out -/

/-- with fuel at least the length of the text, `_parse_custom_pattern` ends in a builder state or in
    `InvalidPatternError` — in particular the out-of-fuel marker `.other` is unreachable -/
theorem compileLoop_onlyInvalid (ty : PType) (cu : Culture) : ∀ (fuel : Nat) (text : Text) (st : CSt),
    text.length ≤ fuel → NoL ty text → OnlyInvalid (compileLoop ty cu fuel text st) := by
  intro fuel
  induction fuel with
  | zero =>
    intro text st h _
    cases text with
    | nil => unfold compileLoop; exact onlyInvalid_ok _
    | cons c r => simp at h
  | succ f ih =>
    intro text st h hl
    cases text with
    | nil => unfold compileLoop; exact onlyInvalid_ok _
    | cons c rest =>
      unfold compileLoop
      cases hh : handleChar ty cu c rest st with
      | error e => exact err_of _ _ _ (handleChar_onlyInvalid ty cu c rest st hl) e hh
      | ok p =>
        obtain ⟨st', k⟩ := p
        dsimp only
        apply ih
        · have : (rest.drop k).length ≤ rest.length := by simp
          simp at h; omega
        · exact noL_drop ty c rest k hl

theorem validateUsed_onlyInvalid (used : Nat) : OnlyInvalid (validateUsed used) := by
  unfold validateUsed
  split
  · exact onlyInvalid_err
  · split
    · exact onlyInvalid_err
    · exact onlyInvalid_ok _

theorem compileCustom_onlyInvalid (ty : PType) (cu : Culture) (text : Text) (hl : NoL ty text := by trivial) :
    OnlyInvalid (compileCustom ty cu text) := by
  unfold compileCustom
  cases h1 : compileLoop ty cu text.length text ⟨0, []⟩ with
  | error e => exact err_of _ _ _ (compileLoop_onlyInvalid ty cu _ _ _ (Nat.le_refl _) hl) e h1
  | ok st =>
    dsimp only
    split
    · rename_i e he
      split at he
      · cases he
      · exact err_of _ _ _ (validateUsed_onlyInvalid _) e he
    · exact onlyInvalid_ok _

theorem steppedOf_onlyInvalid (r : R Compiled) (h : OnlyInvalid r) : OnlyInvalid (steppedOf r) := by
  unfold steppedOf
  cases hr : r with
  | error e => have := h e hr; subst this; exact onlyInvalid_err
  | ok c => exact onlyInvalid_ok _

/-- LocalTime patterns: every pattern text, every culture record -/
theorem compileTime_total (cu : Culture) (text : Text) : OnlyInvalid (compileTime cu text) := by
  unfold compileTime
  split
  · exact onlyInvalid_err
  · repeat' (first
      | exact steppedOf_onlyInvalid _ (compileCustom_onlyInvalid _ _ _)
      | exact onlyInvalid_err
      | split)
  · exact steppedOf_onlyInvalid _ (compileCustom_onlyInvalid _ _ _)

/-- LocalDate patterns (ISO template): every pattern text, every culture record -/
theorem compileDate_total (cu : Culture) (text : Text) : OnlyInvalid (compileDate cu text) := by
  unfold compileDate
  split
  · exact onlyInvalid_err
  · repeat' (first
      | exact steppedOf_onlyInvalid _ (compileCustom_onlyInvalid _ _ _)
      | exact onlyInvalid_err
      | split)
  · exact steppedOf_onlyInvalid _ (compileCustom_onlyInvalid _ _ _)

/-! ## LocalDateTime: the plain builder stops with `!dom` at the letter `l`, the builder with embedded patterns takes over -/

/-- the only exceptions a result can carry are `InvalidPatternError` and the model's `!dom` marker -/
def InvOrDom {α : Type} (r : R α) : Prop := ∀ e, r = .error e → e = .invalidPattern ∨ e = .decimalDomain

theorem invOrDom_of_onlyInvalid {α : Type} (r : R α) (h : OnlyInvalid r) : InvOrDom r := fun e he => Or.inl (h e he)

theorem handleChar_datetime_invOrDom (tm : Tmpl) (cu : Culture) (c : Char) (rest : Text) (st : CSt) :
    InvOrDom (handleChar (.datetime tm) cu c rest st) := by
  by_cases hl : c = 'l'
  · subst hl
    intro e he
    have : handleChar (.datetime tm) cu 'l' rest st = .error .decimalDomain := by
      unfold handleChar handleDateTime
      have hc : handleCommon 'l' rest st = none := by
        unfold handleCommon
        rw [if_neg (by decide), if_neg (by decide), if_neg (by decide)]
      simp only [hc]
      repeat (first | rw [if_neg (by decide)] | rw [if_pos rfl])
      simp
    rw [this] at he; injection he with he; right; exact he.symm
  · exact invOrDom_of_onlyInvalid _ (by unfold handleChar; exact handleDateTime_onlyInvalid cu c rest st hl)

theorem compileLoop_datetime_invOrDom (tm : Tmpl) (cu : Culture) : ∀ (fuel : Nat) (text : Text) (st : CSt),
    text.length ≤ fuel → InvOrDom (compileLoop (.datetime tm) cu fuel text st) := by
  intro fuel
  induction fuel with
  | zero =>
    intro text st h
    cases text with
    | nil => unfold compileLoop; intro e he; cases he
    | cons c r => simp at h
  | succ f ih =>
    intro text st h
    cases text with
    | nil => unfold compileLoop; intro e he; cases he
    | cons c rest =>
      unfold compileLoop
      cases hh : handleChar (.datetime tm) cu c rest st with
      | error e => intro e' he'; injection he' with he'; subst he'; exact handleChar_datetime_invOrDom tm cu c rest st e hh
      | ok p =>
        obtain ⟨st', k⟩ := p
        dsimp only
        apply ih
        have : (rest.drop k).length ≤ rest.length := by simp
        simp at h; omega

theorem compileCustom_datetime_invOrDom (tm : Tmpl) (cu : Culture) (text : Text) :
    InvOrDom (compileCustom (.datetime tm) cu text) := by
  unfold compileCustom
  cases h1 : compileLoop (.datetime tm) cu text.length text ⟨0, []⟩ with
  | error e => intro e' he'; injection he' with he'; subst he'; exact compileLoop_datetime_invOrDom tm cu _ _ _ (Nat.le_refl _) e h1
  | ok st =>
    dsimp only
    split
    · rename_i e he
      split at he
      · cases he
      · intro e' he'; injection he' with he'; subst he'; left; exact validateUsed_onlyInvalid _ e he
    · intro e he; cases he

theorem compileDate_stepped (cu : Culture) (text : Text) (p : Pat) (h : compileDate cu text = .ok p) : ∃ c, p = .stepped c := by
  have key : ∀ cu' t, steppedOf (compileCustom .date cu' t) = .ok p → ∃ c, p = .stepped c := by
    intro cu' t hh
    unfold steppedOf at hh
    cases hc : compileCustom .date cu' t with
    | error e => rw [hc] at hh; cases hh
    | ok c => rw [hc] at hh; injection hh with hh; exact ⟨c, hh.symm⟩
  unfold compileDate at h
  split at h
  · cases h
  · repeat' (first | exact key _ _ h | cases h | split at h)
  · exact key _ _ h

theorem compileTime_stepped (cu : Culture) (text : Text) (p : Pat) (h : compileTime cu text = .ok p) : ∃ c, p = .stepped c := by
  have key : ∀ cu' t, steppedOf (compileCustom .time cu' t) = .ok p → ∃ c, p = .stepped c := by
    intro cu' t hh
    unfold steppedOf at hh
    cases hc : compileCustom .time cu' t with
    | error e => rw [hc] at hh; cases hh
    | ok c => rw [hc] at hh; injection hh with hh; exact ⟨c, hh.symm⟩
  unfold compileTime at h
  split at h
  · cases h
  · repeat' (first | exact key _ _ h | cases h | split at h)
  · exact key _ _ h

theorem handleEmbedded_onlyInvalid (cu : Culture) (rest : Text) (st : DSt) : OnlyInvalid (handleEmbedded cu rest st) := by
  unfold handleEmbedded
  split
  · rename_i r
    cases h1 : embeddedPattern r with
    | error e => exact err_of _ _ _ (embeddedPattern_onlyInvalid r) e h1
    | ok q =>
      obtain ⟨text, k⟩ := q
      dsimp only
      cases h2 : addField ⟨st.used, []⟩ F.embeddedDate with
      | error e => exact err_of _ _ _ (addField_onlyInvalid _ _) e h2
      | ok u =>
        dsimp only
        cases h3 : compileDate cu text with
        | error e => exact err_of _ _ _ (compileDate_total cu text) e h3
        | ok p =>
          obtain ⟨c, rfl⟩ := compileDate_stepped cu text p h3
          exact onlyInvalid_ok _
  · rename_i r
    cases h1 : embeddedPattern r with
    | error e => exact err_of _ _ _ (embeddedPattern_onlyInvalid r) e h1
    | ok q =>
      obtain ⟨text, k⟩ := q
      dsimp only
      cases h2 : addField ⟨st.used, []⟩ F.embeddedTime with
      | error e => exact err_of _ _ _ (addField_onlyInvalid _ _) e h2
      | ok u =>
        dsimp only
        cases h3 : compileTime cu text with
        | error e => exact err_of _ _ _ (compileTime_total cu text) e h3
        | ok p =>
          obtain ⟨c, rfl⟩ := compileTime_stepped cu text p h3
          exact onlyInvalid_ok _
  · exact onlyInvalid_err

theorem handleDT_onlyInvalid (cu : Culture) (c : Char) (rest : Text) (st : DSt) : OnlyInvalid (handleDT cu c rest st) := by
  unfold handleDT
  by_cases hl : c = 'l'
  · rw [if_pos hl]; exact handleEmbedded_onlyInvalid cu rest st
  · rw [if_neg hl]
    cases hh : handleDateTime cu c rest ⟨st.used, st.cur⟩ with
    | error e => exact err_of _ _ _ (handleDateTime_onlyInvalid cu c rest _ hl) e hh
    | ok p => exact onlyInvalid_ok _

/-- the embedded-pattern handler consumes at most the rest of the text -/
theorem compileLoopDT_onlyInvalid (cu : Culture) : ∀ (fuel : Nat) (text : Text) (st : DSt),
    text.length ≤ fuel → OnlyInvalid (compileLoopDT cu fuel text st) := by
  intro fuel
  induction fuel with
  | zero =>
    intro text st h
    cases text with
    | nil => unfold compileLoopDT; exact onlyInvalid_ok _
    | cons c r => simp at h
  | succ f ih =>
    intro text st h
    cases text with
    | nil => unfold compileLoopDT; exact onlyInvalid_ok _
    | cons c rest =>
      unfold compileLoopDT
      cases hh : handleDT cu c rest st with
      | error e => exact err_of _ _ _ (handleDT_onlyInvalid cu c rest st) e hh
      | ok p =>
        obtain ⟨st', k⟩ := p
        dsimp only
        apply ih
        have : (rest.drop k).length ≤ rest.length := by simp
        simp at h; omega

theorem buildCheck_onlyInvalid (used : Nat) : OnlyInvalid (buildCheck used) := by
  unfold buildCheck
  split
  · exact onlyInvalid_err
  · split
    · exact onlyInvalid_err
    · exact onlyInvalid_ok _

theorem compileSegmented_onlyInvalid (cu : Culture) (text : Text) : OnlyInvalid (compileSegmented cu text) := by
  unfold compileSegmented
  cases h1 : compileLoopDT cu text.length text ⟨0, [], []⟩ with
  | error e => exact err_of _ _ _ (compileLoopDT_onlyInvalid cu _ _ _ (Nat.le_refl _)) e h1
  | ok st =>
    dsimp only
    cases h2 : validateUsed st.used with
    | error e => exact err_of _ _ _ (validateUsed_onlyInvalid _) e h2
    | ok u =>
      dsimp only
      cases h3 : buildCheck st.used with
      | error e => exact err_of _ _ _ (buildCheck_onlyInvalid _) e h3
      | ok u' => exact onlyInvalid_ok _

/-- `parse_no_standard_expansion` of the LocalDateTime parser: every pattern text, embedded patterns included -/
theorem compileDTText_onlyInvalid (tm : Tmpl) (cu : Culture) (text : Text) : OnlyInvalid (compileDTText tm cu text) := by
  unfold compileDTText
  cases hc : compileCustom (.datetime tm) cu text with
  | ok c => exact onlyInvalid_ok _
  | error e =>
    rcases compileCustom_datetime_invOrDom tm cu text e hc with rfl | rfl
    · exact onlyInvalid_err
    · exact compileSegmented_onlyInvalid cu text

/-- LocalDateTime patterns (ISO template value): EVERY pattern text (embedded `ld<…>` / `lt<…>` patterns included),
    every culture record -/
theorem compileDateTime_total (tm : Tmpl) (cu : Culture) (text : Text) : OnlyInvalid (compileDateTime tm cu text) := by
  unfold compileDateTime
  split
  · exact onlyInvalid_err
  · rename_i c
    by_cases c1 : c = 'o' ∨ c = 'O'
    · rw [if_pos c1]; exact steppedOf_onlyInvalid _ (compileCustom_onlyInvalid _ _ _ (by simp only [NoL]; decide))
    rw [if_neg c1]
    by_cases c2 : c = 'r'
    · rw [if_pos c2]; exact steppedOf_onlyInvalid _ (compileCustom_onlyInvalid _ _ _ (by simp only [NoL]; decide))
    rw [if_neg c2]
    by_cases c3 : c = 'R'
    · rw [if_pos c3]; exact steppedOf_onlyInvalid _ (compileCustom_onlyInvalid _ _ _ (by simp only [NoL]; decide))
    rw [if_neg c3]
    by_cases c4 : c = 's'
    · rw [if_pos c4]; exact steppedOf_onlyInvalid _ (compileCustom_onlyInvalid _ _ _ (by simp only [NoL]; decide))
    rw [if_neg c4]
    by_cases c5 : c = 'S'
    · rw [if_pos c5]; exact steppedOf_onlyInvalid _ (compileCustom_onlyInvalid _ _ _ (by simp only [NoL]; decide))
    rw [if_neg c5]
    by_cases c6 : c = 'f'
    · rw [if_pos c6]; exact compileDTText_onlyInvalid _ _ _
    rw [if_neg c6]
    by_cases c7 : c = 'F'
    · rw [if_pos c7]; exact compileDTText_onlyInvalid _ _ _
    rw [if_neg c7]
    by_cases c8 : c = 'g'
    · rw [if_pos c8]; exact compileDTText_onlyInvalid _ _ _
    rw [if_neg c8]
    by_cases c9 : c = 'G'
    · rw [if_pos c9]; exact compileDTText_onlyInvalid _ _ _
    rw [if_neg c9]
    exact onlyInvalid_err
  · exact compileDTText_onlyInvalid _ _ _

/-- Instant patterns (adapter over a LocalDateTime pattern): every pattern text, every culture record -/
theorem compileInstant_total (tm : Tmpl) (cu : Culture) (text : Text) : OnlyInvalid (compileInstant tm cu text) := by
  unfold compileInstant
  split
  · exact onlyInvalid_err
  · split
    · exact compileDTText_onlyInvalid _ _ _
    · exact onlyInvalid_err
  · exact compileDTText_onlyInvalid _ _ _

/-- AnnualDate patterns (any template value): every pattern text, every culture record -/
theorem compileAnnual_total (tm td : Int) (cu : Culture) (text : Text) : OnlyInvalid (compileAnnual tm td cu text) := by
  unfold compileAnnual
  split
  · exact onlyInvalid_err
  · split
    · exact steppedOf_onlyInvalid _ (compileCustom_onlyInvalid _ _ _)
    · exact onlyInvalid_err
  · exact steppedOf_onlyInvalid _ (compileCustom_onlyInvalid _ _ _)

/-- Duration patterns: every pattern text, every culture record -/
theorem compileDuration_total (cu : Culture) (text : Text) : OnlyInvalid (compileDuration cu text) := by
  unfold compileDuration
  split
  · exact onlyInvalid_err
  · split
    · exact steppedOf_onlyInvalid _ (compileCustom_onlyInvalid _ _ _)
    · split
      · exact steppedOf_onlyInvalid _ (compileCustom_onlyInvalid _ _ _)
      · exact onlyInvalid_err
  · exact steppedOf_onlyInvalid _ (compileCustom_onlyInvalid _ _ _)

theorem compileOffsetText_onlyInvalid (cu : Culture) (text : Text) : OnlyInvalid (compileOffsetText cu text) := by
  unfold compileOffsetText
  split
  · exact onlyInvalid_err
  · split
    · rename_i rest _
      cases h : compileCustom .offset cu rest with
      | error e => exact err_of _ _ _ (compileCustom_onlyInvalid _ _ _) e h
      | ok c => exact onlyInvalid_ok _
    · exact steppedOf_onlyInvalid _ (compileCustom_onlyInvalid _ _ _)

theorem sequenceR_onlyInvalid {α : Type} (l : List (R α)) (h : ∀ r ∈ l, OnlyInvalid r) : OnlyInvalid (sequenceR l) := by
  induction l with
  | nil => unfold sequenceR; exact onlyInvalid_ok _
  | cons r rs ih =>
    unfold sequenceR
    cases hr : r with
    | error e => have := h r (by simp) e hr; subst this; exact onlyInvalid_err
    | ok a =>
      dsimp only
      have ih' := ih (fun x hx => h x (by simp [hx]))
      cases hs : sequenceR rs with
      | error e => have := ih' e hs; subst this; exact onlyInvalid_err
      | ok as => exact onlyInvalid_ok _

theorem mapR_onlyInvalid {α β : Type} (f : α → β) (r : R α) (h : OnlyInvalid r) : OnlyInvalid (mapR f r) := by
  unfold mapR
  cases hr : r with
  | error e => have := h e hr; subst this; exact onlyInvalid_err
  | ok a => exact onlyInvalid_ok _

/-- LocalDate patterns with a template value in any calendar: every pattern text, every culture record -/
theorem compileDateC_total (cal : Nat) (cu : Culture) (text : Text) : OnlyInvalid (compileDateC cal cu text) := by
  unfold compileDateC
  split
  · split
    · exact mapR_onlyInvalid _ _ (steppedOf_onlyInvalid _ (compileCustom_onlyInvalid _ _ _))
    · split
      · exact compileDate_total cu _
      · exact mapR_onlyInvalid _ _ (compileDate_total cu _)
  · exact mapR_onlyInvalid _ _ (compileDate_total cu _)

/-- LocalDateTime patterns with a template value in any calendar -/
theorem compileDateTimeC_total (tc : TmplC) (cu : Culture) (text : Text) : OnlyInvalid (compileDateTimeC tc cu text) := by
  unfold compileDateTimeC
  dsimp only
  split
  · repeat' (first
      | exact mapR_onlyInvalid _ _ (steppedOf_onlyInvalid _ (compileCustom_onlyInvalid _ _ _ (by simp only [NoL]; decide)))
      | exact compileDateTime_total _ cu _
      | exact mapR_onlyInvalid _ _ (compileDateTime_total _ cu _)
      | split)
  · exact mapR_onlyInvalid _ _ (compileDateTime_total _ cu _)

/-- a pattern text that is not a single character never reaches the recursion bound -/
theorem compileOffsetAux_custom (cu : Culture) (d : Nat) (text : Text) (h : 2 ≤ text.length) :
    compileOffsetAux cu (d + 1) text = compileOffsetText cu text := by
  unfold compileOffsetAux
  match text, h with
  | _ :: _ :: _, _ => rfl

theorem offsetTexts_lengths (cu : Culture) (hcu : cu.offsetTextsCustom = true) :
    2 ≤ cu.offLong.length ∧ 2 ≤ cu.offMedium.length ∧ 2 ≤ cu.offShort.length ∧
      2 ≤ cu.offLongNP.length ∧ 2 ≤ cu.offMediumNP.length ∧ 2 ≤ cu.offShortNP.length := by
  unfold Culture.offsetTextsCustom at hcu
  simpa using hcu

theorem composite3_onlyInvalid (cu : Culture) (d : Nat) (a b c : Text) (ha : 2 ≤ a.length) (hb : 2 ≤ b.length)
    (hc : 2 ≤ c.length) :
    OnlyInvalid (sequenceR [compileOffsetAux cu (d + 1) a, compileOffsetAux cu (d + 1) b, compileOffsetAux cu (d + 1) c]) := by
  apply sequenceR_onlyInvalid
  intro r hr
  simp only [List.mem_cons, List.mem_nil_iff, or_false] at hr
  rcases hr with rfl | rfl | rfl
  · rw [compileOffsetAux_custom cu d a ha]; exact compileOffsetText_onlyInvalid cu a
  · rw [compileOffsetAux_custom cu d b hb]; exact compileOffsetText_onlyInvalid cu b
  · rw [compileOffsetAux_custom cu d c hc]; exact compileOffsetText_onlyInvalid cu c

/-- one level: at depth `d + 2` every text other than `G`, `I` is settled -/
theorem compileOffsetAux_level2 (cu : Culture) (hcu : cu.offsetTextsCustom = true) (d : Nat) (text : Text)
    (hG : text ≠ ['G']) (hI : text ≠ ['I']) : OnlyInvalid (compileOffsetAux cu (d + 2) text) := by
  obtain ⟨h1, h2, h3, h4, h5, h6⟩ := offsetTexts_lengths cu hcu
  unfold compileOffsetAux
  split
  · exact onlyInvalid_err
  · rename_i c
    by_cases cg : c = 'g'
    · rw [if_pos cg]; exact mapR_onlyInvalid _ _ (composite3_onlyInvalid cu d _ _ _ h1 h2 h3)
    · rw [if_neg cg]
      by_cases cG : c = 'G'
      · subst cG; exact absurd rfl hG
      · rw [if_neg cG]
        by_cases ci : c = 'i'
        · rw [if_pos ci]; exact mapR_onlyInvalid _ _ (composite3_onlyInvalid cu d _ _ _ h4 h5 h6)
        · rw [if_neg ci]
          by_cases cI : c = 'I'
          · subst cI; exact absurd rfl hI
          · rw [if_neg cI]
            repeat' (first
              | exact compileOffsetText_onlyInvalid _ _
              | exact onlyInvalid_err
              | split)
  · exact compileOffsetText_onlyInvalid _ _

/-- Offset patterns: every pattern text, every culture record whose offset pattern texts are custom patterns -/
theorem compileOffset_total (cu : Culture) (hcu : cu.offsetTextsCustom = true) (text : Text) :
    OnlyInvalid (compileOffset cu text) := by
  unfold compileOffset
  by_cases hG : text = ['G']
  · subst hG
    show OnlyInvalid (compileOffsetAux cu (2 + 1) ['G'])
    unfold compileOffsetAux
    have e1 : ('G' = 'g') = False := by decide
    simp only [e1, if_false, if_true]
    exact mapR_onlyInvalid _ _ (compileOffsetAux_level2 cu hcu 0 ['g'] (by decide) (by decide))
  · by_cases hI : text = ['I']
    · subst hI
      show OnlyInvalid (compileOffsetAux cu (2 + 1) ['I'])
      unfold compileOffsetAux
      have e1 : ('I' = 'g') = False := by decide
      have e2 : ('I' = 'G') = False := by decide
      have e3 : ('I' = 'i') = False := by decide
      simp only [e1, e2, e3, if_false, if_true]
      exact mapR_onlyInvalid _ _ (compileOffsetAux_level2 cu hcu 0 ['i'] (by decide) (by decide))
    · exact compileOffsetAux_level2 cu hcu 1 text hG hI

/-- **create_total** (modelled types): for every pattern text, creating a LocalTime, LocalDate or Offset pattern
    either succeeds or raises `InvalidPatternError` — never any other exception, and the builder loop always
    terminates within its fuel. -/
theorem compile_total (ty : PType) (cu : Culture) (hcu : cu.offsetTextsCustom = true) (text : Text) :
    (∃ p, compile ty cu text = .ok p) ∨ compile ty cu text = .error .invalidPattern := by
  rw [← onlyInvalid_iff]
  unfold compile
  cases ty
  · exact compileTime_total cu text
  · exact compileDate_total cu text
  · exact compileOffset_total cu hcu text
  · exact compileDateTime_total _ cu text
  · exact compileAnnual_total _ _ cu text
  · exact compileDuration_total cu text
  · exact compileDateC_total _ cu text
  · exact compileDateTimeC_total _ cu text

theorem invariantCulture_offsetTextsCustom : invariantCulture.offsetTextsCustom = true := by decide

/-- outcome class of a creation: 0 = created, 1 = InvalidPatternError, 2 = anything else -/
def outcome (r : R Pat) : Nat :=
  match r with
  | .ok _ => 0
  | .error .invalidPattern => 1
  | .error _ => 2

/-! the malformed forms named in the property text are rejected with the documented error; valid ones compile -/
example : outcome (compile .time invariantCulture "HH'".toList) = 1 := by decide +kernel
example : outcome (compile .time invariantCulture "HH\\".toList) = 1 := by decide +kernel
example : outcome (compile .time invariantCulture "HH%".toList) = 1 := by decide +kernel
example : outcome (compile .time invariantCulture "HH HH".toList) = 1 := by decide +kernel
example : outcome (compile .time invariantCulture "HHH".toList) = 1 := by decide +kernel
example : outcome (compile .time invariantCulture "HH:mm:ss.FFF".toList) = 0 := by decide +kernel
example : outcome (compile .date invariantCulture "yyyy\"x\"MM".toList) = 0 := by decide +kernel
example : outcome (compile .offset invariantCulture "+HH Z".toList) = 1 := by decide +kernel
example : outcome (compile .offset invariantCulture ['G']) = 0 := by decide +kernel
example : outcome (compile (.datetime Tmpl.default) invariantCulture "uuuu-MM-dd HH:mm".toList) = 0 := by decide +kernel
example : outcome (compile (.datetime Tmpl.default) invariantCulture ['F']) = 0 := by decide +kernel
example : outcome (compile (.datetime Tmpl.default) invariantCulture "HH uuuu HH".toList) = 1 := by decide +kernel
example : outcome (compile (.datetime Tmpl.default) invariantCulture "gg MM".toList) = 1 := by decide +kernel
example : outcome (compile (.datetime Tmpl.default) invariantCulture "ld<uuuu-MM-dd> lt<HH:mm>".toList) = 0 := by decide +kernel
example : outcome (compile (.datetime Tmpl.default) invariantCulture "ld<uuuu> uuuu".toList) = 1 := by decide +kernel
example : outcome (compile (.datetime Tmpl.default) invariantCulture "l<uuuu HH>".toList) = 1 := by decide +kernel
example : outcome (compile (.datetime Tmpl.default) invariantCulture "ld<ld<uuuu>>".toList) = 1 := by decide +kernel
example : outcome (compile (.datetime Tmpl.default) invariantCulture "ld<uuuu".toList) = 1 := by decide +kernel
example : outcome (compileInstant Tmpl.default invariantCulture ['g']) = 0 := by decide +kernel
example : outcome (compileInstant Tmpl.default invariantCulture ['s']) = 1 := by decide +kernel
example : outcome (compile (.annual 1 1) invariantCulture "MMMM dd".toList) = 0 := by decide +kernel
example : outcome (compile (.annual 1 1) invariantCulture "ddd".toList) = 1 := by decide +kernel
example : outcome (compile .duration invariantCulture "-D:hh:mm:ss.FFFFFFFFF".toList) = 0 := by decide +kernel
example : outcome (compile .duration invariantCulture "D H".toList) = 1 := by decide +kernel
example : outcome (compile .duration invariantCulture "H h".toList) = 1 := by decide +kernel
example : outcome (compile .duration invariantCulture ['o']) = 0 := by decide +kernel
example : outcome (compile (.dateC ⟨18, 170, 19, 1, 0⟩) invariantCulture "yyyy MMMM dd g".toList) = 0 := by decide +kernel
example : outcome (compile (.dateC ⟨4, 5784, 13, 1, 0⟩) invariantCulture "yyyy g c".toList) = 1 := by decide +kernel
example : outcome (compile (.datetimeC ⟨17, 1445, 3, 5, 0⟩) invariantCulture ['S']) = 0 := by decide +kernel

end Pyoda.C08
