/-
  GenAgreeC13Z — agreement between the zone-interval cache GENERATED from `_caching_zone_interval_map.py`
  (`PyodaGen/C13Z.lean`: `_HashCacheNode._create_node`, `__HashArrayCache.get_zone_interval`) and the zone cache model
  of C13 (`PyodaModel/Cache/ZoneHashCache.lean`: `createNode`, `walk`, `step`), about which `zoneCache_transparent` is
  proved.  The node chain (`__previous` links) is the model's (latest interval, list of earlier ones); the 512-slot list
  `__instant_cache` a function from slot numbers; the wrapped map an abstract callee (`cfg.get`).
  Hypotheses: `cfg.minDays` is `Instant._MIN_DAYS`, and the period lies below `Instant._MAX_DAYS` (`PeriodOK`): for a later
  period `Instant._from_untrusted_duration` raises `OverflowError`, which the model does not describe (only the
  end-of-time sentinel instant lies there).
-/
import PyodaGen.C13Z
import PyodaModel.Cache.ZoneHashCache
import PyodaProofs.Basic

namespace Pyoda.GenAgree.C13Z
open Pyoda Pyoda.Cache.ZoneHashCache Pyoda.Gen.ZCache

theorem ok_bind {α β} (a : α) (f : α → R β) : ((.ok a : R α) >>= f) = f a := rfl

theorem gen_Node_interval_eq (n : Node) : Gen.C13Z.Node.interval n = n.cur := rfl
theorem gen_Node_period_eq (n : Node) : Gen.C13Z.Node.period n = n.period := rfl

/-- the period starts inside the range of `Instant` -/
def PeriodOK (p : Int) : Prop := p * 32 ≤ 2932896

/-- the loop of `_create_node` is the model's `extend` -/
theorem gen_Node_createNode_loop1_eq (cfg : Cfg) (nd p : Int) : ∀ (f : Nat) (iv : Interval) (prev : List Interval),
    Gen.C13Z.Node.createNode.loop1 cfg.get cfg.fuel nd p () f iv ⟨p, iv, prev⟩ =
      (match extend cfg nd f iv prev with
       | some (c, pr) => .ok (c, ⟨p, c, pr⟩)
       | none => .error .decimalDomain) := by
  intro f
  induction f with
  | zero => intro iv prev; rfl
  | succ f ih =>
    intro iv prev
    unfold Gen.C13Z.Node.createNode.loop1 extend
    by_cases h : iv.stop / NPD < nd
    · have h' : daysOf iv.stop < nd := h
      rw [if_pos h', if_pos h]
      exact ih (cfg.get iv.stop) (iv :: prev)
    · have h' : ¬ daysOf iv.stop < nd := h
      rw [if_neg h', if_neg h]

theorem gen_Node_createNode_eq (cfg : Cfg) (hmin : cfg.minDays = -4371222) (p : Int) (hp : PeriodOK p) :
    Gen.C13Z.Node.createNode cfg.get cfg.fuel p () =
      (match createNode cfg p with | some n => .ok n | none => .error .decimalDomain) := by
  unfold Gen.C13Z.Node.createNode createNode periodStart
  have e5 : p * 2 ^ 5 = p * 32 := by rw [show (2 : Int) ^ 5 = 32 from by decide]
  have e6 : (1 : Int) * 2 ^ 5 = 32 := by decide
  dsimp only
  rw [e5, e6, hmin]
  have hr : instantOfDuration (durNanos (max (p * 32) (-4371222)) 0) = .ok ((max (p * 32) (-4371222)) * NPD) := by
    unfold instantOfDuration durNanos PeriodOK at *
    rw [if_neg (by omega)]
    simp
  rw [hr]
  simp only [ok_bind, nodeFirst]
  rw [gen_Node_createNode_loop1_eq]
  cases extend cfg (p * 32 + 32) cfg.fuel (cfg.get (max (p * 32) (-4371222) * NPD)) [] with
  | none => rfl
  | some r => obtain ⟨c, pr⟩ := r; rfl

/-- the node `get_zone_interval` ends its walk on -/
def walkL (t p : Int) : Interval → List Interval → Node
  | cur, [] => ⟨p, cur, []⟩
  | cur, q :: rest => if cur.start > t then walkL t p q rest else ⟨p, cur, q :: rest⟩

theorem walkL_cur (t p : Int) : ∀ (prev : List Interval) (cur : Interval), (walkL t p cur prev).cur = walk t cur prev := by
  intro prev
  induction prev with
  | nil => intro cur; rfl
  | cons q r ih =>
    intro cur
    simp only [walkL, walk]
    by_cases hc : cur.start > t
    · rw [if_pos hc, if_pos hc]; exact ih q
    · rw [if_neg hc, if_neg hc]

theorem gen_Cache_getZoneInterval_loop1_eq (get : Int → Interval) (fuel : Nat) (t p : Int) (c : CacheSt) : ∀ (f : Nat) (cur : Interval) (prev : List Interval),
    prev.length < f → Gen.C13Z.Cache.getZoneInterval.loop1 get fuel () t f ⟨p, cur, prev⟩ c = .ok (walkL t p cur prev, c) := by
  intro f
  induction f with
  | zero => intro _ _ h; omega
  | succ f ih =>
    intro cur prev h
    unfold Gen.C13Z.Cache.getZoneInterval.loop1
    cases prev with
    | nil => rfl
    | cons q r =>
      simp only [nodePrevious, walkL]
      by_cases hc : cur.start > t
      · have hc' : instGt (Gen.C13Z.Node.interval ⟨p, cur, q :: r⟩).start t = true := by
          show instGt cur.start t = true
          unfold instGt; simpa using hc
        rw [if_pos hc', if_pos hc]
        exact ih q r (by simp only [List.length_cons] at h; omega)
      · have hc' : ¬ instGt (Gen.C13Z.Node.interval ⟨p, cur, q :: r⟩).start t = true := by
          show ¬ instGt cur.start t = true
          unfold instGt; simpa using hc
        rw [if_neg hc', if_neg hc]

theorem gen_Cache_getZoneInterval_loop2_eq (get : Int → Interval) (fuel : Nat) (t p : Int) (c : CacheSt) : ∀ (f : Nat) (cur : Interval) (prev : List Interval),
    prev.length < f → Gen.C13Z.Cache.getZoneInterval.loop2 get fuel () t f ⟨p, cur, prev⟩ c = .ok (walkL t p cur prev, c) := by
  intro f
  induction f with
  | zero => intro _ _ h; omega
  | succ f ih =>
    intro cur prev h
    unfold Gen.C13Z.Cache.getZoneInterval.loop2
    cases prev with
    | nil => rfl
    | cons q r =>
      simp only [nodePrevious, walkL]
      by_cases hc : cur.start > t
      · have hc' : instGt (Gen.C13Z.Node.interval ⟨p, cur, q :: r⟩).start t = true := by
          show instGt cur.start t = true
          unfold instGt; simpa using hc
        rw [if_pos hc', if_pos hc]
        exact ih q r (by simp only [List.length_cons] at h; omega)
      · have hc' : ¬ instGt (Gen.C13Z.Node.interval ⟨p, cur, q :: r⟩).start t = true := by
          show ¬ instGt cur.start t = true
          unfold instGt; simpa using hc
        rw [if_neg hc', if_neg hc]

theorem gen_Cache_getZoneInterval_loop3_eq (get : Int → Interval) (fuel : Nat) (t p : Int) (c : CacheSt) : ∀ (f : Nat) (cur : Interval) (prev : List Interval),
    prev.length < f → Gen.C13Z.Cache.getZoneInterval.loop3 get fuel () t f ⟨p, cur, prev⟩ c = .ok (walkL t p cur prev, c) := by
  intro f
  induction f with
  | zero => intro _ _ h; omega
  | succ f ih =>
    intro cur prev h
    unfold Gen.C13Z.Cache.getZoneInterval.loop3
    cases prev with
    | nil => rfl
    | cons q r =>
      simp only [nodePrevious, walkL]
      by_cases hc : cur.start > t
      · have hc' : instGt (Gen.C13Z.Node.interval ⟨p, cur, q :: r⟩).start t = true := by
          show instGt cur.start t = true
          unfold instGt; simpa using hc
        rw [if_pos hc', if_pos hc]
        exact ih q r (by simp only [List.length_cons] at h; omega)
      · have hc' : ¬ instGt (Gen.C13Z.Node.interval ⟨p, cur, q :: r⟩).start t = true := by
          show ¬ instGt cur.start t = true
          unfold instGt; simpa using hc
        rw [if_neg hc', if_neg hc]

/-- `get_zone_interval(instant)` is one `step` of the zone cache model -/
theorem gen_Cache_getZoneInterval_eq (cfg : Cfg) (hmin : cfg.minDays = -4371222) (s : State) (t : Int) (hp : PeriodOK (periodOf t)) :
    Gen.C13Z.Cache.getZoneInterval cfg.get cfg.fuel () ⟨s⟩ t =
      (match step cfg s t with
       | some (s', o) => .ok (o.iv, ⟨s'⟩)
       | none => .error .decimalDomain) := by
  unfold Gen.C13Z.Cache.getZoneInterval step
  have ep : (daysOf t >>> 5) = periodOf t := by
    unfold daysOf periodOf
    rw [Int.shiftRight_eq_div_pow]; rfl
  have ei : slotGet s (Int.fmod (periodOf t) 512) = s (slotOf (periodOf t)) := by
    unfold slotGet slotOf
    rw [fmod_pos _ _ (by decide)]
  simp only [ep, ei]
  have hcreate := gen_Node_createNode_eq cfg hmin (periodOf t) hp
  have hset : ∀ n : Node, slotSet s (Int.fmod (periodOf t) 512) n = update s (slotOf (periodOf t)) (some n) := by
    intro n; unfold slotSet slotOf; rw [fmod_pos _ _ (by decide)]
  cases hs : s (slotOf (periodOf t)) with
  | none =>
    simp only [hcreate]
    cases hc : createNode cfg (periodOf t) with
    | none => rfl
    | some n =>
      obtain ⟨p, cur, prev⟩ := n
      simp only [ok_bind, hset, chainFuel]
      rw [gen_Cache_getZoneInterval_loop3_eq cfg.get cfg.fuel t p _ (prev.length + 1) cur prev (Nat.lt_succ_self _)]
      simp only [ok_bind, Gen.C13Z.Node.interval, walkL_cur]
  | some node =>
    obtain ⟨p, cur, prev⟩ := node
    dsimp only
    by_cases hpe : p = periodOf t
    · have hne : ¬ (Gen.C13Z.Node.period ⟨p, cur, prev⟩ ≠ periodOf t) := by
        show ¬ (p ≠ periodOf t); simpa using hpe
      have hm : (⟨p, cur, prev⟩ : Node).period = periodOf t := hpe
      rw [if_neg hne, if_pos hm]
      simp only [chainFuel]
      rw [gen_Cache_getZoneInterval_loop2_eq cfg.get cfg.fuel t p _ (prev.length + 1) cur prev (Nat.lt_succ_self _)]
      simp only [ok_bind, Gen.C13Z.Node.interval, walkL_cur]
    · have hne : Gen.C13Z.Node.period ⟨p, cur, prev⟩ ≠ periodOf t := hpe
      have hm : ¬ (⟨p, cur, prev⟩ : Node).period = periodOf t := hpe
      rw [if_pos hne, if_neg hm]
      simp only [hcreate]
      cases hc : createNode cfg (periodOf t) with
      | none => rfl
      | some n =>
        obtain ⟨p2, cur2, prev2⟩ := n
        simp only [ok_bind, hset, chainFuel]
        rw [gen_Cache_getZoneInterval_loop1_eq cfg.get cfg.fuel t p2 _ (prev2.length + 1) cur2 prev2 (Nat.lt_succ_self _)]
        simp only [ok_bind, Gen.C13Z.Node.interval, walkL_cur]

example : PeriodOK (periodOf 1700000000000000000) := by unfold PeriodOK periodOf; decide

/-! ## No lock here: what the GIL is trusted for (builder B10)

`__HashArrayCache` has no lock.  `zoneCache_interleaved` (`PyodaProofs/C13Conc.lean`) interleaves threads at the granularity
"one slot read, one slot write" (the node chain is built locally and installed by ONE list store); that single list item
loads and stores are atomic is CPython's GIL, part of the trusted base — there is no `Atomic` theorem for this class.  The
lock discipline record regenerated from the source says exactly which operations on shared state that assumption covers; the
theorem below pins it, so a second store, an in-place mutation of the list, or a new mutable attribute breaks the tie. -/

theorem gen_Cache_getZoneInterval_gil_ops :
    Gen.C13Z.Cache.getZoneInterval.lockInfo.gilOnly = true ∧
    Gen.C13Z.Cache.getZoneInterval.lockInfo.shared = ["__instant_cache"] ∧
    Gen.C13Z.Cache.getZoneInterval.lockInfo.gilOps = ["load __instant_cache[·]", "store __instant_cache[·]"] := by decide

/-- the nodes are frozen after construction: their accessors touch no mutable state -/
theorem gen_Node_accessors_frozen :
    Gen.C13Z.Node.interval.lockInfo.shared = [] ∧ Gen.C13Z.Node.period.lockInfo.shared = [] := by decide

end Pyoda.GenAgree.C13Z
