/-
  Property C02 — calendar dates denote the physical day their published definitions prescribe.

  Model of the code (`PyodaModel/Calendar/Systems.lean`) = independently written reference formulas
  (`PyodaModel/Calendar/Reference.lean`: Reingold–Dershowitz fixed-day formulas, CPython `_pydatetime`).
  Here the epoch constants are not parameters: they are the published ones.
-/
import PyodaModel.Calendar
import PyodaProofs.Basic
import PyodaProofs.C01Lemmas
import PyodaProofs.C01Instances
import PyodaProofs.C01
import PyodaProofs.C01Islamic
import PyodaProofs.C01WfCheck
import PyodaProofs.C01PersianSimple
import PyodaProofs.C01PersianArithmetic

namespace Pyoda.C02
open Pyoda Pyoda.Calendar Pyoda.Calendar.Reference Pyoda.C01

/-! ## leap-year rules -/

theorem gregorian_leap_matches (y : Int) : Greg.isLeap y = gregorianLeap y := by
  rw [Bool.eq_iff_iff]
  simp only [Greg.isLeap, gregorianLeap, Bool.and_eq_true, Bool.or_eq_true, Bool.not_eq_true', beq_iff_eq,
    bne_iff_ne, Bool.or_eq_false_iff, beq_eq_false_iff_ne, ne_eq]
  omega

theorem gregorian_leap_matches_python (y : Int) : Greg.isLeap y = pyIsLeap y := rfl

theorem julian_leap_matches (y : Int) : Jul.isLeap y = julianLeap y := rfl
theorem coptic_leap_matches (y : Int) : Copt.isLeap y = copticLeap y := rfl

/-! ## month tables -/

theorem gj_totalDays_ref : ∀ m : Nat, m < 13 → 1 ≤ m →
    (GJ.totalDays true m = (367 * (m : Int) - 362) / 12 + (if (m : Int) ≤ 2 then 0 else -1) ∧
     GJ.totalDays false m = (367 * (m : Int) - 362) / 12 + (if (m : Int) ≤ 2 then 0 else -2) ∧
     GJ.dim true m = gjMonthLength true m ∧ GJ.dim false m = gjMonthLength false m ∧
     GJ.totalDays true m = pyDaysBeforeMonth 2024 m ∧ GJ.totalDays false m = pyDaysBeforeMonth 2023 m) := by
  decide +kernel

theorem gj_month_offset (leap : Bool) (m : Int) (h1 : 1 ≤ m) (h2 : m ≤ 12) :
    GJ.totalDays leap m = (367 * m - 362) / 12 + (if m ≤ 2 then 0 else if leap then -1 else -2) := by
  obtain ⟨n, rfl⟩ := natOf (x := m) (by omega)
  have := gj_totalDays_ref n (by omega) (by omega)
  cases leap
  · rw [this.2.1]; simp
  · rw [this.1]; simp

theorem gj_monthLength_matches (leap : Bool) (m : Int) (h1 : 1 ≤ m) (h2 : m ≤ 12) :
    GJ.dim leap m = gjMonthLength leap m := by
  obtain ⟨n, rfl⟩ := natOf (x := m) (by omega)
  have := gj_totalDays_ref n (by omega) (by omega)
  cases leap
  · exact this.2.2.2.1
  · exact this.2.2.1

/-! ## Gregorian / ISO -/

/-- every date the ISO/Gregorian calendar accepts denotes the day `fixed-from-gregorian` prescribes -/
theorem gregorian_matches_reference (y m d : Int) (hv : validate Greg.cal y m d = .ok ()) :
    daysOfYmd Greg.cal y m d = .ok (fixedFromGregorian y m d - 719163) := by
  obtain ⟨hy, hy2, hm, hm2, _, _⟩ := validate_inv hv
  unfold daysOfYmd
  rw [hv]
  show daysOfYmdRaw Greg.cal y m d = _
  rw [daysOfYmdRaw_eq greg_wf hy hy2]
  show Except.ok (Greg.start y + GJ.totalDays (Greg.isLeap y) m + d - 1) = _
  have hm2' : m ≤ 12 := hm2
  rw [greg_start_closed, gj_month_offset _ m hm hm2', gregorian_leap_matches]
  unfold fixedFromGregorian
  congr 1; omega

theorem gregorian_monthLength_matches (y m : Int) (h1 : 1 ≤ m) (h2 : m ≤ 12) :
    Greg.cal.dim y m = gjMonthLength (gregorianLeap y) m := by
  show GJ.dim (Greg.isLeap y) m = _
  rw [gregorian_leap_matches]; exact gj_monthLength_matches _ m h1 h2

/-- `pyDaysBeforeMonth` only looks at the leap flag of the year -/
theorem pyDaysBeforeMonth_leap (y m : Int) :
    pyDaysBeforeMonth y m = pyDaysBeforeMonth (if pyIsLeap y then 2024 else 2023) m := by
  unfold pyDaysBeforeMonth
  cases h : pyIsLeap y
  · have : pyIsLeap 2023 = false := by decide
    simp [this]
  · have : pyIsLeap 2024 = true := by decide
    simp [this]

/-- ISO dates agree with CPython's proleptic Gregorian ordinal (`date(y, m, d).toordinal()`), day for day -/
theorem iso_matches_pydatetime (y m d : Int) (hv : validate Greg.cal y m d = .ok ()) :
    daysOfYmd Greg.cal y m d = .ok (pyYmd2ord y m d - 719163) := by
  obtain ⟨hy, hy2, hm, hm2, _, _⟩ := validate_inv hv
  unfold daysOfYmd
  rw [hv]
  show daysOfYmdRaw Greg.cal y m d = _
  rw [daysOfYmdRaw_eq greg_wf hy hy2]
  show Except.ok (Greg.start y + GJ.totalDays (Greg.isLeap y) m + d - 1) = _
  have hm2' : m ≤ 12 := hm2
  obtain ⟨n, rfl⟩ := natOf (x := m) (by omega)
  have tb := gj_totalDays_ref n (by omega) (by omega)
  unfold pyYmd2ord pyDaysBeforeYear
  rw [greg_start_closed, pyDaysBeforeMonth_leap, ← gregorian_leap_matches_python]
  cases hl : Greg.isLeap y
  · simp only [Bool.false_eq_true, if_false]; rw [tb.2.2.2.2.2]; congr 1; omega
  · simp only [if_true]; rw [tb.2.2.2.2.1]; congr 1; omega

/-- ISO day-of-week from the day number: Thursday (4) on day 0, and equal to CPython's `isoweekday` of the ordinal -/
theorem dayOfWeek_matches (d : Int) :
    dayOfWeek d = Int.fmod (d + 3) 7 + 1 ∧ dayOfWeek d = pyIsoWeekday (d + 719163) := by
  unfold dayOfWeek pyIsoWeekday
  simp (disch := decide) only [csharpMod_pos, fmod_pos]
  constructor
  · split <;> split <;> omega
  · split <;> split <;> split <;> omega

/-! ## Julian -/

theorem julian_matches_reference (y m d : Int) (hv : validate Jul.cal y m d = .ok ()) :
    daysOfYmd Jul.cal y m d = .ok (fixedFromJulian y m d - 719163) := by
  obtain ⟨hy, hy2, hm, hm2, _, _⟩ := validate_inv hv
  unfold daysOfYmd
  rw [hv]
  show daysOfYmdRaw Jul.cal y m d = _
  rw [daysOfYmdRaw_eq jul_wf hy hy2]
  show Except.ok (Jul.start y + GJ.totalDays (Jul.isLeap y) m + d - 1) = _
  have hm2' : m ≤ 12 := hm2
  rw [jul_start_closed, gj_month_offset _ m hm hm2', julian_leap_matches]
  unfold fixedFromJulian julianEpoch
  congr 1; omega

theorem julian_monthLength_matches (y m : Int) (h1 : 1 ≤ m) (h2 : m ≤ 12) :
    Jul.cal.dim y m = gjMonthLength (julianLeap y) m :=
  gj_monthLength_matches _ m h1 h2

/-! ## Coptic -/

theorem coptic_matches_reference (y m d : Int) (hv : validate Copt.cal y m d = .ok ()) :
    daysOfYmd Copt.cal y m d = .ok (fixedFromCoptic y m d - 719163) := by
  obtain ⟨hy, hy2, _, _, _, _⟩ := validate_inv hv
  unfold daysOfYmd
  rw [hv]
  show daysOfYmdRaw Copt.cal y m d = _
  rw [daysOfYmdRaw_eq copt_wf hy hy2]
  show Except.ok (Copt.start y + (m - 1) * 30 + d - 1) = _
  rw [copt_start_closed]
  unfold fixedFromCoptic copticEpoch
  congr 1; omega

theorem coptic_monthLength_matches (y m : Int) (h1 : 1 ≤ m) (h2 : m ≤ 13) :
    Copt.cal.dim y m = copticMonthLength y m := by
  show (if m ≠ 13 then 30 else if Copt.isLeap y then 6 else 5) = (if m ≤ 12 then 30 else if copticLeap y then 6 else 5)
  by_cases hm : m ≠ 13
  · rw [if_pos hm, if_pos (by omega)]
  · have h13 : m = 13 := by omega
    subst h13
    rw [if_neg hm, if_neg (show ¬((13 : Int) ≤ 12) by decide)]; rfl

/-! ## tabular Islamic (four leap-year patterns × two epochs) -/

/-- the code's bit pattern `bits` encodes the published residue set of pattern `p`, and its running totals are the
    published leap-year counts -/
def IslPattern (bits p : Nat) : Prop :=
  ∀ n : Nat, n < 30 →
    (islT bits n = 354 * (n : Int) + (((islamicLeapResidues p).filter (fun r => decide (r ≤ (n : Int)))).length : Int) ∧
     (islL bits n = 355 ↔ (islamicLeapResidues p).contains ((n : Int) + 1) = true))

theorem islPattern_base15 : IslPattern Isl.bitsBase15 1 := by unfold IslPattern; decide +kernel
theorem islPattern_base16 : IslPattern Isl.bitsBase16 2 := by unfold IslPattern; decide +kernel
theorem islPattern_indian : IslPattern Isl.bitsIndian 3 := by unfold IslPattern; decide +kernel
theorem islPattern_habash : IslPattern Isl.bitsHabash 4 := by unfold IslPattern; decide +kernel

theorem islamic_yearStart_matches (bits p : Nat) (hp : IslPattern bits p) (epoch y : Int) (hy : 1 ≤ y) :
    Isl.start bits epoch y = epoch + 354 * (y - 1) + islamicLeapsBefore p y := by
  rw [isl_start_pos bits epoch y hy]
  unfold islamicLeapsBefore
  have h := (hp ((y - 1) % 30).toNat (by omega)).1
  have e : (((y - 1) % 30).toNat : Int) = (y - 1) % 30 := by omega
  rw [e] at h
  rw [h]; omega

theorem islamic_leap_matches (bits p : Nat) (hp : IslPattern bits p) (y : Int) (hy : 1 ≤ y) :
    Isl.isLeap bits y = islamicLeap p y := by
  have h := (hp ((y - 1) % 30).toNat (by omega)).2
  have e : (((y - 1) % 30).toNat : Int) = (y - 1) % 30 := by omega
  rw [e] at h
  have hl := isl_len_eq bits ((y - 1) / 30) ((y - 1) % 30) (by omega) (by omega)
  have e2 : (y - 1) / 30 * 30 + 1 + (y - 1) % 30 = y := by omega
  rw [e2] at hl
  unfold islamicLeap cycleYear30
  unfold Isl.len at hl
  cases ha : Isl.isLeap bits y
  · rw [ha] at hl; simp only [Bool.false_eq_true, if_false] at hl
    cases hb : (islamicLeapResidues p).contains ((y - 1) % 30 + 1)
    · rfl
    · have := h.2 hb; omega
  · rw [ha] at hl; simp only [if_true] at hl
    exact (h.1 hl.symm).symm

/-- every date a tabular Islamic calendar accepts denotes the day the published arithmetic prescribes
    (`epoch` = published epoch as a day number: R.D. 227015 / 227014 minus 719163) -/
theorem islamic_matches_reference (bits p : Nat) (hp : IslPattern bits p) (hT : islT bits 30 = 10631) (civil : Bool)
    (y m d : Int)
    (hv : validate (Isl.cal bits (islamicEpoch civil - 719163)) y m d = .ok ()) :
    daysOfYmd (Isl.cal bits (islamicEpoch civil - 719163)) y m d = .ok (fixedFromIslamic p civil y m d - 719163) := by
  have hwf : WF (Isl.cal bits (islamicEpoch civil - 719163)) :=
    isl_wf bits _ hT (by cases civil <;> decide)
  obtain ⟨hy, hy2, hm, hm2, _, _⟩ := validate_inv hv
  unfold daysOfYmd
  rw [hv]
  show daysOfYmdRaw _ y m d = _
  rw [daysOfYmdRaw_eq hwf hy hy2]
  show Except.ok (Isl.start bits (islamicEpoch civil - 719163) y + Isl.toMonth m + d - 1) = _
  have hy' : 1 ≤ y := hy
  have hm2' : m ≤ 12 := hm2
  obtain ⟨n, rfl⟩ := natOf (x := m) (by omega)
  rw [islamic_yearStart_matches bits p hp _ y hy', (isl_toMonth_tbl n (by omega) (by omega)).1]
  unfold fixedFromIslamic
  congr 1; omega

theorem islamic_epochs : Isl.civilEpoch = islamicEpoch true - 719163 ∧
    Isl.astronomicalEpoch = islamicEpoch false - 719163 := by decide

theorem islamic_monthLength_matches (bits p : Nat) (hp : IslPattern bits p) (y m : Int) (hy : 1 ≤ y)
    (h1 : 1 ≤ m) (h2 : m ≤ 12) : Isl.dim bits y m = islamicMonthLength p y m := by
  rw [isl_dim_cases bits y m h1 h2, islamic_leap_matches bits p hp y hy]
  unfold islamicMonthLength
  by_cases ho : m % 2 = 1
  · rw [if_pos ho]
    by_cases h12 : m = 12 ∧ islamicLeap p y = true
    · rw [if_pos h12]
    · rw [if_neg h12, if_neg (by omega)]
  · rw [if_neg ho]
    by_cases h12 : m = 12 ∧ islamicLeap p y = true
    · rw [if_pos h12, if_pos h12]
    · rw [if_neg h12, if_neg h12, if_pos (by omega)]

/-! ## evaluated agreement (Hebrew civil/scriptural, Persian simple, Persian arithmetic from 475)

  `refAgree n` (PyodaModel/Calendar/RefAgree.lean) compares model and reference year by year and month by month; the
  check evaluates it on the compiled driver.  `refAgree_sound` states what that evaluation implies. -/

/-- reference day numbers are affine in the day of the month -/
def RefLinear (r : Ref) : Prop := ∀ y m d, r.fixed y m d = r.fixed y m 1 + (d - 1)

theorem refLinear_hebrew (y m d : Int) : fixedFromHebrew y m d = fixedFromHebrew y m 1 + (d - 1) := by
  unfold fixedFromHebrew; omega

theorem refLinear_persianSimple (y m d : Int) :
    fixedFromPersianSimple y m d = fixedFromPersianSimple y m 1 + (d - 1) := by
  unfold fixedFromPersianSimple; omega

theorem refLinear_persianArithmetic (y m d : Int) :
    fixedFromPersianArithmetic y m d = fixedFromPersianArithmetic y m 1 + (d - 1) := by
  unfold fixedFromPersianArithmetic; simp only []; omega

theorem refAgreeWith_sound (c : Calc) (r : Ref) (hwf : WF c) (hl : RefLinear r) (h : refAgreeWith c r = true)
    (y m d : Int) (hv : validate c y m d = .ok ()) (hy : r.fromYear ≤ y) :
    daysOfYmd c y m d = .ok (r.days y m d) ∧ c.leap y = r.leap y ∧ c.months y = r.months y ∧
    c.dim y m = r.monthLength y m ∧ c.len y = r.yearLength y := by
  obtain ⟨hy1, hy2, hm1, hm2, _, _⟩ := validate_inv hv
  simp only [refAgreeWith, Bool.and_eq_true, decide_eq_true_eq] at h
  obtain ⟨hall, hlast⟩ := h
  have hfrom : ∀ z, y ≤ z → agreeFrom c r ≤ z := by
    intro z hz; unfold agreeFrom; split <;> omega
  have hyr := allInts_spec _ _ _ hall y (hfrom y (by omega)) hy2
  simp only [refAgreeYear, Bool.and_eq_true, decide_eq_true_eq, beq_iff_eq] at hyr
  obtain ⟨⟨⟨hstart, hleap⟩, hmonths⟩, hms⟩ := hyr
  have hmm := allInts_spec _ _ _ hms m hm1 hm2
  simp only [Bool.and_eq_true, decide_eq_true_eq] at hmm
  refine ⟨?_, hleap, hmonths, hmm.1, ?_⟩
  · unfold daysOfYmd
    rw [hv]
    show daysOfYmdRaw c y m d = _
    rw [daysOfYmdRaw_eq hwf hy1 hy2]
    have := hl y m d
    unfold Ref.days at hmm ⊢
    congr 1; omega
  · have hr := (hwf.recur y hy1 hy2).1
    have hnext : c.start (y + 1) = r.yearStart (y + 1) := by
      by_cases hlt : y < c.maxYear
      · have := allInts_spec _ _ _ hall (y + 1) (hfrom (y + 1) (by omega)) (by omega)
        simp only [refAgreeYear, Bool.and_eq_true, decide_eq_true_eq] at this
        exact this.1.1.1
      · have e : y = c.maxYear := by omega
        rw [e]; exact hlast
    unfold Ref.yearLength; omega

/-- what one evaluation of `refAgree n` implies, given well-formedness of the calendar -/
theorem refAgree_sound (n : Nat) (c : Calc) (r : Ref) (hc : calcOf n = some c) (hr : refOf n = some r)
    (hwf : WF c) (hl : RefLinear r) (h : refAgree n = true)
    (y m d : Int) (hv : validate c y m d = .ok ()) (hy : r.fromYear ≤ y) :
    daysOfYmd c y m d = .ok (r.days y m d) ∧ c.leap y = r.leap y ∧ c.months y = r.months y ∧
    c.dim y m = r.monthLength y m ∧ c.len y = r.yearLength y := by
  unfold refAgree at h
  rw [hc, hr] at h
  exact refAgreeWith_sound c r hwf hl h y m d hv hy

/-- Persian simple (33-year rule, year 1 = 21 March 622 proleptic Gregorian): `WF` is proved symbolically, agreement
    with the reference is the evaluated hypothesis -/
theorem persianSimple_matches_reference (h : refAgree 6 = true) (y m d : Int)
    (hv : validate Pers.simple y m d = .ok ()) :
    daysOfYmd Pers.simple y m d = .ok (fixedFromPersianSimple y m d - 719163) ∧
    Pers.leapSimple y = persianSimpleLeap y := by
  have hr : refOf 6 = some persianSimpleRef := rfl
  have hy := (validate_inv hv).1
  have := refAgree_sound 6 Pers.simple _ rfl hr persianSimple_wf refLinear_persianSimple h y m d hv hy
  exact ⟨this.1, this.2.1⟩

/-- Persian arithmetic (Birashk's 2820-year cycle) from year 475, the anchor of the cycle -/
theorem persianArithmetic_matches_reference (h : refAgree 7 = true) (y m d : Int)
    (hv : validate Pers.arithmetic y m d = .ok ()) (hy : 475 ≤ y) :
    daysOfYmd Pers.arithmetic y m d = .ok (fixedFromPersianArithmetic y m d - 719163) ∧
    Pers.leapArithmetic y = persianArithmeticLeap y := by
  have hr : refOf 7 = some persianArithmeticRef := rfl
  have := refAgree_sound 7 Pers.arithmetic _ rfl hr persianArithmetic_wf refLinear_persianArithmetic h y m d hv hy
  exact ⟨this.1, this.2.1⟩

/-- Hebrew, scriptural month numbering: both hypotheses are evaluated (`cal.wf 5`, `ref.agree 5`) -/
theorem hebrewScriptural_matches_reference (hw : wfCheck (Heb.cal true) = true) (h : refAgree 5 = true) (y m d : Int)
    (hv : validate (Heb.cal true) y m d = .ok ()) :
    daysOfYmd (Heb.cal true) y m d = .ok (fixedFromHebrew y m d - 719163) ∧ Heb.isLeap y = hebrewLeap y ∧
    (Heb.cal true).dim y m = lastDayOfHebrewMonth y m := by
  have hr : refOf 5 = some hebrewScripturalRef := rfl
  have hy := (validate_inv hv).1
  have := refAgree_sound 5 (Heb.cal true) _ rfl hr (wfCheck_sound _ hw) refLinear_hebrew h y m d hv hy
  exact ⟨this.1, this.2.1, this.2.2.2.1⟩

/-- Hebrew, civil month numbering (months counted from Tishri) -/
theorem hebrewCivil_matches_reference (hw : wfCheck (Heb.cal false) = true) (h : refAgree 4 = true) (y m d : Int)
    (hv : validate (Heb.cal false) y m d = .ok ()) :
    daysOfYmd (Heb.cal false) y m d = .ok (fixedFromHebrew y (hebrewCivilToScriptural y m) d - 719163) ∧
    Heb.isLeap y = hebrewLeap y ∧
    (Heb.cal false).dim y m = lastDayOfHebrewMonth y (hebrewCivilToScriptural y m) := by
  have hr : refOf 4 = some hebrewCivilRef := rfl
  have hy := (validate_inv hv).1
  have hl : RefLinear hebrewCivilRef := fun y m d => refLinear_hebrew y _ d
  have := refAgree_sound 4 (Heb.cal false) _ rfl hr (wfCheck_sound _ hw) hl h y m d hv hy
  exact ⟨this.1, this.2.1, this.2.2.2.1⟩

/-! non-vacuity -/
example : daysOfYmd Greg.cal 2024 2 29 = .ok (fixedFromGregorian 2024 2 29 - 719163) ∧
    fixedFromGregorian 2024 2 29 = 738945 := by decide
example : pyYmd2ord 1970 1 1 = 719163 ∧ pyOrd2ymd 719163 = (1970, 1, 1) ∧ pyIsoWeekday 719163 = 4 := by decide
example : fixedFromJulian 2024 2 16 = 738945 ∧ fixedFromCoptic 1740 6 21 = 738945 := by decide

end Pyoda.C02
