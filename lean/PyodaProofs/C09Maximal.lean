/-
  C09 — single-unit maximality for the units not covered by `C09.lean`: Badi months (backward count out of Ayyam-i-Ha
  starts one key later) and Hebrew / Badi years.
-/
import PyodaModel.DateArith
import PyodaProofs.C09All

namespace Pyoda.C09
open Pyoda Pyoda.Calendar Pyoda.DateArith Pyoda.C01

variable {c : Calc}

/-- maximality for one start date, same setting as `coarse_law_at` plus: whatever the addition returns is a valid date
    at the expected key -/
theorem coarse_max_at (h : WF c) (f : Field) (K : Ymd → Int) (s : Ymd) (hs : Valid c s) (Kb : Int)
    (hKb : Kb = K s ∨ Kb = K s + 1)
    (hK : ∀ a b, Valid c a → Valid c b → K a < K b → dayNo c a < dayNo c b)
    (hzero : f.add s 0 = .ok s)
    (haddF : ∀ n b, 0 < n → Valid c b → K s + n ≤ K b → ∃ r, f.add s n = .ok r ∧ Valid c r ∧ K r = K s + n)
    (haddB : ∀ n a, n < 0 → Valid c a → K a ≤ Kb + n →
      ∃ r, f.add s n = .ok r ∧ Valid c r ∧ K r = Kb + n ∧ dayNo c r ≤ dayNo c s)
    (hbetweenF : ∀ e simple, Valid c e → dayNo c s ≤ dayNo c e → f.add s (K e - K s) = .ok simple →
      f.between s e = .ok (correctByOne c s e simple (K e - K s)))
    (hbetweenB : ∀ e simple, Valid c e → dayNo c e < dayNo c s → f.add s (K e - Kb) = .ok simple →
      f.between s e = .ok (correctByOne c s e simple (K e - Kb)))
    (hinvF : ∀ n r', 0 < n → f.add s n = .ok r' → Valid c r' ∧ K r' = K s + n)
    (hinvB : ∀ n r', n < 0 → f.add s n = .ok r' → Valid c r' ∧ K r' = Kb + n)
    (e : Ymd) (he : Valid c e) :
    ∃ n, f.between s e = .ok n ∧
      (dayNo c s ≤ dayNo c e → ∀ r', f.add s (n + 1) = .ok r' → dayNo c e < dayNo c r') ∧
      (dayNo c e < dayNo c s → ∀ r', f.add s (n - 1) = .ok r' → dayNo c r' < dayNo c e) := by
  have hK' : ∀ a b, Valid c a → Valid c b → dayNo c a ≤ dayNo c b → K a ≤ K b := by
    intro a b ha hb hle
    by_cases hlt : K b < K a
    · have := hK b a hb ha hlt; omega
    · omega
  have cs := cmp_sign h s e hs he
  by_cases hle : dayNo c s ≤ dayNo c e
  · -- forward
    have hk := hK' s e hs he hle
    have key : ∃ simple, f.add s (K e - K s) = .ok simple ∧ Valid c simple ∧ K simple = K e ∧ dayNo c s ≤ dayNo c simple := by
      by_cases h0 : K e - K s = 0
      · rw [h0]; exact ⟨s, hzero, hs, by omega, by omega⟩
      · obtain ⟨r, r1, r2, r3⟩ := haddF (K e - K s) e (by omega) he (by omega)
        exact ⟨r, r1, r2, by omega, by have := hK s r hs r2 (by omega); omega⟩
    obtain ⟨simple, a1, v1, k1, o1⟩ := key
    have hb := hbetweenF e simple he hle a1
    have cq := cmp_sign h simple e v1 he
    unfold correctByOne at hb
    rw [if_pos (by have := cs.1; have := cs.2.1; have := cs.2.2; omega)] at hb
    by_cases hq : cmpYmd c simple e ≤ 0
    · rw [if_pos hq] at hb
      have hqd : dayNo c simple ≤ dayNo c e := by have := cq.2.2; omega
      refine ⟨_, hb, fun _ r' hr' => ?_, fun hh => by omega⟩
      obtain ⟨vr, kr⟩ := hinvF (K e - K s + 1) r' (by omega) hr'
      exact hK e r' he vr (by omega)
    · rw [if_neg hq] at hb
      have hqd : dayNo c simple > dayNo c e := by have := cq.2.2; omega
      have hne : K e - K s ≠ 0 := by
        intro h0; rw [h0, hzero] at a1; cases a1; omega
      have key2 : ∃ r, f.add s (K e - K s - 1) = .ok r ∧ Valid c r ∧ dayNo c s ≤ dayNo c r ∧ dayNo c r < dayNo c e := by
        by_cases h1 : K e - K s - 1 = 0
        · rw [h1]; exact ⟨s, hzero, hs, by omega, hK s e hs he (by omega)⟩
        · obtain ⟨r, r1, r2, r3⟩ := haddF (K e - K s - 1) e (by omega) he (by omega)
          exact ⟨r, r1, r2, by have := hK s r hs r2 (by omega); omega, hK r e r2 he (by omega)⟩
      refine ⟨_, hb, fun _ r' hr' => ?_, fun hh => by omega⟩
      have e9 : K e - K s - 1 + 1 = K e - K s := by omega
      rw [e9, a1] at hr'; cases hr'; omega
  · -- backward
    have hlt : dayNo c e < dayNo c s := by omega
    have hk := hK' e s he hs (by omega)
    have key : ∃ simple, f.add s (K e - Kb) = .ok simple ∧ Valid c simple ∧ K simple = K e ∧ dayNo c simple ≤ dayNo c s := by
      by_cases h0 : K e - Kb = 0
      · rw [h0]; exact ⟨s, hzero, hs, by omega, by omega⟩
      · obtain ⟨r, r1, r2, r3, r4⟩ := haddB (K e - Kb) e (by omega) he (by omega)
        exact ⟨r, r1, r2, by omega, r4⟩
    obtain ⟨simple, a1, v1, k1, o1⟩ := key
    have hb := hbetweenB e simple he hlt a1
    have cq := cmp_sign h simple e v1 he
    unfold correctByOne at hb
    rw [if_neg (by have := cs.2.2; omega)] at hb
    by_cases hq : cmpYmd c simple e ≥ 0
    · rw [if_pos hq] at hb
      have hqd : dayNo c e ≤ dayNo c simple := by have := cq.1; omega
      refine ⟨_, hb, fun hh => by omega, fun _ r' hr' => ?_⟩
      obtain ⟨vr, kr⟩ := hinvB (K e - Kb - 1) r' (by omega) hr'
      exact hK r' e vr he (by omega)
    · rw [if_neg hq] at hb
      have hqd : dayNo c simple < dayNo c e := by have := cq.1; omega
      have hne : K e - Kb ≠ 0 := by
        intro h0; rw [h0, hzero] at a1; cases a1; omega
      have key2 : ∃ r, f.add s (K e - Kb + 1) = .ok r ∧ Valid c r ∧ dayNo c e < dayNo c r ∧ dayNo c r ≤ dayNo c s := by
        by_cases h1 : K e - Kb + 1 = 0
        · rw [h1]; exact ⟨s, hzero, hs, by omega, by omega⟩
        · obtain ⟨r, r1, r2, r3, r4⟩ := haddB (K e - Kb + 1) e (by omega) he (by omega)
          exact ⟨r, r1, r2, hK e r he r2 (by omega), r4⟩
      refine ⟨_, hb, fun hh => by omega, fun _ r' hr' => ?_⟩
      have e9 : K e - Kb + 1 - 1 = K e - Kb := by omega
      rw [e9, a1] at hr'; cases hr'; omega


/-- years are maximal in the Hebrew calendars -/
theorem yearsBetween_maximal_hebrew (scr : Bool) (hw : WF (Heb.cal scr)) (s e : Ymd) (hs : Valid (Heb.cal scr) s)
    (he : Valid (Heb.cal scr) e) :
    ∃ n r, yearsBetween (hebCal scr) s e = .ok n ∧ addYears (hebCal scr) s n = .ok r ∧
      (dayNo (Heb.cal scr) s ≤ dayNo (Heb.cal scr) e → dayNo (Heb.cal scr) r ≤ dayNo (Heb.cal scr) e ∧
        ∀ r', addYears (hebCal scr) s (n + 1) = .ok r' → dayNo (Heb.cal scr) e < dayNo (Heb.cal scr) r') ∧
      (dayNo (Heb.cal scr) e ≤ dayNo (Heb.cal scr) s → dayNo (Heb.cal scr) e ≤ dayNo (Heb.cal scr) r ∧
        ∀ r', addYears (hebCal scr) s (n - 1) = .ok r' → dayNo (Heb.cal scr) r' < dayNo (Heb.cal scr) e) :=
  unitsBetween_maximal_coarse (Heb.cal scr) hw (yearsField (hebCal scr)) _
    (yearsField_unit_of_setYear (hebCal scr) hw (fun s Y hs h1 h2 => heb_setYear_valid scr hw s Y hs h1 h2)) s e hs he

/-- years are maximal in the Badi calendar -/
theorem yearsBetween_maximal_badi (hw : WF Badi.cal) (s e : Ymd) (hs : Valid Badi.cal s) (he : Valid Badi.cal e) :
    ∃ n r, yearsBetween badiCal s e = .ok n ∧ addYears badiCal s n = .ok r ∧
      (dayNo Badi.cal s ≤ dayNo Badi.cal e → dayNo Badi.cal r ≤ dayNo Badi.cal e ∧
        ∀ r', addYears badiCal s (n + 1) = .ok r' → dayNo Badi.cal e < dayNo Badi.cal r') ∧
      (dayNo Badi.cal e ≤ dayNo Badi.cal s → dayNo Badi.cal e ≤ dayNo Badi.cal r ∧
        ∀ r', addYears badiCal s (n - 1) = .ok r' → dayNo Badi.cal r' < dayNo Badi.cal e) :=
  unitsBetween_maximal_coarse Badi.cal hw (yearsField badiCal) _
    (yearsField_unit_of_setYear badiCal hw (fun s Y hs h1 h2 => badi_setYear_valid hw s Y hs h1 h2)) s e hs he

/-- a successful Badi month addition is a valid date at the expected month index -/
theorem badi_addMonths_key (hw : WF Badi.cal) (s : Ymd) (hs : Valid Badi.cal s) (n : Int) (hn : n ≠ 0) (m0 : Int)
    (hm0 : m0 = if BadiArith.inAyyamiHa s = true ∧ n < 0 then s.2.1 + 1 else s.2.1) (r' : Ymd)
    (hr : BadiArith.addMonths Badi.cal s n = .ok r') :
    Valid Badi.cal r' ∧ r'.1 * 19 + r'.2.1 - 1 = s.1 * 19 + (m0 - 1) + n := by
  refine ⟨badi_addMonths_valid hw s hs n r' hr, ?_⟩
  obtain ⟨y, m, d⟩ := s
  obtain ⟨Y, Mo, e1, e2, e3, e4, e5⟩ := addMonths_badi_spec Badi.cal y m d n hn m0 hm0
  by_cases hY : Badi.cal.minYear ≤ Y ∧ Y ≤ Badi.cal.maxYear
  · rw [e4 hY] at hr; cases hr; dsimp only; omega
  · rw [e5 hY] at hr; cases hr

/-- months are maximal in the Badi calendar (with the repaired backward count out of Ayyam-i-Ha): one more month in the
    direction of travel lands strictly beyond the end -/
theorem monthsBetween_maximal_badi (hw : WF Badi.cal) (s e : Ymd) (hs : Valid Badi.cal s) (he : Valid Badi.cal e) :
    ∃ n, BadiArith.monthsBetween Badi.cal s e = .ok n ∧
      (dayNo Badi.cal s ≤ dayNo Badi.cal e → ∀ r', BadiArith.addMonths Badi.cal s (n + 1) = .ok r' → dayNo Badi.cal e < dayNo Badi.cal r') ∧
      (dayNo Badi.cal e < dayNo Badi.cal s → ∀ r', BadiArith.addMonths Badi.cal s (n - 1) = .ok r' → dayNo Badi.cal r' < dayNo Badi.cal e) := by
  show ∃ n, (monthsField badiCal).between s e = .ok n ∧
      (dayNo Badi.cal s ≤ dayNo Badi.cal e → ∀ r', (monthsField badiCal).add s (n + 1) = .ok r' → dayNo Badi.cal e < dayNo Badi.cal r') ∧
      (dayNo Badi.cal e < dayNo Badi.cal s → ∀ r', (monthsField badiCal).add s (n - 1) = .ok r' → dayNo Badi.cal r' < dayNo Badi.cal e)
  revert e
  intro e he
  have hK : ∀ a b, Valid Badi.cal a → Valid Badi.cal b → a.1 * 19 + a.2.1 - 1 < b.1 * 19 + b.2.1 - 1 →
      dayNo Badi.cal a < dayNo Badi.cal b := by
    intro a b ha hb hlt
    obtain ⟨_, _, m1, m2, _⟩ := badi_valid_inv a ha
    obtain ⟨_, _, n1, n2, _⟩ := badi_valid_inv b hb
    by_cases hy : a.1 < b.1
    · exact dayNo_lt_of_year_lt hw a b ha hb hy
    · have hyy : a.1 = b.1 := by omega
      exact dayNo_lt_of_month_lt hw rfl a b ha hb hyy (by omega)
  obtain ⟨sy1, sy2, sm1, sm2, sd1, sd2⟩ := badi_valid_inv s hs
  have hzero : BadiArith.addMonths Badi.cal s 0 = .ok s := by unfold BadiArith.addMonths; rw [if_pos rfl]
  refine coarse_max_at hw (monthsField badiCal) (fun p => p.1 * 19 + p.2.1 - 1) s hs
    (if BadiArith.inAyyamiHa s = true then s.1 * 19 + s.2.1 - 1 + 1 else s.1 * 19 + s.2.1 - 1)
    (by split <;> simp) hK hzero ?_ ?_ ?_ ?_ ?_ ?_ e he
  · -- forward additions
    intro n b hn hb hle
    obtain ⟨_, b2, _, b4, _⟩ := badi_valid_inv b hb
    have hm0 : s.2.1 = if BadiArith.inAyyamiHa s = true ∧ n < 0 then s.2.1 + 1 else s.2.1 := by
      rw [if_neg (by omega)]
    obtain ⟨r, r1, r2, r3, _⟩ := badi_addMonths_ok hw s hs n (by omega) s.2.1 hm0 (by omega)
    exact ⟨r, r1, r2, by omega⟩
  · -- backward additions
    intro n a hn ha hle
    obtain ⟨a1, _, a3, _, _⟩ := badi_valid_inv a ha
    by_cases hah : BadiArith.inAyyamiHa s = true
    · rw [if_pos hah] at hle ⊢
      have hm0 : s.2.1 + 1 = if BadiArith.inAyyamiHa s = true ∧ n < 0 then s.2.1 + 1 else s.2.1 := by
        rw [if_pos ⟨hah, hn⟩]
      obtain ⟨r, r1, r2, r3, r4⟩ := badi_addMonths_ok hw s hs n (by omega) (s.2.1 + 1) hm0 (by omega)
      refine ⟨r, r1, r2, by omega, ?_⟩
      by_cases hlt : r.1 * 19 + r.2.1 - 1 < s.1 * 19 + s.2.1 - 1
      · have := hK r s r2 hs hlt; omega
      · -- one month back out of Ayyam-i-Ha: same year and month, earlier day
        obtain ⟨_, _, q3, q4, _⟩ := badi_valid_inv r r2
        have e1 : r.1 = s.1 := by omega
        have e2 : r.2.1 = s.2.1 := by omega
        rw [if_pos hah] at r4
        unfold dayNo
        rw [e1, e2, r4]; omega
    · rw [if_neg hah] at hle ⊢
      have hm0 : s.2.1 = if BadiArith.inAyyamiHa s = true ∧ n < 0 then s.2.1 + 1 else s.2.1 := by
        rw [if_neg (fun hc => hah hc.1)]
      obtain ⟨r, r1, r2, r3, _⟩ := badi_addMonths_ok hw s hs n (by omega) s.2.1 hm0 (by omega)
      refine ⟨r, r1, r2, by omega, ?_⟩
      have := hK r s r2 hs (by omega); omega
  · -- `_months_between`, start not after end
    intro e' simple he' hle ha
    have ce := cmp_sign hw e' s he' hs
    show BadiArith.monthsBetween Badi.cal s e' = _
    unfold BadiArith.monthsBetween
    dsimp only
    rw [if_neg (fun hc => by have := ce.1; omega)]
    have e1 : (e'.1 - s.1) * 19 + e'.2.1 - s.2.1 = e'.1 * 19 + e'.2.1 - 1 - (s.1 * 19 + s.2.1 - 1) := by omega
    have ha' : BadiArith.addMonths Badi.cal s (e'.1 * 19 + e'.2.1 - 1 - (s.1 * 19 + s.2.1 - 1)) = .ok simple := ha
    rw [e1, ha']
  · -- `_months_between`, start after end
    intro e' simple he' hlt ha
    have ce := cmp_sign hw e' s he' hs
    show BadiArith.monthsBetween Badi.cal s e' = _
    unfold BadiArith.monthsBetween
    dsimp only
    by_cases hah : BadiArith.inAyyamiHa s = true
    · rw [if_pos hah] at ha ⊢
      rw [if_pos ⟨hah, by have := ce.1; omega⟩]
      have e1 : (e'.1 - s.1) * 19 + e'.2.1 - (s.2.1 + 1) = e'.1 * 19 + e'.2.1 - 1 - (s.1 * 19 + s.2.1 - 1 + 1) := by omega
      have ha' : BadiArith.addMonths Badi.cal s (e'.1 * 19 + e'.2.1 - 1 - (s.1 * 19 + s.2.1 - 1 + 1)) = .ok simple := ha
      rw [e1, ha']
    · rw [if_neg hah] at ha ⊢
      rw [if_neg (fun hc => hah hc.1)]
      have e1 : (e'.1 - s.1) * 19 + e'.2.1 - s.2.1 = e'.1 * 19 + e'.2.1 - 1 - (s.1 * 19 + s.2.1 - 1) := by omega
      have ha' : BadiArith.addMonths Badi.cal s (e'.1 * 19 + e'.2.1 - 1 - (s.1 * 19 + s.2.1 - 1)) = .ok simple := ha
      rw [e1, ha']
  · -- whatever a forward addition returns
    intro n r' hn hr'
    have hr'' : BadiArith.addMonths Badi.cal s n = .ok r' := hr'
    have hm0 : s.2.1 = if BadiArith.inAyyamiHa s = true ∧ n < 0 then s.2.1 + 1 else s.2.1 := by rw [if_neg (by omega)]
    obtain ⟨v, kk⟩ := badi_addMonths_key hw s hs n (by omega) s.2.1 hm0 r' hr''
    exact ⟨v, by omega⟩
  · -- whatever a backward addition returns
    intro n r' hn hr'
    have hr'' : BadiArith.addMonths Badi.cal s n = .ok r' := hr'
    by_cases hah : BadiArith.inAyyamiHa s = true
    · rw [if_pos hah]
      have hm0 : s.2.1 + 1 = if BadiArith.inAyyamiHa s = true ∧ n < 0 then s.2.1 + 1 else s.2.1 := by rw [if_pos ⟨hah, hn⟩]
      obtain ⟨v, kk⟩ := badi_addMonths_key hw s hs n (by omega) (s.2.1 + 1) hm0 r' hr''
      exact ⟨v, by omega⟩
    · rw [if_neg hah]
      have hm0 : s.2.1 = if BadiArith.inAyyamiHa s = true ∧ n < 0 then s.2.1 + 1 else s.2.1 := by
        rw [if_neg (fun hc => hah hc.1)]
      obtain ⟨v, kk⟩ := badi_addMonths_key hw s hs n (by omega) s.2.1 hm0 r' hr''
      exact ⟨v, by omega⟩

end Pyoda.C09
