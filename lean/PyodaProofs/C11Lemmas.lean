/-
  Helper lemmas and definitions for C11 (no property statements): value functions, well-formedness,
  `to_instant` / `_ctor(instant, offset, calendar)` / `with_offset` in closed arithmetic form.
-/
import PyodaModel.OffsetTypes
import PyodaProofs.Basic
import PyodaProofs.C03

namespace Pyoda.C11
open Pyoda Pyoda.C03

local macro "unfold_consts" : tactic =>
  `(tactic| simp only [NPD, NPH, NPMin, NPS, NPMs, NPUs, NPT, TPD, TPS, TPH, SPD,
      Duration.MIN_DAYS, Duration.MAX_DAYS, Instant.MIN_DAYS, Instant.MAX_DAYS,
      OffsetTime.NANO_BITS_POW, Offset.MIN_S, Offset.MAX_S] at *)

def instVal (i : Instant) : Int := i.dur.days * NPD + i.dur.nod
def localVal (x : OffsetDateTime) : Int := x.date.days * NPD + x.nanosecondOfDay
def instantVal (x : OffsetDateTime) : Int := localVal x - x.offsetSeconds * NPS
def OffOK (s : Int) : Prop := Offset.MIN_S ≤ s ∧ s ≤ Offset.MAX_S
def CalOK (c : Cal) : Prop := Duration.MIN_DAYS ≤ c.minDays ∧ c.maxDays ≤ Duration.MAX_DAYS

structure WF (x : OffsetDateTime) : Prop where
  nod : 0 ≤ x.nanosecondOfDay ∧ x.nanosecondOfDay < NPD
  off : OffOK x.offsetSeconds
  inCal : x.date.cal.minDays ≤ x.date.days ∧ x.date.days ≤ x.date.cal.maxDays
  calOK : CalOK x.date.cal

/-- a zone only ever answers offsets within ±18 h -/
def ZoneOK (z : Zone) : Prop := ∀ i o, z i = .ok o → OffOK o.seconds

theorem shr47 (x : Int) : x >>> 47 = x / 140737488355328 := by
  rw [Int.shiftRight_eq_div_pow]; rfl

theorem toInstant_ok (x : OffsetDateTime) (hx : WF x) (i : Instant) (h : x.toInstant = .ok i) :
    Norm i.dur ∧ IValid i ∧ instVal i = instantVal x := by
  obtain ⟨hn, ho, hd, hc⟩ := hx
  simp only [OffsetDateTime.toInstant, OffsetDateTime.toElapsed, Duration.ctor, Duration.minusSmallNanos,
    Instant.fromUntrusted, OffsetTime.offsetNanoseconds, bind, Except.bind, OffOK, CalOK, Norm, IValid, instVal, instantVal,
    localVal, OffsetDateTime.nanosecondOfDay, OffsetDateTime.offsetSeconds] at *
  unfold_consts
  grind

theorem toInstant_err (x : OffsetDateTime) (hx : WF x) (e : PyExc) (h : x.toInstant = .error e) :
    ¬ InstNsInRange (instantVal x) := by
  obtain ⟨hn, ho, hd, hc⟩ := hx
  simp only [OffsetDateTime.toInstant, OffsetDateTime.toElapsed, Duration.ctor, Duration.minusSmallNanos,
    Instant.fromUntrusted, OffsetTime.offsetNanoseconds, bind, Except.bind, OffOK, CalOK, InstNsInRange, instantVal,
    localVal, OffsetDateTime.nanosecondOfDay, OffsetDateTime.offsetSeconds] at *
  unfold_consts
  grind

theorem inst_eq_of_val (i j : Instant) (hi : Norm i.dur) (hj : Norm j.dur) (h : instVal i = instVal j) : i = j := by
  obtain ⟨⟨a, b⟩⟩ := i
  obtain ⟨⟨c, d⟩⟩ := j
  simp only [Norm, instVal] at *
  unfold_consts
  have : a = c := by omega
  subst this
  have : b = d := by omega
  subst this
  rfl

/-- `to_instant()` succeeds exactly with the normalised in-range instant whose value is local − offset. -/
theorem toInstant_eq_ok_iff (x : OffsetDateTime) (hx : WF x) (i : Instant) :
    x.toInstant = .ok i ↔ (Norm i.dur ∧ IValid i ∧ instVal i = instantVal x) := by
  constructor
  · exact toInstant_ok x hx i
  · rintro ⟨hn, hv, he⟩
    cases h : x.toInstant with
    | error e =>
      exfalso
      apply toInstant_err x hx e h
      simp only [InstNsInRange, ← he, instVal, Norm, IValid] at *
      unfold_consts; omega
    | ok j =>
      obtain ⟨hjn, _, hje⟩ := toInstant_ok x hx j h
      rw [inst_eq_of_val j i hjn hn (by rw [hje, he])]

theorem ofInstant_ok (i : Instant) (o : Offset) (c : Cal) (x : OffsetDateTime) (hi : Norm i.dur)
    (ho : OffOK o.seconds) (h : OffsetDateTime.ofInstant i o c = .ok x) :
    localVal x = instVal i + o.seconds * NPS ∧ (0 ≤ x.nanosecondOfDay ∧ x.nanosecondOfDay < NPD) ∧
      x.offsetSeconds = o.seconds ∧ x.calendar = c ∧ (c.minDays ≤ x.date.days ∧ x.date.days ≤ c.maxDays) := by
  simp only [OffsetDateTime.ofInstant, Date.ofDays, checkRange, Offset.nanoseconds, bind, Except.bind, OffOK, Norm,
    instVal, localVal, OffsetDateTime.nanosecondOfDay, OffsetDateTime.offsetSeconds, OffsetDateTime.calendar,
    OffsetTime.ofParts, OffsetTime.nanosecondOfDay, OffsetTime.offsetSeconds, shr47] at *
  unfold_consts
  grind

theorem wf_ofInstant (i : Instant) (o : Offset) (c : Cal) (x : OffsetDateTime) (hi : Norm i.dur)
    (ho : OffOK o.seconds) (hc : CalOK c) (h : OffsetDateTime.ofInstant i o c = .ok x) : WF x := by
  obtain ⟨_, h2, h3, h4, h5⟩ := ofInstant_ok i o c x hi ho h
  simp only [OffsetDateTime.calendar] at h4
  exact ⟨h2, by rw [h3]; exact ho, by rw [h4]; exact h5, by rw [h4]; exact hc⟩

theorem withOffset_ok (x : OffsetDateTime) (o : Offset) (y : OffsetDateTime) (hx : WF x) (ho : OffOK o.seconds)
    (h : x.withOffset o = .ok y) :
    WF y ∧ instantVal y = instantVal x ∧ y.offsetSeconds = o.seconds ∧ y.calendar = x.calendar := by
  obtain ⟨hn, hf, hd, hc⟩ := hx
  have key : (0 ≤ y.nanosecondOfDay ∧ y.nanosecondOfDay < NPD) ∧ y.offsetSeconds = o.seconds ∧ y.date.cal = x.date.cal ∧
      (x.date.cal.minDays ≤ y.date.days ∧ y.date.days ≤ x.date.cal.maxDays) ∧ instantVal y = instantVal x := by
    simp only [OffsetDateTime.withOffset, Date.plusDays, Offset.nanoseconds, OffsetTime.offsetNanoseconds, bind, Except.bind,
      OffOK, instantVal, localVal, OffsetDateTime.nanosecondOfDay, OffsetDateTime.offsetSeconds,
      OffsetTime.ofParts, OffsetTime.nanosecondOfDay, OffsetTime.offsetSeconds, shr47] at *
    unfold_consts
    grind
  obtain ⟨k1, k2, k3, k4, k5⟩ := key
  refine ⟨⟨k1, by rw [k2]; exact ho, by rw [k3]; exact k4, by rw [k3]; exact hc⟩, k5, k2, ?_⟩
  simp only [OffsetDateTime.calendar, k3]

theorem offset_of_wf (x : OffsetDateTime) (hx : WF x) : x.ot.offset = .ok ⟨x.offsetSeconds⟩ := by
  have := hx.off
  simp only [OffsetTime.offset, Offset.ctor, checkRange, OffOK, OffsetDateTime.offsetSeconds, bind, Except.bind] at *
  have hn : ¬ (x.ot.offsetSeconds < Offset.MIN_S ∨ x.ot.offsetSeconds > Offset.MAX_S) := by omega
  simp only [hn, if_false]

end Pyoda.C11
