/-
  GenAgreeC12 — agreement between the comparison / equality / hash members GENERATED from pyoda_time's Python source
  (`PyodaGen/C12.lean`: `_YearMonthDay`, `_YearMonthDayCalendar`, the calculators' `compare`, Offset, LocalTime,
  LocalDate) and the comparison model (`PyodaModel/Compare.lean`).  The bit packing `(y-1) << 11 | (m-1) << 6 | (d-1)`
  and the mask-and-shift accessors are proved equal to the model's arithmetic forms for ANY year (negative included:
  two's complement on unbounded ints) and the 5-bit month / 6-bit day / 6-bit ordinal fields (`FieldsOK`, `OrdOK`).
  `CalendarSystem._compare` is an abstract callee of the LocalDate members; `gen_LocalDate_*` hold for the callee
  `calCompare ord` on unpacked values, which `gen_Calc_compare_eq` shows to be the default calculator's `compare`.
-/
import PyodaGen.C12
import PyodaModel.Compare
import PyodaProofs.Basic
import PyodaProofs.GenAgreeBits
import Mathlib.Tactic.Ring

namespace Pyoda.GenAgree.C12
open Pyoda Pyoda.Compare Pyoda.Gen.Compare

/-! ## two's-complement facts -/

/-- `(d << k) | r = d·2^k + r` for `0 ≤ r < 2^k`, any sign of `d` -/
theorem pyOr_low (k : Nat) (d r : Int) (h0 : 0 ≤ r) (h1 : r < 2 ^ k) : Gen.pyOr (d * 2 ^ k) r = d * 2 ^ k + r := by
  obtain ⟨n, rfl⟩ := Int.eq_ofNat_of_zero_le h0
  have hn : n < 2 ^ k := by exact_mod_cast h1
  have hp : (0 : Int) < 2 ^ k := Int.pow_pos (by decide)
  cases d with
  | ofNat m =>
    have e : (Int.ofNat m * 2 ^ k : Int) = ((2 ^ k * m : Nat) : Int) := by
      show ((m : Int) * 2 ^ k) = ((2 ^ k * m : Nat) : Int); push_cast; ring
    rw [e]
    show ((2 ^ k * m ||| n : Nat) : Int) = _
    rw [← Nat.two_pow_add_eq_or_of_lt hn m, ← e]
    show ((2 ^ k * m + n : Nat) : Int) = (m : Int) * 2 ^ k + n
    push_cast; ring
  | negSucc m =>
    have hk : 1 ≤ 2 ^ k := Nat.one_le_two_pow
    have e : (Int.negSucc m * 2 ^ k : Int) = Int.negSucc (2 ^ k * m + (2 ^ k - 1)) := by
      rw [Int.negSucc_eq, Int.negSucc_eq]; push_cast [hk]; ring
    rw [e]
    show Int.negSucc ((2 ^ k * m + (2 ^ k - 1)) - ((2 ^ k * m + (2 ^ k - 1)) &&& n)) = _
    rw [GenAgree.Bits.nat_ones_and k m n hn, Int.negSucc_eq, Int.negSucc_eq]
    have : n ≤ 2 ^ k * m + (2 ^ k - 1) := by
      have : n ≤ 2 ^ k - 1 := by omega
      omega
    push_cast [this, hk]; ring

/-- `n & ((2^a − 1) << b)` on naturals: the a-bit field at position b, in place -/
theorem nat_and_field (a b n : Nat) : n &&& ((2 ^ a - 1) * 2 ^ b) = (n / 2 ^ b % 2 ^ a) * 2 ^ b := by
  have hd : (n &&& ((2 ^ a - 1) * 2 ^ b)) / 2 ^ b = n / 2 ^ b % 2 ^ a := by
    rw [Nat.and_div_two_pow, Nat.mul_div_cancel _ (Nat.two_pow_pos b), Nat.and_two_pow_sub_one_eq_mod]
  have hm : (n &&& ((2 ^ a - 1) * 2 ^ b)) % 2 ^ b = 0 := by
    rw [Nat.and_mod_two_pow, Nat.mul_mod_left, Nat.and_zero]
  have e := Nat.div_add_mod (n &&& ((2 ^ a - 1) * 2 ^ b)) (2 ^ b)
  rw [hd, hm] at e
  rw [← e]; ring

/-- the same on two's-complement integers -/
theorem pyAnd_field (a b : Nat) (x : Int) :
    Gen.pyAnd x (((2 ^ a - 1) * 2 ^ b : Nat) : Int) = (x / 2 ^ b % 2 ^ a) * 2 ^ b := by
  have hb : (0 : Int) < 2 ^ b := Int.pow_pos (by decide)
  have ha : (0 : Int) < 2 ^ a := Int.pow_pos (by decide)
  cases x with
  | ofNat n =>
    show ((n &&& ((2 ^ a - 1) * 2 ^ b) : Nat) : Int) = _
    rw [nat_and_field]
    push_cast; rfl
  | negSucc n =>
    show ((((2 ^ a - 1) * 2 ^ b) - (((2 ^ a - 1) * 2 ^ b) &&& n) : Nat) : Int) = _
    rw [Nat.and_comm, nat_and_field]
    have hle : n / 2 ^ b % 2 ^ a ≤ 2 ^ a - 1 := by
      have := Nat.mod_lt (n / 2 ^ b) (Nat.two_pow_pos a); omega
    have hmul : n / 2 ^ b % 2 ^ a * 2 ^ b ≤ (2 ^ a - 1) * 2 ^ b := Nat.mul_le_mul_right _ hle
    have h1 : 1 ≤ 2 ^ a := Nat.one_le_two_pow
    -- floor division / modulus of ~n
    have e1 : (Int.negSucc n) / (2 : Int) ^ b = Int.negSucc (n / 2 ^ b) := by
      have := Int.negSucc_ediv n (by exact_mod_cast hb : (0 : Int) < ((2 ^ b : Nat) : Int))
      rw [show ((2 : Int) ^ b) = ((2 ^ b : Nat) : Int) by push_cast; rfl, this]
      have hd : (n : Int).ediv ((2 ^ b : Nat) : Int) = ((n / 2 ^ b : Nat) : Int) := by
        show (n : Int) / ((2 ^ b : Nat) : Int) = _
        exact (Int.natCast_div n (2 ^ b)).symm
      rw [hd, Int.negSucc_eq]
    have e2 : (Int.negSucc (n / 2 ^ b)) % (2 : Int) ^ a = ((2 ^ a - 1 - n / 2 ^ b % 2 ^ a : Nat) : Int) := by
      rw [show ((2 : Int) ^ a) = ((2 ^ a : Nat) : Int) by push_cast; rfl, Int.negSucc_emod _ (by exact_mod_cast ha)]
      push_cast [hle, h1]; ring
    rw [e1, e2]
    push_cast [hmul, hle, h1]; ring

theorem shr (k : Nat) (x : Int) : x >>> k = x / 2 ^ k := by
  rw [Int.shiftRight_eq_div_pow]; push_cast; rfl

/-! ## `_YearMonthDay` -/

theorem gen_YMD_ctorRaw_eq (v : Int) : (Gen.C12.YMD.ctorRaw v).value = v := rfl

theorem gen_YMD_ctorFields_eq (y m d : Int) (h : FieldsOK m d) : (Gen.C12.YMD.ctorFields y m d).value = packYMD y m d := by
  unfold Gen.C12.YMD.ctorFields packYMD
  obtain ⟨h1, h2, h3, h4⟩ := h
  show Gen.pyOr (Gen.pyOr ((y - 1) * 2 ^ 11) ((m - 1) * 2 ^ 6)) (d - 1) = _
  rw [pyOr_low 11 (y - 1) ((m - 1) * 2 ^ 6) (by omega) (by omega)]
  have e : (y - 1) * 2 ^ 11 + (m - 1) * 2 ^ 6 = ((y - 1) * 32 + (m - 1)) * 2 ^ 6 := by ring
  rw [e, pyOr_low 6 _ (d - 1) (by omega) (by omega)]
  ring

theorem gen_YMD_year_eq (a : YMD) : Gen.C12.YMD.year a = ymdYear a.value := by
  unfold Gen.C12.YMD.year ymdYear
  rw [shr]; rfl

theorem gen_YMD_month_eq (a : YMD) : Gen.C12.YMD.month a = ymdMonth a.value := by
  unfold Gen.C12.YMD.month ymdMonth
  have := pyAnd_field 5 6 a.value
  have e : (((2 ^ 5 - 1) * 2 ^ 6 : Nat) : Int) = 1984 := by decide
  rw [e] at this
  rw [this, shr]
  have h6 : (2 : Int) ^ 6 = 64 := by decide
  have h5 : (2 : Int) ^ 5 = 32 := by decide
  rw [h6, h5]
  omega

theorem gen_YMD_day_eq (a : YMD) : Gen.C12.YMD.day a = ymdDay a.value := by
  unfold Gen.C12.YMD.day ymdDay
  rw [fmod_pos _ _ (by decide)]

theorem gen_YMDC_ctorYmd_eq (v ord : Int) (h : OrdOK ord) : (Gen.C12.YMDC.ctorYmd v ord).value = v * 64 + ord := by
  unfold Gen.C12.YMDC.ctorYmd
  show Gen.pyOr (v * 2 ^ 6) ord = _
  rw [pyOr_low 6 v ord h.1 (by have := h.2; omega)]
  ring

theorem gen_YMD_withCalendarOrdinal_eq (a : YMD) (ord : Int) (h : OrdOK ord) :
    (Gen.C12.YMD.withCalendarOrdinal a ord).value = a.value * 64 + ord := gen_YMDC_ctorYmd_eq a.value ord h

theorem gen_YMD_compareTo_eq (a b : YMD) : Gen.C12.YMD.compareTo a b = a.value - b.value := rfl
theorem gen_YMD_compareToNone_eq (a : YMD) : Gen.C12.YMD.compareToNone a = 1 := rfl
theorem gen_YMD_beq_eq (a b : YMD) : Gen.C12.YMD.beq a b = decide (a.value = b.value) := rfl
theorem gen_YMD_bne_eq (a b : YMD) : Gen.C12.YMD.bne a b = !decide (a.value = b.value) := by
  unfold Gen.C12.YMD.bne Gen.C12.YMD.beq; simp
theorem gen_YMD_lt_eq (a b : YMD) : Gen.C12.YMD.lt a b = decide (a.value < b.value) := rfl
theorem gen_YMD_le_eq (a b : YMD) : Gen.C12.YMD.le a b = decide (a.value ≤ b.value) := rfl
theorem gen_YMD_gt_eq (a b : YMD) : Gen.C12.YMD.gt a b = decide (a.value > b.value) := rfl
theorem gen_YMD_ge_eq (a b : YMD) : Gen.C12.YMD.ge a b = decide (a.value ≥ b.value) := rfl
theorem gen_YMD_equals_eq (a b : YMD) : Gen.C12.YMD.equals a b = decide (a.value = b.value) := rfl
theorem gen_YMD_hash_eq (a : YMD) : Gen.C12.YMD.hash a = a.value := rfl

/-! ## `_YearMonthDayCalendar` -/

theorem gen_YMDC_ctorFields_eq (ord y m d : Int) (h : FieldsOK m d) (ho : OrdOK ord) :
    (Gen.C12.YMDC.ctorFields ord y m d).value = packYMDC ord y m d := by
  unfold Gen.C12.YMDC.ctorFields packYMDC packYMD
  obtain ⟨h1, h2, h3, h4⟩ := h
  obtain ⟨o1, o2⟩ := ho
  show Gen.pyOr (Gen.pyOr (Gen.pyOr ((y - 1) * 2 ^ 17) ((m - 1) * 2 ^ 12)) ((d - 1) * 2 ^ 6)) ord = _
  rw [pyOr_low 17 (y - 1) ((m - 1) * 2 ^ 12) (by omega) (by omega)]
  have e : (y - 1) * 2 ^ 17 + (m - 1) * 2 ^ 12 = ((y - 1) * 32 + (m - 1)) * 2 ^ 12 := by ring
  rw [e, pyOr_low 12 _ ((d - 1) * 2 ^ 6) (by omega) (by omega)]
  have e2 : ((y - 1) * 32 + (m - 1)) * 2 ^ 12 + (d - 1) * 2 ^ 6 = (((y - 1) * 32 + (m - 1)) * 64 + (d - 1)) * 2 ^ 6 := by ring
  rw [e2, pyOr_low 6 _ ord o1 (by omega)]
  ring

/-- `_calendar_ordinal` looks the 6-bit field up in the `_CalendarOrdinal` enum: for a value whose field names a calendar
    (0 … 18, and 19 = SIZE) it is the model's `ymdcOrdinal` -/
theorem gen_YMDC_calendarOrdinal_eq (a : YMDC) (h : ymdcOrdinal a.value ≤ 19) :
    Gen.C12.YMDC.calendarOrdinal a = .ok (ymdcOrdinal a.value) := by
  unfold Gen.C12.YMDC.calendarOrdinal ymdcOrdinal Gen.pyEnumLookup at *
  rw [fmod_pos _ _ (by decide)]
  have h0 : 0 ≤ a.value % 64 := Int.emod_nonneg _ (by decide)
  rw [if_pos]
  generalize a.value % 64 = o at *
  have : o = 0 ∨ o = 1 ∨ o = 2 ∨ o = 3 ∨ o = 4 ∨ o = 5 ∨ o = 6 ∨ o = 7 ∨ o = 8 ∨ o = 9 ∨ o = 10 ∨ o = 11 ∨ o = 12 ∨ o = 13 ∨
      o = 14 ∨ o = 15 ∨ o = 16 ∨ o = 17 ∨ o = 18 ∨ o = 19 := by omega
  rcases this with h | h | h | h | h | h | h | h | h | h | h | h | h | h | h | h | h | h | h | h <;> subst h <;> decide

theorem gen_YMDC_month_eq (a : YMDC) : Gen.C12.YMDC.month a = ymdMonth (ymdcToYMD a.value) := by
  unfold Gen.C12.YMDC.month ymdMonth ymdcToYMD
  have := pyAnd_field 5 12 a.value
  have e : (((2 ^ 5 - 1) * 2 ^ 12 : Nat) : Int) = 126976 := by decide
  rw [e] at this
  rw [this, shr]
  have h12 : (2 : Int) ^ 12 = 4096 := by decide
  have h5 : (2 : Int) ^ 5 = 32 := by decide
  rw [h12, h5]
  omega

theorem gen_YMDC_day_eq (a : YMDC) : Gen.C12.YMDC.day a = ymdDay (ymdcToYMD a.value) := by
  unfold Gen.C12.YMDC.day ymdDay ymdcToYMD
  have := pyAnd_field 6 6 a.value
  have e : (((2 ^ 6 - 1) * 2 ^ 6 : Nat) : Int) = 4032 := by decide
  rw [e] at this
  rw [this, shr]
  have h6 : (2 : Int) ^ 6 = 64 := by decide
  rw [h6]
  omega

/-- `_year` keeps 15 bits of the year and sign-extends them: the model's year for every year in −16383 … 16384
    (pyoda_time's years are −9998 … 9999) -/
theorem gen_YMDC_year_eq (a : YMDC) (h : -16384 ≤ ymdYear (ymdcToYMD a.value) - 1 ∧ ymdYear (ymdcToYMD a.value) - 1 < 16384) :
    Gen.C12.YMDC.year a = ymdYear (ymdcToYMD a.value) := by
  unfold Gen.C12.YMDC.year ymdYear ymdcToYMD int32Overflow at *
  have := pyAnd_field 15 17 a.value
  have e : (((2 ^ 15 - 1) * 2 ^ 17 : Nat) : Int) = 4294836224 := by decide
  rw [e] at this
  rw [this, shr, fmod_pos _ _ (by decide)]
  have h17 : (2 : Int) ^ 17 = 131072 := by decide
  have h15 : (2 : Int) ^ 15 = 32768 := by decide
  rw [h17, h15]
  omega

theorem gen_YMDC_toYearMonthDay_eq (a : YMDC) : (Gen.C12.YMDC.toYearMonthDay a).value = ymdcToYMD a.value := by
  unfold Gen.C12.YMDC.toYearMonthDay ymdcToYMD
  show a.value >>> 6 = _
  rw [shr]; rfl

theorem gen_YMDC_beq_eq (a b : YMDC) : Gen.C12.YMDC.beq a b = decide (a.value = b.value) := rfl
theorem gen_YMDC_equals_eq (a b : YMDC) : Gen.C12.YMDC.equals a b = decide (a.value = b.value) := rfl
theorem gen_YMDC_hash_eq (a : YMDC) : Gen.C12.YMDC.hash a = a.value := rfl

/-- the default `_YearMonthDayCalculator.compare`: the model's `calCompare` for every calendar but Hebrew scriptural -/
theorem gen_Calc_compare_eq (ord : Int) (l r : YMD) (h : ord ≠ HEBREW_SCRIPTURAL) :
    Gen.C12.Calc.compare l r = calCompare ord l.value r.value := by
  unfold calCompare
  rw [if_neg h]; rfl

/-! ## Offset, LocalTime -/

theorem gen_Offset_beq_eq (a b : Offset) : Gen.C12.Offset.beq a b = Off.eq a b := rfl
theorem gen_Offset_bne_eq (a b : Offset) : Gen.C12.Offset.bne a b = Off.ne a b := by
  unfold Gen.C12.Offset.bne Gen.C12.Offset.beq Off.ne Off.eq; simp
theorem gen_Offset_compareTo_eq (a b : Offset) : .ok (Gen.C12.Offset.compareTo a b) = Off.compareTo a b := rfl
theorem gen_Offset_compareToNone_eq (a : Offset) : Gen.C12.Offset.compareToNone a = 1 := rfl
theorem gen_Offset_lt_eq (a b : Offset) : .ok (Gen.C12.Offset.lt a b) = Off.lt a b := rfl
theorem gen_Offset_le_eq (a b : Offset) : .ok (Gen.C12.Offset.le a b) = Off.le a b := rfl
theorem gen_Offset_gt_eq (a b : Offset) : .ok (Gen.C12.Offset.gt a b) = Off.gt a b := rfl
theorem gen_Offset_ge_eq (a b : Offset) : .ok (Gen.C12.Offset.ge a b) = Off.ge a b := rfl
theorem gen_Offset_equals_eq (a b : Offset) : Gen.C12.Offset.equals a b = Off.eq a b := rfl
theorem gen_Offset_hash_eq (a : Offset) : Gen.C12.Offset.hash a = Off.hashRaw a := rfl

theorem gen_LocalTime_beq_eq (a b : Compare.LocalTime) : Gen.C12.LocalTime.beq a b = Compare.LocalTime.eq a b := rfl
theorem gen_LocalTime_bne_eq (a b : Compare.LocalTime) : Gen.C12.LocalTime.bne a b = Compare.LocalTime.ne a b := by
  unfold Gen.C12.LocalTime.bne Gen.C12.LocalTime.beq Compare.LocalTime.ne Compare.LocalTime.eq; simp
theorem gen_LocalTime_lt_eq (a b : Compare.LocalTime) : .ok (Gen.C12.LocalTime.lt a b) = Compare.LocalTime.lt a b := rfl
theorem gen_LocalTime_le_eq (a b : Compare.LocalTime) : .ok (Gen.C12.LocalTime.le a b) = Compare.LocalTime.le a b := rfl
theorem gen_LocalTime_gt_eq (a b : Compare.LocalTime) : .ok (Gen.C12.LocalTime.gt a b) = Compare.LocalTime.gt a b := rfl
theorem gen_LocalTime_ge_eq (a b : Compare.LocalTime) : .ok (Gen.C12.LocalTime.ge a b) = Compare.LocalTime.ge a b := rfl
theorem gen_LocalTime_compareTo_eq (a b : Compare.LocalTime) : .ok (Gen.C12.LocalTime.compareTo a b) = Compare.LocalTime.compareTo a b := rfl
theorem gen_LocalTime_compareToNone_eq (a : Compare.LocalTime) : Gen.C12.LocalTime.compareToNone a = 1 := rfl
theorem gen_LocalTime_hash_eq (a : Compare.LocalTime) : Gen.C12.LocalTime.hash a = Compare.LocalTime.hashRaw a := rfl

/-! ## LocalDate -/

/-- a generated `LocalDate` as the model's -/
def toM (a : LDate) : Compare.LocalDate := ⟨a.ymdc.value⟩

/-- the calendar field of the date names a calendar -/
def OrdWF (a : LDate) : Prop := ymdcOrdinal a.ymdc.value ≤ 19

/-- `CalendarSystem._compare` of the date's calendar, on `_YearMonthDay` objects -/
def cmpOf (ord : Int) (l r : YMD) : Int := calCompare ord l.value r.value

theorem gen_LocalDate_calendarOrdinal_eq (a : LDate) (h : OrdWF a) :
    Gen.C12.LocalDate.calendarOrdinal a = .ok (toM a).ordinal := gen_YMDC_calendarOrdinal_eq a.ymdc h

theorem gen_LocalDate_yearMonthDay_eq (a : LDate) : (Gen.C12.LocalDate.yearMonthDay a).value = (toM a).ymd :=
  gen_YMDC_toYearMonthDay_eq a.ymdc

theorem gen_LocalDate_trustedCompareTo_eq (a b : LDate) :
    Gen.C12.LocalDate.trustedCompareTo (cmpOf (toM a).ordinal) a b = Compare.LocalDate.trustedCompareTo (toM a) (toM b) := by
  unfold Gen.C12.LocalDate.trustedCompareTo cmpOf Compare.LocalDate.trustedCompareTo
  rw [gen_LocalDate_yearMonthDay_eq, gen_LocalDate_yearMonthDay_eq]

theorem gen_LocalDate_beq_eq (a b : LDate) : Gen.C12.LocalDate.beq a b = Compare.LocalDate.eq (toM a) (toM b) := rfl
theorem gen_LocalDate_bne_eq (a b : LDate) : Gen.C12.LocalDate.bne a b = Compare.LocalDate.ne (toM a) (toM b) := by
  unfold Gen.C12.LocalDate.bne Gen.C12.LocalDate.beq Compare.LocalDate.ne Compare.LocalDate.eq toM
  simp [Gen.C12.YMDC.beq]

theorem guarded {α} (a b : LDate) (ha : OrdWF a) (hb : OrdWF b) (v : α) :
    (do let t1 ← Gen.C12.LocalDate.calendarOrdinal a
        let t2 ← Gen.C12.LocalDate.calendarOrdinal b
        Gen.checkArgument (decide (t1 = t2))
        (.ok v : R α)) = sameCal (toM a).ordinal (toM b).ordinal v := by
  rw [gen_LocalDate_calendarOrdinal_eq a ha, gen_LocalDate_calendarOrdinal_eq b hb]
  unfold sameCal Gen.checkArgument
  by_cases h : (toM a).ordinal = (toM b).ordinal <;> simp [h, bind, Except.bind]

theorem gen_LocalDate_lt_eq (a b : LDate) (ha : OrdWF a) (hb : OrdWF b) :
    Gen.C12.LocalDate.lt (cmpOf (toM a).ordinal) a b = Compare.LocalDate.lt (toM a) (toM b) := by
  unfold Gen.C12.LocalDate.lt Compare.LocalDate.lt
  rw [gen_LocalDate_trustedCompareTo_eq]; exact guarded a b ha hb _
theorem gen_LocalDate_le_eq (a b : LDate) (ha : OrdWF a) (hb : OrdWF b) :
    Gen.C12.LocalDate.le (cmpOf (toM a).ordinal) a b = Compare.LocalDate.le (toM a) (toM b) := by
  unfold Gen.C12.LocalDate.le Compare.LocalDate.le
  rw [gen_LocalDate_trustedCompareTo_eq]; exact guarded a b ha hb _
theorem gen_LocalDate_gt_eq (a b : LDate) (ha : OrdWF a) (hb : OrdWF b) :
    Gen.C12.LocalDate.gt (cmpOf (toM a).ordinal) a b = Compare.LocalDate.gt (toM a) (toM b) := by
  unfold Gen.C12.LocalDate.gt Compare.LocalDate.gt
  rw [gen_LocalDate_trustedCompareTo_eq]; exact guarded a b ha hb _
theorem gen_LocalDate_ge_eq (a b : LDate) (ha : OrdWF a) (hb : OrdWF b) :
    Gen.C12.LocalDate.ge (cmpOf (toM a).ordinal) a b = Compare.LocalDate.ge (toM a) (toM b) := by
  unfold Gen.C12.LocalDate.ge Compare.LocalDate.ge
  rw [gen_LocalDate_trustedCompareTo_eq]; exact guarded a b ha hb _
theorem gen_LocalDate_compareTo_eq (a b : LDate) (ha : OrdWF a) (hb : OrdWF b) :
    Gen.C12.LocalDate.compareTo (cmpOf (toM a).ordinal) a b = Compare.LocalDate.compareTo (toM a) (toM b) := by
  unfold Gen.C12.LocalDate.compareTo Compare.LocalDate.compareTo
  rw [gen_LocalDate_trustedCompareTo_eq]; exact guarded a b ha hb _
theorem gen_LocalDate_compareToNone_eq (cmp : YMD → YMD → Int) (a : LDate) : Gen.C12.LocalDate.compareToNone cmp a = 1 := rfl

theorem gen_LocalDate_hash_eq (a : LDate) : Gen.C12.LocalDate.hash a = Compare.LocalDate.hashRaw (toM a) := rfl

/-- the date's calendar: the one object `CalendarSystem._for_ordinal` keeps for the ordinal -/
theorem gen_LocalDate_calendar_eq (a : LDate) (h : OrdWF a) :
    Gen.C12.LocalDate.calendar a = .ok ⟨(toM a).ordinal⟩ := by
  unfold Gen.C12.LocalDate.calendar
  rw [gen_LocalDate_calendarOrdinal_eq a h]; rfl

/-! ## LocalDateTime -/

/-- a generated `LocalDateTime` as the model's -/
def toMdt (a : LDT) : Compare.LocalDateTime := ⟨toM a.date, a.time⟩

theorem gen_LocalDateTime_calendar_eq (a : LDT) (h : OrdWF a.date) :
    Gen.C12.LocalDateTime.calendar a = .ok ⟨(toMdt a).date.ordinal⟩ := gen_LocalDate_calendar_eq a.date h

theorem gen_LocalDateTime_beq_eq (a b : LDT) : Gen.C12.LocalDateTime.beq a b = Compare.LocalDateTime.eq (toMdt a) (toMdt b) := by
  unfold Gen.C12.LocalDateTime.beq Compare.LocalDateTime.eq toMdt
  rw [gen_LocalDate_beq_eq, gen_LocalTime_beq_eq]
  cases Compare.LocalDate.eq (toM a.date) (toM b.date) <;> cases Compare.LocalTime.eq a.time b.time <;> rfl
theorem gen_LocalDateTime_bne_eq (a b : LDT) : Gen.C12.LocalDateTime.bne a b = Compare.LocalDateTime.ne (toMdt a) (toMdt b) := by
  unfold Gen.C12.LocalDateTime.bne Compare.LocalDateTime.ne
  rw [gen_LocalDateTime_beq_eq]
  cases Compare.LocalDateTime.eq (toMdt a) (toMdt b) <;> rfl
theorem gen_LocalDateTime_equals_eq (a b : LDT) : Gen.C12.LocalDateTime.equals a b = Compare.LocalDateTime.eq (toMdt a) (toMdt b) :=
  gen_LocalDateTime_beq_eq a b

/-- `compare_to`: the date comparison (with its calendar guard), then the time of day -/
theorem gen_LocalDateTime_compareTo_eq (a b : LDT) (ha : OrdWF a.date) (hb : OrdWF b.date) :
    Gen.C12.LocalDateTime.compareTo (cmpOf (toMdt a).date.ordinal) a b = Compare.LocalDateTime.compareTo (toMdt a) (toMdt b) := by
  unfold Gen.C12.LocalDateTime.compareTo Compare.LocalDateTime.compareTo
  simp only [toMdt]
  rw [gen_LocalDate_compareTo_eq a.date b.date ha hb]
  cases Compare.LocalDate.compareTo (toM a.date) (toM b.date) with
  | error e => rfl
  | ok c =>
    show (if c ≠ 0 then (.ok c : R Int) else .ok (Gen.C12.LocalTime.compareTo a.time b.time)) = (if c ≠ 0 then .ok c else Compare.LocalTime.compareTo a.time b.time)
    rw [gen_LocalTime_compareTo_eq]
theorem gen_LocalDateTime_compareToNone_eq (cmp : YMD → YMD → Int) (a : LDT) : Gen.C12.LocalDateTime.compareToNone cmp a = 1 := rfl

/-- the four ordering operators: `self.calendar == other.calendar` is the identity of the two calendar objects, i.e.
    equality of the ordinals; then `compare_to` -/
theorem guardedDt (a b : LDT) (ha : OrdWF a.date) (hb : OrdWF b.date) (f : Int → Bool) :
    (do let t1 ← Gen.C12.LocalDateTime.calendar a
        let t2 ← Gen.C12.LocalDateTime.calendar b
        Gen.checkArgument (decide (t1 = t2))
        let t3 ← Gen.C12.LocalDateTime.compareTo (cmpOf (toMdt a).date.ordinal) a b
        (.ok (f t3) : R Bool)) = Compare.LocalDateTime.withGuard (toMdt a) (toMdt b) f := by
  rw [gen_LocalDateTime_calendar_eq a ha, gen_LocalDateTime_calendar_eq b hb, gen_LocalDateTime_compareTo_eq a b ha hb]
  unfold Compare.LocalDateTime.withGuard Gen.checkArgument
  by_cases h : (toMdt a).date.ordinal = (toMdt b).date.ordinal
  · have h' : (⟨(toMdt a).date.ordinal⟩ : CalRef) = ⟨(toMdt b).date.ordinal⟩ := by rw [h]
    simp only [bind, Except.bind, h, decide_true, if_true]
    cases Compare.LocalDateTime.compareTo (toMdt a) (toMdt b) <;> rfl
  · have h' : ¬ (⟨(toMdt a).date.ordinal⟩ : CalRef) = ⟨(toMdt b).date.ordinal⟩ := fun e => h (CalRef.mk.inj e)
    simp [bind, Except.bind, h', h]

theorem gen_LocalDateTime_lt_eq (a b : LDT) (ha : OrdWF a.date) (hb : OrdWF b.date) :
    Gen.C12.LocalDateTime.lt (cmpOf (toMdt a).date.ordinal) a b = Compare.LocalDateTime.lt (toMdt a) (toMdt b) :=
  guardedDt a b ha hb (fun c => decide (c < 0))
theorem gen_LocalDateTime_le_eq (a b : LDT) (ha : OrdWF a.date) (hb : OrdWF b.date) :
    Gen.C12.LocalDateTime.le (cmpOf (toMdt a).date.ordinal) a b = Compare.LocalDateTime.le (toMdt a) (toMdt b) :=
  guardedDt a b ha hb (fun c => decide (c ≤ 0))
theorem gen_LocalDateTime_gt_eq (a b : LDT) (ha : OrdWF a.date) (hb : OrdWF b.date) :
    Gen.C12.LocalDateTime.gt (cmpOf (toMdt a).date.ordinal) a b = Compare.LocalDateTime.gt (toMdt a) (toMdt b) :=
  guardedDt a b ha hb (fun c => decide (c > 0))
theorem gen_LocalDateTime_ge_eq (a b : LDT) (ha : OrdWF a.date) (hb : OrdWF b.date) :
    Gen.C12.LocalDateTime.ge (cmpOf (toMdt a).date.ordinal) a b = Compare.LocalDateTime.ge (toMdt a) (toMdt b) :=
  guardedDt a b ha hb (fun c => decide (c ≥ 0))

/-! ## YearMonth: the same members on the packed first day of the month -/

def toMym (a : YM) : Compare.YearMonth := ⟨a.som.value⟩
def OrdWFym (a : YM) : Prop := ymdcOrdinal a.som.value ≤ 19

theorem gen_YearMonth_calendarOrdinal_eq (a : YM) (h : OrdWFym a) :
    Gen.C12.YearMonth.calendarOrdinal a = .ok (toMym a).ordinal := gen_YMDC_calendarOrdinal_eq a.som h
theorem gen_YearMonth_yearMonthDay_eq (a : YM) : (Gen.C12.YearMonth.yearMonthDay a).value = (toMym a).ymd :=
  gen_YMDC_toYearMonthDay_eq a.som
theorem gen_YearMonth_trustedCompareTo_eq (a b : YM) :
    Gen.C12.YearMonth.trustedCompareTo (cmpOf (toMym a).ordinal) a b = Compare.YearMonth.trustedCompareTo (toMym a) (toMym b) := by
  unfold Gen.C12.YearMonth.trustedCompareTo cmpOf Compare.YearMonth.trustedCompareTo
  rw [gen_YearMonth_yearMonthDay_eq, gen_YearMonth_yearMonthDay_eq]
theorem gen_YearMonth_beq_eq (a b : YM) : Gen.C12.YearMonth.beq a b = Compare.YearMonth.eq (toMym a) (toMym b) := rfl
theorem gen_YearMonth_bne_eq (a b : YM) : Gen.C12.YearMonth.bne a b = Compare.YearMonth.ne (toMym a) (toMym b) := by
  unfold Gen.C12.YearMonth.bne Compare.YearMonth.ne
  rw [gen_YearMonth_beq_eq]
  cases Compare.YearMonth.eq (toMym a) (toMym b) <;> rfl
theorem gen_YearMonth_equals_eq (a b : YM) : Gen.C12.YearMonth.equals a b = Compare.YearMonth.eq (toMym a) (toMym b) := rfl
theorem gen_YearMonth_hash_eq (a : YM) : Gen.C12.YearMonth.hash a = Compare.YearMonth.hashRaw (toMym a) := rfl

theorem guardedYM {α} (a b : YM) (ha : OrdWFym a) (hb : OrdWFym b) (v : α) :
    (do let t1 ← Gen.C12.YearMonth.calendarOrdinal a
        let t2 ← Gen.C12.YearMonth.calendarOrdinal b
        Gen.checkArgument (decide (t1 = t2))
        (.ok v : R α)) = sameCal (toMym a).ordinal (toMym b).ordinal v := by
  rw [gen_YearMonth_calendarOrdinal_eq a ha, gen_YearMonth_calendarOrdinal_eq b hb]
  unfold sameCal Gen.checkArgument
  by_cases h : (toMym a).ordinal = (toMym b).ordinal <;> simp [h, bind, Except.bind]

theorem gen_YearMonth_lt_eq (a b : YM) (ha : OrdWFym a) (hb : OrdWFym b) :
    Gen.C12.YearMonth.lt (cmpOf (toMym a).ordinal) a b = Compare.YearMonth.lt (toMym a) (toMym b) := by
  unfold Gen.C12.YearMonth.lt Compare.YearMonth.lt
  rw [gen_YearMonth_trustedCompareTo_eq]; exact guardedYM a b ha hb _
theorem gen_YearMonth_le_eq (a b : YM) (ha : OrdWFym a) (hb : OrdWFym b) :
    Gen.C12.YearMonth.le (cmpOf (toMym a).ordinal) a b = Compare.YearMonth.le (toMym a) (toMym b) := by
  unfold Gen.C12.YearMonth.le Compare.YearMonth.le
  rw [gen_YearMonth_trustedCompareTo_eq]; exact guardedYM a b ha hb _
theorem gen_YearMonth_gt_eq (a b : YM) (ha : OrdWFym a) (hb : OrdWFym b) :
    Gen.C12.YearMonth.gt (cmpOf (toMym a).ordinal) a b = Compare.YearMonth.gt (toMym a) (toMym b) := by
  unfold Gen.C12.YearMonth.gt Compare.YearMonth.gt
  rw [gen_YearMonth_trustedCompareTo_eq]; exact guardedYM a b ha hb _
theorem gen_YearMonth_ge_eq (a b : YM) (ha : OrdWFym a) (hb : OrdWFym b) :
    Gen.C12.YearMonth.ge (cmpOf (toMym a).ordinal) a b = Compare.YearMonth.ge (toMym a) (toMym b) := by
  unfold Gen.C12.YearMonth.ge Compare.YearMonth.ge
  rw [gen_YearMonth_trustedCompareTo_eq]; exact guardedYM a b ha hb _
theorem gen_YearMonth_compareTo_eq (a b : YM) (ha : OrdWFym a) (hb : OrdWFym b) :
    Gen.C12.YearMonth.compareTo (cmpOf (toMym a).ordinal) a b = Compare.YearMonth.compareTo (toMym a) (toMym b) := by
  unfold Gen.C12.YearMonth.compareTo Compare.YearMonth.compareTo
  rw [gen_YearMonth_trustedCompareTo_eq]; exact guardedYM a b ha hb _
theorem gen_YearMonth_compareToNone_eq (cmp : YMD → YMD → Int) (a : YM) : Gen.C12.YearMonth.compareToNone cmp a = 1 := rfl

/-! ## AnnualDate: a `_YearMonthDay` in year 1, compared as that packed integer -/

def toMad (a : ADate) : Compare.AnnualDate := ⟨a.value.value⟩

theorem gen_AnnualDate_beq_eq (a b : ADate) : Gen.C12.AnnualDate.beq a b = Compare.AnnualDate.eq (toMad a) (toMad b) := rfl
theorem gen_AnnualDate_bne_eq (a b : ADate) : Gen.C12.AnnualDate.bne a b = Compare.AnnualDate.ne (toMad a) (toMad b) := by
  unfold Gen.C12.AnnualDate.bne Compare.AnnualDate.ne
  rw [gen_AnnualDate_beq_eq]
  cases Compare.AnnualDate.eq (toMad a) (toMad b) <;> rfl
theorem gen_AnnualDate_equals_eq (a b : ADate) : Gen.C12.AnnualDate.equals a b = Compare.AnnualDate.eq (toMad a) (toMad b) := rfl
theorem gen_AnnualDate_hash_eq (a : ADate) : Gen.C12.AnnualDate.hash a = Compare.AnnualDate.hashRaw (toMad a) := rfl
theorem gen_AnnualDate_compareTo_eq (a b : ADate) : .ok (Gen.C12.AnnualDate.compareTo a b) = Compare.AnnualDate.compareTo (toMad a) (toMad b) := rfl
theorem gen_AnnualDate_compareToNone_eq (a : ADate) : Gen.C12.AnnualDate.compareToNone a = 1 := rfl
theorem gen_AnnualDate_lt_eq (a b : ADate) : .ok (Gen.C12.AnnualDate.lt a b) = Compare.AnnualDate.lt (toMad a) (toMad b) := rfl
theorem gen_AnnualDate_le_eq (a b : ADate) : .ok (Gen.C12.AnnualDate.le a b) = Compare.AnnualDate.le (toMad a) (toMad b) := rfl
theorem gen_AnnualDate_gt_eq (a b : ADate) : .ok (Gen.C12.AnnualDate.gt a b) = Compare.AnnualDate.gt (toMad a) (toMad b) := rfl
theorem gen_AnnualDate_ge_eq (a b : ADate) : .ok (Gen.C12.AnnualDate.ge a b) = Compare.AnnualDate.ge (toMad a) (toMad b) := rfl

example : OrdWFym ⟨⟨packYMDC 5 5784 7 1⟩⟩ := by unfold OrdWFym; decide
example : OrdWF ⟨⟨packYMDC 5 5784 7 15⟩⟩ := by unfold OrdWF; decide
example : FieldsOK 13 30 ∧ OrdOK 18 := by unfold FieldsOK OrdOK; decide

end Pyoda.GenAgree.C12
