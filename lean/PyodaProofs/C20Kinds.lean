/- C20: the `except` tuples of the two repaired entry points are sufficient — every failure kind that can arise
   inside them is translated, so the entry points as written (`fromStreamRaw`, `forIdRaw`) return a result or
   `invalidData` for ALL inputs, i.e. they coincide with the specification (`fromStream`, `forId`). -/
import PyodaProofs.C20Bounds
import PyodaProofs.C03

namespace Pyoda.C20
open Pyoda Pyoda.Codec

/-- all failure kinds of `r` satisfy `S` -/
structure Kinds {α} (S : PyExc → Prop) (r : R α) : Prop where
  out : ∀ e, r = .error e → S e

theorem Kinds.ok {α} (S : PyExc → Prop) (a : α) : Kinds S (.ok a : R α) := ⟨by intro e h; cases h⟩
theorem Kinds.error {α} (S : PyExc → Prop) (e : PyExc) (h : S e) : Kinds S (.error e : R α) :=
  ⟨by intro e' h'; cases h'; exact h⟩
theorem Kinds.bind {α β} {S : PyExc → Prop} {x : R α} {f : α → R β} (hx : Kinds S x) (hf : ∀ a, Kinds S (f a)) :
    Kinds S (x >>= f) := by
  constructor
  intro e h
  cases x with
  | error e' => cases h; exact hx.out _ rfl
  | ok a => exact (hf a).out e h
theorem Kinds.mono {α} {S T : PyExc → Prop} {r : R α} (h : Kinds S r) (hst : ∀ e, S e → T e) : Kinds T r :=
  ⟨fun e he => hst e (h.out e he)⟩
theorem Kinds.ite {α} {S : PyExc → Prop} {c : Prop} [Decidable c] {a b : R α} (ha : Kinds S a) (hb : Kinds S b) :
    Kinds S (if c then a else b) := by split <;> assumption

/-- the kinds `_from_stream` handles: `InvalidPyodaDataError` itself and its `except` tuple -/
def P6 (e : PyExc) : Prop := e = .invalidData ∨ caughtAtFromStream e = true
/-- the kinds `create_zone` handles -/
def P7 (e : PyExc) : Prop := e = .invalidData ∨ caughtAtCreateZone e = true

theorem P6_P7 (e : PyExc) (h : P6 e) : P7 e := by
  rcases h with h | h
  · exact Or.inl h
  · right; cases e <;> simp_all [caughtAtFromStream, caughtAtCreateZone]

/-- step tactic: peel binds / ifs / matches, close leaves that are results or literal errors -/
macro "kinds_step" : tactic => `(tactic| first
  | exact Kinds.ok _ _
  | (apply Kinds.error; first | exact Or.inl rfl | exact Or.inr rfl)
  | assumption
  | (apply Kinds.ite)
  | (refine Kinds.bind (x := _) (f := _) ?_ ?_)
  | intro _
  | split)

theorem readByte_kinds : ∀ bs, Kinds P6 (readByte bs) := by
  intro bs; cases bs <;> simp only [readByte] <;> repeat kinds_step

theorem readVarintAux_kinds : ∀ bs acc shift, Kinds P6 (readVarintAux bs acc shift) := by
  intro bs
  induction bs with
  | nil => intro _ _; simp only [readVarintAux]; repeat kinds_step
  | cons b t ih =>
    intro acc shift
    simp only [readVarintAux]
    split
    · exact Kinds.ok _ _
    · exact ih _ _

theorem readCount_kinds (bs : Bytes) : Kinds P6 (readCount bs) := by
  unfold readCount readVarint
  have := readVarintAux_kinds bs 0 0
  repeat kinds_step

theorem readSignedCount_kinds (bs : Bytes) : Kinds P6 (readSignedCount bs) := by
  unfold readSignedCount readVarint
  have := readVarintAux_kinds bs 0 0
  repeat kinds_step

theorem readString_kinds (pool : Pool) (bs : Bytes) : Kinds P6 (readString pool bs) := by
  unfold readString
  have := readCount_kinds bs
  repeat kinds_step

theorem readN_kinds {α} (f : Bytes → R (α × Bytes)) (hf : ∀ bs, Kinds P6 (f bs)) : ∀ n bs, Kinds P6 (readN f n bs) := by
  intro n
  induction n with
  | zero => intro bs; exact Kinds.ok _ _
  | succ n ih =>
    intro bs
    simp only [readN]
    have h1 := hf bs
    apply Kinds.bind h1
    intro a
    apply Kinds.bind (ih _)
    intro _
    exact Kinds.ok _ _

macro "kinds1_step" : tactic => `(tactic| first
  | exact readByte_kinds _ | exact readCount_kinds _ | exact readSignedCount_kinds _ | exact readString_kinds _ _
  | (apply readN_kinds; intro _)
  | kinds_step)
macro "kinds1" : tactic => `(tactic| repeat kinds1_step)

/-! ## everything `_from_stream` runs -/

theorem readDictionary_kinds (pool : Pool) (bs : Bytes) : Kinds P6 (readDictionary pool bs) := by
  unfold readDictionary readDictionaryEntries
  kinds1

theorem readMapZone_kinds (pool : Pool) (bs : Bytes) : Kinds P6 (readMapZone pool bs) := by
  unfold readMapZone
  kinds1

theorem readWindowsZones_kinds (pool : Pool) (bs : Bytes) : Kinds P6 (readWindowsZones pool bs) := by
  unfold readWindowsZones
  repeat (first | exact readMapZone_kinds _ _ | kinds1_step)

theorem readZoneLocation_kinds (pool : Pool) (bs : Bytes) : Kinds P6 (readZoneLocation pool bs) := by
  unfold readZoneLocation
  kinds1

theorem readCountry_kinds (pool : Pool) (bs : Bytes) : Kinds P6 (readCountry pool bs) := by
  unfold readCountry
  kinds1

theorem readZone1970Location_kinds (pool : Pool) (bs : Bytes) : Kinds P6 (readZone1970Location pool bs) := by
  unfold readZone1970Location
  repeat (first | exact readCountry_kinds _ _ | kinds1_step)

theorem checkSingle_kinds {α} (o : Option α) : Kinds P6 (checkSingle o) := by unfold checkSingle; kinds1
theorem checkPool_kinds (b : Builder) : Kinds P6 (checkPool b) := by unfold checkPool; kinds1

theorem handleField_kinds (b : Builder) (id : Nat) (data : Bytes) : Kinds P6 (handleField b id data) := by
  unfold handleField
  repeat (first
    | exact checkSingle_kinds _ | exact checkPool_kinds _ | exact readDictionary_kinds _ _ | exact readWindowsZones_kinds _ _
    | exact readZoneLocation_kinds _ _ | exact readZone1970Location_kinds _ _ | kinds1_step)

theorem streamDataOfBuilder_kinds (b : Builder) : Kinds P6 (streamDataOfBuilder b) := by
  unfold streamDataOfBuilder
  kinds1

/-- with `fuel ≥ length` the framing loop never reports the defensive out-of-fuel kind -/
theorem readFields_kinds (fuel : Nat) : ∀ (b : Builder) (bs : Bytes), bs.length ≤ fuel → Kinds P6 (readFields fuel b bs) := by
  induction fuel with
  | zero =>
    intro b bs h
    have : bs = [] := by cases bs with | nil => rfl | cons _ _ => simp at h
    subst this
    exact Kinds.ok _ _
  | succ fuel ih =>
    intro b bs h
    cases bs with
    | nil => exact Kinds.ok _ _
    | cons id r =>
      simp only [readFields]
      apply Kinds.ite
      · exact Kinds.error _ _ (Or.inr rfl)
      · constructor
        intro e he
        cases hc : readCount r with
        | error e' =>
          rw [hc] at he
          cases he
          exact (readCount_kinds r).out _ hc
        | ok p =>
          obtain ⟨len, r1⟩ := p
          rw [hc] at he
          simp only [bind, Except.bind] at he
          cases ht : takeExact len.toNat r1 with
          | none => rw [ht] at he; cases he; exact Or.inl rfl
          | some q =>
            obtain ⟨data, r2⟩ := q
            rw [ht] at he
            simp only at he
            cases hh : handleField b id data with
            | error e' => rw [hh] at he; cases he; exact (handleField_kinds b id data).out _ hh
            | ok b' =>
              rw [hh] at he
              simp only at he
              have h1 := readCount_progress r len r1 hc
              have h2 := takeExact_length _ _ _ _ ht
              simp only [List.length_cons] at h
              exact (ih b' r2 (by omega)).out e he

theorem fromStreamBody_kinds (bytes : Bytes) : Kinds P6 (fromStreamBody bytes) := by
  unfold fromStreamBody
  split
  · apply Kinds.ite
    · exact Kinds.error _ _ (Or.inl rfl)
    · apply Kinds.bind
      · exact readFields_kinds _ _ _ (Nat.le_refl _)
      · intro b; exact streamDataOfBuilder_kinds b
  · exact Kinds.error _ _ (Or.inr rfl)

/-- the entry point as written returns a result or `invalidData`: its `except` tuple misses nothing -/
theorem fromStreamRaw_eq_spec (bytes : Bytes) : fromStreamRaw bytes = fromStream bytes := by
  unfold fromStream fromStreamRaw translate toInvalidData
  cases h : fromStreamBody bytes with
  | ok d => rfl
  | error e =>
    simp only
    rcases (fromStreamBody_kinds bytes).out e h with h1 | h1
    · subst h1; rfl
    · simp [h1]

/-! ## everything `create_zone` runs -/

theorem readByte_k7 (bs : Bytes) : Kinds P7 (readByte bs) := (readByte_kinds bs).mono P6_P7
theorem readCount_k7 (bs : Bytes) : Kinds P7 (readCount bs) := (readCount_kinds bs).mono P6_P7
theorem readSignedCount_k7 (bs : Bytes) : Kinds P7 (readSignedCount bs) := (readSignedCount_kinds bs).mono P6_P7
theorem readString_k7 (pool : Pool) (bs : Bytes) : Kinds P7 (readString pool bs) := (readString_kinds pool bs).mono P6_P7

theorem checkRange_k7 (v lo hi : Int) : Kinds P7 (checkRange v lo hi) := by
  unfold checkRange; repeat kinds_step

macro "k7_step" : tactic => `(tactic| first
  | exact readByte_k7 _ | exact readCount_k7 _ | exact readSignedCount_k7 _ | exact readString_k7 _ _
  | exact checkRange_k7 _ _ _
  | kinds_step)

theorem readInt16_k7 (bs : Bytes) : Kinds P7 (readInt16 bs) := by unfold readInt16; repeat k7_step
theorem readInt32_k7 (bs : Bytes) : Kinds P7 (readInt32 bs) := by
  unfold readInt32; repeat (first | exact readInt16_k7 _ | k7_step)
theorem readInt64_k7 (bs : Bytes) : Kinds P7 (readInt64 bs) := by
  unfold readInt64; repeat (first | exact readInt32_k7 _ | k7_step)
theorem readMilliseconds_k7 (bs : Bytes) : Kinds P7 (readMilliseconds bs) := by
  unfold readMilliseconds; repeat (first | exact readInt16_k7 _ | k7_step)

theorem offsetCtor_k7 (s : Int) : Kinds P7 (Offset.ctor s) := by unfold Offset.ctor; repeat k7_step
theorem offsetFromSeconds_k7 (s : Int) : Kinds P7 (Offset.fromSeconds s) := by
  unfold Offset.fromSeconds; repeat (first | exact offsetCtor_k7 _ | k7_step)
theorem offsetAdd_k7 (a b : Offset) : Kinds P7 (Offset.add a b) := offsetFromSeconds_k7 _

theorem offsetFromMilliseconds_k7 (ms : Int) : Kinds P7 (Offset.fromMilliseconds ms) := by
  unfold Offset.fromMilliseconds
  constructor
  intro e h
  rw [checkRange_bind_err] at h
  rcases h with ⟨_, rfl⟩ | ⟨hr, h⟩
  · exact Or.inr rfl
  · rw [pyTdiv_bind _ _ _ (by decide) (by unfold decBound; omega) (by unfold decBound; omega) (by decide) (by decide)] at h
    exact (offsetCtor_k7 _).out e h

theorem readOffset_k7 (bs : Bytes) : Kinds P7 (readOffset bs) := by
  unfold readOffset; repeat (first | exact readMilliseconds_k7 _ | exact offsetFromMilliseconds_k7 _ | k7_step)

theorem durCtor_k7 (d n : Int) : Kinds P7 (Duration.ctor d n) := by unfold Duration.ctor; repeat k7_step
theorem durAdd_k7 (a b : Duration) : Kinds P7 (Duration.add a b) := by
  unfold Duration.add; repeat (first | exact durCtor_k7 _ _ | k7_step)
theorem fromUntrusted_k7 (d : Duration) : Kinds P7 (Instant.fromUntrusted d) := by
  unfold Instant.fromUntrusted; repeat k7_step
theorem instantPlus_k7 (i : Instant) (d : Duration) : Kinds P7 (Instant.plus i d) := by
  unfold Instant.plus; repeat (first | exact durAdd_k7 _ _ | exact fromUntrusted_k7 _ | k7_step)

theorem fromHours_k7 (n : Int) : Kinds P7 (Duration.fromHours n) :=
  ⟨fun e h => by have := C03.fromUnits_error_kind .hours n e h; subst this; exact Or.inr rfl⟩
theorem fromMinutes_k7 (n : Int) : Kinds P7 (Duration.fromMinutes n) :=
  ⟨fun e h => by have := C03.fromUnits_error_kind .minutes n e h; subst this; exact Or.inr rfl⟩

theorem fromTicks_k7 (t : Int) : Kinds P7 (Duration.fromTicks t) := by
  unfold Duration.fromTicks
  constructor
  intro e h
  rw [checkRange_bind_err] at h
  rcases h with ⟨_, rfl⟩ | ⟨hr, h⟩
  · exact Or.inr rfl
  · exfalso
    unfold Duration.ticksToDaysAndTickOfDay at h
    by_cases ht : t ≥ 0
    · simp only [ht, if_true, bind, Except.bind] at h
      cases h
    · simp only [ht, if_false] at h
      simp only [Duration.MIN_DAYS, Duration.MAX_DAYS, TPD] at hr
      rw [pyTdiv_bind _ _ _ (by decide) (by unfold decBound; omega) (by unfold decBound; omega) (by decide) (by decide)] at h
      simp only [bind, Except.bind] at h
      cases h

theorem fromUnixTicks_k7 (t : Int) : Kinds P7 (Instant.fromUnixTicks t) := by
  unfold Instant.fromUnixTicks; repeat (first | exact fromTicks_k7 _ | k7_step)

theorem readRawTransition_k7 (r : Bytes) : Kinds P7 (readRawTransition r) := by
  unfold readRawTransition; repeat (first | exact readInt64_k7 _ | exact fromUnixTicks_k7 _ | k7_step)
theorem readHoursTransition_k7 (p : Option Instant) (v : Int) (r : Bytes) : Kinds P7 (readHoursTransition p v r) := by
  unfold readHoursTransition; repeat (first | exact fromHours_k7 _ | exact instantPlus_k7 _ _ | k7_step)
theorem readMinutesTransition_k7 (v : Int) (r : Bytes) : Kinds P7 (readMinutesTransition v r) := by
  unfold readMinutesTransition; repeat (first | exact fromMinutes_k7 _ | exact instantPlus_k7 _ _ | k7_step)
theorem readTransition_k7 (p : Option Instant) (bs : Bytes) : Kinds P7 (readTransition p bs) := by
  unfold readTransition readTransitionBody
  repeat (first | exact readRawTransition_k7 _ | exact readHoursTransition_k7 _ _ _ | exact readMinutesTransition_k7 _ _ | k7_step)

theorem verifyFieldValue_k7 (lo hi v : Int) (b : Bool) : Kinds P7 (verifyFieldValue lo hi v b) := by
  unfold verifyFieldValue; repeat k7_step
theorem localTimeFromMillis_k7 (ms : Int) : Kinds P7 (localTimeFromMillis ms) := by
  unfold localTimeFromMillis; repeat k7_step
theorem yearOffsetCtor_k7 (m : TransitionMode) (a b c : Int) (d : Bool) (t : Int) (e : Bool) :
    Kinds P7 (yearOffsetCtor m a b c d t e) := by
  unfold yearOffsetCtor
  simp only [bind, Except.bind, pure, Except.pure]
  constructor
  intro e' h
  repeat' split at h
  all_goals first
    | (cases h; done)
    | (rename_i hv; cases h; exact (verifyFieldValue_k7 _ _ _ _).out _ hv)
theorem readYearOffset_k7 (bs : Bytes) : Kinds P7 (readYearOffset bs) := by
  unfold readYearOffset
  repeat (first | exact readMilliseconds_k7 _ | exact localTimeFromMillis_k7 _ | exact yearOffsetCtor_k7 _ _ _ _ _ _ _ | k7_step)

theorem alternatingMapCtor_k7 (o : Offset) (a b : ZoneRecurrence) : Kinds P7 (alternatingMapCtor o a b) := by
  unfold alternatingMapCtor
  simp only
  repeat k7_step
theorem readAlternatingMap_k7 (pool : Pool) (bs : Bytes) : Kinds P7 (readAlternatingMap pool bs) := by
  unfold readAlternatingMap
  repeat (first | exact readOffset_k7 _ | exact readYearOffset_k7 _ | exact alternatingMapCtor_k7 _ _ _ | k7_step)

theorem zoneIntervalCtor_k7 (n : Str) (a b : Instant) (w s : Offset) : Kinds P7 (zoneIntervalCtor n a b w s) := by
  unfold zoneIntervalCtor; repeat k7_step

theorem readPeriods_k7 (pool : Pool) : ∀ n start bs, Kinds P7 (readPeriods pool n start bs) := by
  intro n
  induction n with
  | zero => intro _ _; exact Kinds.ok _ _
  | succ n ih =>
    intro start bs
    simp only [readPeriods]
    repeat (first | exact ih _ _ | exact readOffset_k7 _ | exact readTransition_k7 _ _ | exact zoneIntervalCtor_k7 _ _ _ _ _ | k7_step)

theorem readPrecalculatedData_k7 (pool : Pool) (id : Str) (bs : Bytes) : Kinds P7 (readPrecalculatedData pool id bs) := by
  unfold readPrecalculatedData
  repeat (first | exact readPeriods_k7 _ _ _ _ | exact readTransition_k7 _ _ | exact readAlternatingMap_k7 _ _ | k7_step)

theorem readFixed_k7 (pool : Pool) (id : Str) (bs : Bytes) : Kinds P7 (readFixed pool id bs) := by
  unfold readFixed
  repeat (first | exact readOffset_k7 _ | k7_step)

/-! ## the constructors (tail rules) -/

theorem localDate_k7 (y m d : Int) : Kinds P7 (localDate y m d) := by unfold localDate; repeat k7_step
theorem plusDaysSmall_k7 (a k : Int) : Kinds P7 (plusDaysSmall a k) := by unfold plusDaysSmall; repeat k7_step
theorem occurrenceForYear_k7 (yo : ZoneYearOffset) (y : Int) : Kinds P7 (occurrenceForYear yo y) := by
  unfold occurrenceForYear
  repeat (first | exact localDate_k7 _ _ _ | exact plusDaysSmall_k7 _ _ | k7_step)
theorem ruleOffset_k7 (yo : ZoneYearOffset) (a b : Offset) : Kinds P7 (ruleOffset yo a b) := by
  unfold ruleOffset; repeat (first | exact offsetAdd_k7 _ _ | k7_step)
theorem recMinLocal_k7 (z : ZoneRecurrence) : Kinds P7 (recMinLocal z) := by
  unfold recMinLocal; repeat (first | exact occurrenceForYear_k7 _ _ | k7_step)
theorem recMaxLocal_k7 (z : ZoneRecurrence) : Kinds P7 (recMaxLocal z) := by
  unfold recMaxLocal; repeat (first | exact occurrenceForYear_k7 _ _ | k7_step)

theorem plusSmallNanos_k7 (a : Duration) (s : Int) : Kinds P7 (Duration.plusSmallNanos a s) := by
  unfold Duration.plusSmallNanos; repeat (first | exact durCtor_k7 _ _ | k7_step)
theorem minusSmallNanos_k7 (a : Duration) (s : Int) : Kinds P7 (Duration.minusSmallNanos a s) := by
  unfold Duration.minusSmallNanos; simp only; repeat (first | exact durCtor_k7 _ _ | k7_step)
theorem ofDuration_k7 (d : Duration) : Kinds P7 (LocalInstant.ofDuration d) := by
  unfold LocalInstant.ofDuration; repeat k7_step
theorem plusOffset_k7 (i : Instant) (o : Offset) : Kinds P7 (Instant.plusOffset i o) := by
  unfold Instant.plusOffset; repeat (first | exact plusSmallNanos_k7 _ _ | exact ofDuration_k7 _ | k7_step)
theorem safePlus_k7 (i : Instant) (o : Offset) : Kinds P7 (Instant.safePlus i o) := by
  unfold Instant.safePlus; simp only
  repeat (first | exact plusOffset_k7 _ _ | exact plusSmallNanos_k7 _ _ | k7_step)
theorem liMinus_k7 (l : LocalInstant) (o : Offset) : Kinds P7 (LocalInstant.minus l o) := by
  unfold LocalInstant.minus; repeat (first | exact minusSmallNanos_k7 _ _ | exact fromUntrusted_k7 _ | k7_step)
theorem safeMinus_k7 (l : LocalInstant) (o : Offset) : Kinds P7 (LocalInstant.safeMinus l o) := by
  unfold LocalInstant.safeMinus; simp only
  repeat (first | exact liMinus_k7 _ _ | exact minusSmallNanos_k7 _ _ | k7_step)

macro "k8_step" : tactic => `(tactic| first
  | exact occurrenceForYear_k7 _ _ | exact ruleOffset_k7 _ _ _ | exact recMinLocal_k7 _ | exact recMaxLocal_k7 _
  | exact safePlus_k7 _ _ | exact safeMinus_k7 _ _ | exact offsetAdd_k7 _ _ | exact zoneIntervalCtor_k7 _ _ _ _ _
  | k7_step)

theorem recNext_k7 (z : ZoneRecurrence) (i : Instant) (a b : Offset) : Kinds P7 (recNext z i a b) := by
  unfold recNext; repeat k8_step
theorem recPrevGo_k7 (z : ZoneRecurrence) (r n : Offset) (i : Instant) (y : Int) :
    Kinds P7 (recPreviousOrSame.go z r n i y) := by
  unfold recPreviousOrSame.go; repeat k8_step
theorem recPreviousOrSame_k7 (z : ZoneRecurrence) (i : Instant) (a b : Offset) : Kinds P7 (recPreviousOrSame z i a b) := by
  unfold recPreviousOrSame; repeat (first | exact recPrevGo_k7 _ _ _ _ _ | k8_step)
theorem orFail_k7 (r : R (Option Transition)) (h : Kinds P7 r) : Kinds P7 (orFail r) := by
  unfold orFail; repeat k8_step
theorem mapNextTransition_k7 (m : AlternatingMap) (i : Instant) : Kinds P7 (mapNextTransition m i) := by
  unfold mapNextTransition
  repeat (first | (apply orFail_k7) | exact recNext_k7 _ _ _ _ | exact recPreviousOrSame_k7 _ _ _ _ | k8_step)
theorem mapGetZoneInterval_k7 (m : AlternatingMap) (i : Instant) : Kinds P7 (mapGetZoneInterval m i) := by
  unfold mapGetZoneInterval
  repeat (first | exact mapNextTransition_k7 _ _ | (apply orFail_k7) | exact recPreviousOrSame_k7 _ _ _ _ | k8_step)
theorem mapOffsetsOk_k7 (m : AlternatingMap) : Kinds P7 (mapOffsetsOk m) := by unfold mapOffsetsOk; repeat k8_step

theorem adjoining_k7 : ∀ l, Kinds P7 (validatePeriods.adjoining l) := by
  intro l
  induction l with
  | nil => unfold validatePeriods.adjoining; exact Kinds.ok _ _
  | cons a t ih =>
    cases t with
    | nil => unfold validatePeriods.adjoining; exact Kinds.ok _ _
    | cons b r =>
      unfold validatePeriods.adjoining
      repeat (first | exact ih | k8_step)
theorem validatePeriods_k7 (l : List ZoneInterval) (t : Bool) : Kinds P7 (validatePeriods l t) := by
  unfold validatePeriods
  repeat (first | exact adjoining_k7 _ | k8_step)
theorem tailZoneStart_k7 (z : PrecalculatedZone) : Kinds P7 z.tailZoneStart := by
  unfold PrecalculatedZone.tailZoneStart; repeat k8_step

theorem precalculatedCtor_k7 (z : PrecalculatedZone) : Kinds P7 (precalculatedCtor z) := by
  unfold precalculatedCtor
  simp only [throw, throwThe, MonadExceptOf.throw, pure, Except.pure]
  repeat (first | exact mapOffsetsOk_k7 _ | exact tailZoneStart_k7 _ | exact mapGetZoneInterval_k7 _ _
                | exact validatePeriods_k7 _ _ | k8_step)

theorem readPrecalculated_k7 (pool : Pool) (id : Str) (bs : Bytes) : Kinds P7 (readPrecalculated pool id bs) := by
  unfold readPrecalculated
  repeat (first | exact readPrecalculatedData_k7 _ _ _ | exact precalculatedCtor_k7 _ | k8_step)

theorem createZoneRaw_k7 (pool : Pool) (id : Str) (f : Bytes) : Kinds P7 (createZoneRaw pool id f) := by
  unfold createZoneRaw
  repeat (first | exact readFixed_k7 _ _ _ | exact readPrecalculated_k7 _ _ _ | k8_step)

theorem createZoneBody_k7 (d : StreamData) (id c : Str) : Kinds P7 (createZoneBody d id c) := by
  unfold createZoneBody
  repeat (first | exact createZoneRaw_k7 _ _ _ | k8_step)

/-- `create_zone` as written returns a result or `invalidData`: its `except` tuple misses nothing -/
theorem createZone_documented (d : StreamData) (id c : Str) :
    createZone d id c = toInvalidData (createZoneBody d id c) := by
  unfold createZone translate toInvalidData
  cases h : createZoneBody d id c with
  | ok z => rfl
  | error e =>
    simp only
    rcases (createZoneBody_k7 d id c).out e h with h1 | h1
    · subst h1; rfl
    · simp [h1]

theorem dictGet_of_mem (m : List (Str × Str)) (id : Str) (h : id ∈ m.map (·.1)) : ∃ c, dictGet? m id = some c := by
  unfold dictGet?
  obtain ⟨e, he, hid⟩ := List.mem_map.mp h
  cases hf : m.find? (fun x => decide (x.1 = id)) with
  | none =>
    exfalso
    have := List.find?_eq_none.mp hf e he
    simp [hid] at this
  | some x => exact ⟨x.2, rfl⟩

/-- for an id that `get_ids()` lists, `for_id` as written is the specified `for_id` -/
theorem forIdRaw_eq_spec (d : StreamData) (id : Str) (h : id ∈ getIds d) : forIdRaw d id = forId d id := by
  unfold forId forIdRaw
  obtain ⟨c, hc⟩ := dictGet_of_mem d.idMap id h
  simp only [hc]
  rw [createZone_documented]
  unfold toInvalidData
  cases createZoneBody d id c <;> rfl

theorem fetchAll_congr (f g : Str → R ZoneValue) : ∀ (ids : List Str), (∀ id ∈ ids, f id = g id) → fetchAll f ids = fetchAll g ids := by
  intro ids
  induction ids with
  | nil => intro _; rfl
  | cons a t ih =>
    intro h
    unfold fetchAll
    rw [h a List.mem_cons_self, ih (fun id hid => h id (List.mem_cons_of_mem _ hid))]

/-- load + list + fetch-all as the code is written coincides with the specification, for ALL byte strings -/
theorem loadAndUseRaw_eq_spec (bytes : Bytes) : loadAndUseRaw bytes = loadAndUse bytes := by
  unfold loadAndUseRaw loadAndUse
  rw [fromStreamRaw_eq_spec]
  cases fromStream bytes with
  | error e => rfl
  | ok d =>
    simp only [bind, Except.bind]
    exact fetchAll_congr _ _ _ (fun id hid => forIdRaw_eq_spec d id hid)

end Pyoda.C20
