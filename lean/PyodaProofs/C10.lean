/-
  C10 — time-of-day and local date-time arithmetic is exact and carries correctly.
  Property theorems; helper lemmas live in PyodaProofs.C10Lemmas / Basic.
  `Valid t`: the LocalTime invariant 0 ≤ nanosecond-of-day < 24 h.
-/
import PyodaModel.TimeOfDay
import PyodaProofs.Basic
import PyodaProofs.C10Lemmas

namespace Pyoda.C10
open Pyoda Pyoda.LocalTime Pyoda.TimeUnit

/-! ### factories -/

/-- every factory either raises or yields a time inside [0, 24h) that is exactly the combination of its
    (in-range) arguments -/
theorem localTime_inv_factories :
    (∀ h m s ms t, LocalTime.new h m s ms = .ok t →
      Valid t ∧ t.nod = ((h * 60 + m) * 60 + s) * NPS + ms * NPMs ∧ HMS h m s ∧ 0 ≤ ms ∧ ms ≤ 999) ∧
    (∀ h m s ms tk t, fromHMSMsT h m s ms tk = .ok t →
      Valid t ∧ t.nod = ((h * 60 + m) * 60 + s) * NPS + ms * NPMs + tk * NPT ∧ HMS h m s ∧ 0 ≤ ms ∧ ms ≤ 999
        ∧ 0 ≤ tk ∧ tk ≤ 9999) ∧
    (∀ h m s tk t, fromHMST h m s tk = .ok t →
      Valid t ∧ t.nod = ((h * 60 + m) * 60 + s) * NPS + tk * NPT ∧ HMS h m s ∧ 0 ≤ tk ∧ tk < TPS) ∧
    (∀ h m s n t, fromHMSN h m s n = .ok t →
      Valid t ∧ t.nod = ((h * 60 + m) * 60 + s) * NPS + n ∧ HMS h m s ∧ 0 ≤ n ∧ n < NPS) ∧
    (∀ n t, fromNanosSinceMidnight n = .ok t → Valid t ∧ t.nod = n) ∧
    (∀ v t, fromTicksSinceMidnight v = .ok t → Valid t ∧ t.nod = v * NPT) ∧
    (∀ v t, fromMillisecondsSinceMidnight v = .ok t → Valid t ∧ t.nod = v * NPMs) ∧
    (∀ v t, fromSecondsSinceMidnight v = .ok t → Valid t ∧ t.nod = v * NPS) ∧
    (∀ v t, fromMinutesSinceMidnight v = .ok t → Valid t ∧ t.nod = v * NPMin) ∧
    (∀ v t, fromHoursSinceMidnight v = .ok t → Valid t ∧ t.nod = v * NPH) := by
  refine ⟨?_, ?_, ?_, ?_, ?_, ?_, ?_, ?_, ?_, ?_⟩
  · intro h m s ms t hk; exact new_exact h m s ms t hk
  · intro h m s ms tk t hk; exact fromHMSMsT_exact h m s ms tk t hk
  · intro h m s tk t hk; exact fromHMST_exact h m s tk t hk
  · intro h m s n t hk; exact fromHMSN_exact h m s n t hk
  · intro n t hk; exact fromNanos_exact n t hk
  · intro v t hk; exact since_exact v TPD NPT t (by decide) (by decide) (by decide) hk
  · intro v t hk; exact since_exact v MsPD NPMs t (by decide) (by decide) (by decide) hk
  · intro v t hk; exact since_exact v SPD NPS t (by decide) (by decide) (by decide) hk
  · intro v t hk; exact since_exact v MinPD NPMin t (by decide) (by decide) (by decide) hk
  · intro v t hk; exact since_exact v HPD NPH t (by decide) (by decide) (by decide) hk

/-- the factories raise exactly when an argument is outside its documented range, and then ValueError -/
theorem factories_raise_iff :
    (∀ h m s ms, (∃ e, LocalTime.new h m s ms = .error e) ↔ ¬ (HMS h m s ∧ 0 ≤ ms ∧ ms ≤ 999)) ∧
    (∀ h m s ms tk, (∃ e, fromHMSMsT h m s ms tk = .error e) ↔
        ¬ (HMS h m s ∧ 0 ≤ ms ∧ ms ≤ 999 ∧ 0 ≤ tk ∧ tk ≤ 9999)) ∧
    (∀ h m s tk, (∃ e, fromHMST h m s tk = .error e) ↔ ¬ (HMS h m s ∧ 0 ≤ tk ∧ tk < TPS)) ∧
    (∀ h m s n, (∃ e, fromHMSN h m s n = .error e) ↔ ¬ (HMS h m s ∧ 0 ≤ n ∧ n < NPS)) ∧
    (∀ n, (∃ e, fromNanosSinceMidnight n = .error e) ↔ ¬ (0 ≤ n ∧ n < NPD)) ∧
    (∀ v perDay npu, (∃ e, fromUnitsSinceMidnight v perDay npu = .error e) ↔ ¬ (0 ≤ v ∧ v < perDay)) ∧
    (∀ h m s ms e, LocalTime.new h m s ms = .error e → e = .valueError) := by
  refine ⟨new_raises_iff, fromHMSMsT_raises_iff, fromHMST_raises_iff, fromHMSN_raises_iff,
    fromNanos_raises_iff, since_raises_iff, new_error_kind⟩

/-! ### accessors -/

/-- the shifted forms `tdiv(n >> 13, 439453125)` and `tdiv(n >> 11, 29296875)` are plain division by an hour /
    a minute on [0, 24h) -/
theorem hour_shift_eq (n : Int) (h0 : 0 ≤ n) (h1 : n < NPD) : Int.tdiv (n >>> 13) 439453125 = n / NPH := by
  c10_consts
  rw [shr13]
  simp (disch := decide) only [tdiv_pos]
  split <;> omega

theorem minute_shift_eq (n : Int) (h0 : 0 ≤ n) (h1 : n < NPD) : Int.tdiv (n >>> 11) 29296875 = n / NPMin := by
  c10_consts
  rw [shr11]
  simp (disch := decide) only [tdiv_pos]
  split <;> omega

/-- On a valid time every accessor succeeds and together they decompose the nanosecond-of-day exactly. -/
theorem accessors_decompose (t : LocalTime) (hv : Valid t) :
    ∃ h m s ns : Int,
      t.hour = .ok h ∧ t.minute = .ok m ∧ t.second = .ok s ∧ t.nanosecondOfSecond = ns ∧
      t.millisecond = .ok (ns / 1000000) ∧ t.microsecond = .ok (ns / 1000) ∧ t.tickOfSecond = .ok (ns / 100) ∧
      t.tickOfDay = .ok (t.nod / 100) ∧ t.nanosecondOfDay = t.nod ∧
      t.clockHourOfHalfDay = .ok (if h % 12 = 0 then 12 else h % 12) ∧
      t.nod = ((h * 60 + m) * 60 + s) * NPS + ns ∧
      0 ≤ h ∧ h < 24 ∧ 0 ≤ m ∧ m < 60 ∧ 0 ≤ s ∧ s < 60 ∧ 0 ≤ ns ∧ ns < NPS := by
  refine ⟨t.nod / NPH, t.nod / NPMin % 60, t.nod / NPS % 60, t.nod % NPS, hour_eq t hv, minute_eq t hv,
    second_eq t hv, nanosecondOfSecond_eq t hv, ?_, ?_, ?_, ?_, rfl, clockHour_eq t hv, ?_⟩
  · rw [millisecond_eq t hv]; simp only [Valid] at hv; c10_consts; simp only [Except.ok.injEq]; omega
  · rw [microsecond_eq t hv]; simp only [Valid] at hv; c10_consts; simp only [Except.ok.injEq]; omega
  · rw [tickOfSecond_eq t hv]; simp only [Valid] at hv; c10_consts; simp only [Except.ok.injEq]; omega
  · rw [tickOfDay_eq t hv]; simp only [NPT]
  · simp only [Valid] at hv; c10_consts; omega

/-! ### LocalTime arithmetic -/

/-- `plus_hours` … `plus_nanoseconds` wrap modulo 24 hours, for every integer amount. -/
theorem addLocalTime_mod (u : TimeUnit) (t : LocalTime) (k : Int) (hv : Valid t) :
    (u.addLocalTime t k).nod = (t.nod + k * u.nanos) % NPD := by
  simp only [Valid] at *
  cases u <;>
  · simp only [addLocalTime, TimeUnit.nanos, TimeUnit.unitsPerDay]
    c10_consts
    simp (disch := decide) only [csharpMod_pos]
    grind

theorem addLocalTime_valid (u : TimeUnit) (t : LocalTime) (k : Int) (hv : Valid t) : Valid (u.addLocalTime t k) := by
  have h := addLocalTime_mod u t k hv
  simp only [Valid] at *
  rw [h]; c10_consts; omega

/-- `LocalTime + Period` (time units only) wraps the exact sum modulo 24 hours. -/
theorem plusPeriod_time_mod (t : LocalTime) (p : TimePeriod) (hv : Valid t) :
    (t.plusPeriod p).nod = (t.nod + p.hours * NPH + p.minutes * NPMin + p.seconds * NPS + p.milliseconds * NPMs
      + p.ticks * NPT + p.nanoseconds) % NPD ∧ Valid (t.plusPeriod p) := by
  unfold LocalTime.plusPeriod
  have v1 := addLocalTime_valid .hours t p.hours hv
  have e1 := addLocalTime_mod .hours t p.hours hv
  have v2 := addLocalTime_valid .minutes _ p.minutes v1
  have e2 := addLocalTime_mod .minutes _ p.minutes v1
  have v3 := addLocalTime_valid .seconds _ p.seconds v2
  have e3 := addLocalTime_mod .seconds _ p.seconds v2
  have v4 := addLocalTime_valid .milliseconds _ p.milliseconds v3
  have e4 := addLocalTime_mod .milliseconds _ p.milliseconds v3
  have v5 := addLocalTime_valid .ticks _ p.ticks v4
  have e5 := addLocalTime_mod .ticks _ p.ticks v4
  have v6 := addLocalTime_valid .nanoseconds _ p.nanoseconds v5
  have e6 := addLocalTime_mod .nanoseconds _ p.nanoseconds v5
  refine ⟨?_, v6⟩
  simp only [TimeUnit.nanos] at *
  rw [e6, e5, e4, e3, e2, e1]
  c10_consts
  omega

/-! ### addition with day carry -/

/-- `_add_local_time_with_extra_days`, for every integer amount: `t + k·unit = days·24h + t'` with `t'` a valid time. -/
theorem addWithDays_exact (u : TimeUnit) (t : LocalTime) (k : Int) (hv : Valid t) :
    Valid (u.addLocalTimeWithExtraDays t k).1 ∧
      t.nod + k * u.nanos = (u.addLocalTimeWithExtraDays t k).2 * NPD + (u.addLocalTimeWithExtraDays t k).1.nod := by
  unfold addLocalTimeWithExtraDays
  split
  · rename_i hk; subst hk; exact ⟨hv, by simp only; omega⟩
  · split
    · rename_i hk; exact pos_branch u t k hv hk
    · rename_i hk; exact neg_branch u t k hv hk

/-! ### LocalDateTime -/

/-- `LocalDateTime.plus_<unit>(k)`, for every integer amount: the result is exactly `k` units later on the local time
    line (day number x 24 h + nanosecond-of-day), its time is valid and its day is inside the calendar. -/
theorem addLocalDateTime_exact (u : TimeUnit) (r : DayRange) (l l' : LocalDateTime) (k : Int)
    (hv : Valid l.time) (hr : InRange r l.day) (h : u.addLocalDateTime r l k = .ok l') :
    Valid l'.time ∧ InRange r l'.day ∧
      l.day * NPD + l.time.nod + k * u.nanos = l'.day * NPD + l'.time.nod := by
  unfold addLocalDateTime at h
  obtain ⟨hv', hx⟩ := addWithDays_exact u l.time k hv
  generalize u.addLocalTimeWithExtraDays l.time k = te at h hv' hx
  obtain ⟨t', d⟩ := te
  simp only at h hv' hx
  by_cases hd : d = 0
  · simp only [hd, if_true, bind, Except.bind, Except.ok.injEq] at h; subst h
    refine ⟨hv', hr, ?_⟩
    simp only [NPD] at *; subst hd; omega
  · simp only [hd, if_false] at h
    cases hp : r.plusDays l.day d with
    | error e => rw [hp] at h; cases h
    | ok nd =>
      rw [hp] at h
      simp only [bind, Except.bind, Except.ok.injEq] at h; subst h
      obtain ⟨h1, h2⟩ := addFixed_ok r 1 l.day d nd hp hr
      refine ⟨hv', h2, ?_⟩
      simp only [NPD] at *; subst h1; omega

/-- For every integer amount `plus_<unit>` raises exactly when the day of the exact result is outside the
    calendar, and then OverflowError or ValueError. -/
theorem addLocalDateTime_raises_iff (u : TimeUnit) (r : DayRange) (l : LocalDateTime) (k : Int)
    (hv : Valid l.time) (hr : InRange r l.day) :
    ((∃ e, u.addLocalDateTime r l k = .error e) ↔
        ¬ InRange r ((l.day * NPD + l.time.nod + k * u.nanos) / NPD)) ∧
    (∀ e, u.addLocalDateTime r l k = .error e → e = .overflowError ∨ e = .valueError) := by
  obtain ⟨hv', hx⟩ := addWithDays_exact u l.time k hv
  unfold addLocalDateTime
  generalize u.addLocalTimeWithExtraDays l.time k = te at hv' hx
  obtain ⟨t', d⟩ := te
  simp only at hv' hx ⊢
  have hq : (l.day * NPD + l.time.nod + k * u.nanos) / NPD = l.day + d := by
    simp only [Valid, NPD] at *; omega
  rw [hq]
  by_cases hd : d = 0
  · simp only [hd, if_true, bind, Except.bind]
    constructor
    · constructor
      · rintro ⟨e, he⟩; cases he
      · intro hn; exact absurd (by simpa using hr) hn
    · intro e he; cases he
  · simp only [hd, if_false]
    cases hp : r.plusDays l.day d with
    | error e =>
      obtain ⟨hnr, hk⟩ := addFixed_err r 1 l.day d e hp
      simp only [Int.mul_one] at hnr
      simp only [bind, Except.bind]
      constructor
      · constructor
        · intro _; exact hnr
        · intro _; exact ⟨e, rfl⟩
      · intro e' he'; simp only [Except.error.injEq] at he'; subst he'; exact hk
    | ok nd =>
      obtain ⟨hnd, hin⟩ := addFixed_ok r 1 l.day d nd hp hr
      simp only [Int.mul_one] at hnd
      simp only [bind, Except.bind]
      constructor
      · constructor
        · rintro ⟨e, he⟩; cases he
        · intro hn; subst hnd; exact absurd hin hn
      · intro e he; cases he

theorem timeSteps_exact (t : LocalTime) (p : TimePeriod) (hv : Valid t) :
    Valid (LocalDateTime.timeSteps t p).1 ∧
      t.nod + p.hours * NPH + p.minutes * NPMin + p.seconds * NPS + p.milliseconds * NPMs
        + p.ticks * NPT + p.nanoseconds
        = (LocalDateTime.timeSteps t p).2 * NPD + (LocalDateTime.timeSteps t p).1.nod := by
  unfold LocalDateTime.timeSteps
  obtain ⟨v1, x1⟩ := addWithDays_exact .hours t p.hours hv
  obtain ⟨v2, x2⟩ := addWithDays_exact .minutes _ p.minutes v1
  obtain ⟨v3, x3⟩ := addWithDays_exact .seconds _ p.seconds v2
  obtain ⟨v4, x4⟩ := addWithDays_exact .milliseconds _ p.milliseconds v3
  obtain ⟨v5, x5⟩ := addWithDays_exact .ticks _ p.ticks v4
  obtain ⟨v6, x6⟩ := addWithDays_exact .nanoseconds _ p.nanoseconds v5
  refine ⟨v6, ?_⟩
  simp only [TimeUnit.nanos] at *
  c10_consts
  omega

/-- `plus(Period)`, for all integer components: weeks, days and all time units are added exactly, with the carry
    into the day number (`d1` is the day reached after the years and months, C09). -/
theorem plusPeriod_exact (r : DayRange) (l l' : LocalDateTime) (d1 : Int) (p : TimePeriod)
    (hv : Valid l.time) (hd1 : InRange r d1) (h : LocalDateTime.plusPeriod r l d1 p = .ok l') :
    Valid l'.time ∧ InRange r l'.day ∧
      (d1 + 7 * p.weeks + p.days) * NPD + l.time.nod + p.hours * NPH + p.minutes * NPMin + p.seconds * NPS
        + p.milliseconds * NPMs + p.ticks * NPT + p.nanoseconds = l'.day * NPD + l'.time.nod := by
  unfold LocalDateTime.plusPeriod at h
  obtain ⟨vt, xt⟩ := timeSteps_exact l.time p hv
  generalize LocalDateTime.timeSteps l.time p = te at h vt xt
  obtain ⟨t', e⟩ := te
  simp only at h vt xt
  obtain ⟨dw, hw, h⟩ := bind_ok_inv _ _ _ h
  obtain ⟨dd, hd, h⟩ := bind_ok_inv _ _ _ h
  simp only [Except.ok.injEq] at h; subst h
  obtain ⟨ew, rw'⟩ := addFixed_ok r 7 d1 p.weeks dw hw hd1
  obtain ⟨ed, rd⟩ := addFixed_ok r 1 dw (p.days + e) dd hd rw'
  refine ⟨vt, rd, ?_⟩
  simp only at *
  c10_consts
  omega

/-- the documented meaning of `plus(Period)` after the years and months: weeks, days, then each time unit in
    turn, every step a complete LocalDateTime operation with its own carry and range check -/
def seqPlus (r : DayRange) (l : LocalDateTime) (d1 : Int) (p : TimePeriod) : R LocalDateTime := do
  let a ← r.plusWeeks d1 p.weeks
  let b ← r.plusDays a p.days
  let l1 ← TimeUnit.hours.addLocalDateTime r ⟨b, l.time⟩ p.hours
  let l2 ← TimeUnit.minutes.addLocalDateTime r l1 p.minutes
  let l3 ← TimeUnit.seconds.addLocalDateTime r l2 p.seconds
  let l4 ← TimeUnit.milliseconds.addLocalDateTime r l3 p.milliseconds
  let l5 ← TimeUnit.ticks.addLocalDateTime r l4 p.ticks
  TimeUnit.nanoseconds.addLocalDateTime r l5 p.nanoseconds

theorem addLocalDateTime_ok_inv (u : TimeUnit) (r : DayRange) (l l' : LocalDateTime) (k : Int)
    (hr : InRange r l.day) (h : u.addLocalDateTime r l k = .ok l') :
    l'.time = (u.addLocalTimeWithExtraDays l.time k).1 ∧
      l'.day = l.day + (u.addLocalTimeWithExtraDays l.time k).2 ∧ InRange r l'.day := by
  unfold addLocalDateTime at h
  generalize u.addLocalTimeWithExtraDays l.time k = te at h ⊢
  obtain ⟨t', d⟩ := te
  simp only at h ⊢
  obtain ⟨nd, hnd, h⟩ := bind_ok_inv _ _ _ h
  simp only [Except.ok.injEq] at h; subst h
  refine ⟨rfl, ?_⟩
  simp only
  by_cases hd : d = 0
  · simp only [hd, if_true, Except.ok.injEq] at hnd; subst hnd; subst hd
    exact ⟨by omega, hr⟩
  · simp only [hd, if_false] at hnd
    obtain ⟨h1, h2⟩ := addFixed_ok r 1 l.day d nd hnd hr
    exact ⟨by omega, h2⟩

/-- Order of application: whenever adding the units one after the other (weeks, days, hours, …, nanoseconds, each a
    complete LocalDateTime operation) succeeds, `plus(Period)` returns the same value.  (The converse fails only
    where an intermediate date leaves the calendar and a later unit brings it back: `plus` folds the day carry of
    the time units into the single `plus_days` call.) -/
theorem plusPeriod_order (r : DayRange) (l x : LocalDateTime) (d1 : Int) (p : TimePeriod)
    (hd1 : InRange r d1) (h : seqPlus r l d1 p = .ok x) : LocalDateTime.plusPeriod r l d1 p = .ok x := by
  unfold seqPlus at h
  obtain ⟨a, ha, h⟩ := bind_ok_inv _ _ _ h
  obtain ⟨b, hb, h⟩ := bind_ok_inv _ _ _ h
  obtain ⟨l1, h1, h⟩ := bind_ok_inv _ _ _ h
  obtain ⟨l2, h2, h⟩ := bind_ok_inv _ _ _ h
  obtain ⟨l3, h3, h⟩ := bind_ok_inv _ _ _ h
  obtain ⟨l4, h4, h⟩ := bind_ok_inv _ _ _ h
  obtain ⟨l5, h5, h6⟩ := bind_ok_inv _ _ _ h
  obtain ⟨ea, ra⟩ := addFixed_ok r 7 d1 p.weeks a ha hd1
  obtain ⟨eb, rb⟩ := addFixed_ok r 1 a p.days b hb ra
  obtain ⟨s1, q1, r1⟩ := addLocalDateTime_ok_inv _ r _ l1 _ rb h1
  obtain ⟨s2, q2, r2⟩ := addLocalDateTime_ok_inv _ r _ l2 _ r1 h2
  obtain ⟨s3, q3, r3⟩ := addLocalDateTime_ok_inv _ r _ l3 _ r2 h3
  obtain ⟨s4, q4, r4⟩ := addLocalDateTime_ok_inv _ r _ l4 _ r3 h4
  obtain ⟨s5, q5, r5⟩ := addLocalDateTime_ok_inv _ r _ l5 _ r4 h5
  obtain ⟨s6, q6, r6⟩ := addLocalDateTime_ok_inv _ r _ x _ r5 h6
  simp only at s1 q1
  have hts : LocalDateTime.timeSteps l.time p = (x.time, x.day - b) := by
    unfold LocalDateTime.timeSteps
    simp only [← s1, ← s2, ← s3, ← s4, ← s5, ← s6]
    refine Prod.ext rfl ?_
    simp only
    omega
  unfold LocalDateTime.plusPeriod
  rw [hts]
  simp only [bind, Except.bind]
  rw [ha]
  simp only
  have hday : x.day = a + (p.days + (x.day - b)) * 1 := by omega
  have := addFixed_inRange r 1 a (p.days + (x.day - b)) ra (by rw [← hday]; exact r6)
  unfold DayRange.plusDays
  rw [this, ← hday]

/-! ### units between, comparison, invariant -/

theorem pyTdiv_ok_inv (x y q : Int) (h : pyTdiv x y = .ok q) : q = Int.tdiv x y := by
  unfold pyTdiv at h
  split at h
  · split at h <;> cases h
  · split at h
    · simp only [Except.ok.injEq] at h; exact h.symm
    · cases h

theorem ctor_ok_inv (d n : Int) (x : Duration) (h : Duration.ctor d n = .ok x) : x = ⟨d, n⟩ := by
  unfold Duration.ctor at h
  split at h
  · cases h
  · simp only [Except.ok.injEq] at h; exact h.symm

theorem sub_toNanos (a b d : Duration) (h : Duration.sub a b = .ok d) : d.toNanos = a.toNanos - b.toNanos := by
  unfold Duration.sub at h
  simp only at h
  split at h <;>
  · have := ctor_ok_inv _ _ _ h
    subst this
    simp only [Duration.toNanos, NPD]; omega

/-- `Period.between(start, end, <one time unit>)`: the difference on the local time line, truncated toward zero. -/
theorem unitsBetween_trunc (u : TimeUnit) (s e : LocalDateTime) (q : Int) (h : u.unitsBetween s e = .ok q) :
    q = Int.tdiv ((e.day - s.day) * NPD + e.time.nod - s.time.nod) u.nanos := by
  unfold unitsBetween at h
  obtain ⟨a, ha, h⟩ := bind_ok_inv _ _ _ h
  obtain ⟨b, hb, h⟩ := bind_ok_inv _ _ _ h
  obtain ⟨d, hd, h⟩ := bind_ok_inv _ _ _ h
  have hq := pyTdiv_ok_inv _ _ _ h
  have := sub_toNanos _ _ _ hd
  have ea := ctor_ok_inv _ _ _ ha
  have eb := ctor_ok_inv _ _ _ hb
  subst ea; subst eb
  rw [hq, this]
  simp only [Duration.toNanos, NPD]
  congr 1
  omega

theorem compare_iff (a b : LocalTime) :
    (a.lt b = true ↔ a.nod < b.nod) ∧ (a.le b = true ↔ a.nod ≤ b.nod) ∧ (a.gt b = true ↔ a.nod > b.nod) ∧
    (a.ge b = true ↔ a.nod ≥ b.nod) ∧ (a.beq b = true ↔ a = b) ∧
    (a.compareTo b < 0 ↔ a.nod < b.nod) ∧ (a.compareTo b = 0 ↔ a = b) := by
  cases a; cases b
  simp only [LocalTime.lt, LocalTime.le, LocalTime.gt, LocalTime.ge, LocalTime.beq, LocalTime.compareTo,
    decide_eq_true_eq, LocalTime.mk.injEq]
  refine ⟨trivial, trivial, trivial, trivial, trivial, ?_, ?_⟩ <;> constructor <;> intro h <;> omega

/-- every operation that returns a time returns one inside [0, 24h) -/
theorem localTime_inv :
    (∀ (u : TimeUnit) t k, Valid t → Valid (u.addLocalTime t k)) ∧
    (∀ (t : LocalTime) p, Valid t → Valid (t.plusPeriod p)) ∧
    (∀ (u : TimeUnit) t k, Valid t → Valid (u.addLocalTimeWithExtraDays t k).1) ∧
    (∀ (u : TimeUnit) r l k l', Valid l.time → InRange r l.day → u.addLocalDateTime r l k = .ok l' → Valid l'.time) ∧
    (∀ r l d1 p l', Valid l.time → InRange r d1 → LocalDateTime.plusPeriod r l d1 p = .ok l' → Valid l'.time) := by
  refine ⟨addLocalTime_valid, fun t p hv => (plusPeriod_time_mod t p hv).2,
    fun u t k hv => (addWithDays_exact u t k hv).1,
    fun u r l k l' hv hr h => (addLocalDateTime_exact u r l l' k hv hr h).1,
    fun r l d1 p l' hv hr h => (plusPeriod_exact r l l' d1 p hv hr h).1⟩

/-! satisfiability of the hypotheses on concrete, non-trivial values -/
example : TimeUnit.hours.addLocalDateTime ⟨-4371222, 2932896⟩ ⟨2932896, ⟨82800000000000⟩⟩ 1 = .error .overflowError := by decide
example : TimeUnit.minutes.addLocalDateTime ⟨-4371222, 2932896⟩ ⟨0, ⟨0⟩⟩ (-1441) = .ok ⟨-2, ⟨86340000000000⟩⟩ := by decide
example : (TimeUnit.hours.addLocalTime ⟨3600000000000⟩ (-25)).nod = 0 := by decide
example : LocalDateTime.plusPeriod ⟨-4371222, 2932896⟩ ⟨0, ⟨0⟩⟩ 0 ⟨1, 1, 25, 0, 0, 0, 0, -1⟩ = .ok ⟨9, ⟨3599999999999⟩⟩ := by decide
example : seqPlus ⟨-4371222, 2932896⟩ ⟨0, ⟨0⟩⟩ 0 ⟨1, 1, 25, 0, 0, 0, 0, -1⟩ = .ok ⟨9, ⟨3599999999999⟩⟩ := by decide

end Pyoda.C10
