/-
  C10 — time-of-day and local date-time arithmetic is exact and carries correctly.
  Property theorems; helper lemmas live in PyodaProofs.C10Lemmas / Basic.
  `Valid t`: the LocalTime invariant 0 ≤ nanosecond-of-day < 24 h.
-/
import PyodaModel.TimeOfDay
import PyodaProofs.Basic
import PyodaProofs.C10Lemmas

namespace Pyoda.C10
open Pyoda Pyoda.LocalTime Pyoda.TimeUnit

/-! ### factories -/

/-- every factory either raises or yields a time inside [0, 24h) that is exactly the combination of its
    (in-range) arguments -/
theorem localTime_inv_factories :
    (∀ h m s ms t, LocalTime.new h m s ms = .ok t →
      Valid t ∧ t.nod = ((h * 60 + m) * 60 + s) * NPS + ms * NPMs ∧ HMS h m s ∧ 0 ≤ ms ∧ ms ≤ 999) ∧
    (∀ h m s ms tk t, fromHMSMsT h m s ms tk = .ok t →
      Valid t ∧ t.nod = ((h * 60 + m) * 60 + s) * NPS + ms * NPMs + tk * NPT ∧ HMS h m s ∧ 0 ≤ ms ∧ ms ≤ 999
        ∧ 0 ≤ tk ∧ tk ≤ 9999) ∧
    (∀ h m s tk t, fromHMST h m s tk = .ok t →
      Valid t ∧ t.nod = ((h * 60 + m) * 60 + s) * NPS + tk * NPT ∧ HMS h m s ∧ 0 ≤ tk ∧ tk < TPS) ∧
    (∀ h m s n t, fromHMSN h m s n = .ok t →
      Valid t ∧ t.nod = ((h * 60 + m) * 60 + s) * NPS + n ∧ HMS h m s ∧ 0 ≤ n ∧ n < NPS) ∧
    (∀ n t, fromNanosSinceMidnight n = .ok t → Valid t ∧ t.nod = n) ∧
    (∀ v t, fromTicksSinceMidnight v = .ok t → Valid t ∧ t.nod = v * NPT) ∧
    (∀ v t, fromMillisecondsSinceMidnight v = .ok t → Valid t ∧ t.nod = v * NPMs) ∧
    (∀ v t, fromSecondsSinceMidnight v = .ok t → Valid t ∧ t.nod = v * NPS) ∧
    (∀ v t, fromMinutesSinceMidnight v = .ok t → Valid t ∧ t.nod = v * NPMin) ∧
    (∀ v t, fromHoursSinceMidnight v = .ok t → Valid t ∧ t.nod = v * NPH) := by
  refine ⟨?_, ?_, ?_, ?_, ?_, ?_, ?_, ?_, ?_, ?_⟩
  · intro h m s ms t hk; exact new_exact h m s ms t hk
  · intro h m s ms tk t hk; exact fromHMSMsT_exact h m s ms tk t hk
  · intro h m s tk t hk; exact fromHMST_exact h m s tk t hk
  · intro h m s n t hk; exact fromHMSN_exact h m s n t hk
  · intro n t hk; exact fromNanos_exact n t hk
  · intro v t hk; exact since_exact v TPD NPT t (by decide) (by decide) (by decide) hk
  · intro v t hk; exact since_exact v MsPD NPMs t (by decide) (by decide) (by decide) hk
  · intro v t hk; exact since_exact v SPD NPS t (by decide) (by decide) (by decide) hk
  · intro v t hk; exact since_exact v MinPD NPMin t (by decide) (by decide) (by decide) hk
  · intro v t hk; exact since_exact v HPD NPH t (by decide) (by decide) (by decide) hk

/-- the factories raise exactly when an argument is outside its documented range, and then ValueError -/
theorem factories_raise_iff :
    (∀ h m s ms, (∃ e, LocalTime.new h m s ms = .error e) ↔ ¬ (HMS h m s ∧ 0 ≤ ms ∧ ms ≤ 999)) ∧
    (∀ h m s ms tk, (∃ e, fromHMSMsT h m s ms tk = .error e) ↔
        ¬ (HMS h m s ∧ 0 ≤ ms ∧ ms ≤ 999 ∧ 0 ≤ tk ∧ tk ≤ 9999)) ∧
    (∀ h m s tk, (∃ e, fromHMST h m s tk = .error e) ↔ ¬ (HMS h m s ∧ 0 ≤ tk ∧ tk < TPS)) ∧
    (∀ h m s n, (∃ e, fromHMSN h m s n = .error e) ↔ ¬ (HMS h m s ∧ 0 ≤ n ∧ n < NPS)) ∧
    (∀ n, (∃ e, fromNanosSinceMidnight n = .error e) ↔ ¬ (0 ≤ n ∧ n < NPD)) ∧
    (∀ v perDay npu, (∃ e, fromUnitsSinceMidnight v perDay npu = .error e) ↔ ¬ (0 ≤ v ∧ v < perDay)) ∧
    (∀ h m s ms e, LocalTime.new h m s ms = .error e → e = .valueError) := by
  refine ⟨new_raises_iff, fromHMSMsT_raises_iff, fromHMST_raises_iff, fromHMSN_raises_iff,
    fromNanos_raises_iff, since_raises_iff, new_error_kind⟩

end Pyoda.C10
