/-
  C07 (generic engine) — format-then-parse for ANY pattern of the numeric step language.
  `stepped_roundtrip`: for every culture record, every list of steps made of literals, padded numeric fields,
  fractions (`f`, `F`, `.F`, `;F`), `;`, and signs, every value (seen through its accessors) that the fields can
  hold, parsing the text the steps wrote gives back, slot by slot, what the accessors returned — provided the
  pattern is `Delimited` (decidable, syntactic): each variable-width numeric field is followed by a literal that
  does not start with a digit (or ends the pattern), a truncating fraction is not written right after a `.`, an
  optional fraction is not followed by `.`/`,`, a negative-only sign is not followed by a literal `-`/`+`.
  Text steps (am/pm designators, month and day names) are outside this theorem.
-/
import PyodaModel.Text.Buckets
import PyodaModel.Text.Delimited
import PyodaProofs.TextIsoLemmas
import PyodaProofs.C07
import PyodaProofs.C07Text

namespace Pyoda.C07
open Pyoda Pyoda.Text

/-! ## one step: what it writes -/

/-- the text a numeric field writes: the digits of |v| padded to `count`, after `-` for a negative value -/
def numOut (count : Nat) (v : Int) : Text :=
  if v ≥ 0 then leftPadNonNeg v.toNat count else '-' :: leftPadNonNeg (-v).toNat count

/-- what the value must satisfy for a numeric field (count, maxCount, minV, maxV) -/
structure NumOK (count maxCount : Nat) (minV maxV v : Int) : Prop where
  lo : minV ≤ v
  hi : v ≤ maxV
  c1 : 1 ≤ count
  c2 : count ≤ maxCount
  c3 : maxCount ≤ 9 ∨ 0 ≤ minV
  abs : v.natAbs < 10 ^ maxCount

theorem pow_le_1e9 (n : Nat) (h : n ≤ 9) : 10 ^ n ≤ 1000000000 := by
  have : 10 ^ n ≤ 10 ^ 9 := Nat.pow_le_pow_right (by decide) h
  simpa using this

theorem formatNum_eq (count maxCount : Nat) (minV maxV v : Int) (h : NumOK count maxCount minV maxV v) :
    formatNum count maxCount minV v = numOut count v := by
  obtain ⟨lo, hi, c1, c2, c3, habs⟩ := h
  have hb : 0 ≤ minV ∨ 10 ^ maxCount ≤ 1000000000 := by
    rcases c3 with h | h
    · right; exact pow_le_1e9 maxCount h
    · left; exact h
  unfold formatNum numOut
  by_cases hv : v ≥ 0
  · rw [if_pos hv]
    have p (n : Nat) : padSigned v n = leftPadNonNeg v.toNat n := by unfold padSigned; rw [if_pos hv]
    split
    · rename_i hc; obtain ⟨rfl, _, _⟩ := hc; unfold format2; exact p 2
    · split
      · rename_i hc; obtain ⟨rfl, _⟩ := hc
        unfold format4; rw [if_neg (by omega)]; exact p 4
      · split
        · unfold leftPadFill; rw [if_pos hv]
        · unfold leftPad; rw [if_pos hv]
  · rw [if_neg hv]
    have hneg : minV < 0 := by omega
    have hm : ¬ (minV ≥ 0) := by omega
    split
    · rename_i hc; exact absurd hc.2.1 hm
    · split
      · rename_i hc; obtain ⟨rfl, _⟩ := hc
        unfold format4; rw [if_pos (by omega)]
        unfold padSigned; rw [if_pos (by omega)]
      · unfold leftPad
        rw [if_neg hv, if_neg (by omega)]

theorem leftPad_head_digit (n count : Nat) (tail : Text) (hc : 1 ≤ count) :
    ∃ c l, leftPadNonNeg n count ++ tail = c :: l ∧ isDigit c = true := by
  unfold leftPadNonNeg
  exact padN_head_isDigit _ _ _ (by have := Nat.le_max_left count (numDigits n); omega)

/-- parse action of a numeric field on what its format action wrote -/
theorem parseField_numOut (count maxCount : Nat) (minV maxV v : Int) (tail : Text)
    (h : NumOK count maxCount minV maxV v)
    (hd : count = maxCount ∨ NoDigitHead tail) :
    parseField count maxCount minV maxV (numOut count v ++ tail) = some (v, tail) := by
  obtain ⟨lo, hi, c1, c2, c3, habs⟩ := h
  have width (n : Nat) (hn : n < 10 ^ maxCount) :
      parseDigits count maxCount (leftPadNonNeg n count ++ tail) = some (n, tail) := by
    have hnd : numDigits n ≤ maxCount := numDigits_le n maxCount (by omega) hn
    apply parseDigits_leftPad
    · exact Nat.le_max_left _ _
    · exact Nat.max_le.mpr ⟨c2, hnd⟩
    · rcases hd with rfl | hd
      · left; exact Nat.le_antisymm (Nat.max_le.mpr ⟨Nat.le_refl _, hnd⟩) (Nat.le_max_left _ _)
      · right; exact hd
  unfold numOut parseField
  by_cases hv : v ≥ 0
  · rw [if_pos hv]
    obtain ⟨c, l, e, hc⟩ := leftPad_head_digit v.toNat count tail c1
    have hm : matchChar '-' (leftPadNonNeg v.toNat count ++ tail) = none := by
      rw [e]; unfold matchChar
      have : c ≠ '-' := by intro h; subst h; rw [isDigit_dash] at hc; cases hc
      simp [this]
    rw [hm]
    simp only [Option.isSome_none, Bool.false_eq_true, if_false, false_and]
    rw [width v.toNat (by omega)]
    have h2 : ¬ (((v.toNat : Nat) : Int) < minV ∨ ((v.toNat : Nat) : Int) > maxV) := by omega
    simp only [h2, if_false]
    congr 2; omega
  · rw [if_neg hv]
    rw [List.cons_append, matchChar_self]
    have hm : ¬ (minV ≥ 0) := by omega
    simp only [Option.isSome_some, if_true, List.tail_cons, hm, and_false, if_false]
    rw [width (-v).toNat (by omega)]
    have h2 : ¬ (-(((-v).toNat : Nat) : Int) < minV ∨ -(((-v).toNat : Nat) : Int) > maxV) := by omega
    simp only [h2, if_false]
    congr 2; omega

/-! ## fractions -/

/-- the digits a truncating fraction writes (none for an all-zero fraction) -/
def truncOut (v : Int) (count scale : Nat) : Text := appendFractionTruncate v count scale []

theorem leftPadNonNeg_ne_nil (n len : Nat) : leftPadNonNeg n len ≠ [] := by
  intro h
  have hl : (leftPadNonNeg n len).length = Nat.max len (numDigits n) := by
    simp [leftPadNonNeg, length_padN]
  rw [h] at hl
  have h1 : 1 ≤ numDigits n := numDigitsAux_pos n n
  have h2 : numDigits n ≤ Nat.max len (numDigits n) := Nat.le_max_right _ _
  have h3 : Nat.max len (numDigits n) = 0 := by simpa using hl.symm
  rw [h3] at h2
  exact absurd (Nat.le_trans h1 h2) (by decide)

theorem padSigned_ne_nil (v : Int) (n : Nat) : padSigned v n ≠ [] := by
  unfold padSigned; split
  · exact leftPadNonNeg_ne_nil _ _
  · simp

/-- `_append_fraction_truncate` on any buffer, in terms of the digits it writes -/
theorem appendFractionTruncate_buf (v : Int) (count scale : Nat) (buf : Text) :
    appendFractionTruncate v count scale buf =
      if truncOut v count scale = [] then (if buf.getLast? = some '.' then buf.dropLast else buf)
      else buf ++ truncOut v count scale := by
  unfold truncOut appendFractionTruncate
  dsimp only
  by_cases hp : (stripZeros count (iterTdiv10 (scale - count) v)).2 > 0
  · simp only [hp, if_true, List.nil_append]
    rw [if_neg (padSigned_ne_nil _ _)]
  · simp only [hp, if_false, List.getLast?_nil, List.dropLast_nil]
    simp

structure FracOK (count scale : Nat) (v : Int) : Prop where
  nonneg : 0 ≤ v
  lt : v.toNat < 10 ^ scale
  c1 : 1 ≤ count
  c2 : count ≤ scale
  rep : v.toNat % 10 ^ (scale - count) = 0

/-- the digits of a truncating fraction are read back exactly (any minimum of at most one digit) -/
theorem truncOut_cases (count scale : Nat) (v : Int) (h : FracOK count scale v) (tail : Text) (hd : NoDigitHead tail) :
    (v = 0 ∧ truncOut v count scale = []) ∨
    (v ≠ 0 ∧ truncOut v count scale ≠ [] ∧ ∀ m, m ≤ 1 →
        parseFraction count scale m (truncOut v count scale ++ tail) = some (v.toNat, tail)) := by
  obtain ⟨h0, hlt, c1, c2, hrep⟩ := h
  obtain ⟨n, rfl⟩ : ∃ n : Nat, v = (n : Int) := ⟨v.toNat, by omega⟩
  simp only [Int.toNat_natCast] at hlt hrep ⊢
  have hv' : n = n / 10 ^ (scale - count) * 10 ^ (scale - count) := by
    have := Nat.div_add_mod n (10 ^ (scale - count))
    rw [hrep, Nat.mul_comm] at this
    simp at this; exact this.symm
  unfold truncOut
  rcases appendFractionTruncate_spec n count scale (n / 10 ^ (scale - count)) [] c2 hlt rfl with
    ⟨hr0, e⟩ | ⟨r', k, hk1, hk2, hrr, hnz, hlt', e⟩
  · left
    refine ⟨by rw [hv', hr0]; simp, ?_⟩
    rw [e]; simp
  · right
    have hvr : n = r' * 10 ^ (scale - k) := by
      rw [hv', hrr, Nat.mul_assoc, ← Nat.pow_add]; congr 2; omega
    have hr'pos : r' ≠ 0 := by intro h; rw [h] at hnz; simp at hnz
    have hvne : n ≠ 0 := by
      intro h; rw [h] at hvr
      have hp : 0 < 10 ^ (scale - k) := Nat.pow_pos (by decide)
      have : 0 < r' * 10 ^ (scale - k) := Nat.mul_pos (by omega) hp
      omega
    refine ⟨by omega, ?_, ?_⟩
    · rw [e]; intro h; have := congrArg List.length h; simp [length_padN] at this; omega
    · intro m hm
      rw [e, List.nil_append]
      unfold parseFraction
      have hl : ¬ (padN k r' ++ tail).length < m := by simp [length_padN]; omega
      rw [if_neg hl, scanDigits_padN k r' count tail hlt' hk2 (Or.inr hd)]
      have : ¬ k < m := by omega
      simp only [this, if_false]
      rw [← hvr]

/-! ## the text a step writes and the slot it sets -/

def dotOut (v : Int) (count scale : Nat) : Text :=
  if truncOut v count scale = [] then [] else '.' :: truncOut v count scale

def outStep (cu : Culture) (used : Nat) (get : Getter) : Step → Text
  | .lit s => s
  | .num g _ count _ _ _ => numOut count (get g)
  | .frac count scale fixed =>
    if fixed then appendFraction (get .fraction) count scale else truncOut (get .fraction) count scale
  | .dotFrac count scale _ => dotOut (get .fraction) count scale
  | .semi => ['.']
  | .signRequired => [if get .sign = 0 then '+' else '-']
  | .signNegativeOnly => if get .sign = 0 then [] else ['-']
  | .amPm count => formatAmPm cu count (get .hours24)
  | .monthText count => (monthTable cu count (genitiveOf used)).getD (get .monthNum).toNat []
  | .dayText count => (dayTable cu count).getD (get .dayOfWeek).toNat []
  | .era => eraPrimary cu (get .era)
  | .eraC _ => eraPrimaryOf cu (get .era)
  | .calendar => idOfOrd (get .calendar)

/-- the bucket after the step's parse action read back what its format action wrote -/
def setStep (cu : Culture) (get : Getter) (b : Bucket) : Step → Bucket
  | .num g st _ _ _ _ => b.set st (get g)
  | .frac _ _ _ => b.set .fraction (get .fraction)
  | .dotFrac count scale _ =>
    if truncOut (get .fraction) count scale = [] then b else b.set .fraction (get .fraction)
  | .signRequired => b.set .sign (get .sign)
  | .signNegativeOnly => b.set .sign (get .sign)
  | .amPm _ => b.set .amPm (amPmValue cu (get .hours24))
  | .monthText _ => b.set .monthText (get .monthNum)
  | .dayText _ => b.set .dayOfWeek (get .dayOfWeek)
  | .era => b.set .era (get .era)
  | .eraC _ => b.set .era (get .era)
  | .calendar => b.set .calendar (get .calendar)
  | _ => b

def headIsNot (c : Char) (l : Text) : Prop := l.head? ≠ some c

/-- the conditions under which a step round-trips: the value fits the field (`NumOK`, `FracOK`, sign 0/1) and
    the following text `tail` / the buffer `buf` so far do not interfere -/
def StepOK (cu : Culture) (used : Nat) (get : Getter) (buf tail : Text) : Step → Prop
  | .lit _ => True
  | .num g _ count maxCount minV maxV =>
    NumOK count maxCount minV maxV (get g) ∧ (count = maxCount ∨ NoDigitHead tail)
  | .frac count scale fixed =>
    FracOK count scale (get .fraction) ∧
      (fixed = false → NoDigitHead tail ∧ (get .fraction = 0 → buf.getLast? ≠ some '.'))
  | .dotFrac count scale comma =>
    FracOK count scale (get .fraction) ∧ NoDigitHead tail ∧
      (get .fraction = 0 → headIsNot '.' tail ∧ (comma = true → headIsNot ',' tail))
  | .semi => True
  | .signRequired => get .sign = 0 ∨ get .sign = 1
  | .signNegativeOnly => (get .sign = 0 ∨ get .sign = 1) ∧ (get .sign = 0 → headIsNot '-' tail ∧ headIsNot '+' tail)
  | .amPm count =>
    (0 ≤ get .hours24 ∧ get .hours24 ≤ 23) ∧ amPmOK cu count = true ∧ tailSafe (lowC cu) (amPmDanger cu count) tail = true
  | .monthText count =>
    (1 ≤ get .monthNum ∧ get .monthNum ≤ 12) ∧ monthNamesOK cu count (genitiveOf used) = true ∧
      tailSafe (lowC cu) (monthDanger cu count (genitiveOf used)) tail = true
  | .dayText count =>
    (1 ≤ get .dayOfWeek ∧ get .dayOfWeek ≤ 7) ∧ dayNamesOK cu count = true ∧ tailSafe (lowC cu) (dayDanger cu count) tail = true
  | .era => (get .era = 0 ∨ get .era = 1) ∧ eraOK cu = true ∧ tailSafe (lowC cu) (eraDanger cu) tail = true
  | .eraC cal => get .era = eraIdOfCal cal ∧ eraCOK cu cal = true ∧ tailSafe (lowC cu) (eraCDanger cu cal) tail = true
  | .calendar => 0 ≤ get .calendar ∧ get .calendar ≤ 18

theorem matchChar_none_of_head (c : Char) (l : Text) (h : headIsNot c l) : matchChar c l = none := by
  unfold matchChar
  cases l with
  | nil => rfl
  | cons d r =>
    have : d ≠ c := by intro e; subst e; exact h rfl
    simp [this]

theorem matchText_append (s tail : Text) : matchText s (s ++ tail) = some tail := by
  unfold matchText; simp

theorem parseFraction_nothing (count scale : Nat) (tail : Text) (hd : NoDigitHead tail) :
    parseFraction count scale 0 tail = some (0, tail) := by
  unfold parseFraction
  rw [if_neg (Nat.not_lt_zero _), scanDigits_stop count 0 0 tail (Or.inr hd)]
  simp

theorem matchDotOrComma_dot (comma : Bool) (l : Text) : matchDotOrComma comma ('.' :: l) = some l := by
  unfold matchDotOrComma; rw [matchChar_self]

theorem matchDotOrComma_none (comma : Bool) (l : Text) (h1 : headIsNot '.' l) (h2 : comma = true → headIsNot ',' l) :
    matchDotOrComma comma l = none := by
  unfold matchDotOrComma
  rw [matchChar_none_of_head '.' l h1]
  cases comma with
  | false => rfl
  | true => simp only [if_true]; exact matchChar_none_of_head ',' l (h2 rfl)

/-- **one step**: its format action appends `outStep`, and its parse action reads that text back, leaving the
    following text and setting the step's slot to what the accessor returned -/
theorem step_roundtrip (cu : Culture) (used : Nat) (get : Getter) (b : Bucket) (buf tail : Text) (s : Step)
    (h : StepOK cu used get buf tail s) :
    formatStep cu used get buf s = .ok (buf ++ outStep cu used get s) ∧
    parseStep cu (outStep cu used get s ++ tail) b s = .ok (some (setStep cu get b s, tail)) := by
  cases s with
  | lit t =>
    simp only [formatStep, parseStep, outStep, setStep, matchText_append, and_self]
  | num g st count maxCount minV maxV =>
    obtain ⟨hn, hd⟩ := h
    simp only [formatStep, parseStep, outStep, setStep, formatNum_eq count maxCount minV maxV (get g) hn,
      parseField_numOut count maxCount minV maxV (get g) tail hn hd, and_self]
  | frac count scale fixed =>
    obtain ⟨hf, hx⟩ := h
    obtain ⟨n, hn⟩ : ∃ n : Nat, get .fraction = (n : Int) := ⟨(get .fraction).toNat, by have := hf.nonneg; omega⟩
    have hlt := hf.lt; have hrep := hf.rep
    rw [hn] at hlt hrep; simp only [Int.toNat_natCast] at hlt hrep
    cases fixed with
    | true =>
      simp only [formatStep, parseStep, outStep, setStep, if_true, true_and]
      rw [hn, parseFraction_appendFraction_exact n count scale tail hf.c1 hf.c2 hlt hrep]
    | false =>
      obtain ⟨hd, hbuf⟩ := hx rfl
      simp only [formatStep, parseStep, outStep, setStep, Bool.false_eq_true, if_false]
      rw [appendFractionTruncate_buf]
      rcases truncOut_cases count scale (get .fraction) hf tail hd with ⟨hz, e⟩ | ⟨hnz, e, hp⟩
      · rw [e, if_pos rfl, if_neg (hbuf hz), List.append_nil, List.nil_append, parseFraction_nothing count scale tail hd, hz]
        simp
      · rw [if_neg e, hp 0 (by decide), hn]
        simp
  | dotFrac count scale comma =>
    obtain ⟨hf, hd, hx⟩ := h
    obtain ⟨n, hn⟩ : ∃ n : Nat, get .fraction = (n : Int) := ⟨(get .fraction).toNat, by have := hf.nonneg; omega⟩
    simp only [formatStep, parseStep, outStep, setStep, dotOut]
    rw [appendFractionTruncate_buf]
    rcases truncOut_cases count scale (get .fraction) hf tail hd with ⟨hz, e⟩ | ⟨hnz, e, hp⟩
    · obtain ⟨h1, h2⟩ := hx hz
      rw [e]
      simp only [if_true, List.getLast?_append, List.getLast?_singleton, List.nil_append, List.append_nil,
        List.dropLast_concat, matchDotOrComma_none comma tail h1 h2]
      simp
    · rw [if_neg e, if_neg e, if_neg e, List.cons_append, matchDotOrComma_dot]
      simp only [hp 1 (Nat.le_refl _)]
      rw [hn]
      simp
  | semi =>
    simp only [formatStep, parseStep, outStep, setStep, List.cons_append, List.nil_append, matchDotOrComma_dot, and_self]
  | signRequired =>
    rcases h with h | h
    · have e1 : matchChar '-' ('+' :: tail) = none := by simp [matchChar]
      simp only [formatStep, parseStep, outStep, setStep, h, if_true, List.cons_append, List.nil_append, e1, matchChar_self, and_self]
    · have : ¬ ((1 : Int) = 0) := by decide
      simp only [formatStep, parseStep, outStep, setStep, h, this, if_false, List.cons_append, List.nil_append, matchChar_self, and_self]
  | signNegativeOnly =>
    obtain ⟨h01, hx⟩ := h
    rcases h01 with h | h
    · obtain ⟨h1, h2⟩ := hx h
      simp only [formatStep, parseStep, outStep, setStep, h, if_true, List.nil_append, List.append_nil,
        matchChar_none_of_head '-' tail h1, matchChar_none_of_head '+' tail h2, and_self]
    · have : ¬ ((1 : Int) = 0) := by decide
      simp only [formatStep, parseStep, outStep, setStep, h, this, if_false, List.cons_append, List.nil_append, matchChar_self, and_self]
  | amPm count =>
    obtain ⟨⟨h0, h1⟩, hok, hs⟩ := h
    exact amPm_roundtrip cu used get b buf tail count h0 h1 hok hs
  | monthText count =>
    obtain ⟨⟨h1, h2⟩, hok, hs⟩ := h
    obtain ⟨K, hK⟩ : ∃ K : Nat, get .monthNum = (K : Int) := ⟨(get .monthNum).toNat, by omega⟩
    obtain ⟨a, ha, hn⟩ := monthNamesOK_at cu count (genitiveOf used) hok K (by omega) (by omega)
    have hd := monthDanger_at cu count (genitiveOf used) K (by omega) (by omega) a ha
    have hs' := tailSafe_subset _ _ tail hd hs
    have ho : outStep cu used get (.monthText count) = a := by
      simp only [outStep, hK, Int.toNat_natCast, List.getD, ha, Option.getD_some]
    rw [ho, setStep, hK]
    exact monthText_roundtrip cu used get b buf tail count K a hK ha hn hs'
  | dayText count =>
    obtain ⟨⟨h1, h2⟩, hok, hs⟩ := h
    obtain ⟨K, hK⟩ : ∃ K : Nat, get .dayOfWeek = (K : Int) := ⟨(get .dayOfWeek).toNat, by omega⟩
    obtain ⟨a, ha, hn⟩ := dayNamesOK_at cu count hok K (by omega) (by omega)
    have hd := dayDanger_at cu count K (by omega) (by omega) a ha
    have hs' := tailSafe_subset _ _ tail hd hs
    have ho : outStep cu used get (.dayText count) = a := by
      simp only [outStep, hK, Int.toNat_natCast, List.getD, ha, Option.getD_some]
    rw [ho, setStep, hK]
    exact dayText_roundtrip cu used get b buf tail count K a hK ha hn hs'
  | era =>
    obtain ⟨he, hok, hs⟩ := h
    exact era_roundtrip cu used get b buf tail he hok hs
  | eraC cal =>
    obtain ⟨he, hok, hs⟩ := h
    exact eraC_roundtrip cu used get b buf tail cal he hok hs
  | calendar => exact calendar_roundtrip cu used get b buf tail h

/-! ## a list of steps -/

def outSteps (cu : Culture) (used : Nat) (get : Getter) : List Step → Text
  | [] => []
  | s :: ss => outStep cu used get s ++ outSteps cu used get ss

/-- `project`: the bucket after all parse actions — every slot a step sets holds what the accessor returned -/
def setSteps (cu : Culture) (get : Getter) (b : Bucket) : List Step → Bucket
  | [] => b
  | s :: ss => setSteps cu get (setStep cu get b s) ss

/-- the per-step conditions along the list: each step against the text the following steps write -/
def StepsOK (cu : Culture) (used : Nat) (get : Getter) : Text → List Step → Text → Prop
  | _, [], _ => True
  | buf, s :: ss, rest => StepOK cu used get buf (outSteps cu used get ss ++ rest) s ∧ StepsOK cu used get (buf ++ outStep cu used get s) ss rest

/-- composition: the format actions write `outSteps`, the parse actions read it back, slot by slot -/
theorem steps_roundtrip (cu : Culture) (used : Nat) (get : Getter) : ∀ (ss : List Step) (buf rest : Text) (b : Bucket),
    StepsOK cu used get buf ss rest →
    formatSteps cu used get ss buf = .ok (buf ++ outSteps cu used get ss) ∧
    parseSteps cu ss (outSteps cu used get ss ++ rest) b = .ok (some (setSteps cu get b ss, rest)) := by
  intro ss
  induction ss with
  | nil => intro buf rest b _; simp [formatSteps, parseSteps, outSteps, setSteps]
  | cons s ss ih =>
    intro buf rest b h
    obtain ⟨h1, h2⟩ := h
    obtain ⟨f1, p1⟩ := step_roundtrip cu used get b buf (outSteps cu used get ss ++ rest) s h1
    obtain ⟨f2, p2⟩ := ih (buf ++ outStep cu used get s) rest (setStep cu get b s) h2
    constructor
    · simp only [formatSteps, f1, f2, outSteps, List.append_assoc]
    · simp only [parseSteps, outSteps, List.append_assoc, p1, p2, setSteps]

/-! ## the syntactic criterion -/

/-- what the value must satisfy, step by step (field ranges; fraction representable in the digits written) -/
def ValOK (get : Getter) : Step → Prop
  | .lit _ => True
  | .semi => True
  | .num g _ count maxCount minV maxV => NumOK count maxCount minV maxV (get g)
  | .frac count scale _ => FracOK count scale (get .fraction)
  | .dotFrac count scale _ => FracOK count scale (get .fraction)
  | .signRequired => get .sign = 0 ∨ get .sign = 1
  | .signNegativeOnly => get .sign = 0 ∨ get .sign = 1
  | .amPm _ => 0 ≤ get .hours24 ∧ get .hours24 ≤ 23
  | .monthText _ => 1 ≤ get .monthNum ∧ get .monthNum ≤ 12
  | .dayText _ => 1 ≤ get .dayOfWeek ∧ get .dayOfWeek ≤ 7
  | .era => get .era = 0 ∨ get .era = 1
  | .eraC cal => get .era = eraIdOfCal cal
  | .calendar => 0 ≤ get .calendar ∧ get .calendar ≤ 18

theorem digitChar_ne_dot (d : Nat) : digitChar d ≠ '.' := by
  unfold digitChar
  have key : ∀ k, k < 10 → Char.ofNat (48 + k) ≠ '.' := by decide
  exact key _ (Nat.mod_lt _ (by decide))

theorem getLast?_leftPadNonNeg (n len : Nat) : (leftPadNonNeg n len).getLast? = some (digitChar (n % 10)) := by
  unfold leftPadNonNeg
  have h1 : 1 ≤ numDigits n := numDigitsAux_pos n n
  have h2 : numDigits n ≤ Nat.max len (numDigits n) := Nat.le_max_right _ _
  obtain ⟨w, hw⟩ : ∃ w, max len (numDigits n) = w + 1 := ⟨max len (numDigits n) - 1, by
    have : 1 ≤ max len (numDigits n) := Nat.le_trans h1 h2
    omega⟩
  rw [hw, getLast?_padN_succ]

theorem getLast?_append_ne_nil (a b : Text) (h : b ≠ []) : (a ++ b).getLast? = b.getLast? := by
  cases b with
  | nil => exact absurd rfl h
  | cons x xs =>
    rw [List.getLast?_append]
    cases hx : (x :: xs).getLast? with
    | none => simp at hx
    | some y => rfl

theorem numOut_last (count : Nat) (v : Int) : ∃ d, (numOut count v).getLast? = some (digitChar d) ∧ numOut count v ≠ [] := by
  unfold numOut
  split
  · exact ⟨_, getLast?_leftPadNonNeg _ _, leftPadNonNeg_ne_nil _ _⟩
  · refine ⟨(-v).toNat % 10, ?_, by simp⟩
    have := getLast?_append_ne_nil ['-'] (leftPadNonNeg (-v).toNat count) (leftPadNonNeg_ne_nil _ _)
    rw [List.singleton_append] at this
    rw [this, getLast?_leftPadNonNeg]

def NoDotEnd (l : Text) : Prop := l.getLast? ≠ some '.'

/-- the buffer invariant behind `lastSafe` -/
theorem lastSafe_sound (cu : Culture) (used : Nat) (get : Getter) (safe : Bool) (buf : Text) (s : Step) (hv : ValOK get s)
    (hb : safe = true → NoDotEnd buf) (hs : lastSafe safe s = true) : NoDotEnd (buf ++ outStep cu used get s) := by
  unfold NoDotEnd
  cases s with
  | lit t =>
    simp only [lastSafe] at hs
    simp only [outStep]
    by_cases ht : t = []
    · subst ht; simp only [if_true] at hs; have := hb hs; unfold NoDotEnd at this; simpa using this
    · rw [if_neg ht] at hs
      rw [getLast?_append_ne_nil buf t ht]
      simpa using hs
  | num g st count maxCount minV maxV =>
    simp only [outStep]
    obtain ⟨d, e, hne⟩ := numOut_last count (get g)
    rw [getLast?_append_ne_nil _ _ hne, e]
    intro h; injection h with h; exact digitChar_ne_dot d h
  | frac count scale fixed =>
    simp only [lastSafe] at hs; subst hs
    simp only [outStep, if_true]
    obtain ⟨n, hn⟩ : ∃ n : Nat, get .fraction = (n : Int) := ⟨(get .fraction).toNat, by have := hv.nonneg; omega⟩
    have hlt := hv.lt
    rw [hn] at hlt ⊢; simp only [Int.toNat_natCast] at hlt
    rw [appendFraction_eq n count scale hv.c1 hv.c2 hlt]
    obtain ⟨c, hc⟩ : ∃ c, count = c + 1 := ⟨count - 1, by have := hv.c1; omega⟩
    have hne : padN count (n / 10 ^ (scale - count)) ≠ [] := by
      intro h; have := congrArg List.length h; simp [length_padN] at this; omega
    rw [getLast?_append_ne_nil _ _ hne, hc, getLast?_padN_succ]
    intro h; injection h with h; exact digitChar_ne_dot _ h
  | signRequired =>
    simp only [outStep]
    rw [getLast?_append_ne_nil _ _ (by simp)]
    split <;> simp
  | signNegativeOnly =>
    simp only [lastSafe] at hs
    simp only [outStep]
    split
    · have := hb hs; unfold NoDotEnd at this; simpa using this
    · rw [getLast?_append_ne_nil _ _ (by simp)]; simp
  | dotFrac _ _ _ => simp [lastSafe] at hs
  | semi => simp [lastSafe] at hs
  | amPm _ => simp [lastSafe] at hs
  | monthText _ => simp [lastSafe] at hs
  | dayText _ => simp [lastSafe] at hs
  | era => simp [lastSafe] at hs
  | eraC _ => simp [lastSafe] at hs
  | calendar => simp [lastSafe] at hs

/-- what `follow` promises about the text the following steps write -/
theorem follow_sound (cu : Culture) (used : Nat) (get : Getter) (ss : List Step) (hv : ∀ s ∈ ss, ValOK get s) :
    match follow ss with
    | .stop => outSteps cu used get ss = []
    | .char c => (outSteps cu used get ss).head? = some c
    | .digit => ∃ d, (outSteps cu used get ss).head? = some d ∧ isDigit d = true
    | .dotOr none => outSteps cu used get ss = [] ∨ (outSteps cu used get ss).head? = some '.'
    | .dotOr (some c) => (outSteps cu used get ss).head? = some c ∨ (outSteps cu used get ss).head? = some '.'
    | .unknown => True := by
  cases ss with
  | nil => simp [follow, outSteps]
  | cons s ss =>
    cases s with
    | lit t =>
      cases t with
      | nil => simp [follow]
      | cons c t => simp [follow, outSteps, outStep]
    | semi => simp [follow, outSteps, outStep]
    | num g st count maxCount minV maxV =>
      by_cases hm : minV ≥ 0
      · simp only [follow, hm, if_true]
        have hn : NumOK count maxCount minV maxV (get g) := hv (.num g st count maxCount minV maxV) (by simp)
        have hv0 : get g ≥ 0 := by have := hn.lo; omega
        obtain ⟨c, l, e, hc⟩ := leftPad_head_digit (get g).toNat count (outSteps cu used get ss) hn.c1
        refine ⟨c, ?_, hc⟩
        simp only [outSteps, outStep, numOut, if_pos hv0, e, List.head?_cons]
      · simp only [follow, hm, if_false]
    | frac _ _ _ => simp [follow]
    | dotFrac count scale comma =>
      have hd : dotOut (get .fraction) count scale = [] ∨ (dotOut (get .fraction) count scale).head? = some '.' := by
        unfold dotOut; split
        · left; rfl
        · right; rfl
      cases ss with
      | nil =>
        simp only [follow, outSteps, outStep, List.append_nil]
        exact hd
      | cons t ts =>
        cases t with
        | lit u =>
          cases u with
          | nil => simp [follow]
          | cons c u =>
            simp only [follow, outSteps, outStep]
            rcases hd with h | h
            · left; rw [h]; simp
            · right
              cases hq : dotOut (get .fraction) count scale with
              | nil => rw [hq] at h; simp at h
              | cons x xs => rw [hq] at h; simp at h; simp [h]
        | _ => simp [follow]
    | signRequired => simp [follow]
    | signNegativeOnly => simp [follow]
    | amPm _ => simp [follow]
    | monthText _ => simp [follow]
    | dayText _ => simp [follow]
    | era => simp [follow]
    | eraC _ => simp [follow]
    | calendar => simp [follow]

theorem isDigit_dot : isDigit '.' = false := by decide

theorem nonDigit_sound (cu : Culture) (used : Nat) (get : Getter) (ss : List Step) (hv : ∀ s ∈ ss, ValOK get s)
    (h : (follow ss).nonDigit = true) : NoDigitHead (outSteps cu used get ss ++ []) := by
  have hs := follow_sound cu used get ss hv
  rw [List.append_nil]
  cases hf : follow ss with
  | stop => rw [hf] at hs; dsimp only at hs; rw [hs]; exact noDigitHead_nil
  | char c =>
    rw [hf] at hs h; dsimp only at hs
    simp only [Follow.nonDigit, Bool.not_eq_true'] at h
    intro d hd; rw [hs] at hd; injection hd with hd; rw [← hd]; exact h
  | digit => rw [hf] at h; simp [Follow.nonDigit] at h
  | dotOr oc =>
    rw [hf] at hs h
    cases oc with
    | none =>
      dsimp only at hs
      rcases hs with e | e
      · rw [e]; exact noDigitHead_nil
      · intro d hd; rw [e] at hd; injection hd with hd; rw [← hd]; exact isDigit_dot
    | some c =>
      dsimp only at hs
      simp only [Follow.nonDigit, Bool.not_eq_true'] at h
      rcases hs with e | e
      · intro d hd; rw [e] at hd; injection hd with hd; rw [← hd]; exact h
      · intro d hd; rw [e] at hd; injection hd with hd; rw [← hd]; exact isDigit_dot
  | unknown => rw [hf] at h; simp [Follow.nonDigit] at h

theorem notChar_sound (cu : Culture) (used : Nat) (get : Getter) (ss : List Step) (hv : ∀ s ∈ ss, ValOK get s) (x : Char)
    (h : (follow ss).notChar x = true) : headIsNot x (outSteps cu used get ss ++ []) := by
  have hs := follow_sound cu used get ss hv
  rw [List.append_nil]
  unfold headIsNot
  cases hf : follow ss with
  | stop => rw [hf] at hs; dsimp only at hs; rw [hs]; simp
  | char c =>
    rw [hf] at hs h; dsimp only at hs
    simp only [Follow.notChar, decide_eq_true_eq] at h
    rw [hs]; intro e; injection e with e; exact h e
  | digit =>
    rw [hf] at hs h; dsimp only at hs
    simp only [Follow.notChar, Bool.not_eq_true'] at h
    obtain ⟨d, e, hd⟩ := hs
    rw [e]; intro e'; injection e' with e'; rw [e'] at hd; rw [hd] at h; cases h
  | dotOr oc =>
    rw [hf] at hs h
    cases oc with
    | none =>
      dsimp only at hs
      simp only [Follow.notChar, decide_eq_true_eq] at h
      rcases hs with e | e
      · rw [e]; simp
      · rw [e]; intro e'; injection e' with e'; exact h e'.symm
    | some c =>
      dsimp only at hs
      simp only [Follow.notChar, Bool.and_eq_true, decide_eq_true_eq] at h
      rcases hs with e | e
      · rw [e]; intro e'; injection e' with e'; exact h.2 e'
      · rw [e]; intro e'; injection e' with e'; exact h.1 e'.symm
  | unknown => rw [hf] at h; simp [Follow.notChar] at h

theorem asciiLower_digit (d : Char) (h : isDigit d = true) : asciiLower d = d := by
  unfold isDigit at h
  simp only [Bool.and_eq_true, decide_eq_true_eq] at h
  unfold asciiLower
  rw [if_neg (by omega)]

/-- the run's case folding leaves digits alone (they are ASCII) -/
theorem lowC_digit (cu : Culture) (d : Char) (h : isDigit d = true) : lowC cu d = d := by
  have hd := h
  unfold isDigit at hd
  simp only [Bool.and_eq_true, decide_eq_true_eq] at hd
  unfold lowC
  rw [if_pos (by omega)]
  exact asciiLower_digit d h

theorem lowC_dot (cu : Culture) : lowC cu '.' = '.' := by
  unfold lowC
  rw [if_pos (by decide)]
  decide

theorem tailSafe_single_cons (low : Char → Char) (x y : Char) (tl : Text) :
    tailSafe low [x] (y :: tl) = decide (low y ≠ x) := by
  simp only [tailSafe, List.contains_eq_mem, List.mem_singleton]
  by_cases h : low y = x <;> simp [h]

/-- what `Follow.notCharCI` promises: the text the following steps write does not start with `x` up to case -/
theorem notCharCI_sound (cu : Culture) (used : Nat) (get : Getter) (ss : List Step) (hv : ∀ s ∈ ss, ValOK get s) (x : Char)
    (h : (follow ss).notCharCI (lowC cu) x = true) : tailSafe (lowC cu) [x] (outSteps cu used get ss ++ []) = true := by
  have hs := follow_sound cu used get ss hv
  rw [List.append_nil]
  have key : ∀ (c : Char), (outSteps cu used get ss).head? = some c → lowC cu c ≠ x →
      tailSafe (lowC cu) [x] (outSteps cu used get ss) = true := by
    intro c hc hne
    cases ho : outSteps cu used get ss with
    | nil => rfl
    | cons y tl =>
      rw [ho] at hc; simp only [List.head?_cons, Option.some.injEq] at hc
      rw [tailSafe_single_cons, hc]; simpa using hne
  cases hf : follow ss with
  | stop => rw [hf] at hs; dsimp only at hs; rw [hs]; rfl
  | char c =>
    rw [hf] at hs h; dsimp only at hs
    simp only [Follow.notCharCI, decide_eq_true_eq] at h
    exact key c hs h
  | digit =>
    rw [hf] at hs h; dsimp only at hs
    simp only [Follow.notCharCI, Bool.not_eq_true'] at h
    obtain ⟨d, e, hd⟩ := hs
    refine key d e ?_
    rw [lowC_digit cu d hd]
    intro e'; rw [e'] at hd; rw [hd] at h; cases h
  | dotOr oc =>
    rw [hf] at hs h
    have dot : lowC cu '.' = '.' := lowC_dot cu
    cases oc with
    | none =>
      dsimp only at hs
      simp only [Follow.notCharCI, decide_eq_true_eq] at h
      rcases hs with e | e
      · rw [e]; rfl
      · exact key '.' e (by rw [dot]; exact fun e' => h e'.symm)
    | some c =>
      dsimp only at hs
      simp only [Follow.notCharCI, Bool.and_eq_true, decide_eq_true_eq] at h
      rcases hs with e | e
      · exact key c e h.2
      · exact key '.' e (by rw [dot]; exact fun e' => h.1 e'.symm)
  | unknown => rw [hf] at h; simp [Follow.notCharCI] at h

theorem danger_sound (cu : Culture) (used : Nat) (get : Getter) (ss : List Step) (hv : ∀ s ∈ ss, ValOK get s) (ds : List Char)
    (h : ds.all ((follow ss).notCharCI (lowC cu)) = true) : tailSafe (lowC cu) ds (outSteps cu used get ss ++ []) = true := by
  apply tailSafe_of_forall
  intro x hx
  rw [List.all_eq_true] at h
  exact notCharCI_sound cu used get ss hv x (h x hx)

/-- the syntactic criterion implies the per-step conditions -/
theorem delimited_stepsOK (cu : Culture) (used : Nat) (get : Getter) : ∀ (ss : List Step) (safe : Bool) (buf : Text),
    Delimited cu used safe ss = true → (safe = true → NoDotEnd buf) → (∀ s ∈ ss, ValOK get s) → StepsOK cu used get buf ss [] := by
  intro ss
  induction ss with
  | nil => intro _ _ _ _ _; trivial
  | cons s ss ih =>
    intro safe buf hd hb hv
    simp only [Delimited, Bool.and_eq_true] at hd
    obtain ⟨hd1, hd2⟩ := hd
    have hvs : ValOK get s := hv s (by simp)
    have hvss : ∀ t ∈ ss, ValOK get t := fun t ht => hv t (by simp [ht])
    refine ⟨?_, ?_⟩
    · -- this step
      cases s with
      | lit t => trivial
      | semi => trivial
      | signRequired => exact hvs
      | num g st count maxCount minV maxV =>
        refine ⟨hvs, ?_⟩
        simp only [delimStep, Bool.or_eq_true, decide_eq_true_eq] at hd1
        rcases hd1 with h | h
        · left; exact h
        · right; exact nonDigit_sound cu used get ss hvss h
      | frac count scale fixed =>
        refine ⟨hvs, ?_⟩
        intro hf; subst hf
        simp only [delimStep, Bool.false_or, Bool.and_eq_true] at hd1
        exact ⟨nonDigit_sound cu used get ss hvss hd1.1, fun _ => hb hd1.2⟩
      | dotFrac count scale comma =>
        simp only [delimStep, Bool.and_eq_true, Bool.or_eq_true, Bool.not_eq_true'] at hd1
        obtain ⟨⟨h1, h2⟩, h3⟩ := hd1
        refine ⟨hvs, nonDigit_sound cu used get ss hvss h1, fun _ => ⟨notChar_sound cu used get ss hvss '.' h2, ?_⟩⟩
        intro hc
        rcases h3 with h3 | h3
        · rw [hc] at h3; cases h3
        · exact notChar_sound cu used get ss hvss ',' h3
      | signNegativeOnly =>
        simp only [delimStep, Bool.and_eq_true] at hd1
        exact ⟨hvs, fun _ => ⟨notChar_sound cu used get ss hvss '-' hd1.1, notChar_sound cu used get ss hvss '+' hd1.2⟩⟩
      | amPm count =>
        simp only [delimStep, textStepOK, Bool.and_eq_true] at hd1
        exact ⟨hvs, hd1.1, danger_sound cu used get ss hvss _ hd1.2⟩
      | monthText count =>
        simp only [delimStep, textStepOK, Bool.and_eq_true] at hd1
        exact ⟨hvs, hd1.1, danger_sound cu used get ss hvss _ hd1.2⟩
      | dayText count =>
        simp only [delimStep, textStepOK, Bool.and_eq_true] at hd1
        exact ⟨hvs, hd1.1, danger_sound cu used get ss hvss _ hd1.2⟩
      | era =>
        simp only [delimStep, textStepOK, Bool.and_eq_true] at hd1
        exact ⟨hvs, hd1.1, danger_sound cu used get ss hvss _ hd1.2⟩
      | eraC cal =>
        simp only [delimStep, textStepOK, Bool.and_eq_true] at hd1
        exact ⟨hvs, hd1.1, danger_sound cu used get ss hvss _ hd1.2⟩
      | calendar => exact hvs
    · exact ih (lastSafe safe s) (buf ++ outStep cu used get s) hd2
        (fun hs => lastSafe_sound cu used get safe buf s hvs hb hs) hvss

/-- **stepped_roundtrip**: for every culture record, every `Delimited` list of steps and every value whose fields
    the steps can hold (`ValOK`), the text the format actions write is read back by the parse actions, consuming
    all of it and leaving in every slot that a step sets what the value's accessor returned (`setSteps`). -/
theorem stepped_roundtrip (cu : Culture) (used : Nat) (get : Getter) (ss : List Step) (b : Bucket)
    (hd : Delimited cu used true ss = true) (hv : ∀ s ∈ ss, ValOK get s) :
    formatSteps cu used get ss [] = .ok (outSteps cu used get ss) ∧
    parseSteps cu ss (outSteps cu used get ss) b = .ok (some (setSteps cu get b ss, [])) := by
  have h := delimited_stepsOK cu used get ss true [] hd (fun _ => by simp [NoDotEnd]) hv
  have := steps_roundtrip cu used get ss [] [] b h
  simpa using this

/-! ## pattern objects: format then parse returns the value -/

/-- "the pattern's fields can represent the value exactly": the value is determined by the projection of its
    fields onto the slots the pattern sets (the other slots keeping the template's values) -/
def Representable (ty : PType) (c : Compiled) (get : Getter) (v : List Int) : Prop :=
  bucketValue ty c.used (setSteps c.cu get (bucket0 ty) c.steps) = .ok (some v)

/-- **pattern_roundtrip**: a stepped pattern of any of the three types, `Delimited`, on a value its fields can hold
    and represent: `format` writes `outSteps`, and `parse` of that text succeeds with the value -/
theorem pattern_roundtrip (ty : PType) (c : Compiled) (get : Getter) (v : List Int)
    (hd : Delimited c.cu c.used true c.steps = true) (hv : ∀ s ∈ c.steps, ValOK get s) (hr : Representable ty c get v)
    (hne : outSteps c.cu c.used get c.steps ≠ []) :
    fmtCompiled c get [] = .ok (outSteps c.cu c.used get c.steps) ∧
    parseCompiled ty c (outSteps c.cu c.used get c.steps) = .ok (some v) := by
  obtain ⟨f, p⟩ := stepped_roundtrip c.cu c.used get c.steps (bucket0 ty) hd hv
  refine ⟨f, ?_⟩
  unfold parseCompiled
  rw [if_neg hne, p]
  dsimp only
  unfold Representable at hr
  rw [hr]
  simp

/-- the steps and field set a custom pattern text compiles to -/
def compiledSteps (r : R Compiled) : Option (Nat × List Step) :=
  match r with
  | .ok c => some (c.used, c.steps)
  | .error _ => none

/-! ### instances: the built-in ISO patterns are `compile` results, `Delimited`, and round-trip by the generic theorem -/

def isoTimeSteps : List Step :=
  [.num .hours24 .hours24 2 2 0 23, .lit [':'], .num .minutes .minutes 2 2 0 59, .lit [':'],
   .num .seconds .seconds 2 2 0 59, .dotFrac 9 9 true]

theorem isoTime_compiles :
    compiledSteps (compileCustom .time invariantCulture "HH':'mm':'ss;FFFFFFFFF".toList) = some (60, isoTimeSteps) := by
  decide +kernel

theorem isoTime_delimited : Delimited invariantCulture 60 true isoTimeSteps = true := by decide

def isoDateSteps : List Step :=
  [.num .year .year 4 4 (-9999) 9999, .lit ['-'], .num .monthNum .monthNum 2 2 1 99, .lit ['-'],
   .num .dayOfMonth .dayOfMonth 2 2 1 99]

theorem isoDate_compiles :
    compiledSteps (compileCustom .date invariantCulture "uuuu'-'MM'-'dd".toList) = some (5248, isoDateSteps) := by
  decide +kernel

theorem isoDate_delimited : Delimited invariantCulture 5248 true isoDateSteps = true := by decide

def offsetLongSteps : List Step :=
  [.signRequired, .num .hours24 .hours24 2 2 0 23, .lit [':'], .num .minutes .minutes 2 2 0 59, .lit [':'],
   .num .seconds .seconds 2 2 0 59]

theorem offsetLong_compiles :
    compiledSteps (compileCustom .offset invariantCulture "+HH:mm:ss".toList) = some (29, offsetLongSteps) := by
  decide +kernel

theorem offsetLong_delimited : Delimited invariantCulture 29 true offsetLongSteps = true := by decide

/-- a custom, variable-width pattern is covered as well: `H:m:s.FFF` is `Delimited`, `Hm` is not -/
example : (compiledSteps (compileCustom .time invariantCulture "H:m:s.FFF".toList)).map (fun p => Delimited invariantCulture p.1 true p.2) = some true := by
  decide +kernel
example : (compiledSteps (compileCustom .time invariantCulture "Hm".toList)).map (fun p => Delimited invariantCulture p.1 true p.2) = some false := by
  decide +kernel
example : (compiledSteps (compileCustom .time invariantCulture "ss'.'FF".toList)).map (fun p => Delimited invariantCulture p.1 true p.2) = some false := by
  decide +kernel
example : (compiledSteps (compileCustom .offset invariantCulture "-HH:mm".toList)).map (fun p => Delimited invariantCulture p.1 true p.2) = some true := by
  decide +kernel

/-- LocalTimePattern.extended_iso as an instance of the generic theorem: every nanosecond of the day -/
theorem isoTime_generic_roundtrip (nod : Int) (h0 : 0 ≤ nod) (h1 : nod < 86400000000000) :
    parseCompiled .time ⟨invariantCulture, 60, isoTimeSteps⟩ (outSteps invariantCulture 60 (timeGetter nod) isoTimeSteps) = .ok (some [nod]) := by
  obtain ⟨e1, e2, e3, e4⟩ := time_accessors nod h0 h1
  have hv : ∀ s ∈ isoTimeSteps, ValOK (timeGetter nod) s := by
    intro s hs
    simp only [isoTimeSteps, List.mem_cons, List.mem_nil_iff, or_false] at hs
    rcases hs with rfl | rfl | rfl | rfl | rfl | rfl
    · exact ⟨by simp only [timeGetter]; omega, by simp only [timeGetter]; omega, by decide, by decide, by decide,
        by simp only [timeGetter]; omega⟩
    · trivial
    · exact ⟨by simp only [timeGetter]; omega, by simp only [timeGetter]; omega, by decide, by decide, by decide,
        by simp only [timeGetter]; omega⟩
    · trivial
    · exact ⟨by simp only [timeGetter]; omega, by simp only [timeGetter]; omega, by decide, by decide, by decide,
        by simp only [timeGetter]; omega⟩
    · exact ⟨by simp only [timeGetter]; omega, by simp only [timeGetter]; omega, by decide, by decide,
        by simp only [timeGetter]; exact Nat.mod_one _⟩
  have hr : Representable .time ⟨invariantCulture, 60, isoTimeSteps⟩ (timeGetter nod) [nod] := by
    have hu : (60 : Nat) &&& F.allTimeExceptFraction = (F.hours24 ||| F.minutes ||| F.seconds) := by decide
    -- the bucket after the parse actions, slot by slot
    generalize hb : setSteps invariantCulture (timeGetter nod) (bucket0 .time) isoTimeSteps = b'
    have bH : b' .hours24 = ltHour nod := by
      rw [← hb]; simp only [isoTimeSteps, setSteps, setStep]; split <;> simp [Bucket.set, timeGetter]
    have bM : b' .minutes = ltMinute nod := by
      rw [← hb]; simp only [isoTimeSteps, setSteps, setStep]; split <;> simp [Bucket.set, timeGetter]
    have bS : b' .seconds = ltSecond nod := by
      rw [← hb]; simp only [isoTimeSteps, setSteps, setStep]; split <;> simp [Bucket.set, timeGetter]
    have bF : b' .fraction = ltNano nod := by
      rw [← hb]; simp only [isoTimeSteps, setSteps, setStep]
      split
      · rename_i hz
        have hf : FracOK 9 9 (timeGetter nod .fraction) := hv (.dotFrac 9 9 true) (by simp [isoTimeSteps])
        rcases truncOut_cases 9 9 (timeGetter nod .fraction) hf [] noDigitHead_nil with ⟨z, _⟩ | ⟨_, ne, _⟩
        · have z' : ltNano nod = 0 := z
          rw [z']; simp [Bucket.set, bucket0, timeBucket0]; decide
        · exact absurd hz ne
      · simp [Bucket.set, timeGetter]
    unfold Representable bucketValue
    simp only [hb, timeValue, hu, if_true, bH, bM, bS, bF, Option.map]
    rw [e1, e2, e3, e4, time_recompose]
  have hne : outSteps invariantCulture 60 (timeGetter nod) isoTimeSteps ≠ [] := by
    simp only [isoTimeSteps, outSteps, outStep]
    obtain ⟨d, _, hne⟩ := numOut_last 2 (timeGetter nod .hours24)
    intro h
    have := List.append_eq_nil_iff.mp h
    exact hne this.1
  exact (pattern_roundtrip .time ⟨invariantCulture, 60, isoTimeSteps⟩ (timeGetter nod) [nod] isoTime_delimited hv hr hne).2

end Pyoda.C07
