/- Persian arithmetic (2820-year cycle as the code computes it, including the years below 475): density fact checked
   in the kernel, then `WF`.  (The astronomical table has no symbolic instance: its `WF` is discharged by
   `wfCheck_sound` + evaluation of `wfCheck` on the compiled driver, see C01WfCheck.lean.) -/
import PyodaProofs.C01Persian

namespace Pyoda.C01
open Pyoda Pyoda.Calendar

theorem dens_arithmetic : Dens Pers.leapArithmetic := by unfold Dens Pers.densOk; decide +kernel

theorem persianArithmetic_wf : WF Pers.arithmetic :=
  persian_wf Pers.leapArithmetic (-492267) dens_arithmetic (by decide)

end Pyoda.C01
