/- Persian arithmetic (2820-year cycle as the code computes it, including the years below 475) and the
   astronomical table: density fact, then `WF`.  For the astronomical bitmap the kernel evaluation of the 9379-step
   pass over the 1173-byte literal does not finish in reasonable memory, so `WF` is stated under the density
   hypothesis, which the check evaluates on the compiled driver (`cal.dens 8`) and reports as evaluation. -/
import PyodaProofs.C01Persian

namespace Pyoda.C01
open Pyoda Pyoda.Calendar

theorem dens_arithmetic : Dens Pers.leapArithmetic := by unfold Dens Pers.densOk; decide +kernel

theorem persianArithmetic_wf : WF Pers.arithmetic :=
  persian_wf Pers.leapArithmetic (-492267) dens_arithmetic (by decide)

/-- full statement for the astronomical calendar -/
def persianAstronomicalWfStatement : Prop := WF Pers.astronomical

theorem persianAstronomical_wf_partial (hd : Dens Pers.leapAstronomical) : WF Pers.astronomical :=
  persian_wf Pers.leapAstronomical (-492267) hd (by decide)

end Pyoda.C01
